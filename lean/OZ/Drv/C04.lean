import OZ.DrvUtil
import OZ.Model.Rwa
/-
Driver for C04 (RWA gates). `op`: runs the model OZ.Rwa on an op line and prints the model's
observation in the harness' format. `mon`: the monitor — evaluates the property's conclusion
directly on the IMPLEMENTATION's observation lines (it keeps the previous observation as the
observed pre-state and never calls the model's transition functions):

  * every accepted transfer / transfer_from had all gates open in the observed pre-state
    (not paused, neither party frozen, amount <= balance - frozen, both identities ok, compliance
    allows); every accepted mint had a verified recipient and compliance approval;
  * 0 <= frozen <= balance for every account after every op;
  * forced_transfer / burn leave frozen' = min(frozen, balance - amount) and touch nobody else's;
  * recover_balance moves the whole balance, the partial freeze and the address freeze to the
    registered recovery target and nowhere else;
  * the compliance mock's call log shows exactly the owed notification, nothing on failure;
  * C01 for this flavour: supply = sum of balances, no negative balance, failed call = no change,
    replay of the emitted mint / burn / transfer events reproduces every balance.
-/
namespace OZ.Drv.C04
open OZ.Drv OZ.Rwa OZ.Host

def N : Nat := 5
def MAX_TTL : Nat := 200000

/-- configuration of the mock compliance contract -/
structure Comp where
  tx : Bool
  create : Bool
  cap : Int
  blocked : List Nat

def Comp.default : Comp := ⟨true, true, I128_MAX, []⟩

def Comp.canTransfer (c : Comp) (f t : Nat) (a : Int) : Bool :=
  c.tx && !c.blocked.contains f && !c.blocked.contains t && decide (a ≤ c.cap)
def Comp.canCreate (c : Comp) (t : Nat) (a : Int) : Bool :=
  c.create && !c.blocked.contains t && decide (a ≤ c.cap)

structure M where
  cfg : Cfg
  s : State
  comp : Comp

def initM (label : String) : M :=
  let ws := words label
  let mt := (kvNat? ws "min_temp").getD 1
  let st := (kvNat? ws "start").getD 100
  let ad := (kvNat? ws "admin").getD 0
  { cfg := ⟨mt, MAX_TTL⟩, s := init st ad, comp := Comp.default }

def b01 (b : Bool) : String := if b then "1" else "0"

/-- (authorizing addresses, model operation, new mock configuration) -/
def parseOp (m : M) (ws : List String) : Option (List Nat × Op × Comp) :=
  match ws with
  | "rwa" :: "advance" :: rest => do
    let n ← kvNat? rest "n"
    pure ([], .advance n, m.comp)
  | "rwa" :: "env_id" :: rest => do
    let a ← kvNat? rest "a"
    let b ← kvNat? rest "b"
    pure ([], .envIdOk a (b = 1), m.comp)
  | "rwa" :: "env_rec" :: rest => do
    let a ← kvNat? rest "a"
    let t := (kv? rest "t").bind String.toNat?
    pure ([], .envRecTarget a t, m.comp)
  | "rwa" :: "env_comp" :: rest => do
    let tx ← kvNat? rest "tx"
    let cr ← kvNat? rest "create"
    let cap ← kvInt? rest "cap"
    let bl := natList ((kv? rest "block").getD "-")
    let c : Comp := ⟨tx = 1, cr = 1, cap, bl⟩
    pure ([], .envCompliance c.canTransfer c.canCreate, c)
  | "rwa" :: kind :: rest => do
    let a := natList ((kv? rest "a").getD "-")
    let amt ← kvInt? rest "amt"
    let lu ← kvNat? rest "lu"
    let b ← kvNat? rest "b"
    let auth := natList ((kv? rest "auth").getD "-")
    let op ← match kind, a with
      | "transfer", [f, t] => some (Op.transfer f t amt)
      | "transfer_from", [sp, f, t] => some (Op.transferFrom sp f t amt)
      | "approve", [o, sp] => some (Op.approve o sp amt lu)
      | "mint", [t, op] => some (Op.mint t amt op)
      | "burn", [x, op] => some (Op.burn x amt op)
      | "forced_transfer", [f, t, op] => some (Op.forcedTransfer f t amt op)
      | "recover", [o, n, op] => some (Op.recover o n op)
      | "freeze", [x, op] => some (Op.freezePartial x amt op)
      | "unfreeze", [x, op] => some (Op.unfreezePartial x amt op)
      | "set_frozen", [x, op] => some (Op.setAddressFrozen x (b = 1) op)
      | "pause", [op] => some (Op.pause op)
      | "unpause", [op] => some (Op.unpause op)
      | _, _ => none
    pure (auth, op, m.comp)
  | _ => none

def showBaseEvent : Fungible.Event → String
  | .mint t a => s!"mint:{t}:{a}"
  | .burn f a => s!"burn:{f}:{a}"
  | .transfer f t a => s!"transfer:{f}:{t}:{a}"
  | .approve o s a lu => s!"approve:{o}:{s}:{a}:{lu}"

def showEv : Ev → String
  | .base e => showBaseEvent e
  | .tokensFrozen a x => s!"frozen:{a}:{x}"
  | .tokensUnfrozen a x => s!"unfrozen:{a}:{x}"
  | .addressFrozen a b => s!"afrozen:{a}:{b01 b}"
  | .recoverySuccess o n => s!"recovered:{o}:{n}"
  | .paused => "paused"
  | .unpaused => "unpaused"

def showNote : Note → String
  | .transferred f t a => s!"transferred:{f}:{t}:{a}"
  | .created t a => s!"created:{t}:{a}"
  | .destroyed f a => s!"destroyed:{f}:{a}"

def showQuery : Query → String
  | .canTransfer f t a => s!"can_transfer:{f}:{t}:{a}"
  | .canCreate t a => s!"can_create:{t}:{a}"

def showIdCall : IdCall → String
  | .verify a => s!"verify:{a}"
  | .target a => s!"target:{a}"

def semi (l : List String) : String := if l.isEmpty then "-" else ";".intercalate l

def showState (s : State) (c : Comp) : String :=
  let idx := List.range N
  let bals := idx.map (fun i => toString (s.base.bal i))
  let al := idx.flatMap (fun o => idx.filterMap (fun sp =>
    let a := Fungible.allowance s.base o sp
    if a = 0 then none else some s!"{o}:{sp}:{a}"))
  let af := idx.map (fun i => b01 (s.addrFrozen i))
  let ft := idx.map (fun i => toString (s.frozen i))
  let id := idx.map (fun i => b01 (s.idOk i))
  let rct := idx.map (fun i => match s.recTarget i with | some t => toString t | none => "-")
  let bl := if c.blocked.isEmpty then "-" else ".".intercalate (c.blocked.map toString)
  s!"sup={s.base.supply} bal={",".intercalate bals} allow={semi al} paused={b01 s.paused} af={",".intercalate af} ft={",".intercalate ft} id={",".intercalate id} rec={",".intercalate rct} comp={b01 c.tx}:{b01 c.create}:{c.cap}:{bl}"

def isEnv : Op → Bool
  | .advance _ | .envIdOk _ _ | .envRecTarget _ _ | .envCompliance _ _ => true
  | _ => false

/-- one op line through the model: new state and the observation line -/
def stepLine (m : M) (line : String) : M × String :=
  match parseOp m (words line) with
  | none => (m, "bad-op")
  | some (auth, op, comp') =>
    match applyRet m.cfg m.s auth op with
    | .ok (s', r) =>
      let evs := (s'.events.drop m.s.events.length).map showEv
      let idv := (s'.idCalls.drop m.s.idCalls.length).map showIdCall
      let cq := (s'.compQueries.drop m.s.compQueries.length).map showQuery
      let cn := (s'.notes.drop m.s.notes.length).map showNote
      let dem := if isEnv op then "-" else showList toString ((op.required).mergeSort (· ≤ ·))
      let ret := match op with
        | .recover _ _ _ => if r then "true" else "false"
        | _ => "-"
      ({ m with s := s', comp := comp' },
        s!"ok ret={ret} {showState s' comp'} now={s'.base.now} ev={semi evs} idv={semi idv} cq={semi cq} cn={semi cn} dem={dem}")
    | .error _ =>
      (m, s!"err ret=- {showState m.s m.comp} now={m.s.base.now} ev=- idv=- cq=- cn=- dem=-")

/-! ### the monitor (implementation side) -/

structure Obs where
  ok : Bool
  ret : String
  sup : Int
  bal : List Int
  allow : String
  paused : Bool
  af : List Bool
  ft : List Int
  id : List Bool
  rct : List (Option Nat)
  comp : Comp
  evs : List (List String)
  cn : List String
  dem : List Nat

def boolList (s : String) : List Bool := (s.splitOn ",").map (· = "1")

def parseComp (s : String) : Option Comp :=
  match s.splitOn ":" with
  | [tx, cr, cap, bl] => do
    let cap ← cap.toInt?
    let blocked := if bl = "-" then [] else (bl.splitOn ".").filterMap String.toNat?
    pure ⟨tx = "1", cr = "1", cap, blocked⟩
  | _ => none

def parseObs (line : String) : Option Obs :=
  match words line with
  | tag :: rest => do
    let sup ← kvInt? rest "sup"
    let bal := intList ((kv? rest "bal").getD "-")
    let ft := intList ((kv? rest "ft").getD "-")
    let af := boolList ((kv? rest "af").getD "")
    let id := boolList ((kv? rest "id").getD "")
    let rct := (((kv? rest "rec").getD "").splitOn ",").map String.toNat?
    let paused ← kvNat? rest "paused"
    let comp ← (kv? rest "comp").bind parseComp
    let evS := (kv? rest "ev").getD "-"
    let evs := if evS = "-" then [] else (evS.splitOn ";").map (·.splitOn ":")
    let cnS := (kv? rest "cn").getD "-"
    let cn := if cnS = "-" then [] else cnS.splitOn ";"
    let dem := natList ((kv? rest "dem").getD "-")
    if bal.length ≠ N ∨ ft.length ≠ N ∨ af.length ≠ N ∨ id.length ≠ N ∨ rct.length ≠ N then none
    else pure { ok := tag = "ok", ret := (kv? rest "ret").getD "-", sup, bal, allow := (kv? rest "allow").getD "-",
                paused := paused = 1, af, ft, id, rct, comp, evs, cn, dem }
  | _ => none

structure Mon where
  admin : Nat
  prev : Obs
  replay : List Int            -- balances reconstructed from the emitted events

def zeroObs : Obs :=
  { ok := true, ret := "-", sup := 0, bal := List.replicate N 0, allow := "-", paused := false,
    af := List.replicate N false, ft := List.replicate N 0, id := List.replicate N true,
    rct := List.replicate N none, comp := Comp.default, evs := [], cn := [], dem := [] }

def initMon (label : String) : Mon :=
  { admin := (kvNat? (words label) "admin").getD 0, prev := zeroObs, replay := List.replicate N 0 }

def gi (l : List Int) (i : Nat) : Int := l.getD i 0
def gb (l : List Bool) (i : Nat) : Bool := l.getD i false

def addAt (l : List Int) (i : Nat) (d : Int) : List Int := l.mapIdx (fun j x => if j = i then x + d else x)
def setAt {α} (l : List α) (i : Nat) (v : α) : List α := l.mapIdx (fun j x => if j = i then v else x)

def replayEv (b : List Int) (ev : List String) : List Int :=
  match ev with
  | ["mint", t, a] => match t.toNat?, a.toInt? with | some t, some a => addAt b t a | _, _ => b
  | ["burn", f, a] => match f.toNat?, a.toInt? with | some f, some a => addAt b f (-a) | _, _ => b
  | ["transfer", f, t, a] =>
    match f.toNat?, t.toNat?, a.toInt? with
    | some f, some t, some a => addAt (addAt b f (-a)) t a
    | _, _, _ => b
  | _ => b

/-- names of the gates that were closed in the observed pre-state `p` for a holder move -/
def closedGates (p : Obs) (f t : Nat) (amt : Int) : List String :=
  (if p.paused then ["paused"] else []) ++
  (if gb p.af f then ["from_frozen"] else []) ++
  (if gb p.af t then ["to_frozen"] else []) ++
  (if amt > gi p.bal f - gi p.ft f then ["free_balance"] else []) ++
  (if gb p.id f then [] else ["from_identity"]) ++
  (if gb p.id t then [] else ["to_identity"]) ++
  (if p.comp.canTransfer f t amt then [] else ["compliance"])

def first (l : List (Option String)) : Option String := l.findSome? id

def orFail (c : Bool) (msg : String) : Option String := if c then none else some msg

/-- frozen' = min(frozen, balance - amount) for `a`, untouched for everybody else -/
def minimalUnfreeze (p o : Obs) (a : Nat) (amt : Int) : Bool :=
  let want := if gi p.ft a ≤ gi p.bal a - amt then gi p.ft a else gi p.bal a - amt
  o.ft == setAt p.ft a want

def check (m : Mon) (opl obs : String) : Mon × Option String :=
  match parseObs obs with
  | none => (m, some s!"site=rwa.parse unparsable observation {obs}")
  | some o =>
    let p := m.prev
    let ws := words opl
    let kind := (ws.drop 1).head?.getD ""
    let a := natList ((kv? ws "a").getD "-")
    let amt := (kvInt? ws "amt").getD 0
    let a0 := a.getD 0 0
    let a1 := a.getD 1 0
    let a2 := a.getD 2 0
    let replay' := o.evs.foldl replayEv m.replay
    let m' : Mon := { m with prev := o, replay := replay' }
    let supervisory := ["mint", "burn", "forced_transfer", "recover", "freeze", "unfreeze", "set_frozen", "pause", "unpause"]
    let operator := a.getLast?.getD 0
    -- what the compliance contract must have been told
    let owed : List String :=
      if ¬ o.ok then []
      else match kind with
        | "transfer" => [s!"transferred:{a0}:{a1}:{amt}"]
        | "transfer_from" => [s!"transferred:{a1}:{a2}:{amt}"]
        | "forced_transfer" => [s!"transferred:{a0}:{a1}:{amt}"]
        | "mint" => [s!"created:{a0}:{amt}"]
        | "burn" => [s!"destroyed:{a0}:{amt}"]
        | "recover" => if o.ret = "true" then [s!"transferred:{a0}:{a1}:{gi p.bal a0}"] else []
        | _ => []
    -- expected balances after an accepted op, from the observed pre-state
    let move (f t : Nat) (x : Int) : List Int := addAt (addAt p.bal f (-x)) t x
    let expBal : List Int :=
      match kind with
      | "transfer" => move a0 a1 amt
      | "transfer_from" => move a1 a2 amt
      | "forced_transfer" => move a0 a1 amt
      | "mint" => addAt p.bal a0 amt
      | "burn" => addAt p.bal a0 (-amt)
      | "recover" => if o.ret = "true" then move a0 a1 (gi p.bal a0) else p.bal
      | _ => p.bal
    let fail : Option String := first [
      -- the gates, on the observed pre-state
      (if o.ok ∧ kind = "transfer" then
        let g := closedGates p a0 a1 amt
        orFail g.isEmpty s!"site=rwa.transfer.gate accepted although closed: {",".intercalate g}"
       else none),
      (if o.ok ∧ kind = "transfer_from" then
        let g := closedGates p a1 a2 amt
        orFail g.isEmpty s!"site=rwa.transfer_from.gate accepted although closed: {",".intercalate g}"
       else none),
      (if o.ok ∧ kind = "mint" then
        orFail (gb p.id a0 && p.comp.canCreate a0 amt)
          s!"site=rwa.mint.gate accepted although identity_ok={gb p.id a0} can_create={p.comp.canCreate a0 amt}"
       else none),
      -- 0 <= frozen <= balance, always
      orFail ((List.range N).all (fun i => decide (0 ≤ gi o.ft i ∧ gi o.ft i ≤ gi o.bal i)))
        s!"site=rwa.frozen_le_balance frozen={o.ft} balances={o.bal}",
      -- supervisory paths unfreeze the minimum
      (if o.ok ∧ kind = "forced_transfer" then
        orFail (minimalUnfreeze p o a0 amt) s!"site=rwa.forced_transfer.unfreeze frozen {p.ft} -> {o.ft} for amount {amt} of balance {gi p.bal a0}"
       else none),
      (if o.ok ∧ kind = "burn" then
        orFail (minimalUnfreeze p o a0 amt) s!"site=rwa.burn.unfreeze frozen {p.ft} -> {o.ft} for amount {amt} of balance {gi p.bal a0}"
       else none),
      -- recovery: only to the registered, verified target; everything moves, nothing else does
      (if o.ok ∧ kind = "recover" then
        first [
          orFail (p.rct.getD a0 none == some a1 && gb p.id a1)
            s!"site=rwa.recover.target accepted although target={p.rct.getD a0 none} identity_ok={gb p.id a1}",
          orFail (o.ret == (if gi p.bal a0 = 0 then "false" else "true")) s!"site=rwa.recover.ret returned {o.ret} for balance {gi p.bal a0}",
          (if o.ret = "true" then
            let expFt := if a0 = a1 then p.ft else addAt (setAt p.ft a0 0) a1 (gi p.ft a0)
            let expAf := setAt p.af a1 (gb p.af a1 || gb p.af a0)
            orFail (o.ft == expFt && o.af == expAf)
              s!"site=rwa.recover.effects frozen {p.ft} -> {o.ft} (expected {expFt}), address-frozen {p.af} -> {o.af} (expected {expAf})"
           else orFail (o.ft == p.ft && o.af == p.af) "site=rwa.recover.effects nothing to recover but freeze state changed")]
       else none),
      -- exact balance movement of every accepted op (and none for the others)
      (if o.ok then orFail (o.bal == expBal) s!"site=rwa.{kind}.move balances {p.bal} -> {o.bal}, expected {expBal}" else none),
      -- freeze bookkeeping is touched only by the operations that may
      (if o.ok ∧ ¬ ["forced_transfer", "burn", "recover", "freeze", "unfreeze"].contains kind then
        orFail (o.ft == p.ft) s!"site=rwa.frame.frozen {kind} changed frozen amounts {p.ft} -> {o.ft}" else none),
      (if o.ok ∧ ¬ ["recover", "set_frozen"].contains kind then
        orFail (o.af == p.af) s!"site=rwa.frame.address_frozen {kind} changed address freezes" else none),
      (if o.ok ∧ kind = "freeze" then orFail (amt ≥ 0 ∧ o.ft == addAt p.ft a0 amt) "site=rwa.freeze.effect frozen amount not +amount" else none),
      (if o.ok ∧ kind = "unfreeze" then orFail (amt ≥ 0 ∧ o.ft == addAt p.ft a0 (-amt)) "site=rwa.unfreeze.effect frozen amount not -amount" else none),
      -- exactly-once notification with the exact parties and amount
      orFail (o.cn == owed) s!"site=rwa.{kind}.notify compliance was told {o.cn}, owed {owed}",
      -- operator policy of the harness token
      (if o.ok ∧ supervisory.contains kind then
        orFail (operator = m.admin ∧ o.dem.contains operator) s!"site=rwa.{kind}.operator accepted for operator {operator} (admin {m.admin}, demanded {o.dem})"
       else none),
      -- C01 for this flavour
      orFail (o.bal.sum = o.sup ∧ o.bal.all (· ≥ 0)) s!"site=rwa.sum total_supply={o.sup} balances={o.bal}",
      (if ¬ o.ok then
        orFail (o.sup == p.sup && o.bal == p.bal && o.allow == p.allow && o.ft == p.ft && o.af == p.af && o.paused == p.paused)
          "site=rwa.rollback a failed call changed supply, a balance, an allowance, a frozen amount, a freeze flag or the pause flag"
       else none),
      orFail (replay' == o.bal) s!"site=rwa.replay event replay gives {replay'} but balances are {o.bal}"
    ]
    (m', fail)

def machine : Machine where
  σ := M
  init := initM
  op := stepLine
  μ := Mon
  minit := initMon
  mon := check

end OZ.Drv.C04

def main : IO Unit := OZ.Drv.run OZ.Drv.C04.machine
