import OZ.DrvUtil
import OZ.Model.RwaMon
/-
Driver for C04 (RWA gates). `op`: runs the model OZ.Rwa on an op line and prints the model's
observation in the harness' format. `mon`: the monitor — evaluates the property's conclusion
directly on the IMPLEMENTATION's observation lines (it keeps the previous observation as the
observed pre-state and a ghost registry of compliance modules built from the accepted
add_module / remove_module calls; it never calls the model's transition functions). The monitor
itself lives in OZ/Model/RwaMon.lean (`OZ.Rwa.Mon.checkCore`, on parsed values, one named `def` per
check) and is proved sound in OZ/Props/C04Mon.lean; this file only PARSES the op line (`parseLine`)
and the observation line (`parseObs`) and calls it. Not covered by the soundness theorem: the
string-level parsers of this file and the alarm `site=rwa.parse` for an unparsable observation.
What the monitor evaluates:

  * every accepted transfer / transfer_from had all gates open in the observed pre-state
    (not paused, neither party frozen, amount <= balance - frozen, both identities ok, and EVERY
    compliance module registered for CanTransfer approves according to its scripted verdict);
    every accepted mint had a verified recipient and the approval of EVERY CanCreate module;
  * 0 <= frozen <= balance for every account after every op;
  * forced_transfer / burn leave frozen' = min(frozen, balance - amount) and touch nobody else's;
  * recover_balance moves the whole balance, the partial freeze and the address freeze to the
    registered recovery target and nowhere else;
  * the compliance contract's call log shows exactly the owed notification, nothing on failure,
    and each notification reached each module registered for that hook exactly once (and no
    other module); an accepted holder move / mint consulted each registered verdict module once;
  * the registry getter agrees with the ghost registry;
  * all of this also when the destination of a `transfer` is a MUXED address (account + id; the
    op line's `lu=` carries the id): same gates, same balance movement, exactly one notification
    with the underlying account as `to`, event replay on the underlying account;
  * C01 for this flavour: supply = sum of balances, no negative balance, failed call = no change,
    replay of the emitted mint / burn / transfer events reproduces every balance.
-/
namespace OZ.Drv.C04
open OZ.Drv OZ.Rwa OZ.Rwa.Mon OZ.Host

def MAX_TTL : Nat := 200000

structure M where
  cfg : Cfg
  s : State
  comps : List Comp

def initM (label : String) : M :=
  let ws := words label
  let mt := (kvNat? ws "min_temp").getD 1
  let st := (kvNat? ws "start").getD 100
  let ad := (kvNat? ws "admin").getD 0
  { cfg := ⟨mt, MAX_TTL⟩, s := init st ad, comps := List.replicate K Comp.default }

def b01 (b : Bool) : String := if b then "1" else "0"

/-- (authorizing addresses, model operation, new module scripts) -/
def parseOp (m : M) (ws : List String) : Option (List Nat × Op × List Comp) :=
  match ws with
  | "rwa" :: "advance" :: rest => do
    let n ← kvNat? rest "n"
    pure ([], .advance n, m.comps)
  | "rwa" :: "env_id" :: rest => do
    let a ← kvNat? rest "a"
    let b ← kvNat? rest "b"
    pure ([], .envIdOk a (b = 1), m.comps)
  | "rwa" :: "env_rec" :: rest => do
    let a ← kvNat? rest "a"
    let t := (kv? rest "t").bind String.toNat?
    pure ([], .envRecTarget a t, m.comps)
  | "rwa" :: "env_mod" :: rest => do
    let i ← kvNat? rest "m"
    let tx ← kvNat? rest "tx"
    let cr ← kvNat? rest "create"
    let cap ← kvInt? rest "cap"
    let bl := natList ((kv? rest "block").getD "-")
    let c : Comp := ⟨tx = 1, cr = 1, cap, bl⟩
    pure ([], .envModule i c.canTransfer c.canCreate, setAt m.comps i c)
  | "rwa" :: kind :: rest => do
    let a := natList ((kv? rest "a").getD "-")
    let amt ← kvInt? rest "amt"
    let lu ← kvNat? rest "lu"
    let b ← kvNat? rest "b"
    let auth := natList ((kv? rest "auth").getD "-")
    let op ← match kind, a with
      | "transfer", [f, t] => some (Op.transfer f t amt)
      | "transfer_from", [sp, f, t] => some (Op.transferFrom sp f t amt)
      | "approve", [o, sp] => some (Op.approve o sp amt lu)
      | "mint", [t, op] => some (Op.mint t amt op)
      | "burn", [x, op] => some (Op.burn x amt op)
      | "forced_transfer", [f, t, op] => some (Op.forcedTransfer f t amt op)
      | "recover", [o, n, op] => some (Op.recover o n op)
      | "freeze", [x, op] => some (Op.freezePartial x amt op)
      | "unfreeze", [x, op] => some (Op.unfreezePartial x amt op)
      | "set_frozen", [x, op] => some (Op.setAddressFrozen x (b = 1) op)
      | "pause", [op] => some (Op.pause op)
      | "unpause", [op] => some (Op.unpause op)
      | "add_module", [md, op] => some (Op.addModule (hookOf lu) md op)
      | "remove_module", [md, op] => some (Op.removeModule (hookOf lu) md op)
      | "bind", [op] => some (Op.bindToken op)
      | "unbind", [op] => some (Op.unbindToken op)
      | _, _ => none
    pure (auth, op, m.comps)
  | _ => none

def showBaseEvent : Fungible.Event → String
  | .mint t a => s!"mint:{t}:{a}"
  | .burn f a => s!"burn:{f}:{a}"
  | .transfer f t a => s!"transfer:{f}:{t}:{a}"
  | .approve o s a lu => s!"approve:{o}:{s}:{a}:{lu}"

def showEv : Ev → String
  | .base e => showBaseEvent e
  | .tokensFrozen a x => s!"frozen:{a}:{x}"
  | .tokensUnfrozen a x => s!"unfrozen:{a}:{x}"
  | .addressFrozen a b => s!"afrozen:{a}:{b01 b}"
  | .recoverySuccess o n => s!"recovered:{o}:{n}"
  | .paused => "paused"
  | .unpaused => "unpaused"
  | .moduleAdded h m => s!"madd:{hookIx h}:{m}"
  | .moduleRemoved h m => s!"mrem:{hookIx h}:{m}"

def showQuery : Query → String
  | .canTransfer f t a => s!"can_transfer:{f}:{t}:{a}"
  | .canCreate t a => s!"can_create:{t}:{a}"

def showIdCall : IdCall → String
  | .verify a => s!"verify:{a}"
  | .target a => s!"target:{a}"

def semi (l : List String) : String := if l.isEmpty then "-" else ";".intercalate l
def dots (l : List Nat) : String := if l.isEmpty then "-" else ".".intercalate (l.map toString)

def showComp (c : Comp) : String :=
  s!"{b01 c.tx}:{b01 c.create}:{if c.cap = I128_MAX then "max" else toString c.cap}:{dots c.blocked}"

def showState (s : State) (cs : List Comp) : String :=
  let idx := List.range N
  let bals := idx.map (fun i => toString (s.base.bal i))
  let al := idx.flatMap (fun o => idx.filterMap (fun sp =>
    let a := Fungible.allowance s.base o sp
    if a = 0 then none else some s!"{o}:{sp}:{a}"))
  let af := idx.map (fun i => b01 (s.addrFrozen i))
  let ft := idx.map (fun i => toString (s.frozen i))
  let id := idx.map (fun i => b01 (s.idOk i))
  let rct := idx.map (fun i => match s.recTarget i with | some t => toString t | none => "-")
  let mods := (List.range 5).map (fun h => dots (s.mods (hookOf h)))
  s!"sup={s.base.supply} bal={",".intercalate bals} allow={semi al} paused={b01 s.paused} af={",".intercalate af} ft={",".intercalate ft} id={",".intercalate id} rec={",".intercalate rct} bound={b01 s.bound} mods={"/".intercalate mods} mcfg={"/".intercalate (cs.map showComp)}"

/-- the calls received by the modules, grouped by module (the harness reads one log per module) -/
def showModCalls (l : List (Nat × ModCall)) : List String :=
  (List.range K).flatMap (fun m => (l.filter (fun x => x.1 = m)).map (fun x => s!"{m}:{showModCall x.2}"))

/-- one op line through the model: new state and the observation line -/
def stepLine (m : M) (line : String) : M × String :=
  match parseOp m (words line) with
  | none => (m, "bad-op")
  | some (auth, op, comps') =>
    match applyRet m.cfg m.s auth op with
    | .ok (s', r) =>
      let evs := (s'.events.drop m.s.events.length).map showEv
      let idv := (s'.idCalls.drop m.s.idCalls.length).map showIdCall
      let cq := (s'.compQueries.drop m.s.compQueries.length).map showQuery
      let cn := (s'.notes.drop m.s.notes.length).map showNote
      let ml := showModCalls (s'.modCalls.drop m.s.modCalls.length)
      let dem := if isEnv op then "-" else showList toString ((op.required).mergeSort (· ≤ ·))
      let ret := match op with
        | .recover _ _ _ => if r then "true" else "false"
        | _ => "-"
      ({ m with s := s', comps := comps' },
        s!"ok ret={ret} {showState s' comps'} now={s'.base.now} ev={semi evs} idv={semi idv} cq={semi cq} cn={semi cn} ml={semi ml} dem={dem}")
    | .error _ =>
      (m, s!"err ret=- {showState m.s m.comps} now={m.s.base.now} ev=- idv=- cq=- cn=- ml=- dem=-")

/-! ### the monitor (implementation side): parsing only -/

def kindOfName : String → Kind
  | "transfer" => .transfer
  | "transfer_from" => .transferFrom
  | "approve" => .approve
  | "mint" => .mint
  | "burn" => .burn
  | "forced_transfer" => .forcedTransfer
  | "recover" => .recover
  | "freeze" => .freeze
  | "unfreeze" => .unfreeze
  | "set_frozen" => .setFrozen
  | "pause" => .pause
  | "unpause" => .unpause
  | "add_module" => .addModule
  | "remove_module" => .removeModule
  | "bind" => .bind
  | "unbind" => .unbind
  | s => .other s

/-- the fields of the op line the monitor reads (never fails: absent fields read 0 / []) -/
def parseLine (opl : String) : Line :=
  let ws := words opl
  { kind := kindOfName ((ws.drop 1).head?.getD ""), a := natList ((kv? ws "a").getD "-"),
    amt := (kvInt? ws "amt").getD 0, lu := (kvNat? ws "lu").getD 0 }

def boolList (s : String) : List Bool := (s.splitOn ",").map (· = "1")
def dotList (s : String) : List Nat := if s = "-" then [] else (s.splitOn ".").filterMap String.toNat?

def parseComp (s : String) : Option Comp :=
  match s.splitOn ":" with
  | [tx, cr, cap, bl] => do
    let cap ← if cap = "max" then some I128_MAX else cap.toInt?
    pure ⟨tx = "1", cr = "1", cap, dotList bl⟩
  | _ => none

/-- a mint / burn / transfer / approve event of the token; every other event (and anything
unreadable) is skipped by the replay. A transfer event that carries a `to_muxed_id` (fifth field):
`to` is still the underlying account. -/
def parseEv (ev : List String) : Option Fungible.Event :=
  match ev with
  | ["mint", t, a] => do pure (.mint (← t.toNat?) (← a.toInt?))
  | ["burn", f, a] => do pure (.burn (← f.toNat?) (← a.toInt?))
  | ["transfer", f, t, a] => do pure (.transfer (← f.toNat?) (← t.toNat?) (← a.toInt?))
  | ["transfer", f, t, a, _] => do pure (.transfer (← f.toNat?) (← t.toNat?) (← a.toInt?))
  | ["approve", o, sp, a, lu] => do pure (.approve (← o.toNat?) (← sp.toNat?) (← a.toInt?) (← lu.toNat?))
  | _ => none

def parseNote (s : String) : Option Note :=
  match s.splitOn ":" with
  | ["transferred", f, t, a] => do pure (.transferred (← f.toNat?) (← t.toNat?) (← a.toInt?))
  | ["created", t, a] => do pure (.created (← t.toNat?) (← a.toInt?))
  | ["destroyed", f, a] => do pure (.destroyed (← f.toNat?) (← a.toInt?))
  | _ => none

def parseMl (s : String) : Option (Nat × ModCall) :=
  match s.splitOn ":" with
  | [m, "can_transfer", f, t, a] => do pure (← m.toNat?, .canTransfer (← f.toNat?) (← t.toNat?) (← a.toInt?))
  | [m, "can_create", t, a] => do pure (← m.toNat?, .canCreate (← t.toNat?) (← a.toInt?))
  | [m, "on_transfer", f, t, a] => do pure (← m.toNat?, .onTransfer (← f.toNat?) (← t.toNat?) (← a.toInt?))
  | [m, "on_created", t, a] => do pure (← m.toNat?, .onCreated (← t.toNat?) (← a.toInt?))
  | [m, "on_destroyed", f, a] => do pure (← m.toNat?, .onDestroyed (← f.toNat?) (← a.toInt?))
  | _ => none

def parseAllowEntry (s : String) : Option (Nat × Nat × Int) :=
  match s.splitOn ":" with
  | [o, sp, a] => do pure (← o.toNat?, ← sp.toNat?, ← a.toInt?)
  | _ => none

/-- `-` = empty, else `;`-separated entries, each of which must parse -/
def semiList {α} (f : String → Option α) (s : String) : Option (List α) :=
  if s = "-" then some [] else (s.splitOn ";").mapM f

def parseRet (s : String) : Option Bool :=
  if s = "true" then some true else if s = "false" then some false else none

def parseObs (line : String) : Option Obs :=
  match words line with
  | tag :: rest => do
    let sup ← kvInt? rest "sup"
    let bal := intList ((kv? rest "bal").getD "-")
    let ft := intList ((kv? rest "ft").getD "-")
    let af := boolList ((kv? rest "af").getD "")
    let id := boolList ((kv? rest "id").getD "")
    let rct := (((kv? rest "rec").getD "").splitOn ",").map String.toNat?
    let paused ← kvNat? rest "paused"
    let bound ← kvNat? rest "bound"
    let mods := (((kv? rest "mods").getD "").splitOn "/").map dotList
    let mcfg ← (((kv? rest "mcfg").getD "").splitOn "/").mapM parseComp
    let allow ← semiList parseAllowEntry ((kv? rest "allow").getD "-")
    let evS := (kv? rest "ev").getD "-"
    let evs := if evS = "-" then [] else (evS.splitOn ";").filterMap (fun e => parseEv (e.splitOn ":"))
    let cn ← semiList parseNote ((kv? rest "cn").getD "-")
    let ml ← semiList parseMl ((kv? rest "ml").getD "-")
    let dem := natList ((kv? rest "dem").getD "-")
    if bal.length ≠ N ∨ ft.length ≠ N ∨ af.length ≠ N ∨ id.length ≠ N ∨ rct.length ≠ N ∨ mods.length ≠ 5
        ∨ mcfg.length ≠ K then none
    else pure { ok := tag = "ok", ret := parseRet ((kv? rest "ret").getD "-"), sup, bal, allow,
                paused := paused = 1, af, ft, id, rct, bound := bound = 1, mods, mcfg, evs, cn, ml, dem }
  | _ => none

def initMon (label : String) : Mon := monInit ((kvNat? (words label) "admin").getD 0)

def check (m : Mon) (opl obs : String) : Mon × Option String :=
  match parseObs obs with
  | none => (m, some s!"site=rwa.parse unparsable observation {obs}")
  | some o => checkCore m (parseLine opl) o

def machine : Machine where
  σ := M
  init := initM
  op := stepLine
  μ := Mon
  minit := initMon
  mon := check

end OZ.Drv.C04

def main : IO Unit := OZ.Drv.run OZ.Drv.C04.machine
