import OZ.DrvUtil
import OZ.Model.Rwa
/-
Driver for C04 (RWA gates). `op`: runs the model OZ.Rwa on an op line and prints the model's
observation in the harness' format. `mon`: the monitor — evaluates the property's conclusion
directly on the IMPLEMENTATION's observation lines (it keeps the previous observation as the
observed pre-state and a ghost registry of compliance modules built from the accepted
add_module / remove_module calls; it never calls the model's transition functions):

  * every accepted transfer / transfer_from had all gates open in the observed pre-state
    (not paused, neither party frozen, amount <= balance - frozen, both identities ok, and EVERY
    compliance module registered for CanTransfer approves according to its scripted verdict);
    every accepted mint had a verified recipient and the approval of EVERY CanCreate module;
  * 0 <= frozen <= balance for every account after every op;
  * forced_transfer / burn leave frozen' = min(frozen, balance - amount) and touch nobody else's;
  * recover_balance moves the whole balance, the partial freeze and the address freeze to the
    registered recovery target and nowhere else;
  * the compliance contract's call log shows exactly the owed notification, nothing on failure,
    and each notification reached each module registered for that hook exactly once (and no
    other module); an accepted holder move / mint consulted each registered verdict module once;
  * the registry getter agrees with the ghost registry;
  * all of this also when the destination of a `transfer` is a MUXED address (account + id; the
    op line's `lu=` carries the id): same gates, same balance movement, exactly one notification
    with the underlying account as `to`, event replay on the underlying account;
  * C01 for this flavour: supply = sum of balances, no negative balance, failed call = no change,
    replay of the emitted mint / burn / transfer events reproduces every balance.
-/
namespace OZ.Drv.C04
open OZ.Drv OZ.Rwa OZ.Host

def N : Nat := 5
def K : Nat := 3
def MAX_TTL : Nat := 200000

/-- scripted verdict of one mock compliance module -/
structure Comp where
  tx : Bool
  create : Bool
  cap : Int
  blocked : List Nat
  deriving BEq

def Comp.default : Comp := ⟨true, true, I128_MAX, []⟩

def Comp.canTransfer (c : Comp) (f t : Nat) (a : Int) : Bool :=
  c.tx && !c.blocked.contains f && !c.blocked.contains t && decide (a ≤ c.cap)
def Comp.canCreate (c : Comp) (t : Nat) (a : Int) : Bool :=
  c.create && !c.blocked.contains t && decide (a ≤ c.cap)

structure M where
  cfg : Cfg
  s : State
  comps : List Comp

def initM (label : String) : M :=
  let ws := words label
  let mt := (kvNat? ws "min_temp").getD 1
  let st := (kvNat? ws "start").getD 100
  let ad := (kvNat? ws "admin").getD 0
  { cfg := ⟨mt, MAX_TTL⟩, s := init st ad, comps := List.replicate K Comp.default }

def b01 (b : Bool) : String := if b then "1" else "0"

def hookOf : Nat → Hook
  | 0 => .transferred
  | 1 => .created
  | 2 => .destroyed
  | 3 => .canTransfer
  | _ => .canCreate

def hookIx : Hook → Nat
  | .transferred => 0
  | .created => 1
  | .destroyed => 2
  | .canTransfer => 3
  | .canCreate => 4

def setAt {α} (l : List α) (i : Nat) (v : α) : List α := l.mapIdx (fun j x => if j = i then v else x)

/-- (authorizing addresses, model operation, new module scripts) -/
def parseOp (m : M) (ws : List String) : Option (List Nat × Op × List Comp) :=
  match ws with
  | "rwa" :: "advance" :: rest => do
    let n ← kvNat? rest "n"
    pure ([], .advance n, m.comps)
  | "rwa" :: "env_id" :: rest => do
    let a ← kvNat? rest "a"
    let b ← kvNat? rest "b"
    pure ([], .envIdOk a (b = 1), m.comps)
  | "rwa" :: "env_rec" :: rest => do
    let a ← kvNat? rest "a"
    let t := (kv? rest "t").bind String.toNat?
    pure ([], .envRecTarget a t, m.comps)
  | "rwa" :: "env_mod" :: rest => do
    let i ← kvNat? rest "m"
    let tx ← kvNat? rest "tx"
    let cr ← kvNat? rest "create"
    let cap ← kvInt? rest "cap"
    let bl := natList ((kv? rest "block").getD "-")
    let c : Comp := ⟨tx = 1, cr = 1, cap, bl⟩
    pure ([], .envModule i c.canTransfer c.canCreate, setAt m.comps i c)
  | "rwa" :: kind :: rest => do
    let a := natList ((kv? rest "a").getD "-")
    let amt ← kvInt? rest "amt"
    let lu ← kvNat? rest "lu"
    let b ← kvNat? rest "b"
    let auth := natList ((kv? rest "auth").getD "-")
    let op ← match kind, a with
      | "transfer", [f, t] => some (Op.transfer f t amt)
      | "transfer_from", [sp, f, t] => some (Op.transferFrom sp f t amt)
      | "approve", [o, sp] => some (Op.approve o sp amt lu)
      | "mint", [t, op] => some (Op.mint t amt op)
      | "burn", [x, op] => some (Op.burn x amt op)
      | "forced_transfer", [f, t, op] => some (Op.forcedTransfer f t amt op)
      | "recover", [o, n, op] => some (Op.recover o n op)
      | "freeze", [x, op] => some (Op.freezePartial x amt op)
      | "unfreeze", [x, op] => some (Op.unfreezePartial x amt op)
      | "set_frozen", [x, op] => some (Op.setAddressFrozen x (b = 1) op)
      | "pause", [op] => some (Op.pause op)
      | "unpause", [op] => some (Op.unpause op)
      | "add_module", [md, op] => some (Op.addModule (hookOf lu) md op)
      | "remove_module", [md, op] => some (Op.removeModule (hookOf lu) md op)
      | "bind", [op] => some (Op.bindToken op)
      | "unbind", [op] => some (Op.unbindToken op)
      | _, _ => none
    pure (auth, op, m.comps)
  | _ => none

def showBaseEvent : Fungible.Event → String
  | .mint t a => s!"mint:{t}:{a}"
  | .burn f a => s!"burn:{f}:{a}"
  | .transfer f t a => s!"transfer:{f}:{t}:{a}"
  | .approve o s a lu => s!"approve:{o}:{s}:{a}:{lu}"

def showEv : Ev → String
  | .base e => showBaseEvent e
  | .tokensFrozen a x => s!"frozen:{a}:{x}"
  | .tokensUnfrozen a x => s!"unfrozen:{a}:{x}"
  | .addressFrozen a b => s!"afrozen:{a}:{b01 b}"
  | .recoverySuccess o n => s!"recovered:{o}:{n}"
  | .paused => "paused"
  | .unpaused => "unpaused"
  | .moduleAdded h m => s!"madd:{hookIx h}:{m}"
  | .moduleRemoved h m => s!"mrem:{hookIx h}:{m}"

def showNote : Note → String
  | .transferred f t a => s!"transferred:{f}:{t}:{a}"
  | .created t a => s!"created:{t}:{a}"
  | .destroyed f a => s!"destroyed:{f}:{a}"

def showQuery : Query → String
  | .canTransfer f t a => s!"can_transfer:{f}:{t}:{a}"
  | .canCreate t a => s!"can_create:{t}:{a}"

def showIdCall : IdCall → String
  | .verify a => s!"verify:{a}"
  | .target a => s!"target:{a}"

def showModCall : ModCall → String
  | .canTransfer f t a => s!"can_transfer:{f}:{t}:{a}"
  | .canCreate t a => s!"can_create:{t}:{a}"
  | .onTransfer f t a => s!"on_transfer:{f}:{t}:{a}"
  | .onCreated t a => s!"on_created:{t}:{a}"
  | .onDestroyed f a => s!"on_destroyed:{f}:{a}"

def semi (l : List String) : String := if l.isEmpty then "-" else ";".intercalate l
def dots (l : List Nat) : String := if l.isEmpty then "-" else ".".intercalate (l.map toString)

def showComp (c : Comp) : String :=
  s!"{b01 c.tx}:{b01 c.create}:{if c.cap = I128_MAX then "max" else toString c.cap}:{dots c.blocked}"

def showState (s : State) (cs : List Comp) : String :=
  let idx := List.range N
  let bals := idx.map (fun i => toString (s.base.bal i))
  let al := idx.flatMap (fun o => idx.filterMap (fun sp =>
    let a := Fungible.allowance s.base o sp
    if a = 0 then none else some s!"{o}:{sp}:{a}"))
  let af := idx.map (fun i => b01 (s.addrFrozen i))
  let ft := idx.map (fun i => toString (s.frozen i))
  let id := idx.map (fun i => b01 (s.idOk i))
  let rct := idx.map (fun i => match s.recTarget i with | some t => toString t | none => "-")
  let mods := (List.range 5).map (fun h => dots (s.mods (hookOf h)))
  s!"sup={s.base.supply} bal={",".intercalate bals} allow={semi al} paused={b01 s.paused} af={",".intercalate af} ft={",".intercalate ft} id={",".intercalate id} rec={",".intercalate rct} bound={b01 s.bound} mods={"/".intercalate mods} mcfg={"/".intercalate (cs.map showComp)}"

def isEnv : Op → Bool
  | .advance _ | .envIdOk _ _ | .envRecTarget _ _ | .envModule _ _ _ => true
  | _ => false

/-- the calls received by the modules, grouped by module (the harness reads one log per module) -/
def showModCalls (l : List (Nat × ModCall)) : List String :=
  (List.range K).flatMap (fun m => (l.filter (fun x => x.1 = m)).map (fun x => s!"{m}:{showModCall x.2}"))

/-- one op line through the model: new state and the observation line -/
def stepLine (m : M) (line : String) : M × String :=
  match parseOp m (words line) with
  | none => (m, "bad-op")
  | some (auth, op, comps') =>
    match applyRet m.cfg m.s auth op with
    | .ok (s', r) =>
      let evs := (s'.events.drop m.s.events.length).map showEv
      let idv := (s'.idCalls.drop m.s.idCalls.length).map showIdCall
      let cq := (s'.compQueries.drop m.s.compQueries.length).map showQuery
      let cn := (s'.notes.drop m.s.notes.length).map showNote
      let ml := showModCalls (s'.modCalls.drop m.s.modCalls.length)
      let dem := if isEnv op then "-" else showList toString ((op.required).mergeSort (· ≤ ·))
      let ret := match op with
        | .recover _ _ _ => if r then "true" else "false"
        | _ => "-"
      ({ m with s := s', comps := comps' },
        s!"ok ret={ret} {showState s' comps'} now={s'.base.now} ev={semi evs} idv={semi idv} cq={semi cq} cn={semi cn} ml={semi ml} dem={dem}")
    | .error _ =>
      (m, s!"err ret=- {showState m.s m.comps} now={m.s.base.now} ev=- idv=- cq=- cn=- ml=- dem=-")

/-! ### the monitor (implementation side) -/

structure Obs where
  ok : Bool
  ret : String
  sup : Int
  bal : List Int
  allow : String
  paused : Bool
  af : List Bool
  ft : List Int
  id : List Bool
  rct : List (Option Nat)
  bound : Bool
  mods : List (List Nat)
  mcfg : List Comp
  evs : List (List String)
  cn : List String
  ml : List String
  dem : List Nat

def boolList (s : String) : List Bool := (s.splitOn ",").map (· = "1")
def dotList (s : String) : List Nat := if s = "-" then [] else (s.splitOn ".").filterMap String.toNat?

def parseComp (s : String) : Option Comp :=
  match s.splitOn ":" with
  | [tx, cr, cap, bl] => do
    let cap ← if cap = "max" then some I128_MAX else cap.toInt?
    pure ⟨tx = "1", cr = "1", cap, dotList bl⟩
  | _ => none

def parseObs (line : String) : Option Obs :=
  match words line with
  | tag :: rest => do
    let sup ← kvInt? rest "sup"
    let bal := intList ((kv? rest "bal").getD "-")
    let ft := intList ((kv? rest "ft").getD "-")
    let af := boolList ((kv? rest "af").getD "")
    let id := boolList ((kv? rest "id").getD "")
    let rct := (((kv? rest "rec").getD "").splitOn ",").map String.toNat?
    let paused ← kvNat? rest "paused"
    let bound ← kvNat? rest "bound"
    let mods := (((kv? rest "mods").getD "").splitOn "/").map dotList
    let mcfg ← (((kv? rest "mcfg").getD "").splitOn "/").mapM parseComp
    let evS := (kv? rest "ev").getD "-"
    let evs := if evS = "-" then [] else (evS.splitOn ";").map (·.splitOn ":")
    let cnS := (kv? rest "cn").getD "-"
    let cn := if cnS = "-" then [] else cnS.splitOn ";"
    let mlS := (kv? rest "ml").getD "-"
    let ml := if mlS = "-" then [] else mlS.splitOn ";"
    let dem := natList ((kv? rest "dem").getD "-")
    if bal.length ≠ N ∨ ft.length ≠ N ∨ af.length ≠ N ∨ id.length ≠ N ∨ rct.length ≠ N ∨ mods.length ≠ 5
        ∨ mcfg.length ≠ K then none
    else pure { ok := tag = "ok", ret := (kv? rest "ret").getD "-", sup, bal, allow := (kv? rest "allow").getD "-",
                paused := paused = 1, af, ft, id, rct, bound := bound = 1, mods, mcfg, evs, cn, ml, dem }
  | _ => none

structure Mon where
  admin : Nat
  prev : Obs
  replay : List Int            -- balances reconstructed from the emitted events
  reg : List (List Nat)        -- ghost registry: per hook the modules added and not removed, in order

def zeroObs : Obs :=
  { ok := true, ret := "-", sup := 0, bal := List.replicate N 0, allow := "-", paused := false,
    af := List.replicate N false, ft := List.replicate N 0, id := List.replicate N true,
    rct := List.replicate N none, bound := true, mods := List.replicate 5 [],
    mcfg := List.replicate K Comp.default, evs := [], cn := [], ml := [], dem := [] }

def initMon (label : String) : Mon :=
  { admin := (kvNat? (words label) "admin").getD 0, prev := zeroObs, replay := List.replicate N 0,
    reg := List.replicate 5 [] }

def gi (l : List Int) (i : Nat) : Int := l.getD i 0
def gb (l : List Bool) (i : Nat) : Bool := l.getD i false

def addAt (l : List Int) (i : Nat) (d : Int) : List Int := l.mapIdx (fun j x => if j = i then x + d else x)

def replayEv (b : List Int) (ev : List String) : List Int :=
  match ev with
  | ["mint", t, a] => match t.toNat?, a.toInt? with | some t, some a => addAt b t a | _, _ => b
  | ["burn", f, a] => match f.toNat?, a.toInt? with | some f, some a => addAt b f (-a) | _, _ => b
  | ["transfer", f, t, a] =>
    match f.toNat?, t.toNat?, a.toInt? with
    | some f, some t, some a => addAt (addAt b f (-a)) t a
    | _, _, _ => b
  -- a transfer event that carries a `to_muxed_id`: `to` is still the underlying account
  | ["transfer", f, t, a, _] =>
    match f.toNat?, t.toNat?, a.toInt? with
    | some f, some t, some a => addAt (addAt b f (-a)) t a
    | _, _, _ => b
  | _ => b

/-- the registered CanTransfer modules (ghost registry) that reject, by their scripted verdict in
the observed pre-state -/
def vetoes (reg : List (List Nat)) (p : Obs) (f t : Nat) (amt : Int) : List Nat :=
  (reg.getD 3 []).filter (fun m => !((p.mcfg.getD m Comp.default).canTransfer f t amt))

def createVetoes (reg : List (List Nat)) (p : Obs) (t : Nat) (amt : Int) : List Nat :=
  (reg.getD 4 []).filter (fun m => !((p.mcfg.getD m Comp.default).canCreate t amt))

/-- names of the gates that were closed in the observed pre-state `p` for a holder move -/
def closedGates (reg : List (List Nat)) (p : Obs) (f t : Nat) (amt : Int) : List String :=
  (if p.paused then ["paused"] else []) ++
  (if gb p.af f then ["from_frozen"] else []) ++
  (if gb p.af t then ["to_frozen"] else []) ++
  (if amt > gi p.bal f - gi p.ft f then ["free_balance"] else []) ++
  (if gb p.id f then [] else ["from_identity"]) ++
  (if gb p.id t then [] else ["to_identity"]) ++
  (vetoes reg p f t amt).map (fun m => s!"compliance_module_{m}")

def first (l : List (Option String)) : Option String := l.findSome? id

def orFail (c : Bool) (msg : String) : Option String := if c then none else some msg

/-- frozen' = min(frozen, balance - amount) for `a`, untouched for everybody else -/
def minimalUnfreeze (p o : Obs) (a : Nat) (amt : Int) : Bool :=
  let want := if gi p.ft a ≤ gi p.bal a - amt then gi p.ft a else gi p.bal a - amt
  o.ft == setAt p.ft a want

/-- one call `c` to each module of `ms`, as the per-module logs show it (grouped by module) -/
def fanOut (ms : List Nat) (c : String) : List String :=
  (List.range K).filterMap (fun m => if ms.contains m then some s!"{m}:{c}" else none)

def check (m : Mon) (opl obs : String) : Mon × Option String :=
  match parseObs obs with
  | none => (m, some s!"site=rwa.parse unparsable observation {obs}")
  | some o =>
    let p := m.prev
    let ws := words opl
    let kind := (ws.drop 1).head?.getD ""
    let a := natList ((kv? ws "a").getD "-")
    let amt := (kvInt? ws "amt").getD 0
    let lu := (kvNat? ws "lu").getD 0
    let a0 := a.getD 0 0
    let a1 := a.getD 1 0
    let a2 := a.getD 2 0
    let replay' := o.evs.foldl replayEv m.replay
    let reg := m.reg
    -- ghost registry after this op
    let reg' : List (List Nat) :=
      if o.ok ∧ kind = "add_module" then setAt reg lu (reg.getD lu [] ++ [a0])
      else if o.ok ∧ kind = "remove_module" then setAt reg lu ((reg.getD lu []).erase a0)
      else reg
    let m' : Mon := { m with prev := o, replay := replay', reg := reg' }
    let supervisory := ["mint", "burn", "forced_transfer", "recover", "freeze", "unfreeze", "set_frozen", "pause",
      "unpause", "add_module", "remove_module", "bind", "unbind"]
    let operator := a.getLast?.getD 0
    -- what the compliance contract must have been told
    let owed : List String :=
      if ¬ o.ok then []
      else match kind with
        | "transfer" => [s!"transferred:{a0}:{a1}:{amt}"]
        | "transfer_from" => [s!"transferred:{a1}:{a2}:{amt}"]
        | "forced_transfer" => [s!"transferred:{a0}:{a1}:{amt}"]
        | "mint" => [s!"created:{a0}:{amt}"]
        | "burn" => [s!"destroyed:{a0}:{amt}"]
        | "recover" => if o.ret = "true" then [s!"transferred:{a0}:{a1}:{gi p.bal a0}"] else []
        | _ => []
    -- what the modules registered for the notification hooks must have received (once each)
    let owedHooks : List String :=
      if ¬ o.ok then []
      else match kind with
        | "transfer" => fanOut (reg.getD 0 []) s!"on_transfer:{a0}:{a1}:{amt}"
        | "transfer_from" => fanOut (reg.getD 0 []) s!"on_transfer:{a1}:{a2}:{amt}"
        | "forced_transfer" => fanOut (reg.getD 0 []) s!"on_transfer:{a0}:{a1}:{amt}"
        | "mint" => fanOut (reg.getD 1 []) s!"on_created:{a0}:{amt}"
        | "burn" => fanOut (reg.getD 2 []) s!"on_destroyed:{a0}:{amt}"
        | "recover" => if o.ret = "true" then fanOut (reg.getD 0 []) s!"on_transfer:{a0}:{a1}:{gi p.bal a0}" else []
        | _ => []
    -- the verdict modules an ACCEPTED holder move / mint must have consulted (all of them, once)
    let owedVerdicts : List String :=
      if ¬ o.ok then []
      else match kind with
        | "transfer" => fanOut (reg.getD 3 []) s!"can_transfer:{a0}:{a1}:{amt}"
        | "transfer_from" => fanOut (reg.getD 3 []) s!"can_transfer:{a1}:{a2}:{amt}"
        | "mint" => fanOut (reg.getD 4 []) s!"can_create:{a0}:{amt}"
        | _ => []
    let isHookCall (e : String) : Bool := ((e.splitOn ":").getD 1 "").startsWith "on_"
    let gotHooks := o.ml.filter isHookCall
    let gotVerdicts := o.ml.filter (fun e => !isHookCall e)
    -- expected balances after an accepted op, from the observed pre-state
    let move (f t : Nat) (x : Int) : List Int := addAt (addAt p.bal f (-x)) t x
    let expBal : List Int :=
      match kind with
      | "transfer" => move a0 a1 amt
      | "transfer_from" => move a1 a2 amt
      | "forced_transfer" => move a0 a1 amt
      | "mint" => addAt p.bal a0 amt
      | "burn" => addAt p.bal a0 (-amt)
      | "recover" => if o.ret = "true" then move a0 a1 (gi p.bal a0) else p.bal
      | _ => p.bal
    let fail : Option String := first [
      -- the gates, on the observed pre-state
      (if o.ok ∧ kind = "transfer" then
        let g := closedGates reg p a0 a1 amt
        orFail g.isEmpty s!"site=rwa.transfer.gate accepted although closed: {",".intercalate g}"
       else none),
      (if o.ok ∧ kind = "transfer_from" then
        let g := closedGates reg p a1 a2 amt
        orFail g.isEmpty s!"site=rwa.transfer_from.gate accepted although closed: {",".intercalate g}"
       else none),
      (if o.ok ∧ kind = "mint" then
        orFail (gb p.id a0 && (createVetoes reg p a0 amt).isEmpty)
          s!"site=rwa.mint.gate accepted although identity_ok={gb p.id a0} rejecting CanCreate modules={createVetoes reg p a0 amt}"
       else none),
      -- 0 <= frozen <= balance, always
      orFail ((List.range N).all (fun i => decide (0 ≤ gi o.ft i ∧ gi o.ft i ≤ gi o.bal i)))
        s!"site=rwa.frozen_le_balance frozen={o.ft} balances={o.bal}",
      -- supervisory paths unfreeze the minimum
      (if o.ok ∧ kind = "forced_transfer" then
        orFail (minimalUnfreeze p o a0 amt) s!"site=rwa.forced_transfer.unfreeze frozen {p.ft} -> {o.ft} for amount {amt} of balance {gi p.bal a0}"
       else none),
      (if o.ok ∧ kind = "burn" then
        orFail (minimalUnfreeze p o a0 amt) s!"site=rwa.burn.unfreeze frozen {p.ft} -> {o.ft} for amount {amt} of balance {gi p.bal a0}"
       else none),
      -- recovery: only to the registered, verified target; everything moves, nothing else does
      (if o.ok ∧ kind = "recover" then
        first [
          orFail (p.rct.getD a0 none == some a1 && gb p.id a1)
            s!"site=rwa.recover.target accepted although target={p.rct.getD a0 none} identity_ok={gb p.id a1}",
          orFail (o.ret == (if gi p.bal a0 = 0 then "false" else "true")) s!"site=rwa.recover.ret returned {o.ret} for balance {gi p.bal a0}",
          (if o.ret = "true" then
            let expFt := if a0 = a1 then p.ft else addAt (setAt p.ft a0 0) a1 (gi p.ft a0)
            let expAf := setAt p.af a1 (gb p.af a1 || gb p.af a0)
            orFail (o.ft == expFt && o.af == expAf)
              s!"site=rwa.recover.effects frozen {p.ft} -> {o.ft} (expected {expFt}), address-frozen {p.af} -> {o.af} (expected {expAf})"
           else orFail (o.ft == p.ft && o.af == p.af) "site=rwa.recover.effects nothing to recover but freeze state changed")]
       else none),
      -- exact balance movement of every accepted op (and none for the others)
      (if o.ok then orFail (o.bal == expBal) s!"site=rwa.{kind}.move balances {p.bal} -> {o.bal}, expected {expBal}" else none),
      -- freeze bookkeeping is touched only by the operations that may
      (if o.ok ∧ ¬ ["forced_transfer", "burn", "recover", "freeze", "unfreeze"].contains kind then
        orFail (o.ft == p.ft) s!"site=rwa.frame.frozen {kind} changed frozen amounts {p.ft} -> {o.ft}" else none),
      (if o.ok ∧ ¬ ["recover", "set_frozen"].contains kind then
        orFail (o.af == p.af) s!"site=rwa.frame.address_frozen {kind} changed address freezes" else none),
      (if o.ok ∧ kind = "freeze" then orFail (amt ≥ 0 ∧ o.ft == addAt p.ft a0 amt) "site=rwa.freeze.effect frozen amount not +amount" else none),
      (if o.ok ∧ kind = "unfreeze" then orFail (amt ≥ 0 ∧ o.ft == addAt p.ft a0 (-amt)) "site=rwa.unfreeze.effect frozen amount not -amount" else none),
      -- exactly-once notification with the exact parties and amount
      orFail (o.cn == owed) s!"site=rwa.{kind}.notify compliance was told {o.cn}, owed {owed}",
      -- only a token bound to the compliance contract can notify it
      (if o.ok ∧ ¬ owed.isEmpty then orFail p.bound s!"site=rwa.{kind}.bound accepted although the token is not bound to the compliance contract" else none),
      -- ... which reaches exactly the modules registered for that hook, once each
      orFail (gotHooks == owedHooks) s!"site=rwa.{kind}.fanout modules received {gotHooks}, owed {owedHooks}",
      -- an accepted holder move / mint consulted every registered verdict module (once)
      (if o.ok then orFail (gotVerdicts == owedVerdicts)
        s!"site=rwa.{kind}.consulted verdict modules consulted {gotVerdicts}, registered {owedVerdicts}" else none),
      -- the registry getter agrees with the accepted add / remove history
      orFail (o.mods == reg') s!"site=rwa.compliance.registry registry reads {o.mods}, ghost registry {reg'}",
      (if o.ok ∧ kind = "add_module" then orFail (!(reg.getD lu []).contains a0) "site=rwa.compliance.add a registered module was added again" else none),
      (if o.ok ∧ kind = "remove_module" then orFail ((reg.getD lu []).contains a0) "site=rwa.compliance.remove an unregistered module was removed" else none),
      -- operator policy of the harness contracts
      (if o.ok ∧ supervisory.contains kind then
        orFail (operator = m.admin ∧ o.dem.contains operator) s!"site=rwa.{kind}.operator accepted for operator {operator} (admin {m.admin}, demanded {o.dem})"
       else none),
      -- C01 for this flavour
      orFail (o.bal.sum = o.sup ∧ o.bal.all (· ≥ 0)) s!"site=rwa.sum total_supply={o.sup} balances={o.bal}",
      (if ¬ o.ok then
        orFail (o.sup == p.sup && o.bal == p.bal && o.allow == p.allow && o.ft == p.ft && o.af == p.af && o.paused == p.paused
                && o.bound == p.bound && o.mods == p.mods && o.ml.isEmpty)
          "site=rwa.rollback a failed call changed supply, a balance, an allowance, a frozen amount, a freeze flag, the pause flag, the binding, the module registry or reached a module"
       else none),
      orFail (replay' == o.bal) s!"site=rwa.replay event replay gives {replay'} but balances are {o.bal}"
    ]
    (m', fail)

def machine : Machine where
  σ := M
  init := initM
  op := stepLine
  μ := Mon
  minit := initMon
  mon := check

end OZ.Drv.C04

def main : IO Unit := OZ.Drv.run OZ.Drv.C04.machine
