import OZ.DrvUtil
import OZ.Model.OpaqueVerify
/-
Driver for the opaque-issuer run of C15 (harness/src/bin/c15raw.rs).
Op lines:     oq topic t= on= | oq trust i= ts= | oq confirm i= t= k= ok= | oq claim i= t= k= | oq unclaim i= t= | oq time ts= | oq verify
Observation:  ok|err ver=<0|1>
-/
namespace OZ.Drv.C15Raw
open OZ.Drv OZ.OpaqueVerify

def parseOp (ws : List String) : Option Op :=
  match ws with
  | "oq" :: "topic" :: rest => do pure (.topic (← kvNat? rest "t") ((← kvNat? rest "on") == 1))
  | "oq" :: "trust" :: rest => do pure (.trust (← kvNat? rest "i") (natList ((kv? rest "ts").getD "-")))
  | "oq" :: "confirm" :: rest => do
    pure (.confirm (← kvNat? rest "i") (← kvNat? rest "t") (← kvNat? rest "k") ((← kvNat? rest "ok") == 1))
  | "oq" :: "claim" :: rest => do pure (.claim (← kvNat? rest "i") (← kvNat? rest "t") (← kvNat? rest "k"))
  | "oq" :: "unclaim" :: rest => do pure (.unclaim (← kvNat? rest "i") (← kvNat? rest "t"))
  | "oq" :: "time" :: rest => do pure (.time (← kvNat? rest "ts"))
  | ["oq", "verify"] => some .verify
  | _ => none

def showObs (o : Obs) : String := s!"{if o.ok then "ok" else "err"} ver={if o.ver then 1 else 0}"

def initM (label : String) : State := init ((kvNat? (words label) "ts").getD 0)

def stepLine (s : State) (line : String) : State × String :=
  match parseOp (words line) with
  | none => (s, "bad-op")
  | some op =>
    match apply s op with
    | some s' => (s', showObs (modelObs s' true))
    | none => (s, showObs (modelObs s false))

def parseObs (line : String) : Option Obs :=
  match words line with
  | tag :: rest => do
    let v ← kvNat? rest "ver"
    pure { ok := tag = "ok", ver := v == 1 }
  | _ => none

def check (g : State) (opl obs : String) : State × Option String :=
  match parseOp (words opl), parseObs obs with
  | some op, some o => checkCore g op o
  | _, _ => (g, some s!"site=identity.opaque.parse unparsable op/observation: {opl} / {obs}")

def machine : Machine where
  σ := State
  init := initM
  op := stepLine
  μ := State
  minit := initM
  mon := check

end OZ.Drv.C15Raw

def main : IO Unit := OZ.Drv.run OZ.Drv.C15Raw.machine
