import OZ.DrvUtil
import OZ.Model.VotesRawMon
/-
Driver for the raw vote-tracking library run of C13 (harness/src/bin/c13raw.rs).

Sequence label:  `... start=<ledger>`
Op lines:        `vr xfer f=<acct|-> t=<acct|-> amt=<u128>`   `vr delegate a=<acct> d=<acct> auth=<accts|->`   `vr advance n=<k>`
Observation:     `ok|err units=<u0,..> del=<d0|x,..> votes=<v0,..> total=<T> now=<ledger>`
`op` runs the model (OZ.Votes.apply, accounts 0..4 only); `mon` never does (OZ.Votes.RawMon.checkCore).
-/
namespace OZ.Drv.C13Raw
open OZ.Drv OZ.Votes OZ.Votes.RawMon

def acct? (s : String) : Option (Option Nat) :=
  if s = "-" then some none else match s.toNat? with
    | some a => if a < N then some (some a) else none
    | none => none

def parseOp (ws : List String) : Option (List Nat × Op) :=
  match ws with
  | "vr" :: "xfer" :: rest => do
    let f ← (kv? rest "f").bind acct?
    let t ← (kv? rest "t").bind acct?
    let amt ← kvNat? rest "amt"
    pure ([], .transferUnits f t amt)
  | "vr" :: "delegate" :: rest => do
    let a ← kvNat? rest "a"
    let d ← kvNat? rest "d"
    if a < N ∧ d < N then pure (natList ((kv? rest "auth").getD "-"), .delegate a d) else none
  | "vr" :: "advance" :: rest => do
    let n ← kvNat? rest "n"
    pure ([], .advance n)
  | _ => none

def showOptX (o : Option Nat) : String := match o with | some a => toString a | none => "x"

def showObs (o : Obs) : String :=
  s!"units={",".intercalate (o.units.map toString)} del={",".intercalate (o.del.map showOptX)} votes={",".intercalate (o.votes.map toString)} total={o.total} now={o.now}"

def initM (label : String) : State := init ((kvNat? (words label) "start").getD 100)

def stepLine (s : State) (line : String) : State × String :=
  match parseOp (words line) with
  | none => (s, "bad-op")
  | some (auth, op) =>
    match apply s auth op with
    | .ok s' => (s', s!"ok {showObs (modelObs s' true)}")
    | .error _ => (s, s!"err {showObs (modelObs s false)}")

def parseObs (line : String) : Option Obs :=
  match words line with
  | tag :: rest => do
    let u ← kv? rest "units"
    let d ← kv? rest "del"
    let v ← kv? rest "votes"
    let t ← kvNat? rest "total"
    let now ← kvNat? rest "now"
    let us := (u.splitOn ",").map String.toNat?
    let vs := (v.splitOn ",").map String.toNat?
    let ds := (d.splitOn ",").map (fun x => if x = "x" then some none else x.toNat?.map some)
    if us.length = N ∧ vs.length = N ∧ ds.length = N ∧ us.all Option.isSome ∧ vs.all Option.isSome ∧ ds.all Option.isSome then
      pure { ok := tag = "ok", units := us.filterMap id, del := ds.filterMap id, votes := vs.filterMap id, total := t, now }
    else none
  | _ => none

def check (m : Option Obs) (_opl obs : String) : Option Obs × Option String :=
  match parseObs obs with
  | some o => (some o, checkCore m o)
  | none => (m, some s!"site=votes.raw.parse unparsable observation (a getter failed?): {obs}")

def machine : Machine where
  σ := State
  init := initM
  op := stepLine
  μ := Option Obs
  minit := fun _ => none
  mon := check

end OZ.Drv.C13Raw

def main : IO Unit := OZ.Drv.run OZ.Drv.C13Raw.machine
