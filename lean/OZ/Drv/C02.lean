import OZ.Drv.FungibleIO
/-
Driver for C02 (tokens move only with the holder's authorization or a live allowance).
Model step = OZ.Fungible (shared with C01, `FungibleIO.stepLine`). The monitor evaluates the
property's conclusion directly on the IMPLEMENTATION's observations, with its own ghost
state per (owner, spender): (last approved amount − spent since, live_until of that
approval). It never calls the model's transition function.

This file only parses (`parseLine`, `parseObs`, `minit`) and calls the monitor core
`OZ.FungibleMon.Auth.checkCore` (OZ/Model/FungibleMon.lean), which OZ/Props/C02Mon.lean proves
sound (it reports nothing on any observation sequence of the model). Not covered by that theorem
(string level, kept here): `site=fungible.auth.getter_trap` (a `?` in the observation) and
`site=fungible.auth.parse` (an observation line that does not parse).

 (0) a rejected call changes no balance and no allowance;
 (1) an accepted call lowers holder h's balance only if it is transfer/burn with h = from and
     h ∈ auth (`auth=` of the op line is the exact signer set the call ran with), or
     transfer_from/burn_from with from = h, spender ∈ auth, the last approval unexpired,
     previous allowance(from, spender) ≥ amount and new allowance = previous − amount;
 (2) an allowance rises only by an accepted approve(owner, spender, amount, …) with
     owner ∈ auth, to exactly `amount`; it never exceeds approved − spent, is never negative;
 (3) once now > live_until of the last approval the allowance reads 0 (also while the storage
     entry is still alive); until then it reads exactly approved − spent (the entry must
     not die earlier);
 (4) approve is rejected iff owner ∉ auth, or amount < 0, or live_until > now + maxTtl − 1,
     or (amount > 0 and live_until < now) (maxTtl = `max_ttl=` of the sequence label, default
     200000);
 (5) no balance goes down while only the ledger moves (`advance`): holdings do not silently
     vanish over idle periods (`site=fungible.auth.idle_debit`); a getter that traps (`?` in
     the observation) is flagged too.
-/
namespace OZ.Drv.C02
open OZ.Drv OZ.Drv.FungibleIO OZ.FungibleMon OZ.FungibleMon.Auth

def minit (label : String) : Mon :=
  { prev := none, g := [], n := labelN label, maxTtl := (kvNat? (words label) "max_ttl").getD MAX_TTL }

def check (m : Mon) (opl obs : String) : Mon × Option String :=
  if obs.contains '?' then
    (m, some s!"site=fungible.auth.getter_trap a getter of the token trapped: {obs}")
  else
  match parseObs obs with
  | none => (m, some s!"site=fungible.auth.parse unparsable observation {obs}")
  | some o => checkCore m (parseLine opl) o

def machine : Machine where
  σ := M
  init := initM
  op := stepLine
  μ := Mon
  minit := minit
  mon := check

end OZ.Drv.C02

def main : IO Unit := OZ.Drv.run OZ.Drv.C02.machine
