import OZ.Drv.FungibleIO
/-
Driver for C02 (tokens move only with the holder's authorization or a live allowance).
Model step = OZ.Fungible (shared with C01, `FungibleIO.stepLine`). The monitor evaluates the
property's conclusion directly on the IMPLEMENTATION's observations, with its own ghost
state per (owner, spender): (last approved amount − spent since, live_until of that
approval). It never calls the model's transition function.

 (0) a rejected call changes no balance and no allowance;
 (1) an accepted call lowers holder h's balance only if it is transfer/burn with h = from and
     h ∈ auth (`auth=` of the op line is the exact signer set the call ran with), or
     transfer_from/burn_from with from = h, spender ∈ auth, the last approval unexpired,
     previous allowance(from, spender) ≥ amount and new allowance = previous − amount;
 (2) an allowance rises only by an accepted approve(owner, spender, amount, …) with
     owner ∈ auth, to exactly `amount`; it never exceeds approved − spent, is never negative;
 (3) once now > live_until of the last approval the allowance reads 0 (also while the storage
     entry is still alive); until then it reads exactly approved − spent (the entry must
     not die earlier);
 (4) approve is rejected iff owner ∉ auth, or amount < 0, or live_until > now + maxTtl − 1,
     or (amount > 0 and live_until < now) (maxTtl = `max_ttl=` of the sequence label, default
     200000);
 (5) no balance goes down while only the ledger moves (`advance`): holdings do not silently
     vanish over idle periods (`site=fungible.auth.idle_debit`); a getter that traps (`?` in
     the observation) is flagged too.
-/
namespace OZ.Drv.C02
open OZ.Drv OZ.Drv.FungibleIO

structure G where
  rem : Int
  lu : Nat

structure Mon where
  prev : Option Obs
  g : List (Nat × Nat × G)
  n : Nat := N          -- size of the observed universe (`n=` of the sequence label)
  maxTtl : Nat := MAX_TTL   -- `max_ttl=` of the sequence label

def gOf (g : List (Nat × Nat × G)) (o sp : Nat) : G :=
  match g.find? (fun (a, b, _) => a = o ∧ b = sp) with
  | some (_, _, v) => v
  | none => ⟨0, 0⟩

def gSet (g : List (Nat × Nat × G)) (o sp : Nat) (v : G) : List (Nat × Nat × G) :=
  (o, sp, v) :: g.filter (fun (a, b, _) => ¬ (a = o ∧ b = sp))

def pairs (n : Nat) : List (Nat × Nat) := (List.range n).flatMap (fun o => (List.range n).map (fun sp => (o, sp)))

def firstSome {α} (l : List α) (f : α → Option String) : Option String :=
  l.foldl (fun acc x => match acc with | some m => some m | none => f x) none

def balAt (l : List Int) (i : Nat) : Int := (l[i]?).getD 0

/-- (1): every balance that went down in an accepted call -/
def checkDebits (n : Nat) (prev o : Obs) (g : List (Nat × Nat × G)) (kind : String) (a auth : List Nat)
    (amt : Int) : Option String :=
  firstSome (List.range n) (fun h =>
    if balAt o.bal h < balAt prev.bal h then
      if kind = "transfer" ∨ kind = "burn" then
        if a.head? ≠ some h then
          some s!"site=fungible.auth.debit_wrong_holder {kind} lowered the balance of {h}, who is not its from"
        else if h ∉ auth then
          some s!"site=fungible.auth.debit_unauthorized {kind} lowered the balance of {h} without {h}'s authorization (auth={auth})"
        else none
      else if kind = "transfer_from" ∨ kind = "burn_from" then
        match a with
        | sp :: f :: _ =>
          let pa := prev.allowOf f sp
          if f ≠ h then
            some s!"site=fungible.auth.debit_wrong_holder {kind} lowered the balance of {h}, who is not its from"
          else if sp ∉ auth then
            some s!"site=fungible.auth.spender_unauthorized {kind} moved {h}'s tokens without the spender {sp}'s authorization (auth={auth})"
          else if (gOf g f sp).lu < o.now then
            some s!"site=fungible.auth.spend_expired {kind} spent an allowance whose live_until {(gOf g f sp).lu} passed (now {o.now})"
          else if pa < amt then
            some s!"site=fungible.auth.spend_uncovered {kind} of {amt} with allowance {pa}"
          else if o.allowOf f sp ≠ pa - amt then
            some s!"site=fungible.auth.spend_not_exact allowance {pa} became {o.allowOf f sp} after spending {amt}"
          else none
        | _ => some "site=fungible.auth.parse malformed spend op"
      else if kind = "advance" then
        some s!"site=fungible.auth.idle_debit the balance of {h} fell from {balAt prev.bal h} to {balAt o.bal h} while only the ledger moved (to {o.now}): nobody authorized a debit"
      else
        some s!"site=fungible.auth.debit_by_{kind} the balance of {h} went down in a {kind}"
    else none)

/-- (2): every allowance that went up -/
def checkRaises (n : Nat) (prev o : Obs) (kind : String) (a auth : List Nat) (amt : Int) : Option String :=
  firstSome (pairs n) (fun (x, y) =>
    if o.allowOf x y > prev.allowOf x y then
      if ¬ o.ok then some s!"site=fungible.auth.allowance_raise allowance({x},{y}) rose in a rejected call"
      else if kind ≠ "approve" ∨ a ≠ [x, y] then
        some s!"site=fungible.auth.allowance_raise allowance({x},{y}) rose from {prev.allowOf x y} to {o.allowOf x y} in {kind} a={a}"
      else if x ∉ auth then
        some s!"site=fungible.auth.approve_unauthorized allowance({x},{y}) raised without the owner's authorization (auth={auth})"
      else if o.allowOf x y ≠ amt then
        some s!"site=fungible.auth.approve_value allowance({x},{y}) is {o.allowOf x y} after approving {amt}"
      else none
    else none)

/-- (2)+(3): allowance against the ghost counters -/
def checkGhost (n : Nat) (o : Obs) (g : List (Nat × Nat × G)) : Option String :=
  firstSome (pairs n) (fun (x, y) =>
    let v := o.allowOf x y
    let gh := gOf g x y
    if v < 0 then some s!"site=fungible.auth.allowance_negative allowance({x},{y}) = {v}"
    else if v > gh.rem then
      some s!"site=fungible.auth.allowance_bound allowance({x},{y}) = {v} exceeds approved - spent = {gh.rem}"
    else if o.now > gh.lu ∧ v ≠ 0 then
      some s!"site=fungible.auth.expired_nonzero allowance({x},{y}) = {v} at ledger {o.now} although live_until {gh.lu} passed"
    else if o.now ≤ gh.lu ∧ v ≠ gh.rem then
      some s!"site=fungible.auth.live_allowance allowance({x},{y}) = {v} at ledger {o.now} but approved - spent = {gh.rem} is live until {gh.lu}"
    else none)

def orElse (a : Option String) (b : Unit → Option String) : Option String :=
  match a with
  | some m => some m
  | none => b ()

def check (m : Mon) (opl obs : String) : Mon × Option String :=
  if obs.contains '?' then
    (m, some s!"site=fungible.auth.getter_trap a getter of the token trapped: {obs}")
  else
  match parseObs obs with
  | none => (m, some s!"site=fungible.auth.parse unparsable observation {obs}")
  | some o =>
    let prev : Obs := m.prev.getD
      { ok := true, sup := 0, bal := List.replicate m.n 0, allow := [], now := o.now, evs := [], dem := [] }
    let ws := words opl
    let kind := (ws.drop 1).head?.getD ""
    let a := natList ((kv? ws "a").getD "-")
    let auth := natList ((kv? ws "auth").getD "-")
    let amt := (kvInt? ws "amt").getD 0
    let lu := (kvNat? ws "lu").getD 0
    -- ghost update from the op line and the implementation's verdict only
    let g' : List (Nat × Nat × G) :=
      if ¬ o.ok then m.g
      else match kind, a with
        | "approve", [ow, sp] => gSet m.g ow sp ⟨amt, lu⟩
        | "transfer_from", sp :: f :: _ => gSet m.g f sp ⟨(gOf m.g f sp).rem - amt, (gOf m.g f sp).lu⟩
        | "burn_from", sp :: f :: _ => gSet m.g f sp ⟨(gOf m.g f sp).rem - amt, (gOf m.g f sp).lu⟩
        | _, _ => m.g
    let now := o.now
    let rollback : Option String :=
      if ¬ o.ok ∧ (o.bal ≠ prev.bal ∨ o.allow ≠ prev.allow) then
        some "site=fungible.auth.rollback a rejected call changed a balance or an allowance"
      else none
    let bounds : Option String :=
      if kind = "approve" then
        let owner := a.head?.getD 0
        let mustReject : Bool := decide (owner ∉ auth) || decide (amt < 0) || decide (lu > now + m.maxTtl - 1)
          || (decide (amt > 0) && decide (lu < now))
        if o.ok ∧ owner ∉ auth then
          some s!"site=fungible.auth.approve_unauthorized approve accepted without the owner {owner}'s authorization (auth={auth})"
        else if o.ok ∧ mustReject then
          some s!"site=fungible.auth.approve_bounds approve amt={amt} lu={lu} accepted at ledger {now} (max live_until {now + m.maxTtl - 1})"
        else if ¬ o.ok ∧ ¬ mustReject then
          some s!"site=fungible.auth.approve_bounds approve amt={amt} lu={lu} rejected at ledger {now} although owner authorized, amt >= 0 and now <= lu <= {now + m.maxTtl - 1}"
        else none
      else none
    let fail :=
      orElse rollback fun _ =>
      orElse bounds fun _ =>
      orElse (if o.ok then checkDebits m.n prev o m.g kind a auth amt else none) fun _ =>
      orElse (checkRaises m.n prev o kind a auth amt) fun _ =>
      checkGhost m.n o g'
    ({ m with prev := some o, g := g' }, fail)

def machine : Machine where
  σ := M
  init := initM
  op := stepLine
  μ := Mon
  minit := fun label =>
    { prev := none, g := [], n := labelN label, maxTtl := (kvNat? (words label) "max_ttl").getD MAX_TTL }
  mon := check

end OZ.Drv.C02

def main : IO Unit := OZ.Drv.run OZ.Drv.C02.machine
