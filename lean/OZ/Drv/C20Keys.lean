import OZ.Drv.C20Util
import OZ.Model.RegKeysMon
/-
`keys ...` sub-driver of C20: the claim-issuer signing-key registry.
Universe: public keys 0..nk (0 = empty byte string) x schemes {1,2}; topics 0..7 (the mock
registry contract answers `has_claim_topic = (topic != 7)`); registries 0..2.
-/
namespace OZ.Drv.C20.Keys
open OZ.Drv OZ.Drv.C20 OZ.RegKeys OZ.RegKeys.Mon

structure M where
  s : State
  nk : Nat
  nt : Nat

def initM (ws : List String) : M := { s := init, nk := (kvNat? ws "nk").getD 3, nt := (kvNat? ws "nt").getD 8 }

def showState (m : M) : String :=
  let s := m.s
  let T := (List.range m.nt).filterMap (fun t =>
    (getKeysForTopic s t).map (fun l => s!"{t}:{",".intercalate (l.map showKey)}"))
  let R := (keysU m.nk).filterMap (fun k => (getRegistries s k).map (fun l => s!"{showKey k}:{nats l}"))
  let atB := (keysU m.nk).flatMap (fun k => (List.range m.nt).map (fun t => isKeyAllowedForTopic s k t))
  let arB := (keysU m.nk).flatMap (fun k => (List.range NR).map (fun r => isKeyAllowedForRegistry s k r))
  s!"T={sepBy ";" T} R={sepBy ";" R} at={bits atB} ar={bits arB}"

def parseOp (ws : List String) : Option Op :=
  match ws with
  | "keys" :: kind :: rest =>
    let k : Key := (kvN rest "k", kvN rest "s")
    match kind with
    | "allow" => some (.allow k (kvN rest "r") (kvN rest "t"))
    | "remove" => some (.remove k (kvN rest "r") (kvN rest "t"))
    | _ => none
  | _ => none

def stepLine (m : M) (line : String) : M × String :=
  match parseOp (words line) with
  | none => (m, "bad-op")
  | some op =>
    match step allowed m.s op with
    | .ok s' => let m' := { m with s := s' }; (m', "ok " ++ showState m')
    | .error _ => (m, "err " ++ showState m)

/-! ### monitor: parsing only; the checks are `OZ.RegKeys.Mon.checkCore` (OZ/Model/RegKeysMon.lean),
proved sound in OZ/Props/C20aMon.lean -/

def minit (ws : List String) : Mon := { rel := [], nk := (kvNat? ws "nk").getD 3, nt := (kvNat? ws "nt").getD 8 }

def parseKey (s : String) : Option Key :=
  match s.splitOn "." with
  | [a, b] => do pure ((← a.toNat?), (← b.toNat?))
  | _ => none

def parseObs (obs : String) : Obs :=
  let ws := words obs
  { ok := ws.head? == some "ok",
    T := (parts ";" (kvS ws "T")).filterMap (fun e =>
      match e.splitOn ":" with
      | [t, l] => do pure ((← t.toNat?), (l.splitOn ",").filterMap parseKey)
      | _ => none),
    R := (parts ";" (kvS ws "R")).filterMap (fun e =>
      match e.splitOn ":" with
      | [k, l] => do pure ((← parseKey k), natList l)
      | _ => none),
    atB := kvS ws "at",
    arB := kvS ws "ar" }

def check (g : Mon) (opl obs : String) : Mon × Option String :=
  match parseOp (words opl) with
  | none => (g, some s!"site=keys.parse bad op {opl}")
  | some op => checkCore g op (parseObs obs)

/-- the monitor state type, as the dispatcher OZ/Drv/C20.lean names it -/
abbrev MonT := OZ.RegKeys.Mon.Mon

end OZ.Drv.C20.Keys
