import OZ.Drv.C20Util
import OZ.Model.RegKeys
/-
`keys ...` sub-driver of C20: the claim-issuer signing-key registry.
Universe: public keys 0..nk (0 = empty byte string) x schemes {1,2}; topics 0..7 (the mock
registry contract answers `has_claim_topic = (topic != 7)`); registries 0..2.
-/
namespace OZ.Drv.C20.Keys
open OZ.Drv OZ.Drv.C20 OZ.RegKeys

def NR : Nat := 3
def allowed (_r t : Nat) : Bool := t ≠ 7

structure M where
  s : State
  nk : Nat
  nt : Nat

def keysU (nk : Nat) : List Key := (List.range (nk + 1)).flatMap (fun k => [(k, 1), (k, 2)])
def showKey (k : Key) : String := s!"{k.1}.{k.2}"

def initM (ws : List String) : M := { s := init, nk := (kvNat? ws "nk").getD 3, nt := (kvNat? ws "nt").getD 8 }

def showState (m : M) : String :=
  let s := m.s
  let T := (List.range m.nt).filterMap (fun t =>
    (getKeysForTopic s t).map (fun l => s!"{t}:{",".intercalate (l.map showKey)}"))
  let R := (keysU m.nk).filterMap (fun k => (getRegistries s k).map (fun l => s!"{showKey k}:{nats l}"))
  let atB := (keysU m.nk).flatMap (fun k => (List.range m.nt).map (fun t => isKeyAllowedForTopic s k t))
  let arB := (keysU m.nk).flatMap (fun k => (List.range NR).map (fun r => isKeyAllowedForRegistry s k r))
  s!"T={sepBy ";" T} R={sepBy ";" R} at={bits atB} ar={bits arB}"

def parseOp (ws : List String) : Option Op :=
  match ws with
  | "keys" :: kind :: rest =>
    let k : Key := (kvN rest "k", kvN rest "s")
    match kind with
    | "allow" => some (.allow k (kvN rest "r") (kvN rest "t"))
    | "remove" => some (.remove k (kvN rest "r") (kvN rest "t"))
    | _ => none
  | _ => none

def stepLine (m : M) (line : String) : M × String :=
  match parseOp (words line) with
  | none => (m, "bad-op")
  | some op =>
    match step allowed m.s op with
    | .ok s' => let m' := { m with s := s' }; (m', "ok " ++ showState m')
    | .error _ => (m, "err " ++ showState m)

/-! ### monitor: the plain relation {(key, topic, registry)} recomputed from the accepted ops -/

structure Mon where
  rel : List (Key × Nat × Nat)     -- (key, topic, registry)
  nk : Nat
  nt : Nat

def minit (ws : List String) : Mon := { rel := [], nk := (kvNat? ws "nk").getD 3, nt := (kvNat? ws "nt").getD 8 }

def keysOf (g : Mon) (t : Nat) : List Key := ((g.rel.filter (fun x => x.2.1 == t)).map (·.1)).eraseDups
def pairsOf (g : Mon) (k : Key) : List (Nat × Nat) := (g.rel.filter (fun x => x.1 == k)).map (·.2)

def parseKey (s : String) : Option Key :=
  match s.splitOn "." with
  | [a, b] => do pure ((← a.toNat?), (← b.toNat?))
  | _ => none

def check (g : Mon) (opl obs : String) : Mon × Option String :=
  let ws := words obs
  let ok := ws.head? == some "ok"
  match parseOp (words opl) with
  | none => (g, some s!"site=keys.parse bad op {opl}")
  | some op =>
    -- what the plain relation with the documented limits says about this op
    let (expect, why, rel') : Bool × String × List (Key × Nat × Nat) :=
      match op with
      | .allow k r t =>
        if k.1 = 0 then (false, "empty_key", g.rel)
        else if !allowed r t then (false, "not_allowed", g.rel)
        else if g.rel.contains (k, t, r) then (false, "dup", g.rel)
        else if !(keysOf g t).contains k ∧ (keysOf g t).length ≥ 50 then (false, "limit.allow_key.keys_per_topic", g.rel)
        else if (pairsOf g k).length ≥ 20 then (false, "limit.allow_key.registries_per_key", g.rel)
        else (true, (if (pairsOf g k).length = 19 then "limit.allow_key.registries_per_key"
                     else if !(keysOf g t).contains k ∧ (keysOf g t).length = 49 then "limit.allow_key.keys_per_topic"
                     else "valid"), g.rel ++ [(k, t, r)])
      | .remove k r t =>
        if g.rel.contains (k, t, r) then (true, "present", g.rel.erase (k, t, r)) else (false, "absent", g.rel)
    let g' : Mon := if ok then { g with rel := rel' } else g
    let g2 : Mon := if ok ∧ ¬ expect then
        -- keep following the implementation so that later getter checks stay meaningful
        match op with
        | .allow k r t => { g with rel := g.rel ++ [(k, t, r)] }
        | .remove k r t => { g with rel := g.rel.erase (k, t, r) }
      else g'
    let accept : Option String :=
      if ok = expect then none
      else if ok then some (acceptedSite "keys" why)
      else some (refusedSite "keys" why)
    -- getters against the plain relation
    let Ts := (parts ";" (kvS ws "T")).filterMap (fun e =>
      match e.splitOn ":" with
      | [t, l] => do pure ((← t.toNat?), (l.splitOn ",").filterMap parseKey)
      | _ => none)
    let Rs := (parts ";" (kvS ws "R")).filterMap (fun e =>
      match e.splitOn ":" with
      | [k, l] => do pure ((← parseKey k), natList l)
      | _ => none)
    let tChecks := (List.range g2.nt).map (fun t =>
      let want := keysOf g2 t
      match Ts.find? (fun x => x.1 == t) with
      | some (_, l) => chk (want ≠ [] ∧ nodupB l ∧ sameSet l want)
          s!"site=keys.topic_getter get_keys_for_topic({t}) = {l.map showKey} but the plain relation has {want.map showKey}"
      | none => chk (want = []) s!"site=keys.topic_getter get_keys_for_topic({t}) fails but the plain relation has {want.map showKey}")
    let rChecks := (keysU g2.nk).map (fun k =>
      let want := sortN ((pairsOf g2 k).map (·.2))
      match Rs.find? (fun x => x.1 == k) with
      | some (_, l) => chk (want ≠ [] ∧ sortN l = want)
          s!"site=keys.registry_getter get_registries({showKey k}) = {l} but the plain relation has {want}"
      | none => chk (want = []) s!"site=keys.registry_getter get_registries({showKey k}) fails but the plain relation has {want}")
    let atWant := (keysU g2.nk).flatMap (fun k => (List.range g2.nt).map (fun t => g2.rel.any (fun x => x.1 == k ∧ x.2.1 == t)))
    let arWant := (keysU g2.nk).flatMap (fun k => (List.range NR).map (fun r => g2.rel.any (fun x => x.1 == k ∧ x.2.2 == r)))
    let fail := firstFail ([accept] ++ tChecks ++ rChecks ++
      [chk (kvS ws "at" = bits atWant) "site=keys.two_way is_key_allowed_for_topic differs from: exists a pair (topic, .) of the key",
       chk (kvS ws "ar" = bits arWant) "site=keys.two_way is_key_allowed_for_registry differs from: exists a pair (., registry) of the key"])
    (g2, fail)

end OZ.Drv.C20.Keys
