/-
Line-protocol plumbing shared by all per-property drivers. Import-free.

Trace format (written by the Rust harness, read here on stdin):
  # <anything>      start of a new sequence: model state and monitor state are reset
  > <op line>       an operation; the driver answers with the model's observation `< ...`
  < <obs line>      the implementation's observation for the preceding op; fed to the monitor
The driver prints, per `>` line, `< <model obs>`, and per monitor failure
`! <input line number> <message>`; finally `done ops=<n> monfail=<k>`.
-/
namespace OZ.Drv

structure Machine where
  σ : Type
  init : String → σ      -- from the `# label` line of the sequence
  op : σ → String → σ × String
  μ : Type
  minit : String → μ
  mon : μ → String → String → μ × Option String

def words (s : String) : List String := (s.splitOn " ").filter (· ≠ "")

def kv? (ws : List String) (k : String) : Option String :=
  match ws.find? (fun w => w.startsWith (k ++ "=")) with
  | some w => some (w.drop (k.length + 1)).toString
  | none => none

def kvInt? (ws : List String) (k : String) : Option Int := (kv? ws k).bind String.toInt?
def kvNat? (ws : List String) (k : String) : Option Nat := (kv? ws k).bind String.toNat?

/-- "1,2,3" → [1,2,3]; "" or "-" → [] -/
def intList (s : String) : List Int :=
  if s = "" ∨ s = "-" then [] else (s.splitOn ",").filterMap String.toInt?
def natList (s : String) : List Nat :=
  if s = "" ∨ s = "-" then [] else (s.splitOn ",").filterMap String.toNat?

def showList {α} (f : α → String) (l : List α) : String :=
  if l.isEmpty then "-" else ",".intercalate (l.map f)

partial def loop (m : Machine) (h : IO.FS.Stream) (out : IO.FS.Stream)
    (s : m.σ) (ms : m.μ) (lastOp : String) (lineNo ops fails : Nat) : IO Unit := do
  let raw ← h.getLine
  if raw.isEmpty then
    out.putStrLn s!"done ops={ops} monfail={fails}"
    out.flush
    return ()
  let line := (raw.trimAsciiEnd).toString
  let lineNo := lineNo + 1
  if line.startsWith "# " ∨ line = "#" then
    let label := (line.drop 2).toString
    loop m h out (m.init label) (m.minit label) "" lineNo ops fails
  else if line.startsWith "> " then
    let o := (line.drop 2).toString
    let (s', obs) := m.op s o
    out.putStrLn ("< " ++ obs)
    loop m h out s' ms o lineNo (ops + 1) fails
  else if line.startsWith "< " then
    let ob := (line.drop 2).toString
    let (ms', f) := m.mon ms lastOp ob
    match f with
    | some msg =>
      out.putStrLn s!"! {lineNo} {msg}"
      loop m h out s ms' lastOp lineNo ops (fails + 1)
    | none => loop m h out s ms' lastOp lineNo ops fails
  else
    loop m h out s ms lastOp lineNo ops fails

def run (m : Machine) : IO Unit := do
  let stdin ← IO.getStdin
  let stdout ← IO.getStdout
  loop m stdin stdout (m.init "") (m.minit "") "" 0 0 0

end OZ.Drv
