import OZ.Model.Host
/-
Model of
  packages/tokens/src/rwa/claim_topics_and_issuers/storage.rs   (the registry of required claim
      topics and trusted issuers, as far as identity verification needs it)
  packages/tokens/src/rwa/identity_registry_storage/storage.rs  (account ↦ identity lookup)
line by line. Import-free apart from the host model.

* addresses and claim topics are natural numbers;
* soroban `Vec` = `List` (push_back = `++ [x]`, `remove(first position)` = `List.erase`);
* a persistent entry is `Option` (`none` = absent); persistent TTLs are not modelled (the harness
  keeps every persistent entry alive);
* a panic (`panic_with_error!`, `expect`, failed cross-contract call) is `.error`; error codes are
  not compared, so there is one error value.
-/
namespace OZ.Identity
open OZ.Host

inductive Err where
  | fail
  deriving DecidableEq, Repr

def ofOpt {α : Type} : Option α → Except Err α
  | some a => .ok a
  | none => .error .fail

def MAX_CLAIM_TOPICS : Nat := 15
def MAX_ISSUERS : Nat := 50

/-- storage of one claim-topics-and-issuers contract -/
structure Reg where
  topics : List Nat                          -- ClaimTopics
  issuers : List Nat                         -- TrustedIssuers
  issuerTopics : Nat → Option (List Nat)     -- IssuerClaimTopics(issuer)
  topicIssuers : Nat → Option (List Nat)     -- ClaimTopicIssuers(topic)

def Reg.empty : Reg := ⟨[], [], fun _ => none, fun _ => none⟩

/-- `get_claim_topic_issuers` (panics when the entry is absent) -/
def getClaimTopicIssuers (r : Reg) (t : Nat) : Except Err (List Nat) := ofOpt (r.topicIssuers t)

/-- `get_trusted_issuer_claim_topics` (panics when the issuer is unknown) -/
def getTrustedIssuerClaimTopics (r : Reg) (i : Nat) : Except Err (List Nat) := ofOpt (r.issuerTopics i)

/-- `has_claim_topic` -/
def hasClaimTopic (r : Reg) (i t : Nat) : Except Err Bool :=
  match r.issuerTopics i with
  | some ts => .ok (ts.contains t)
  | none => .error .fail

/-- the loop of `get_claim_topics_and_issuers` (the resulting `Map` is keyed by topic; the verifier
only asks whether EVERY entry passes, so the iteration order is immaterial) -/
def collect (ti : Nat → Option (List Nat)) : List Nat → Except Err (List (Nat × List Nat))
  | [] => .ok []
  | t :: ts =>
    match ti t with
    | none => .error .fail
    | some l =>
      match collect ti ts with
      | .ok rest => .ok ((t, l) :: rest)
      | .error e => .error e

/-- `get_claim_topics_and_issuers` -/
def getClaimTopicsAndIssuers (r : Reg) : Except Err (List (Nat × List Nat)) :=
  collect r.topicIssuers r.topics

/-- `add_claim_topic` -/
def addTopic (r : Reg) (t : Nat) : Except Err Reg :=
  if r.topics.length ≥ MAX_CLAIM_TOPICS then .error .fail
  else if r.topics.contains t then .error .fail
  else .ok { r with topics := r.topics ++ [t], topicIssuers := upd r.topicIssuers t (some []) }

/-- one iteration of the issuer loop of `remove_claim_topic` -/
def eraseTopicAt (it : Nat → Option (List Nat)) (t i : Nat) : Nat → Option (List Nat) :=
  match it i with
  | some ts => if ts.contains t then upd it i (some (ts.erase t)) else it
  | none => it

/-- the issuer loop of `remove_claim_topic` -/
def eraseTopicFromIssuers (t : Nat) : (Nat → Option (List Nat)) → List Nat → (Nat → Option (List Nat))
  | it, [] => it
  | it, i :: rest => eraseTopicFromIssuers t (eraseTopicAt it t i) rest

/-- `remove_claim_topic` -/
def removeTopic (r : Reg) (t : Nat) : Except Err Reg :=
  if r.topics.contains t then
    .ok { r with topics := r.topics.erase t,
                 issuerTopics := eraseTopicFromIssuers t r.issuerTopics r.issuers,
                 topicIssuers := upd r.topicIssuers t none }
  else .error .fail

/-- the four input validations shared by `add_trusted_issuer` and `update_issuer_claim_topics`:
non-empty, at most `MAX_CLAIM_TOPICS`, duplicate-free, every topic registered -/
def validTopicSet (r : Reg) (ts : List Nat) : Bool :=
  !ts.isEmpty && decide (ts.length ≤ MAX_CLAIM_TOPICS) && decide ts.Nodup && ts.all (fun t => r.topics.contains t)

/-- reverse-mapping loop: push the issuer to every listed topic -/
def pushIssuer (i : Nat) : (Nat → Option (List Nat)) → List Nat → Except Err (Nat → Option (List Nat))
  | ti, [] => .ok ti
  | ti, t :: rest =>
    match ti t with
    | none => .error .fail
    | some l => pushIssuer i (upd ti t (some (l ++ [i]))) rest

/-- reverse-mapping loop: remove the issuer from every listed topic -/
def dropIssuer (i : Nat) : (Nat → Option (List Nat)) → List Nat → Except Err (Nat → Option (List Nat))
  | ti, [] => .ok ti
  | ti, t :: rest =>
    match ti t with
    | none => .error .fail
    | some l => dropIssuer i (if l.contains i then upd ti t (some (l.erase i)) else ti) rest

/-- `add_trusted_issuer` -/
def addIssuer (r : Reg) (i : Nat) (ts : List Nat) : Except Err Reg :=
  if !validTopicSet r ts then .error .fail
  else if r.issuers.length ≥ MAX_ISSUERS then .error .fail
  else if r.issuers.contains i then .error .fail
  else
    match pushIssuer i r.topicIssuers ts with
    | .error e => .error e
    | .ok ti => .ok { r with issuers := r.issuers ++ [i],
                             issuerTopics := upd r.issuerTopics i (some ts),
                             topicIssuers := ti }

/-- `remove_trusted_issuer` -/
def removeIssuer (r : Reg) (i : Nat) : Except Err Reg :=
  if r.issuers.contains i then
    match r.issuerTopics i with
    | none => .error .fail
    | some ts =>
      match dropIssuer i r.topicIssuers ts with
      | .error e => .error e
      | .ok ti => .ok { r with issuers := r.issuers.erase i,
                               issuerTopics := upd r.issuerTopics i none,
                               topicIssuers := ti }
  else .error .fail

/-- `update_issuer_claim_topics` -/
def updateIssuer (r : Reg) (i : Nat) (ts : List Nat) : Except Err Reg :=
  if !validTopicSet r ts then .error .fail
  else if !r.issuers.contains i then .error .fail
  else
    match r.issuerTopics i with
    | none => .error .fail
    | some old =>
      match dropIssuer i r.topicIssuers (old.filter (fun t => !ts.contains t)) with
      | .error e => .error e
      | .ok ti1 =>
        match pushIssuer i ti1 (ts.filter (fun t => !old.contains t)) with
        | .error e => .error e
        | .ok ti2 => .ok { r with issuerTopics := upd r.issuerTopics i (some ts), topicIssuers := ti2 }

/-- the state-changing entry points of the registry -/
inductive RegOp where
  | addTopic (t : Nat)
  | removeTopic (t : Nat)
  | addIssuer (i : Nat) (ts : List Nat)
  | removeIssuer (i : Nat)
  | updateIssuer (i : Nat) (ts : List Nat)
  deriving Repr

def RegOp.apply (r : Reg) : RegOp → Except Err Reg
  | .addTopic t => OZ.Identity.addTopic r t
  | .removeTopic t => OZ.Identity.removeTopic r t
  | .addIssuer i ts => OZ.Identity.addIssuer r i ts
  | .removeIssuer i => OZ.Identity.removeIssuer r i
  | .updateIssuer i ts => OZ.Identity.updateIssuer r i ts

/-- a history of registry operations; a rejected one is rolled back by the host -/
def regStep (r : Reg) (op : RegOp) : Reg :=
  match op.apply r with
  | .ok r' => r'
  | .error _ => r

def regReplay (ops : List RegOp) : Reg := ops.foldl regStep Reg.empty

/-! ### identity registry storage (only what the verifier reads, plus the writers of that entry) -/

structure Irs where
  identity : Nat → Option Nat        -- Identity(account)
  recoveredTo : Nat → Option Nat     -- RecoveredTo(old account)

def Irs.empty : Irs := ⟨fun _ => none, fun _ => none⟩

/-- `stored_identity` -/
def storedIdentity (s : Irs) (account : Nat) : Except Err Nat := ofOpt (s.identity account)

/-- `add_identity` (the harness always passes one valid country entry, so the country validations
pass; the profile entry is written and removed together with the identity entry) -/
def addIdentity (s : Irs) (account identity : Nat) : Except Err Irs :=
  if (s.recoveredTo account).isSome then .error .fail
  else if (s.identity account).isSome then .error .fail
  else .ok { s with identity := upd s.identity account (some identity) }

/-- `modify_identity` -/
def modifyIdentity (s : Irs) (account identity : Nat) : Except Err Irs :=
  match s.identity account with
  | none => .error .fail
  | some _ => .ok { s with identity := upd s.identity account (some identity) }

/-- `remove_identity` -/
def removeIdentity (s : Irs) (account : Nat) : Except Err Irs :=
  match s.identity account with
  | none => .error .fail
  | some _ => .ok { s with identity := upd s.identity account none }

/-- `recover_identity` -/
def recoverIdentity (s : Irs) (old new : Nat) : Except Err Irs :=
  if (s.recoveredTo new).isSome then .error .fail
  else
    match s.identity old with
    | none => .error .fail
    | some d =>
      if (s.identity new).isSome then .error .fail
      else .ok { identity := upd (upd s.identity new (some d)) old none,
                 recoveredTo := upd s.recoveredTo old (some new) }

end OZ.Identity
