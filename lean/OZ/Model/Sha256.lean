import OZ.Model.Base64Url
/-
SHA-256 (FIPS 180-4), executable, import-free (core Lean only). Used by the C17 driver to
recompute Merkle folds; validated against the Soroban host's `sha256` on every pair / leaf
hash issued in a correspondence run. No theorem unfolds it: the Merkle theorems quantify
over an abstract hash function.
-/
namespace OZ.Sha256
open OZ.B64

def K : Array UInt32 := #[
  0x428a2f98, 0x71374491, 0xb5c0fbcf, 0xe9b5dba5, 0x3956c25b, 0x59f111f1, 0x923f82a4, 0xab1c5ed5,
  0xd807aa98, 0x12835b01, 0x243185be, 0x550c7dc3, 0x72be5d74, 0x80deb1fe, 0x9bdc06a7, 0xc19bf174,
  0xe49b69c1, 0xefbe4786, 0x0fc19dc6, 0x240ca1cc, 0x2de92c6f, 0x4a7484aa, 0x5cb0a9dc, 0x76f988da,
  0x983e5152, 0xa831c66d, 0xb00327c8, 0xbf597fc7, 0xc6e00bf3, 0xd5a79147, 0x06ca6351, 0x14292967,
  0x27b70a85, 0x2e1b2138, 0x4d2c6dfc, 0x53380d13, 0x650a7354, 0x766a0abb, 0x81c2c92e, 0x92722c85,
  0xa2bfe8a1, 0xa81a664b, 0xc24b8b70, 0xc76c51a3, 0xd192e819, 0xd6990624, 0xf40e3585, 0x106aa070,
  0x19a4c116, 0x1e376c08, 0x2748774c, 0x34b0bcb5, 0x391c0cb3, 0x4ed8aa4a, 0x5b9cca4f, 0x682e6ff3,
  0x748f82ee, 0x78a5636f, 0x84c87814, 0x8cc70208, 0x90befffa, 0xa4506ceb, 0xbef9a3f7, 0xc67178f2]

@[inline] def rotr (x : UInt32) (n : UInt32) : UInt32 := (x >>> n) ||| (x <<< (32 - n))

/-- message ‖ 0x80 ‖ zeros ‖ 64-bit big-endian bit length, a multiple of 64 bytes -/
def pad (msg : Bytes) : Array UInt8 :=
  let n := msg.length
  let zeros := (119 - n % 64) % 64
  let bits := n * 8
  let lenBytes : List UInt8 := (List.range 8).map (fun i => UInt8.ofNat ((bits >>> (8 * (7 - i))) % 256))
  (msg ++ [0x80] ++ List.replicate zeros 0 ++ lenBytes).toArray

def word (b : Array UInt8) (i : Nat) : UInt32 :=
  (b[i]!.toUInt32 <<< 24) ||| (b[i+1]!.toUInt32 <<< 16) ||| (b[i+2]!.toUInt32 <<< 8) ||| b[i+3]!.toUInt32

/-- message schedule: W[t] for t = 16..63 appended to the 16 block words -/
def extend (w : Array UInt32) : Nat → Nat → Array UInt32
  | 0, _ => w
  | n + 1, t =>
    let w15 := w[t-15]!
    let w2 := w[t-2]!
    let s0 := rotr w15 7 ^^^ rotr w15 18 ^^^ (w15 >>> 3)
    let s1 := rotr w2 17 ^^^ rotr w2 19 ^^^ (w2 >>> 10)
    extend (w.push (w[t-16]! + s0 + w[t-7]! + s1)) n (t + 1)

def schedule (b : Array UInt8) (off : Nat) : Array UInt32 :=
  let w0 : Array UInt32 := (Array.mkEmpty 64)
    |>.push (word b off) |>.push (word b (off+4)) |>.push (word b (off+8)) |>.push (word b (off+12))
    |>.push (word b (off+16)) |>.push (word b (off+20)) |>.push (word b (off+24)) |>.push (word b (off+28))
    |>.push (word b (off+32)) |>.push (word b (off+36)) |>.push (word b (off+40)) |>.push (word b (off+44))
    |>.push (word b (off+48)) |>.push (word b (off+52)) |>.push (word b (off+56)) |>.push (word b (off+60))
  extend w0 48 16

/-- the eight working variables (unboxed words) -/
structure H8 where
  (a b c d e f g h : UInt32)

/-- `n` rounds starting at round `t` -/
def rounds (w : Array UInt32) : Nat → Nat → UInt32 → UInt32 → UInt32 → UInt32 → UInt32 → UInt32 → UInt32 → UInt32 → H8
  | 0, _, a, b, c, d, e, f, g, h => ⟨a, b, c, d, e, f, g, h⟩
  | n + 1, t, a, b, c, d, e, f, g, h =>
    let s1 := rotr e 6 ^^^ rotr e 11 ^^^ rotr e 25
    let ch := (e &&& f) ^^^ ((~~~ e) &&& g)
    let t1 := h + s1 + ch + K[t]! + w[t]!
    let s0 := rotr a 2 ^^^ rotr a 13 ^^^ rotr a 22
    let maj := (a &&& b) ^^^ (a &&& c) ^^^ (b &&& c)
    let t2 := s0 + maj
    rounds w n (t + 1) (t1 + t2) a b c (d + t1) e f g

def compress (h : H8) (b : Array UInt8) (off : Nat) : H8 :=
  let r := rounds (schedule b off) 64 0 h.a h.b h.c h.d h.e h.f h.g h.h
  ⟨h.a + r.a, h.b + r.b, h.c + r.c, h.d + r.d, h.e + r.e, h.f + r.f, h.g + r.g, h.h + r.h⟩

def blocks (b : Array UInt8) : Nat → Nat → H8 → H8
  | 0, _, h => h
  | n + 1, i, h => blocks b n (i + 1) (compress h b (64 * i))

def wordBytes (x : UInt32) : List UInt8 := [(x >>> 24).toUInt8, (x >>> 16).toUInt8, (x >>> 8).toUInt8, x.toUInt8]

def sha256 (msg : Bytes) : Bytes :=
  let b := pad msg
  let h := blocks b (b.size / 64) 0
    ⟨0x6a09e667, 0xbb67ae85, 0x3c6ef372, 0xa54ff53a, 0x510e527f, 0x9b05688c, 0x1f83d9ab, 0x5be0cd19⟩
  wordBytes h.a ++ wordBytes h.b ++ wordBytes h.c ++ wordBytes h.d ++
    wordBytes h.e ++ wordBytes h.f ++ wordBytes h.g ++ wordBytes h.h

end OZ.Sha256
