import OZ.Model.Access
/-
The C06 MONITOR on parsed values (the driver OZ/Drv/C06.lean parses the trace lines and calls
`checkCore`; it never calls the model's transition function). Kept apart from the driver so that
OZ/Props/C06Mon.lean can prove it SOUND: on the observations of the model itself the monitor
never reports a failure (`monitor_accepts_every_model_trace`), hence an implementation whose
observations agree with the model's cannot raise a monitor alarm. Import-free apart from the model.

Ghost state of the monitor (all fed with the IMPLEMENTATION's outcomes only):
  `g`      the plain set of (account, role) pairs granted and not since revoked (`OZ.Access.setStep`)
  `raG`    the role admins according to the log of accepted set_role_admin(_no_auth) /
           remove_role_admin_no_auth calls (`raStep`) — consulted only for roles the observation
           line does not display (role index ≥ R)
  `accts`  the accounts named by accepted grants (`acctStep`) — the universe over which
           "this role has a member" is evaluated, beside the displayed accounts 0..N-1
  `touched` roles ever named by a membership op.

Three conditions differ from the monitor as it was before the soundness proof (it raised FALSE
ALARMS on model traces that leave the harness's small universe, see `legacy…` below and
`legacy_monitor_false_alarm_*` in OZ/Props/C06Mon.lean); on traces within the universe
(accounts < N, no role admin configured for a role ≥ R) the verdicts are identical:
  * `membersDiffer`: an enumerated account need not be < N (it must be in the set);
  * `mayAdminister`: for a role ≥ R the role admin comes from the ghost log `raG` (it was "none");
  * `existingEmpty`: a listed role must have a member among the accounts 0..N-1 AND the
    accounts named by accepted grants (it was 0..N-1 only).
All `site=` tokens and messages are unchanged.
-/
namespace OZ.Access.Mon
open OZ.Host OZ.Access

def N : Nat := 5      -- accounts 0..N-1 are displayed (has_role index per account)
def R : Nat := 5      -- roles 0..R-1 are always displayed

def showOpt (o : Option Nat) : String := match o with | some a => toString a | none => "-"

/-! ### what the model driver prints (shared with the driver's `showState`) -/

def showListS (l : List String) : String :=
  if l.isEmpty then "-" else ",".intercalate l

def showMember (s : State) (r i : Nat) : String :=
  match getRoleMember s r i with | .ok a => toString a | .error _ => "?"

/-- `get_role_member(role, count)`: must fail (`F`); `S<a>` if it answers -/
def showOob (s : State) (r : Nat) : String :=
  match getRoleMember s r (cnt s r) with | .ok a => s!"S{a}" | .error _ => "F"

/-- one role block: count/members by index/index of accounts 0..N-1/oob -/
def showRole (s : State) (r : Nat) : String :=
  s!"{cnt s r}/{showListS ((List.range (cnt s r)).map (showMember s r))}/{",".intercalate ((List.range N).map (fun a => showOpt (hasRoleQ s a r)))}/{showOob s r}"

def showHolders (s : State) : String := s!"admin={showOpt (getAdmin s)} owner={showOpt s.own.holder}"

def showRoles (s : State) : String :=
  s!"ra={",".intercalate ((List.range R).map (fun r => showOpt (getRoleAdmin s r)))} roles={";".intercalate ((List.range R).map (showRole s))}"

def showExisting (s : State) : String := s!"ex={showListS ((getExistingRoles s).map toString)}"

/-- the persistent part of an observation line: everything but the tag, `now=`, `xr=`, `ev=`
(the words of the line the driver's `parseObs` keeps in `stateStr`, joined by one blank) -/
def persistStr (s : State) : String := s!"{showHolders s} {showRoles s} {showExisting s}"

/-! ### parsed observation -/

def accs : List Nat := List.range N

structure RoleObs where
  role : Nat
  count : Nat
  members : List (Option Nat)   -- get_role_member(role, 0..count-1), `none` = the getter failed
  idx : List (Option Nat)       -- has_role per account 0..N-1
  oob : String                  -- get_role_member(role, count): "F" = failed

structure Obs where
  ok : Bool
  admin : Option Nat
  owner : Option Nat
  ra : List (Option Nat)        -- role admins of roles 0..R-1
  roles : List RoleObs          -- roles 0..R-1, then the extra roles named by the op
  ex : List Nat
  stateStr : String             -- the persistent part: everything but the tag, `now=`, `xr=`, `ev=`

/-- the role block the model driver prints for role `r` of state `s` (`showRole`), as parsed values:
count, `get_role_member(r, i)` for i < count (`?` = failed = `none`), `has_role(a, r)` for the
accounts 0..N-1, and the answer of `get_role_member(r, count)` -/
def modelRole (s : State) (r : Nat) : RoleObs :=
  { role := r, count := cnt s r, members := members s r,
    idx := accs.map (fun a => hasRoleQ s a r), oob := showOob s r }

/-- the observation the model driver prints for state `s` (`showState` of OZ/Drv/C06.lean, with the
extra roles `xr` named by the op line), as the parsed values the driver's `parseObs` extracts from
that line: tag, `admin=`, `owner=`, `ra=` (roles 0..R-1), `roles=` (blocks of roles 0..R-1) followed
by the `xr=` blocks, `ex=`, and the persistent words of the line (`persistStr`) -/
def modelObs (s : State) (xr : List Nat) (ok : Bool) : Obs :=
  { ok := ok, admin := getAdmin s, owner := s.own.holder,
    ra := (List.range R).map (getRoleAdmin s),
    roles := (List.range R).map (modelRole s) ++ xr.map (modelRole s),
    ex := getExistingRoles s, stateStr := persistStr s }

structure Mon where
  g : PSet                     -- plain set of granted-not-revoked pairs (from accepted calls)
  touched : List Nat           -- roles ever named by a membership op (to check `ex` both ways)
  admin : Option Nat
  owner : Option Nat
  ra : List (Option Nat)
  stateStr : String
  first : Bool
  raG : Nat → Option Nat       -- ghost: role admins from the log of accepted calls
  accts : List Nat             -- ghost: accounts named by accepted grants

def inAuth (p : Option Nat) (auth : List Nat) : Bool :=
  match p with | some a => auth.contains a | none => false

/-- the admin role of `r` as far as the monitor knows it: the previously OBSERVED role admin for a
displayed role (index < R), the ghost log for the others -/
def roleAdminOf (m : Mon) (r : Nat) : Option Nat :=
  match m.ra[r]? with
  | some x => x
  | none => m.raG r

def holdsAdminRole (m : Mon) (r k : Nat) : Bool :=
  match roleAdminOf m r with
  | some ar => m.g k ar
  | none => false

/-- may `k` grant / revoke `r` according to the previously OBSERVED admin and role admins and
the plain membership set? -/
def mayAdminister (m : Mon) (r k : Nat) : Bool :=
  decide (m.admin = some k) || holdsAdminRole m r k

def anyOf (m : Mon) (k : Nat) (rs : List Nat) : Bool := rs.any (fun r => m.g k r)

/-! ### the verdict on one call -/

/-- a rejected call of an entitled caller to a guard-only entry point -/
def verdictRefused (m : Mon) (auth : List Nat) : Op → Option String
  | .adm .guarded => if inAuth m.admin auth then some "site=ac.only_admin.refused the admin authorized but was refused" else none
  | .own .guarded => if inAuth m.owner auth then some "site=ac.only_owner.refused the owner authorized but was refused" else none
  | .onlyRole k r b => if m.g k r ∧ auth.contains k ∧ b then some "site=ac.only_role.refused a role holder authorized but was refused" else none
  | .hasRole k r ba b => if m.g k r ∧ (¬ ba ∨ auth.contains k) ∧ b then some "site=ac.has_role.refused a role holder was refused by a #[has_role] function" else none
  | .hasAnyRole k rs ba => if anyOf m k rs ∧ (¬ ba ∨ auth.contains k) then some "site=ac.has_any_role.refused a role holder was refused by a #[has_any_role] function" else none
  | .onlyAnyRole k rs => if anyOf m k rs ∧ auth.contains k then some "site=ac.only_any_role.refused a role holder authorized but was refused" else none
  | .ensureAdminOrRole r k => if mayAdminister m r k then some "site=ac.ensure_admin_or_role.refused the admin / a role-admin holder was refused" else none
  | _ => none

def verdictRejected (m : Mon) (auth : List Nat) (op : Op) (o : Obs) : Option String :=
  if ¬ m.first ∧ o.stateStr ≠ m.stateStr then some "site=ac.rollback a rejected call changed the observable state"
  else verdictRefused m auth op

def verdictGrant (m : Mon) (auth : List Nat) (a r k : Nat) : Option String :=
  if ¬ auth.contains k then some s!"site=ac.grant.no-auth grant({a},{r}) accepted without the caller {k} authorizing"
  else if ¬ mayAdminister m r k then some s!"site=ac.grant.unauthorized grant({a},{r}) accepted from {k}, neither admin nor holder of the role's admin role"
  else none

def verdictRevoke (m : Mon) (auth : List Nat) (a r k : Nat) : Option String :=
  if ¬ auth.contains k then some s!"site=ac.revoke.no-auth revoke({a},{r}) accepted without the caller {k} authorizing"
  else if ¬ mayAdminister m r k then some s!"site=ac.revoke.unauthorized revoke({a},{r}) accepted from {k}, neither admin nor holder of the role's admin role"
  else if ¬ m.g a r then some "site=ac.revoke.nonmember revoke of a pair that was not granted accepted"
  else none

def verdictRenounce (m : Mon) (auth : List Nat) (r k : Nat) : Option String :=
  if ¬ auth.contains k then some s!"site=ac.renounce.no-auth renounce({r}) accepted without its holder {k} authorizing"
  else if ¬ m.g k r then some "site=ac.renounce.nonmember renounce of a role not held accepted"
  else none

def verdictRevokeNoAuth (m : Mon) (a r : Nat) : Option String :=
  if ¬ m.g a r then some "site=ac.revoke.nonmember revoke of a pair that was not granted accepted" else none

def verdictSetRoleAdmin (m : Mon) (auth : List Nat) : Option String :=
  if ¬ inAuth m.admin auth then some "site=ac.set_role_admin.unauthorized set_role_admin accepted without the admin's authorization" else none

/-- accepted calls to the admin machine -/
def verdictAdm (m : Mon) (auth : List Nat) : OZ.RoleTransfer.Op → Option String
  | .guarded => if ¬ inAuth m.admin auth then some "site=ac.only_admin.unauthorized an #[only_admin] function ran without the admin's authorization" else none
  | .offer _ _ => if ¬ inAuth m.admin auth then some "site=ac.admin.offer.unauthorized admin transfer initiated without the admin's authorization" else none
  | .renounce => if ¬ inAuth m.admin auth then some "site=ac.admin.renounce.unauthorized" else none
  | _ => none

/-- accepted calls to the owner machine -/
def verdictOwn (m : Mon) (auth : List Nat) : OZ.RoleTransfer.Op → Option String
  | .guarded => if ¬ inAuth m.owner auth then some "site=ac.only_owner.unauthorized an #[only_owner] function ran without the owner's authorization" else none
  | .offer _ _ => if ¬ inAuth m.owner auth then some "site=ac.owner.offer.unauthorized ownership transfer initiated without the owner's authorization" else none
  | .renounce => if ¬ inAuth m.owner auth then some "site=ac.owner.renounce.unauthorized" else none
  | _ => none

def verdictOnlyRole (m : Mon) (auth : List Nat) (k r : Nat) : Option String :=
  if ¬ m.g k r then some s!"site=ac.only_role.no-role an #[only_role] function ran for {k} who does not hold role {r}"
  else if ¬ auth.contains k then some "site=ac.only_role.no-auth an #[only_role] function ran without the caller authorizing" else none

def verdictHasRole (m : Mon) (auth : List Nat) (k r : Nat) (ba : Bool) : Option String :=
  if ¬ m.g k r then some s!"site=ac.has_role.no-role a #[has_role] function ran for {k} who does not hold role {r}"
  else if ba ∧ ¬ auth.contains k then some "site=ac.has_role.body-auth the body's require_auth was passed without authorization" else none

def verdictHasAnyRole (m : Mon) (auth : List Nat) (k : Nat) (rs : List Nat) (ba : Bool) : Option String :=
  if ¬ anyOf m k rs then some s!"site=ac.has_any_role.no-role a #[has_any_role] function ran for {k} who holds none of the roles"
  else if ba ∧ ¬ auth.contains k then some "site=ac.has_any_role.body-auth the body's require_auth was passed without authorization" else none

def verdictOnlyAnyRole (m : Mon) (auth : List Nat) (k : Nat) (rs : List Nat) : Option String :=
  if ¬ anyOf m k rs then some s!"site=ac.only_any_role.no-role an #[only_any_role] function ran for {k} who holds none of the roles"
  else if ¬ auth.contains k then some "site=ac.only_any_role.no-auth an #[only_any_role] function ran without the caller authorizing" else none

def verdictEnsure (m : Mon) (r k : Nat) : Option String :=
  if ¬ mayAdminister m r k then some "site=ac.ensure_admin_or_role.unauthorized ensure_if_admin_or_admin_role passed for an account that is neither" else none

/-- nothing that must persist (membership, indices, counts, role admins, existing roles, admin,
owner) may change while nobody touches the contract -/
def verdictAdvance (m : Mon) (n : Nat) (o : Obs) : Option String :=
  if ¬ m.first ∧ o.stateStr ≠ m.stateStr then
    some s!"site=ac.idle.lost persistent state changed by the mere passage of {n} ledgers: {m.stateStr} -> {o.stateStr}"
  else none

def verdictAccepted (m : Mon) (auth : List Nat) (op : Op) (o : Obs) : Option String :=
  match op with
  | .grant a r k => verdictGrant m auth a r k
  | .revoke a r k => verdictRevoke m auth a r k
  | .renounce r k => verdictRenounce m auth r k
  | .revokeNoAuth a r _ => verdictRevokeNoAuth m a r
  | .setRoleAdmin _ _ => verdictSetRoleAdmin m auth
  | .adm rt => verdictAdm m auth rt
  | .own rt => verdictOwn m auth rt
  | .onlyRole k r _ => verdictOnlyRole m auth k r
  | .hasRole k r ba _ => verdictHasRole m auth k r ba
  | .hasAnyRole k rs ba => verdictHasAnyRole m auth k rs ba
  | .onlyAnyRole k rs => verdictOnlyAnyRole m auth k rs
  | .ensureAdminOrRole r k => verdictEnsure m r k
  | .advance n => verdictAdvance m n o
  | _ => none

/-- the property's conclusion for one accepted / rejected call, on observed values only -/
def verdict (m : Mon) (auth : List Nat) (op : Op) (o : Obs) : Option String :=
  if ¬ o.ok then verdictRejected m auth op o else verdictAccepted m auth op o

/-! ### holders change only by their own handshake; once renounced, nobody holds again -/

def isAdmHandover : Op → Bool
  | .adm .accept | .adm .renounce => true
  | _ => false
def isOwnHandover : Op → Bool
  | .own .accept | .own .renounce => true
  | _ => false

def holderCheck (m : Mon) (op : Op) (o : Obs) : Option String :=
  if o.admin ≠ m.admin ∧ ¬ (o.ok ∧ isAdmHandover op) then
    some s!"site=ac.admin.changed the admin changed {showOpt m.admin} -> {showOpt o.admin} outside accept / renounce"
  else if o.owner ≠ m.owner ∧ ¬ (o.ok ∧ isOwnHandover op) then
    some s!"site=ac.owner.changed the owner changed {showOpt m.owner} -> {showOpt o.owner} outside accept / renounce"
  else if m.admin = none ∧ o.admin ≠ none then some "site=ac.admin.resurrected an admin appeared after the admin was renounced"
  else if m.owner = none ∧ o.owner ≠ none then some "site=ac.owner.resurrected an owner appeared after ownership was renounced"
  else none

/-! ### the getters answer exactly as the plain set of granted-not-revoked pairs -/

def nodupB (l : List Nat) : Bool := l.eraseDups.length = l.length

/-- the accounts the enumeration returned -/
def memOf (ro : RoleObs) : List Nat := ro.members.filterMap id

def idxAt (ro : RoleObs) (a : Nat) : Option Nat := ro.idx[a]?.getD none

def hasRoleDiffers (g : PSet) (ro : RoleObs) : Bool :=
  accs.any (fun a => (idxAt ro a).isSome != g a ro.role)

/-- an enumerated account is not in the set, or a displayed account of the set is not enumerated -/
def membersDiffer (g : PSet) (ro : RoleObs) : Bool :=
  (memOf ro).any (fun a => ! g a ro.role) || accs.any (fun a => g a ro.role && ! (memOf ro).contains a)

def indexWrong (ro : RoleObs) : Bool :=
  accs.any (fun a => match idxAt ro a with | some i => (memOf ro)[i]? != some a | none => false)

/-- refinement check of one displayed role against the plain set -/
def checkRole (g : PSet) (ex : List Nat) (ro : RoleObs) : Option String :=
  if (memOf ro).length ≠ ro.members.length then some s!"site=ac.enum.gap role {ro.role}: get_role_member fails below the count"
  else if ro.members.length ≠ ro.count then some s!"site=ac.enum.count role {ro.role}: count {ro.count} but {ro.members.length} members"
  else if ¬ nodupB (memOf ro) then some s!"site=ac.enum.dup role {ro.role}: an account is enumerated twice: {memOf ro}"
  else if ro.oob ≠ "F" then some s!"site=ac.enum.oob role {ro.role}: get_role_member(count) answered {ro.oob}"
  else if hasRoleDiffers g ro then
    some s!"site=ac.set.has_role role {ro.role}: has_role differs from the granted-not-revoked set"
  else if membersDiffer g ro then
    some s!"site=ac.set.members role {ro.role}: enumerated members {memOf ro} differ from the granted-not-revoked set"
  else if indexWrong ro then
    some s!"site=ac.enum.index role {ro.role}: has_role index does not point at the account"
  else if (ex.contains ro.role) != decide (ro.count > 0) then
    some s!"site=ac.existing role {ro.role}: listed in existing roles = {ex.contains ro.role} but count = {ro.count}"
  else none

/-- the first failure over a list -/
def firstFail {α} (f : α → Option String) : List α → Option String
  | [] => none
  | x :: xs => match f x with
    | some e => some e
    | none => firstFail f xs

/-- the accounts over which "the role has a member" is evaluated -/
def univ (accts : List Nat) : List Nat := accs ++ accts

/-- a listed role has no member -/
def existingEmpty (g : PSet) (accts ex : List Nat) : Bool :=
  ex.any (fun r => ! (univ accts).any (fun a => g a r))

/-- a touched role with a (displayed) member is not listed -/
def existingMissing (g : PSet) (touched ex : List Nat) : Bool :=
  touched.any (fun r => accs.any (fun a => g a r) && ! ex.contains r)

def existingCheck (g : PSet) (touched accts ex : List Nat) : Option String :=
  if ¬ nodupB ex then some "site=ac.existing.dup a role is listed twice in existing roles"
  else if ex.length > 256 then some "site=ac.existing.max more than MAX_ROLES existing roles"
  else if existingEmpty g accts ex then some "site=ac.existing.empty a role without members is listed in existing roles"
  else if existingMissing g touched ex then
    some "site=ac.existing.missing a role with members is missing from existing roles"
  else none

/-! ### ghost bookkeeping -/

def roleOfOp : Op → Option Nat
  | .grant _ r _ | .revoke _ r _ | .grantNoAuth _ r _ | .revokeNoAuth _ r _ | .renounce r _ => some r
  | _ => none

def touchStep (touched : List Nat) (op : Op) : List Nat :=
  match roleOfOp op with
  | some r => if touched.contains r then touched else r :: touched
  | none => touched

/-- role admins according to the log of accepted calls -/
def raStep (g : Nat → Option Nat) (op : Op) (accepted : Bool) : Nat → Option Nat :=
  if accepted then
    match op with
    | .setRoleAdmin r ar => upd g r (some ar)
    | .setRoleAdminNoAuth r ar => upd g r (some ar)
    | .removeRoleAdminNoAuth r => upd g r none
    | _ => g
  else g

def addAcct (accts : List Nat) (a : Nat) : List Nat := if accts.contains a then accts else a :: accts

/-- accounts named by accepted grants -/
def acctStep (accts : List Nat) (op : Op) (accepted : Bool) : List Nat :=
  if accepted then
    match op with
    | .grant a _ _ => addAcct accts a
    | .grantNoAuth a _ _ => addAcct accts a
    | _ => accts
  else accts

def firstSome (a b : Option String) : Option String :=
  match a with
  | some x => some x
  | none => b

/-- the monitor's step on parsed values: the verdict on this call, the holder checks, the
refinement of every displayed role and of the existing-roles list against the new plain set,
and the new monitor state -/
def checkCore (m : Mon) (auth : List Nat) (op : Op) (o : Obs) : Mon × Option String :=
  ({ m with g := setStep m.g op o.ok, touched := touchStep m.touched op, admin := o.admin, owner := o.owner,
            ra := o.ra, stateStr := o.stateStr, first := false,
            raG := raStep m.raG op o.ok, accts := acctStep m.accts op o.ok },
   firstSome (verdict m auth op o)
     (firstSome (holderCheck m op o)
       (firstSome (firstFail (checkRole (setStep m.g op o.ok) o.ex) o.roles)
         (existingCheck (setStep m.g op o.ok) (touchStep m.touched op) (acctStep m.accts op o.ok) o.ex))))

/-- the monitor's initial state for a sequence (what the driver's `minit` builds from the label) -/
def monInit (admin owner : Option Nat) : Mon :=
  { g := fun _ _ => false, touched := [], admin := admin, owner := owner,
    ra := List.replicate R none, stateStr := "", first := true, raG := fun _ => none, accts := [] }

/-! ### the three conditions as they were before the soundness proof (kept for the record:
`legacy_monitor_false_alarm_*` in OZ/Props/C06Mon.lean show that each fires on a model trace) -/

/-- `site=ac.set.members`, first half: an enumerated account had to be one of 0..N-1 -/
def legacyMembersDiffer (g : PSet) (ro : RoleObs) : Bool :=
  (memOf ro).any (fun a => ! (decide (a < N) && g a ro.role)) || accs.any (fun a => g a ro.role && ! (memOf ro).contains a)

/-- `site=ac.grant.unauthorized` etc.: roles ≥ R had no role admin for the monitor -/
def legacyMayAdminister (m : Mon) (r k : Nat) : Bool :=
  decide (m.admin = some k) ||
  (match m.ra[r]? with
   | some (some ar) => m.g k ar
   | _ => false)

/-- `site=ac.existing.empty`: members were looked for among 0..N-1 only -/
def legacyExistingEmpty (g : PSet) (ex : List Nat) : Bool :=
  ex.any (fun r => ! accs.any (fun a => g a r))

end OZ.Access.Mon
