/-
Shared host model (DESIGN.md section 4). Import-free.

* addresses are natural numbers (the harness keeps the bijection to real `Address`es);
* `i128` values are `Int` + explicit range checks (the workspace builds with
  `overflow-checks = true`, so an unchecked overflow is a panic = an error);
* an operation returns `Except Err State`; on `.error` the caller keeps the old state
  (the host rolls a failed invocation back);
* `require_auth a` succeeds iff `a ∈ auth`, the list of addresses authorizing the call;
* temporary entries carry the ledger up to which the host keeps them alive.
-/
namespace OZ.Host

def I128_MIN : Int := -170141183460469231731687303715884105728
def I128_MAX : Int := 170141183460469231731687303715884105727
@[reducible] def in128 (x : Int) : Prop := I128_MIN ≤ x ∧ x ≤ I128_MAX
def U32_MAX : Nat := 4294967295

/-- ledger configuration of the host: minimum lifetime of a new temporary entry and the
maximum lifetime any entry may be extended to (`max_entry_ttl`) -/
structure Cfg where
  minTempTtl : Nat
  maxTtl : Nat
  deriving Repr

/-- `e.ledger().max_live_until_ledger()` -/
def Cfg.maxLiveUntil (c : Cfg) (now : Nat) : Nat := now + c.maxTtl - 1

/-- a temporary storage entry: its value and the last ledger at which it is still live -/
structure Temp (α : Type) where
  val : α
  liveUntil : Nat

namespace Temp
variable {α : Type}

/-- `storage().temporary().get`: an expired entry reads as absent -/
def get? (t : Option (Temp α)) (now : Nat) : Option α :=
  match t with
  | some e => if now ≤ e.liveUntil then some e.val else none
  | none => none

/-- `storage().temporary().set`: a live entry keeps its lifetime, otherwise a fresh entry
lives `minTempTtl` ledgers (`liveUntil = now + minTempTtl - 1`) -/
def set (c : Cfg) (t : Option (Temp α)) (now : Nat) (v : α) : Temp α :=
  match t with
  | some e => if now ≤ e.liveUntil then { e with val := v } else ⟨v, now + c.minTempTtl - 1⟩
  | none => ⟨v, now + c.minTempTtl - 1⟩

/-- `storage().temporary().extend_ttl(key, threshold, extend_to)` on a live entry.
`none` = host error (threshold > extend_to, or the new lifetime exceeds the maximum). -/
def extend (c : Cfg) (e : Temp α) (now thr ext : Nat) : Option (Temp α) :=
  if thr > ext then none
  else
    let new := now + ext
    if new > c.maxLiveUntil now then none
    else if new > e.liveUntil ∧ e.liveUntil - now ≤ thr then some { e with liveUntil := new }
    else some e

end Temp

/-- pointwise update of a total map -/
def upd {β : Type} (f : Nat → β) (a : Nat) (v : β) : Nat → β := fun x => if x = a then v else f x
def upd2 {β : Type} (f : Nat → Nat → β) (a b : Nat) (v : β) : Nat → Nat → β :=
  fun x y => if x = a ∧ y = b then v else f x y

end OZ.Host
