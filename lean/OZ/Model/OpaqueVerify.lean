import OZ.Model.RegTopics
/-
Model and monitor for the identity verifier over issuers OUTSIDE the library's helper pipeline
(harness/src/bin/c15raw.rs): a conforming claim issuer that confirms a claim by its own table of (topic, data) pairs.
Claim data is opaque here — a small "kind" number stands for the byte string — because nothing but the issuer's
answer may depend on it.

The registry is the hand model of OZ/Model/RegTopics.lean; on top of it the issuer tables, the claims of the one
identity (at most one per (issuer, topic): the claim id is a hash of the two) and
  verifyM: for every registered topic, the list of its trusted issuers is not empty and one of them has issued a
           claim for that topic that it confirms right now.
Monitor: a ghost copy of the state advanced by the calls the IMPLEMENTATION accepted; on every observation
`verify_identity` must succeed exactly when `verifyM` holds of the ghost (`site=identity.opaque.verify`).
Import-free apart from the registry model.
-/
namespace OZ.OpaqueVerify
open OZ.Reg OZ.RegTopics

structure State where
  reg : RegTopics.State
  confirmed : List (Nat × Nat × Nat)     -- (issuer, topic, data kind) the issuer confirms
  claims : List (Nat × Nat × Nat)        -- (issuer, topic, data kind) held by the identity
  ts : Nat

def init (ts : Nat) : State := ⟨RegTopics.init, [], [], ts⟩

inductive Op where
  | topic (t : Nat) (on : Bool)
  | trust (i : Nat) (ts : List Nat)
  | confirm (i t k : Nat) (ok : Bool)
  | claim (i t k : Nat)
  | unclaim (i t : Nat)
  | time (ts : Nat)
  | verify
  deriving DecidableEq, Repr

def hasClaim (s : State) (i t : Nat) : Bool := s.claims.any (fun c => c.1 == i && c.2.1 == t)

/-- issuer `i` holds a claim of the identity for topic `t` and confirms it -/
def counts (s : State) (i t : Nat) : Bool :=
  s.claims.any (fun c => c.1 == i && c.2.1 == t && s.confirmed.contains c)

/-- `verify_identity` -/
def verifyM (s : State) : Bool :=
  match getClaimTopicsAndIssuers s.reg with
  | none => false
  | some l => l.all (fun p => !p.2.isEmpty && p.2.any (fun i => counts s i p.1))

def regOp (s : State) (i : Nat) (ts : List Nat) : RegTopics.Op :=
  if ts.isEmpty then .removeIssuer i else if s.reg.issuers.contains i then .update i ts else .addIssuer i ts

def apply (s : State) : Op → Option State
  | .topic t on =>
    match RegTopics.step s.reg (if on then .addTopic t else .removeTopic t) with
    | .ok r => some { s with reg := r }
    | .error _ => none
  | .trust i ts =>
    match RegTopics.step s.reg (regOp s i ts) with
    | .ok r => some { s with reg := r }
    | .error _ => none
  | .confirm i t k ok =>
    some { s with confirmed := if ok then (if s.confirmed.contains (i, t, k) then s.confirmed else (i, t, k) :: s.confirmed)
                                else s.confirmed.filter (fun c => c ≠ (i, t, k)) }
  | .claim i t k =>
    if s.confirmed.contains (i, t, k) then
      some { s with claims := (i, t, k) :: s.claims.filter (fun c => !(c.1 == i && c.2.1 == t)) }
    else none
  | .unclaim i t =>
    if hasClaim s i t then some { s with claims := s.claims.filter (fun c => !(c.1 == i && c.2.1 == t)) } else none
  | .time ts => some { s with ts := ts }
  | .verify => if verifyM s then some s else none

/-- a failed invocation is rolled back by the host -/
def step (s : State) (op : Op) : State := (apply s op).getD s

/-! ### monitor -/

structure Obs where
  ok : Bool
  ver : Bool
  deriving DecidableEq, Repr

/-- the ghost follows the calls the implementation accepted -/
def ghostStep (g : State) (op : Op) (accepted : Bool) : State := if accepted then step g op else g

def checkCore (g : State) (op : Op) (o : Obs) : State × Option String :=
  let g' := ghostStep g op o.ok
  (g', if o.ver ≠ verifyM g' then
         some s!"site=identity.opaque.verify verify_identity {if o.ver then "succeeds" else "fails"} but (every required topic has a trusted issuer whose claim for it the issuer confirms) is {verifyM g'}"
       else none)

/-- the observation the model driver prints -/
def modelObs (s : State) (ok : Bool) : Obs := ⟨ok, verifyM s⟩

end OZ.OpaqueVerify
