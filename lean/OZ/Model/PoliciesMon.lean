import OZ.Model.Policies
/-
The C14 MONITOR on parsed values, and the model side of the C14 driver on parsed values.

The driver OZ/Drv/C14.lean parses the trace lines (`parseOp`, `parseObs`) and calls `mstep` (the
model: which of the three policies, which entry point) and `checkCore` (the monitor; it never
calls the model's transition functions). Both live here, apart from the driver, so that
OZ/Props/C14Mon.lean can prove the monitor SOUND: fed with the observations of the model itself
the monitor never reports a failure (`monitor_accepts_every_model_trace`), hence an
implementation whose observations agree with the model's cannot raise a monitor alarm.
Imports the model only. No string parsing in here: the strings that remain are printed texts
that are only compared (`res`, `ev`, `dem`, the three state sections `stateStr`, the context
word `ctxS` inside the can_enforce key), the printing of the model side, and message texts.
-/
namespace OZ.Policies.Mon
open OZ.Host OZ.Policies

/-- the observed universe: smart accounts 0..NA-1, context rule ids 0..NR-1 -/
def NA : Nat := 2
def NR : Nat := 2
def keys : List (Nat × Nat) := (List.range NA).flatMap (fun a => (List.range NR).map (fun r => (a, r)))

/-! ### op lines, parsed -/

inductive Pol
  | s | w | l
  deriving DecidableEq, Repr

/-- first letter of the entry point name -/
def Pol.letter : Pol → String
  | .s => "s"
  | .w => "w"
  | .l => "l"

/-- the sixteen entry points (`pol <kind> …`) -/
inductive Kind
  | sInstall | sSet | sUninstall | sEnforce | sCan
  | wInstall | wSetThr | wSetWeight | wUninstall | wEnforce | wCan
  | lInstall | lSetLimit | lUninstall | lEnforce | lCan
  deriving DecidableEq, Repr

def Kind.name : Kind → String
  | .sInstall => "s_install" | .sSet => "s_set" | .sUninstall => "s_uninstall"
  | .sEnforce => "s_enforce" | .sCan => "s_can"
  | .wInstall => "w_install" | .wSetThr => "w_set_thr" | .wSetWeight => "w_set_weight"
  | .wUninstall => "w_uninstall" | .wEnforce => "w_enforce" | .wCan => "w_can"
  | .lInstall => "l_install" | .lSetLimit => "l_set_limit" | .lUninstall => "l_uninstall"
  | .lEnforce => "l_enforce" | .lCan => "l_can"

def Kind.pol : Kind → Pol
  | .sInstall | .sSet | .sUninstall | .sEnforce | .sCan => .s
  | .wInstall | .wSetThr | .wSetWeight | .wUninstall | .wEnforce | .wCan => .w
  | .lInstall | .lSetLimit | .lUninstall | .lEnforce | .lCan => .l

/-- the name ends with `_can` -/
def Kind.isCan : Kind → Bool
  | .sCan | .wCan | .lCan => true
  | _ => false

/-- the name ends with `_enforce` -/
def Kind.isEnforce : Kind → Bool
  | .sEnforce | .wEnforce | .lEnforce => true
  | _ => false

/-- an op line `pol <kind> a=.. r=.. rs=.. thr=.. w=.. sgn=.. wt=.. lim=.. per=.. ctx=.. sg=.. auth=..`
with its fields parsed. The context word gives four fields: the word itself (`ctxS`, only compared),
the context the model is given (`ctx`), and what the monitor reads off the word: does it announce
a transfer (`isTransfer`: `t:` / `x:` / `s:`) and of which amount (`amount`). -/
structure POp where
  kind : Kind
  a : Nat
  r : Nat
  rs : List Nat
  thr : Nat
  w : List (Nat × Nat)
  sgn : Nat
  wt : Nat
  lim : Int
  per : Nat
  ctxS : String
  ctx : Ctx
  isTransfer : Bool
  amount : Int
  sg : List Nat
  auth : List Nat

/-- a `>` line as the model sees it: `pol idle n=K`, `pol adv n=K`, or a call -/
inductive Line
  | idle (n : Nat)
  | adv (n : Nat)
  | call (p : POp)

/-- a `>` line as the monitor sees it (it does not look at the distance of a ledger move) -/
inductive MOp
  | idle
  | adv
  | call (p : POp)

def Line.mop : Line → MOp
  | .idle _ => .idle
  | .adv _ => .adv
  | .call p => .call p

/-! ### the model side of a sequence -/

structure M where
  s : Simple.State
  w : Weighted.State
  l : Spend.State

/-- what the driver's `init` builds from the label (`start=`) -/
def M.init (start : Nat) : M := { s := Simple.init, w := Weighted.init, l := Spend.init start }

def rule (p : POp) : Rule := ⟨p.r, p.rs⟩

def liftS (m : M) (r : Except Err Simple.State) : Except Err M :=
  match r with
  | .ok s' => .ok { m with s := s' }
  | .error e => .error e

def liftW (m : M) (r : Except Err Weighted.State) : Except Err M :=
  match r with
  | .ok s' => .ok { m with w := s' }
  | .error e => .error e

def liftL (m : M) (r : Except Err Spend.State) : Except Err M :=
  match r with
  | .ok s' => .ok { m with l := s' }
  | .error e => .error e

/-- a state-changing entry point on the model (the three `_can` kinds are queries: see `canM`) -/
def applyM (m : M) (p : POp) : Except Err M :=
  match p.kind with
  | .sInstall => liftS m (Simple.install m.s p.auth p.thr (rule p) p.a)
  | .sSet => liftS m (Simple.setThreshold m.s p.auth p.thr (rule p) p.a)
  | .sUninstall => liftS m (Simple.uninstall m.s p.auth (rule p) p.a)
  | .sEnforce => liftS m (Simple.enforce m.s p.auth p.ctx p.sg (rule p) p.a)
  | .wInstall => liftW m (Weighted.install m.w p.auth p.w p.thr (rule p) p.a)
  | .wSetThr => liftW m (Weighted.setThreshold m.w p.auth p.thr (rule p) p.a)
  | .wSetWeight => liftW m (Weighted.setSignerWeight m.w p.auth p.sgn p.wt (rule p) p.a)
  | .wUninstall => liftW m (Weighted.uninstall m.w p.auth (rule p) p.a)
  | .wEnforce => liftW m (Weighted.enforce m.w p.auth p.ctx p.sg (rule p) p.a)
  | .lInstall => liftL m (Spend.install m.l p.auth p.lim p.per (rule p) p.a)
  | .lSetLimit => liftL m (Spend.setSpendingLimit m.l p.auth p.lim (rule p) p.a)
  | .lUninstall => liftL m (Spend.uninstall m.l p.auth (rule p) p.a)
  | .lEnforce => liftL m (Spend.enforce m.l p.auth p.ctx p.sg (rule p) p.a)
  | .sCan => .ok m
  | .wCan => .ok m
  | .lCan => .ok m

/-- `can_enforce` of the policy of this op line on the model -/
def canM (m : M) (p : POp) : Except Err Bool :=
  match p.kind.pol with
  | .s => .ok (Simple.canEnforce m.s p.ctx p.sg (rule p) p.a)
  | .w => Weighted.canEnforce m.w p.ctx p.sg (rule p) p.a
  | .l => Spend.canEnforce m.l p.ctx p.sg (rule p) p.a

/-! ### printing the model state (the driver prints exactly these) -/

def joinOr (sep : String) (l : List String) : String := if l.isEmpty then "-" else sep.intercalate l

def showS (s : Simple.State) : String :=
  joinOr ";" (keys.filterMap (fun (a, r) => (s.thr a r).map (fun t => s!"{a}:{r}:{t}")))

def showW (s : Weighted.State) : String :=
  joinOr ";" (keys.filterMap (fun (a, r) => (s.par a r).map (fun p =>
    s!"{a}:{r}:{p.threshold}:{joinOr "," (p.weights.map (fun (k, w) => s!"{k}={w}"))}")))

def showL (s : Spend.State) : String :=
  joinOr ";" (keys.filterMap (fun (a, r) => (s.store a r).map (fun d =>
    s!"{a}:{r}:{d.limit}:{d.period}:{d.cached}:{joinOr "," (d.history.map (fun e => s!"{e.amount}@{e.ledger}"))}")))

/-- the three state sections of an observation line as one text (compared only) -/
def stateFmt (sS sW sL : String) : String := s!"S={sS} W={sW} L={sL}"

def stateStr (m : M) : String := stateFmt (showS m.s) (showW m.w) (showL m.l)

/-- the state sections when nothing is installed -/
def blankState : String := stateFmt "-" "-" "-"

def showSimpleEv : Simple.Event → String
  | .enforced a r sg => s!"S:{a}:{r}:{sg.length}"
def showWeightedEv : Weighted.Event → String
  | .enforced a r sg => s!"W:{a}:{r}:{sg.length}"
def showSpendEv : Spend.Event → String
  | .enforced a r amt tot => s!"L:{a}:{r}:{amt}:{tot}"

/-- the events a call of policy `pol` appended -/
def evStr (pol : Pol) (m m' : M) : String :=
  match pol with
  | .s => joinOr ";" ((m'.s.events.drop m.s.events.length).map showSimpleEv)
  | .w => joinOr ";" ((m'.w.events.drop m.w.events.length).map showWeightedEv)
  | .l => joinOr ";" ((m'.l.events.drop m.l.events.length).map showSpendEv)

/-- what the model prints beside the state: tag (`ok` | `no` | `err`), `r=`, `ev=`, `dem=` -/
structure Out where
  tag : String
  res : String
  ev : String
  dem : String

def canOut (m : M) (r : Except Err Bool) : M × Out :=
  match r with
  | .ok true => (m, ⟨"ok", "true", "-", "-"⟩)
  | .ok false => (m, ⟨"no", "false", "-", "-"⟩)
  | .error _ => (m, ⟨"err", "trap", "-", "-"⟩)

def applyOut (m : M) (p : POp) (r : Except Err M) : M × Out :=
  match r with
  | .ok m' => (m', ⟨"ok", "-", evStr p.kind.pol m m', toString p.a⟩)
  | .error _ => (m, ⟨"err", "-", "-", "-"⟩)

/-- one call on the model: a rejected call is rolled back, a query never changes anything -/
def mstepCall (m : M) (p : POp) : M × Out :=
  if p.kind.isCan then canOut m (canM m p) else applyOut m p (applyM m p)

/-- a ledger move is nothing but a new `now` for the model: persistent state stays -/
def advance (m : M) (k : Nat) : M := { m with l := { m.l with now := m.l.now + k } }

/-- one `>` line on the model -/
def mstep (m : M) : Line → M × Out
  | .idle k => (advance m k, ⟨"ok", "-", "-", "-"⟩)
  | .adv k => (advance m k, ⟨"ok", "-", "-", "-"⟩)
  | .call p => mstepCall m p

/-! ### the monitor (implementation observations only) -/

structure WObs where
  a : Nat
  r : Nat
  thr : Nat
  ws : List (Nat × Nat)

structure LObs where
  a : Nat
  r : Nat
  lim : Int
  per : Nat
  cached : Int
  hist : List (Int × Nat)

/-- one observation line, parsed: `ok` = the tag is `ok`; `S`, `W`, `L` = the three getters over
the universe; the texts `res`, `ev`, `dem`, `stateStr` are only compared -/
structure Obs where
  ok : Bool
  res : String
  S : List (Nat × Nat × Nat)
  W : List WObs
  L : List LObs
  now : Nat
  ev : String
  dem : String
  stateStr : String

/-- an accepted spend as the monitor saw it: account, rule, amount, ledger, limit in force, period -/
structure Spent where
  a : Nat
  r : Nat
  amount : Int
  ledger : Nat
  limit : Int
  period : Nat
  deriving DecidableEq, Repr

/-- the arguments of a can_enforce / enforce pair (`ctxS`: the context word as printed; `ctx`
is a function of it) -/
structure CanKey where
  pol : Pol
  a : Nat
  r : Nat
  rs : List Nat
  ctxS : String
  ctx : Ctx
  sg : List Nat
  deriving DecidableEq

structure Mon where
  prev : Option Obs
  lastCan : Option (CanKey × String)     -- arguments of the preceding can_enforce, its answer
  log : List Spent                       -- newest first

/-- what the driver's `minit` builds (for every label) -/
def monInit : Mon := { prev := none, lastCan := none, log := [] }

def isum (l : List Int) : Int := l.foldl (· + ·) 0
def nsum (l : List Nat) : Nat := l.foldl (· + ·) 0

def sortedNat : List Nat → Bool
  | a :: b :: rest => a ≤ b && sortedNat (b :: rest)
  | _ => true

def nodupNat : List Nat → Bool
  | [] => true
  | a :: rest => !rest.contains a && nodupNat rest

/-- the map denoted by install pairs (a later pair for the same signer wins) -/
def lastWins (ps : List (Nat × Nat)) : List (Nat × Nat) :=
  ps.foldl (fun m p => (m.filter (fun q => q.1 ≠ p.1)) ++ [p]) []

def firstSome (a b : Option String) : Option String :=
  match a with
  | some x => some x
  | none => b

/-! #### invariants every observed state must satisfy -/

def chkSimpleZero (o : Obs) : Option String :=
  if o.S.any (fun x => x.2.2 = 0) then some "site=policy.simple.zero a stored simple threshold is 0" else none

def chkWeightedZero (o : Obs) : Option String :=
  if o.W.any (fun w => w.thr = 0) then some "site=policy.weighted.zero a stored weighted threshold is 0" else none

def chkWeightedOverflow (o : Obs) : Option String :=
  if o.W.any (fun w => nsum (w.ws.map (·.2)) > U32_MAX) then
    some "site=policy.weighted.overflow stored weights sum past u32::MAX" else none

def chkWeightedUnreachable (o : Obs) : Option String :=
  if o.W.any (fun w => w.thr > nsum (w.ws.map (·.2))) then
    some "site=policy.weighted.unreachable stored threshold exceeds the total configured weight" else none

def chkSpendCache (o : Obs) : Option String :=
  if o.L.any (fun d => d.cached ≠ isum (d.hist.map (·.1))) then
    some "site=policy.spend.cache cached_total_spent differs from the sum of the history" else none

def chkSpendSorted (o : Obs) : Option String :=
  if o.L.any (fun d => !sortedNat (d.hist.map (·.2))) then some "site=policy.spend.sorted history not sorted by ledger" else none

def chkSpendFuture (o : Obs) : Option String :=
  if o.L.any (fun d => d.hist.any (fun e => e.2 > o.now)) then some "site=policy.spend.future history entry from the future" else none

def chkSpendCapacity (o : Obs) : Option String :=
  if o.L.any (fun d => d.hist.length > 1000) then some "site=policy.spend.capacity more than 1000 history entries" else none

def chkSpendStored (o : Obs) : Option String :=
  if o.L.any (fun d => d.lim ≤ 0 ∨ d.per = 0) then some "site=policy.spend.config non-positive limit or zero period stored" else none

def stateChecks (o : Obs) : Option String :=
  firstSome (chkSimpleZero o) <|
  firstSome (chkWeightedZero o) <|
  firstSome (chkWeightedOverflow o) <|
  firstSome (chkWeightedUnreachable o) <|
  firstSome (chkSpendCache o) <|
  firstSome (chkSpendSorted o) <|
  firstSome (chkSpendFuture o) <|
  firstSome (chkSpendCapacity o) (chkSpendStored o)

/-! #### a ledger move without any policy call -/

/-- the observation the first call of a sequence is compared with: nothing installed -/
def blank (o : Obs) : Obs := { o with S := [], W := [], L := [], stateStr := blankState }

def prevOf (m : Mon) (o : Obs) : Obs := m.prev.getD (blank o)

/-- every getter was re-read after a long period without any policy call -/
def idleVerdict (prev o : Obs) : Option String :=
  if o.stateStr ≠ prev.stateStr then
    some s!"site=policy.idle.changed a threshold, weight map or spending-limit entry changed or vanished while the policies were idle: before {prev.stateStr.take 160} after {o.stateStr.take 160}"
  else stateChecks o

def advVerdict (prev o : Obs) : Option String :=
  if o.stateStr ≠ prev.stateStr then some "site=policy.adv a ledger advance changed policy state" else stateChecks o

/-! #### a call -/

/-- previous configuration of the key of the call, as the implementation reported it -/
def sThrOf (prev : Obs) (p : POp) : Option Nat := (prev.S.find? (fun x => x.1 = p.a ∧ x.2.1 = p.r)).map (·.2.2)
def wCfgOf (prev : Obs) (p : POp) : Option WObs := prev.W.find? (fun w => w.a = p.a ∧ w.r = p.r)
def lCfgOf (prev : Obs) (p : POp) : Option LObs := prev.L.find? (fun d => d.a = p.a ∧ d.r = p.r)

/-- reported weight of a signer, 0 when it has none -/
def wOfCfg (wCfg : Option WObs) (k : Nat) : Nat :=
  match wCfg with
  | some c => ((c.ws.find? (fun q => q.1 = k)).map (·.2)).getD 0
  | none => 0

def wSumOf (wCfg : Option WObs) (sg : List Nat) : Nat := nsum (sg.map (wOfCfg wCfg))

/-- ghost log: the spend an accepted `l_enforce` adds -/
def entryOf (ok : Bool) (p : POp) (now : Nat) (lCfg : Option LObs) : Option Spent :=
  if ok ∧ p.kind = .lEnforce then
    match lCfg with
    | some d => some ⟨p.a, p.r, p.amount, now, d.lim, d.per⟩
    | none => some ⟨p.a, p.r, p.amount, now, 0, 1⟩
  else none

def log1Of (entry : Option Spent) (log : List Spent) : List Spent :=
  match entry with
  | some e => e :: log
  | none => log

/-- ghost log: an accepted `l_uninstall` forgets the spends of its key -/
def log2Of (ok : Bool) (p : POp) (log1 : List Spent) : List Spent :=
  if ok ∧ p.kind = .lUninstall then log1.filter (fun e => ¬ (e.a = p.a ∧ e.r = p.r)) else log1

def canKeyOf (p : POp) : CanKey := ⟨p.kind.pol, p.a, p.r, p.rs, p.ctxS, p.ctx, p.sg⟩

/-- the monitor's new state after a call -/
def monStep (m : Mon) (p : POp) (o : Obs) : Mon :=
  { prev := some o,
    lastCan := if p.kind.isCan then some (canKeyOf p, o.res) else none,
    log := log2Of o.ok p (log1Of (entryOf o.ok p o.now (lCfgOf (prevOf m o) p)) m.log) }

def simpleRule (sThr : Option Nat) (n : Nat) : Bool :=
  match sThr with
  | some t => decide (t ≤ n)
  | none => false

def weightedRule (wCfg : Option WObs) (sg : List Nat) : Bool :=
  match wCfg with
  | some c => decide (wSumOf wCfg sg ≤ U32_MAX ∧ c.thr ≤ wSumOf wCfg sg)
  | none => false

/-- what the count / weight rule says about this call -/
def expectAccept (p : POp) (sThr : Option Nat) (wCfg : Option WObs) : Option Bool :=
  match p.kind.pol with
  | .s => some (simpleRule sThr p.sg.length)
  | .w => some (weightedRule wCfg p.sg)
  | .l => none

/-- rejected calls and queries leave no trace -/
def chkRollback (p : POp) (o prev : Obs) : Option String :=
  if (¬ o.ok ∨ p.kind.isCan) ∧ o.stateStr ≠ prev.stateStr then
    some s!"site=policy.rollback a rejected call or a can_enforce query changed a getter ({p.kind.name})" else none

def chkRollbackEvent (p : POp) (o : Obs) : Option String :=
  if (¬ o.ok ∨ p.kind.isCan) ∧ o.ev ≠ "-" then some "site=policy.rollback.event a rejected call emitted an event" else none

/-- only the account itself -/
def chkAuth (p : POp) (o : Obs) : Option String :=
  if o.ok ∧ ¬ p.kind.isCan ∧ ¬ p.auth.contains p.a then
    some s!"site=policy.auth {p.kind.name} accepted without the smart account's authorization" else none

def chkAuthDemand (p : POp) (o : Obs) : Option String :=
  if o.ok ∧ ¬ p.kind.isCan ∧ o.dem ≠ toString p.a then
    some s!"site=policy.auth.demand {p.kind.name} demanded authorization of {o.dem}, expected {p.a}" else none

/-- threshold / weight rules -/
def chkRule (p : POp) (o : Obs) (e : Option Bool) : Option String :=
  match e with
  | some e =>
    if p.kind.isCan ∧ (o.res == "true") ≠ e then
      some s!"site=policy.{p.kind.pol.letter}.can can_enforce answered {o.res}; count/weight rule says {e}"
    else if p.kind.isEnforce ∧ p.auth.contains p.a ∧ o.ok ≠ e then
      some s!"site=policy.{p.kind.pol.letter}.enforce enforce accepted={o.ok}; count/weight rule says {e}"
    else none
  | none => none

def chkTrap (p : POp) (o : Obs) : Option String :=
  if p.kind.pol = .w ∧ p.kind.isCan ∧ o.res = "trap" ∧ nodupNat p.sg then
    some "site=policy.w.trap can_enforce trapped on a duplicate-free signer list" else none

/-- configuration validity at every change -/
def chkSimpleConfig (p : POp) (o : Obs) : Option String :=
  if o.ok ∧ (p.kind = .sInstall ∨ p.kind = .sSet) ∧ (p.thr = 0 ∨ p.thr > p.rs.length) then
    some s!"site=policy.simple.config threshold {p.thr} accepted for a rule with {p.rs.length} signers" else none

def chkSimpleReinstall (p : POp) (o : Obs) (sThr : Option Nat) : Option String :=
  if o.ok ∧ p.kind = .sInstall ∧ sThr.isSome then some "site=policy.simple.reinstall installed twice" else none

def chkWeightedInstall (p : POp) (o : Obs) : Option String :=
  if o.ok ∧ p.kind = .wInstall ∧
      (p.thr = 0 ∨ p.thr > nsum ((lastWins p.w).map (·.2)) ∨ nsum ((lastWins p.w).map (·.2)) > U32_MAX) then
    some "site=policy.weighted.config install accepted a zero/unreachable threshold or overflowing weights" else none

def chkWeightedReinstall (p : POp) (o : Obs) (wCfg : Option WObs) : Option String :=
  if o.ok ∧ p.kind = .wInstall ∧ wCfg.isSome then some "site=policy.weighted.reinstall installed twice" else none

def chkWeightedSetThr (p : POp) (o : Obs) (wCfg : Option WObs) : Option String :=
  if o.ok ∧ p.kind = .wSetThr ∧ (p.thr = 0 ∨ wCfg.isNone ∨ p.thr > nsum ((wCfg.map (·.ws.map (·.2))).getD [])) then
    some "site=policy.weighted.config set_threshold accepted a zero/unreachable threshold" else none

def chkSpendLimit (p : POp) (o : Obs) : Option String :=
  if o.ok ∧ (p.kind = .lInstall ∨ p.kind = .lSetLimit) ∧ p.lim ≤ 0 then
    some "site=policy.spend.config non-positive limit accepted" else none

def chkSpendInstall (p : POp) (o : Obs) (lCfg : Option LObs) : Option String :=
  if o.ok ∧ p.kind = .lInstall ∧ (p.per = 0 ∨ lCfg.isSome) then
    some "site=policy.spend.config zero period or re-install accepted" else none

/-- spending: context, signers, window -/
def chkSpendCtx (p : POp) (o : Obs) (lCfg : Option LObs) : Option String :=
  if o.ok ∧ p.kind = .lEnforce ∧ (¬ p.isTransfer ∨ p.sg.isEmpty ∨ lCfg.isNone) then
    some "site=policy.spend.ctx enforce accepted a non-transfer/malformed context, no signer, or no installation" else none

def chkSpendCanCtx (p : POp) (o : Obs) (lCfg : Option LObs) : Option String :=
  if p.kind.isCan ∧ p.kind.pol = .l ∧ o.res = "true" ∧ (¬ p.isTransfer ∨ p.sg.isEmpty ∨ lCfg.isNone) then
    some "site=policy.spend.ctx can_enforce true for a non-transfer/malformed context, no signer, or no installation" else none

/-- the accepted amounts of the key of `e` (since its installation) with ledger in
`(e.ledger − e.period, e.ledger]`. Spends at ledger 0 are not counted: the property speaks about
ledgers ≥ 1 (at ledger 0 the saturating cutoff evicts an entry of ledger 0 at once; see
`old_monitor_false_alarm` in OZ/Props/C14Mon.lean). -/
def windowSum (log : List Spent) (e : Spent) : Int :=
  isum ((log.filter (fun x => x.a = e.a ∧ x.r = e.r ∧ 1 ≤ x.ledger ∧ e.ledger < x.ledger + e.period)).map (·.amount))

def chkWindow (entry : Option Spent) (log2 : List Spent) : Option String :=
  match entry with
  | some e =>
    if e.ledger ≥ 1 ∧ windowSum log2 e > e.limit then
      some s!"site=policy.spend.window accepted amounts in ({e.ledger}-{e.period}, {e.ledger}] sum to {windowSum log2 e} > limit {e.limit}"
    else none
  | none => none

/-- can_enforce (asked immediately before, same arguments, same state) agrees with enforce -/
def chkAgree (m : Mon) (p : POp) (o : Obs) : Option String :=
  if p.kind.isEnforce ∧ p.auth.contains p.a then
    match m.lastCan with
    | some (k, ans) =>
      if k = canKeyOf p ∧ (ans == "true") ≠ o.ok then
        some s!"site=policy.{p.kind.pol.letter}.agree can_enforce answered {ans} but enforce accepted={o.ok} in the same state"
      else none
    | none => none
  else none

/-- the property's conclusions on the observation of one call, in the order of the original monitor -/
def callVerdict (m : Mon) (p : POp) (o : Obs) : Option String :=
  firstSome (stateChecks o) <|
  firstSome (chkRollback p o (prevOf m o)) <|
  firstSome (chkRollbackEvent p o) <|
  firstSome (chkAuth p o) <|
  firstSome (chkAuthDemand p o) <|
  firstSome (chkRule p o (expectAccept p (sThrOf (prevOf m o) p) (wCfgOf (prevOf m o) p))) <|
  firstSome (chkTrap p o) <|
  firstSome (chkSimpleConfig p o) <|
  firstSome (chkSimpleReinstall p o (sThrOf (prevOf m o) p)) <|
  firstSome (chkWeightedInstall p o) <|
  firstSome (chkWeightedReinstall p o (wCfgOf (prevOf m o) p)) <|
  firstSome (chkWeightedSetThr p o (wCfgOf (prevOf m o) p)) <|
  firstSome (chkSpendLimit p o) <|
  firstSome (chkSpendInstall p o (lCfgOf (prevOf m o) p)) <|
  firstSome (chkSpendCtx p o (lCfgOf (prevOf m o) p)) <|
  firstSome (chkSpendCanCtx p o (lCfgOf (prevOf m o) p)) <|
  firstSome (chkWindow (entryOf o.ok p o.now (lCfgOf (prevOf m o) p)) (monStep m p o).log)
    (chkAgree m p o)

/-- the monitor's step on parsed values -/
def checkCore (m : Mon) (op : MOp) (o : Obs) : Mon × Option String :=
  match op with
  | .idle => ({ m with prev := some o, lastCan := none }, idleVerdict (prevOf m o) o)
  | .adv => ({ m with prev := some o, lastCan := none }, advVerdict (prevOf m o) o)
  | .call p => (monStep m p o, callVerdict m p o)

end OZ.Policies.Mon
