import OZ.Model.Host
/-
Model of packages/governance/src/timelock/storage.rs, line by line. Import-free apart from
the host model.

* `OperationLedger(id)` is a total map `Id → Nat` (an absent persistent entry reads as
  `UNSET_LEDGER = 0`; `DONE_LEDGER = 1`; anything else is the ledger at which the operation
  becomes ready). Persistent entries never expire in the model (DESIGN.md section 4).
* An operation id is the tuple `(target, function, args, predecessor, salt)` itself:
  `hash_operation` (Keccak-256 over the XDR of the five fields) is modelled as the
  constructor `Id.op` of a free term algebra, i.e. as an abstract *injective* function whose
  range avoids the 32-byte literals `Id.raw n` (`Id.raw 0` = thirty-two zero bytes = "no
  predecessor"). The harness checks id-equality ⇔ tuple-equality on every generated pair with
  the real `hash_operation`.
* `log` and `calls` are ghost fields: no operation reads them. `log` records the accepted
  schedule / cancel / execute calls (newest first), `calls` the invocations of target
  contracts made by `execute_operation` (newest first).
-/
namespace OZ.Timelock
open OZ.Host

/-- a `BytesN<32>` used as operation id / predecessor -/
inductive Id where
  /-- the 32-byte big-endian literal `n` (not the hash of anything); `raw 0` = all zero -/
  | raw (n : Nat)
  /-- `hash_operation(Operation { target, function, args, predecessor, salt })` -/
  | op (target fn : Nat) (args : List Nat) (pred : Id) (salt : Nat)
  deriving DecidableEq, Repr

/-- `BytesN::<32>::from_array(e, &[0u8; 32])` -/
def Id.zero : Id := .raw 0

/-- `struct Operation` -/
structure Operation where
  target : Nat
  fn : Nat
  args : List Nat
  pred : Id
  salt : Nat
  deriving DecidableEq, Repr

/-- `hash_operation` -/
def Operation.id (o : Operation) : Id := .op o.target o.fn o.args o.pred o.salt

def UNSET_LEDGER : Nat := 0
def DONE_LEDGER : Nat := 1

inductive Err where
  | operationAlreadyScheduled | insufficientDelay | invalidOperationState
  | unexecutedPredecessor | unauthorized | minDelayNotSet | targetFailed | ledgerOverflow
  deriving DecidableEq, Repr

/-- `enum OperationState` -/
inductive OpState where
  | unset | waiting | ready | done
  deriving DecidableEq, Repr

/-- ghost record of an accepted call; `l` = ledger sequence of the call -/
inductive Ev where
  /-- accepted `schedule_operation` of `id` at ledger `l` with `delay`, the minimum delay in
  force at that moment being `minDelay` -/
  | sched (id : Id) (l delay minDelay : Nat)
  | cancel (id : Id) (l : Nat)
  | exec (id : Id) (l : Nat)
  deriving DecidableEq, Repr

def Ev.id : Ev → Id
  | .sched i _ _ _ => i
  | .cancel i _ => i
  | .exec i _ => i

/-- one invocation of a target contract: (target, function, args) -/
abbrev Call := Nat × Nat × List Nat

structure State where
  ledger : Id → Nat            -- TimelockStorageKey::OperationLedger
  minDelay : Option Nat        -- TimelockStorageKey::MinDelay
  now : Nat                    -- e.ledger().sequence()
  log : List Ev                -- ghost, newest first
  calls : List Call            -- ghost, newest first

def init (now : Nat) : State :=
  { ledger := fun _ => UNSET_LEDGER, minDelay := none, now := now, log := [], calls := [] }

/-- pointwise update of the ledger map -/
def updId (f : Id → Nat) (a : Id) (v : Nat) : Id → Nat := fun x => if x = a then v else f x

/-- `u32::saturating_add` -/
def satAdd (a b : Nat) : Nat := if a + b > U32_MAX then U32_MAX else a + b

/-! ### queries -/

/-- `get_operation_ledger` -/
def getOperationLedger (s : State) (id : Id) : Nat := s.ledger id

/-- the `match ready_ledger` of `get_operation_state` -/
def stateOf (ready now : Nat) : OpState :=
  if ready = UNSET_LEDGER then .unset
  else if ready = DONE_LEDGER then .done
  else if ready > now then .waiting
  else .ready

/-- `get_operation_state` -/
def getOperationState (s : State) (id : Id) : OpState := stateOf (getOperationLedger s id) s.now

/-- `operation_exists` -/
def operationExists (s : State) (id : Id) : Bool := getOperationState s id != .unset

/-- `is_operation_pending` -/
def isOperationPending (s : State) (id : Id) : Bool :=
  getOperationState s id == .waiting || getOperationState s id == .ready

/-- `is_operation_ready` -/
def isOperationReady (s : State) (id : Id) : Bool := getOperationState s id == .ready

/-- `is_operation_done` -/
def isOperationDone (s : State) (id : Id) : Bool := getOperationState s id == .done

/-- `get_min_delay` -/
def getMinDelay (s : State) : Except Err Nat :=
  match s.minDelay with
  | some m => .ok m
  | none => .error .minDelayNotSet

/-! ### state changes -/

/-- `set_min_delay` -/
def setMinDelay (s : State) (d : Nat) : State := { s with minDelay := some d }

/-- the tail of `schedule_operation`, after the minimum delay has been read -/
def scheduleWith (s : State) (op : Operation) (delay m : Nat) : Except Err State :=
  if delay < m then .error .insufficientDelay
  else .ok { s with ledger := updId s.ledger op.id (satAdd s.now delay),
                    log := .sched op.id s.now delay m :: s.log }

/-- `schedule_operation` -/
def schedule (s : State) (op : Operation) (delay : Nat) : Except Err State :=
  if operationExists s op.id then .error .operationAlreadyScheduled
  else
    match getMinDelay s with
    | .error e => .error e
    | .ok m => scheduleWith s op delay m

/-- `set_execute_operation` -/
def setExecute (s : State) (op : Operation) : Except Err State :=
  if !isOperationReady s op.id then .error .invalidOperationState
  else if op.pred ≠ Id.zero ∧ !isOperationDone s op.pred then .error .unexecutedPredecessor
  else .ok { s with ledger := updId s.ledger op.id DONE_LEDGER,
                    log := .exec op.id s.now :: s.log }

/-- `e.invoke_contract(target, function, args)`; `callOk` = the target accepts the call (an
oracle: the target is an external contract). A failing target fails the whole invocation. -/
def invokeTarget (s : State) (op : Operation) (callOk : Bool) : Except Err State :=
  if callOk then .ok { s with calls := (op.target, op.fn, op.args) :: s.calls }
  else .error .targetFailed

/-- `execute_operation` -/
def execute (s : State) (op : Operation) (callOk : Bool) : Except Err State :=
  match setExecute s op with
  | .error e => .error e
  | .ok s1 => invokeTarget s1 op callOk

/-- `cancel_operation` -/
def cancel (s : State) (id : Id) : Except Err State :=
  if !isOperationPending s id then .error .invalidOperationState
  else .ok { s with ledger := updId s.ledger id UNSET_LEDGER, log := .cancel id s.now :: s.log }

/-- the ledger sequence is a `u32` and never decreases -/
def advance (s : State) (n : Nat) : Except Err State :=
  if s.now + n > U32_MAX then .error .ledgerOverflow else .ok { s with now := s.now + n }

/-! ### the timelock as a state machine over operations -/

inductive Op where
  | schedule (op : Operation) (delay : Nat)
  | setExecute (op : Operation)
  | execute (op : Operation) (callOk : Bool)
  | cancel (id : Id)
  | setMinDelay (d : Nat)
  | advance (n : Nat)
  deriving Repr

def apply (s : State) : Op → Except Err State
  | .schedule op d => schedule s op d
  | .setExecute op => setExecute s op
  | .execute op ok => execute s op ok
  | .cancel id => cancel s id
  | .setMinDelay d => .ok (setMinDelay s d)
  | .advance n => advance s n

/-- a failed invocation is rolled back by the host -/
def step (s : State) (x : Op) : State :=
  match apply s x with
  | .ok s' => s'
  | .error _ => s

def run (s : State) (ops : List Op) : State := ops.foldl step s

/-! ### ghost reading of the log -/

/-- what the log says about an id: the most recent accepted call that mentions it -/
inductive Ghost where
  | unset
  | pending (l delay minDelay : Nat)
  | done
  deriving DecidableEq, Repr

def ghost : List Ev → Id → Ghost
  | [], _ => .unset
  | .sched i l d m :: rest, id => if i = id then .pending l d m else ghost rest id
  | .cancel i _ :: rest, id => if i = id then .unset else ghost rest id
  | .exec i _ :: rest, id => if i = id then .done else ghost rest id

/-- number of accepted executions of `id` recorded in the log -/
def execCount : List Ev → Id → Nat
  | [], _ => 0
  | .exec i _ :: rest, id => (if i = id then 1 else 0) + execCount rest id
  | _ :: rest, id => execCount rest id

/-- "the scheduled delay has fully elapsed": `l + delay ≤ now`, or the saturated corner
`l + delay > u32::MAX` and the ledger sequence has reached `u32::MAX` -/
def elapsed (l d now : Nat) : Prop := l + d ≤ now ∨ (l + d > U32_MAX ∧ now = U32_MAX)

instance (l d now : Nat) : Decidable (elapsed l d now) := by unfold elapsed; exact inferInstance

/-- the state the ghost log prescribes at ledger `now` -/
def ghostState (g : Ghost) (now : Nat) : OpState :=
  match g with
  | .unset => .unset
  | .done => .done
  | .pending l d _ => if elapsed l d now then .ready else .waiting

end OZ.Timelock
