import OZ.Model.RoleTransfer
/-
The C07 MONITOR on parsed values (the driver OZ/Drv/C07.lean parses the trace lines and calls
`checkCore`; it never calls the model's transition function). Kept apart from the driver so that
OZ/Props/C07Mon.lean can prove it SOUND: on the observations of the model itself the monitor
never reports a failure (`monitor_accepts_every_model_trace`), hence an implementation whose
observations agree with the model's cannot raise a monitor alarm. Import-free apart from the model.
-/
namespace OZ.RoleTransfer.Mon
open OZ.Host OZ.RoleTransfer

def showOpt (o : Option Nat) : String := match o with | some a => toString a | none => "-"

/-- the account a successful accept would install right now (model side of `pend=`) -/
def pendNow (f : Flavor) (s : State) : Option Nat :=
  match f, s.holder with
  | .admin, none => none
  | _, _ => Temp.get? s.pending s.now

structure Obs where
  ok : Bool
  holder : Option Nat
  pend : Option Nat
  now : Nat


structure Mon where
  cfg : Cfg
  g : Option Offer            -- ghost: the open offer according to the log of accepted calls
  holder : Option Nat         -- holder observed after the previous call
  now : Nat
  pend : Option Nat


def holderIn (h : Option Nat) (auth : List Nat) : Bool :=
  match h with | some a => auth.contains a | none => false

/-- is the ghost offer open and within its acceptance window at ledger `now`? -/
def openAt (c : Cfg) (g : Option Offer) (now : Nat) : Bool :=
  match g with | some o => decide (now ≤ deadline c o) | none => false

/-- is the ghost offer open and has its live_until_ledger not passed at ledger `now`? -/
def liveAt (g : Option Offer) (now : Nat) : Bool :=
  match g with | some o => decide (now ≤ o.lu) | none => false

/-- a rejected call: nothing observable changed, and a holder-only call is never refused to the
authorizing holder -/
def verdictRejected (m : Mon) (auth : List Nat) (op : Op) (o : Obs) : Option String :=
  if o.holder ≠ m.holder then some s!"site=rt.rollback a rejected call changed the holder {showOpt m.holder} -> {showOpt o.holder}"
  else if o.pend ≠ m.pend then some "site=rt.rollback a rejected call changed what accept would do"
  else match op with
    | .guarded => if holderIn m.holder auth then some "site=rt.guarded.lost-control the holder authorized but was refused" else none
    | .offer new lu =>
      -- until acceptance the holder keeps full control: it can always withdraw the offer that is open
      if lu = 0 ∧ holderIn m.holder auth = true ∧ m.pend = some new then
        some s!"site=rt.cancel.lost-control the holder authorized the cancellation of the open offer to {new} but was refused: the invited account can still accept"
      else none
    | _ => none

def verdictAccept (m : Mon) (auth : List Nat) (o : Obs) : Option String :=
  match m.g with
  | none => some "site=rt.accept.no-offer accept succeeded although no offer is open (never made, cancelled or already accepted)"
  | some off =>
    if ¬ auth.contains off.acct then some s!"site=rt.accept.unauthorized accept succeeded without the authorization of the invited account {off.acct}"
    else if o.holder ≠ some off.acct then some s!"site=rt.accept.wrong-account the latest offer invites {off.acct} but the holder became {showOpt o.holder}"
    else if ¬ holderIn off.holderThen off.auth then some "site=rt.accept.offer-unauthorized the accepted offer was not authorized by the then-holder"
    else if off.holderThen ≠ m.holder then some "site=rt.accept.stale-holder the holder changed between offer and accept"
    else if m.now > deadline m.cfg off then
      some s!"site=rt.accept.expired accept succeeded at ledger {m.now} for an offer made at {off.madeAt} with live_until_ledger {off.lu} (last acceptable ledger {deadline m.cfg off})"
    else none

def verdictRenounce (m : Mon) (auth : List Nat) (o : Obs) : Option String :=
  if ¬ holderIn m.holder auth then some "site=rt.renounce.unauthorized renounce succeeded without the holder's authorization"
  else if o.holder ≠ none then some "site=rt.renounce.noop renounce succeeded but a holder remains"
  else if liveAt m.g m.now then
    some "site=rt.renounce.pending renounce succeeded while an offer is pending and live"
  else none

def verdictCancel (m : Mon) (new : Nat) : Option String :=
  match m.g with
  | none => some "site=rt.cancel.no-offer a cancellation succeeded although no offer is open"
  | some off => if off.acct ≠ new then some "site=rt.cancel.wrong-account a cancellation naming another account succeeded" else none

def verdictOffer (m : Mon) (auth : List Nat) (new lu : Nat) (o : Obs) : Option String :=
  if o.holder ≠ m.holder then some s!"site=rt.holder.changed the holder changed {showOpt m.holder} -> {showOpt o.holder} by an offer"
  else if ¬ holderIn m.holder auth then some "site=rt.offer.unauthorized an offer / cancellation succeeded without the holder's authorization"
  else if lu = 0 then verdictCancel m new
  else if lu < m.now ∨ lu > m.cfg.maxLiveUntil m.now then some s!"site=rt.offer.bounds offer with live_until_ledger {lu} accepted at ledger {m.now}"
  else none

def verdictGuarded (m : Mon) (auth : List Nat) (o : Obs) : Option String :=
  if o.holder ≠ m.holder then some "site=rt.holder.changed the holder changed by a guarded call"
  else if ¬ holderIn m.holder auth then some "site=rt.guarded.unauthorized a holder-only function ran without the holder's authorization"
  else none

/-- nothing that must persist may change while nobody touches the contract -/
def verdictAdvance (m : Mon) (o : Obs) : Option String :=
  if o.holder ≠ m.holder then
    some s!"site=rt.idle.changed the holder changed {showOpt m.holder} -> {showOpt o.holder} by the mere passage of time (ledger {m.now} -> {o.now})"
  else none

/-- the property's conclusion for one accepted / rejected call, on observed values only -/
def verdictAccepted (m : Mon) (auth : List Nat) (op : Op) (o : Obs) : Option String :=
  match op with
  | .accept => verdictAccept m auth o
  | .renounce => verdictRenounce m auth o
  | .offer new lu => verdictOffer m auth new lu o
  | .guarded => verdictGuarded m auth o
  | .advance _ => verdictAdvance m o

def verdict (m : Mon) (auth : List Nat) (op : Op) (o : Obs) : Option String :=
  if ¬ o.ok then verdictRejected m auth op o else verdictAccepted m auth op o

/-- the probe: what accept WOULD do now (`pend`, observed through accept behaviour only) must be
covered by an open offer to that account whose acceptance window has not passed -/
def probe (c : Cfg) (g' : Option Offer) (pend : Option Nat) (now : Nat) : Option String :=
  match pend with
  | none => none
  | some p =>
    match g' with
    | none => some s!"site=rt.probe.no-offer account {p} could accept at ledger {now} although no offer is open"
    | some off =>
      if off.acct ≠ p then some s!"site=rt.probe.wrong-account account {p} could accept but the open offer invites {off.acct}"
      else if now > deadline c off then
        some s!"site=rt.probe.expired account {p} could still accept at ledger {now}: offer made at {off.madeAt} with live_until_ledger {off.lu} (last acceptable ledger {deadline c off})"
      else none

def firstSome (a b : Option String) : Option String :=
  match a with
  | some x => some x
  | none => b

/-- the monitor's step on parsed values: the verdict on this call, then the probe, and the new
ghost state -/
def checkCore (m : Mon) (auth : List Nat) (op : Op) (o : Obs) : Mon × Option String :=
  ({ m with g := ghostStep m.g m.holder m.now auth op o.ok, holder := o.holder, now := o.now, pend := o.pend },
   firstSome (verdict m auth op o) (probe m.cfg (ghostStep m.g m.holder m.now auth op o.ok) o.pend o.now))

end OZ.RoleTransfer.Mon
