import OZ.Model.RegUtil
/-
Model of packages/tokens/src/rwa/identity_claims/storage.rs, line by line.

Storage: `Claim(claim_id) -> Claim`, `ClaimsByTopic(topic) -> Vec<claim_id>` (removed when it
becomes empty: `[]` = "no entry"). `claim_id = keccak256(issuer XDR || topic BE)`; the model
takes the pair `(issuer, topic)` itself as the id, i.e. it ASSUMES that the hash is injective
on the pairs that occur (checked empirically by the harness, which decodes every id it sees).
`valid issuer topic scheme sig data` = the cross-contract call `is_claim_valid` returns
(it aborts `add_claim` otherwise; its result is ignored by the code).
-/
namespace OZ.RegClaims
open OZ.Reg

abbrev Id := Nat × Nat          -- (issuer, topic)

structure Claim where
  topic : Nat
  scheme : Nat
  issuer : Nat
  sig : Nat
  data : Nat
  uri : Nat
  deriving DecidableEq, Repr

structure State where
  claim : Id → Option Claim
  byTopic : Nat → List Id

def init : State := { claim := fun _ => none, byTopic := fun _ => [] }

def getClaim (s : State) (id : Id) : Option Claim := s.claim id
def getClaimIdsByTopic (s : State) (t : Nat) : List Id := s.byTopic t

/-- `add_claim_to_topic_index` -/
def addToIndex (s : State) (t : Nat) (id : Id) : State :=
  { s with byTopic := updD s.byTopic t (s.byTopic t ++ [id]) }

/-- `remove_claim_from_topic_index` -/
def removeFromIndex (s : State) (t : Nat) (id : Id) : State :=
  if (s.byTopic t).contains id then { s with byTopic := updD s.byTopic t ((s.byTopic t).erase id) } else s

/-- `add_claim`; returns the new state (the returned id is `(issuer, topic)`) -/
def addClaim (valid : Nat → Nat → Nat → Nat → Nat → Bool) (s : State)
    (topic scheme issuer sig data uri : Nat) : Except RErr State :=
  if !valid issuer topic scheme sig data then .error .notAllowed
  else if (s.claim (issuer, topic)).isSome then
    .ok { s with claim := updD s.claim (issuer, topic) (some ⟨topic, scheme, issuer, sig, data, uri⟩) }
  else
    .ok (addToIndex { s with claim := updD s.claim (issuer, topic) (some ⟨topic, scheme, issuer, sig, data, uri⟩) }
          topic (issuer, topic))

/-- `remove_claim` -/
def removeClaim (s : State) (id : Id) : Except RErr State :=
  match s.claim id with
  | none => .error .absent
  | some c => .ok (removeFromIndex { s with claim := updD s.claim id none } c.topic id)

inductive Op where
  | add (topic scheme issuer sig data uri : Nat)
  | remove (id : Id)
  deriving DecidableEq, Repr

def step (valid : Nat → Nat → Nat → Nat → Nat → Bool) (s : State) : Op → Except RErr State
  | .add t sc i sg d u => addClaim valid s t sc i sg d u
  | .remove id => removeClaim s id

def next (valid : Nat → Nat → Nat → Nat → Nat → Bool) (s : State) (o : Op) : State :=
  match step valid s o with
  | .ok s' => s'
  | .error _ => s

def run (valid : Nat → Nat → Nat → Nat → Nat → Bool) (s : State) (ops : List Op) : State :=
  ops.foldl (next valid) s

end OZ.RegClaims
