import OZ.Model.RegBinder
import OZ.Model.RegMonUtil
/-
The `binder` MONITOR of C20 on parsed values (the sub-driver OZ/Drv/C20Binder.lean parses the trace
lines and calls `checkCore`; it never calls a model transition function). The ghost is the plain set
of bound tokens built from the accepted operations. Kept apart from the driver so that
OZ/Props/C20cMon.lean can prove it SOUND (`monitor_accepts_every_model_trace`).
Import-free apart from the model.
-/
namespace OZ.RegBinder.Mon
open OZ.Reg OZ.RegMon OZ.RegBinder

/-- an op of the library, or the quick tier's state injection `binder preload n=<k>`: the state
`bind_tokens` leaves after binding tokens 0..k-1 in order to an empty binder -/
inductive Cmd where
  | op (o : Op)
  | preload (n : Nat)

def dedupKeep (l : List Nat) : List Nat := l.foldl (fun acc x => if acc.contains x then acc else acc ++ [x]) []

def opTokens : Cmd → List Nat
  | .op (.bind t) => [t]
  | .op (.unbind t) => [t]
  | .op (.bindMany ts) => (match ts.head?, ts.getLast? with
    | some a, some b => [a, b]
    | _, _ => [])
  | .preload _ => []

/-- probe tokens and probe indices, a function of the op and of the observed length only -/
def probes (u : Nat) (op : Cmd) (n : Nat) : List Nat × List Nat :=
  if u > 0 then (List.range u, List.range (u + 1))
  else (dedupKeep (opTokens op ++ [0, 1, 99, 100, 101, 199, 200, 201, 9999, 10000]),
        dedupKeep [0, 1, 98, 99, 100, 101, 198, 199, 200, 201, n - 2, n - 1, n])

/-- the observation line
`ok|err n= cnt= list=<tokens|#digest> sum= sq= b=<t:bit,..> ix=<t:i|x,..> at=<i:t|x,..>` -/
structure Obs where
  ok : Bool
  /-- length of `linked_tokens` -/
  n : Nat
  /-- the `TotalCount` entry -/
  cnt : Nat
  sum : Nat
  sq : Nat
  /-- `linked_tokens` when it is printed in full (at most 16 tokens) -/
  full : Option (List Nat)
  /-- `is_token_bound` over the probe tokens (1 / 0) -/
  b : List (Nat × Option Nat)
  /-- `get_token_index` over the probe tokens -/
  ix : List (Nat × Option Nat)
  /-- `get_token_by_index` over the probe indices -/
  atL : List (Nat × Option Nat)

structure Mon where
  set : List Nat
  u : Nat

/-- the plain set with its documented limits -/
def plain (g : Mon) (op : Op) : Except String Mon :=
  match op with
  | .bind t =>
    if g.set.contains t then .error "dup"
    else if g.set.length ≥ 10000 then .error "limit.bind_token.tokens"
    else .ok { g with set := g.set ++ [t] }
  | .bindMany ts =>
    if ts.length > 200 then .error "limit.bind_tokens.batch_size"
    else if g.set.length + ts.length > 10000 then .error "limit.bind_tokens.tokens"
    else if !nodupB ts then .error "dup_arg"
    else if ts.any g.set.contains then .error "dup"
    else .ok { g with set := g.set ++ ts }
  | .unbind t => if g.set.contains t then .ok { g with set := g.set.erase t } else .error "absent"

/-- the site of a refusal of an operation the plain set accepts -/
def near (g : Mon) : Op → String
  | .bind _ => if g.set.length = 9999 then "limit.bind_token.tokens" else "valid"
  | .bindMany ts => if g.set.length + ts.length = 10000 then "limit.bind_tokens.tokens"
                    else if ts.length = 200 then "limit.bind_tokens.batch_size" else "valid"
  | _ => "valid"

def fullOk (g : Mon) (l : List Nat) : Bool := nodupB l ∧ sameSet l g.set

def bOk (g : Mon) (p : Nat × Option Nat) : Bool := p.2 == some (if g.set.contains p.1 then 1 else 0)

def ixOk (g : Mon) (n : Nat) (p : Nat × Option Nat) : Bool :=
  (p.2.isSome == g.set.contains p.1) && (match p.2 with | some i => decide (i < n) | none => true)

def atOk (g : Mon) (n : Nat) (p : Nat × Option Nat) : Bool :=
  (p.2.isSome == decide (p.1 < n)) && (match p.2 with | some t => g.set.contains t | none => true)

/-- `get_token_by_index(get_token_index(t)) = t`, also against the printed list -/
def roundOk (atL : List (Nat × Option Nat)) (full : Option (List Nat)) (p : Nat × Option Nat) : Bool :=
  match p.2 with
  | some i => (match atL.find? (fun x => x.1 == i) with | some (_, some t') => t' == p.1 | _ => true) &&
              (match full with | some l => l[i]? == some p.1 | none => true)
  | none => true

/-- every getter of the observation against the plain set -/
def getters (g : Mon) (o : Obs) : List (Option String) :=
  [chk (o.n = g.set.length) s!"site=binder.count linked_tokens has {o.n} entries but the plain set has {g.set.length}",
   chk (o.cnt = g.set.length) s!"site=binder.count TotalCount = {o.cnt} but the plain set has {g.set.length}",
   chk (o.sum = sum1 g.set ∧ o.sq = sumSq g.set) "site=binder.enumerates_once linked_tokens is not a permutation of the plain set (sums differ)",
   (match o.full with
     | some l => chk (fullOk g l) s!"site=binder.enumerates_once linked_tokens = {l} but the plain set is {g.set}"
     | none => none),
   chk (o.b.all (bOk g)) "site=binder.member is_token_bound differs from membership in the plain set",
   chk (o.ix.all (ixOk g o.n))
     "site=binder.index get_token_index succeeds exactly on members, with an index below the count",
   chk (o.atL.all (atOk g o.n))
     "site=binder.index get_token_by_index succeeds exactly below the count, and yields a member",
   chk (o.ix.all (roundOk o.atL o.full)) "site=binder.enumerates_once get_token_by_index(get_token_index(t)) is not t"]

/-- the monitor's step on parsed values: the accept / refuse decision against the plain set, then
every getter of the observation against the new plain set; a preload only resets the plain set -/
def checkCore (g : Mon) (c : Cmd) (o : Obs) : Mon × Option String :=
  match c with
  | .preload n => ({ g with set := List.range n }, none)
  | .op op =>
    ((decide2 "binder" g (plain g op) o.ok (near g op)).1,
     firstFail ((decide2 "binder" g (plain g op) o.ok (near g op)).2 ::
       getters (decide2 "binder" g (plain g op) o.ok (near g op)).1 o))

end OZ.RegBinder.Mon
