import OZ.Model.Host
/-
Model of packages/tokens/src/fungible/storage.rs (`impl Base`) and
extensions/burnable/storage.rs, line by line. Import-free apart from the host model.
-/
namespace OZ.Fungible
open OZ.Host

inductive Err where
  | lessThanZero | insufficientBalance | insufficientAllowance | invalidLiveUntil
  | mathOverflow | auth | overflowPanic | hostError | gate
  deriving DecidableEq, Repr

inductive Event where
  | mint (to : Nat) (amount : Int)
  | burn (frm : Nat) (amount : Int)
  | transfer (frm to : Nat) (amount : Int)
  | approve (owner spender : Nat) (amount : Int) (lu : Nat)
  deriving DecidableEq, Repr

/-- `AllowanceData` as stored -/
structure AllowanceData where
  amount : Int
  liveUntilLedger : Nat
  deriving DecidableEq, Repr

structure State where
  supply : Int
  bal : Nat → Int
  allow : Nat → Nat → Option (Temp AllowanceData)
  now : Nat
  events : List Event          -- oldest first

def init (now : Nat) : State :=
  { supply := 0, bal := fun _ => 0, allow := fun _ _ => none, now := now, events := [] }

def emit (s : State) (ev : Event) : State := { s with events := s.events ++ [ev] }

/-- `Base::allowance_data` -/
def allowanceData (s : State) (owner spender : Nat) : AllowanceData :=
  let d := (Temp.get? (s.allow owner spender) s.now).getD ⟨0, 0⟩
  if d.liveUntilLedger < s.now then ⟨0, 0⟩ else d

/-- `Base::allowance` -/
def allowance (s : State) (owner spender : Nat) : Int := (allowanceData s owner spender).amount

/-- `Base::set_allowance` -/
def setAllowance (c : Cfg) (s : State) (owner spender : Nat) (amount : Int) (lu : Nat) :
    Except Err State :=
  if amount < 0 then .error .lessThanZero
  else if lu > c.maxLiveUntil s.now ∨ (amount > 0 ∧ lu < s.now) then .error .invalidLiveUntil
  else
    let e := Temp.set c (s.allow owner spender) s.now ⟨amount, lu⟩
    if amount > 0 then
      let liveFor := lu - s.now
      match Temp.extend c e s.now liveFor liveFor with
      | none => .error .hostError
      | some e' => .ok { s with allow := upd2 s.allow owner spender (some e') }
    else .ok { s with allow := upd2 s.allow owner spender (some e) }

/-- `Base::spend_allowance` -/
def spendAllowance (c : Cfg) (s : State) (owner spender : Nat) (amount : Int) : Except Err State :=
  if amount < 0 then .error .lessThanZero
  else
    let a := allowanceData s owner spender
    if a.amount < amount then .error .insufficientAllowance
    else if amount > 0 then setAllowance c s owner spender (a.amount - amount) a.liveUntilLedger
    else .ok s

/-- first half of `Base::update`: debit `from`, or (mint) raise the supply with `checked_add` -/
def debit (s : State) (frm : Option Nat) (amount : Int) : Except Err State :=
  match frm with
  | some a =>
    if s.bal a < amount then .error .insufficientBalance
    else .ok { s with bal := upd s.bal a (s.bal a - amount) }
  | none =>
    if in128 (s.supply + amount) then .ok { s with supply := s.supply + amount }
    else .error .mathOverflow

/-- second half of `Base::update`: credit `to`, or (burn) lower the supply. Both are
unchecked in Rust, i.e. they panic on i128 overflow (`overflow-checks = true`);
`update_no_overflow` (Props/C01) shows that they never do. -/
def credit (s : State) (to : Option Nat) (amount : Int) : Except Err State :=
  match to with
  | some b =>
    if in128 (s.bal b + amount) then .ok { s with bal := upd s.bal b (s.bal b + amount) }
    else .error .overflowPanic
  | none =>
    if in128 (s.supply - amount) then .ok { s with supply := s.supply - amount }
    else .error .overflowPanic

/-- `Base::update` -/
def update (s : State) (frm to : Option Nat) (amount : Int) : Except Err State :=
  if amount < 0 then .error .lessThanZero
  else
    match debit s frm amount with
    | .error e => .error e
    | .ok s1 => credit s1 to amount

def requireAuth (auth : List Nat) (a : Nat) : Except Err Unit :=
  if a ∈ auth then .ok () else .error .auth

/-- `Base::mint` (no authorization of its own: callers guard it) -/
def mint (s : State) (to : Nat) (amount : Int) : Except Err State := do
  let s ← update s none (some to) amount
  pure (emit s (.mint to amount))

/-- `Base::transfer` -/
def transfer (s : State) (auth : List Nat) (frm to : Nat) (amount : Int) : Except Err State := do
  requireAuth auth frm
  let s ← update s (some frm) (some to) amount
  pure (emit s (.transfer frm to amount))

/-- `Base::transfer_from` -/
def transferFrom (c : Cfg) (s : State) (auth : List Nat) (spender frm to : Nat) (amount : Int) :
    Except Err State := do
  requireAuth auth spender
  let s ← spendAllowance c s frm spender amount
  let s ← update s (some frm) (some to) amount
  pure (emit s (.transfer frm to amount))

/-- `Base::approve` -/
def approve (c : Cfg) (s : State) (auth : List Nat) (owner spender : Nat) (amount : Int) (lu : Nat) :
    Except Err State := do
  requireAuth auth owner
  let s ← setAllowance c s owner spender amount lu
  pure (emit s (.approve owner spender amount lu))

/-- `Base::burn` -/
def burn (s : State) (auth : List Nat) (frm : Nat) (amount : Int) : Except Err State := do
  requireAuth auth frm
  let s ← update s (some frm) none amount
  pure (emit s (.burn frm amount))

/-- `Base::burn_from` -/
def burnFrom (c : Cfg) (s : State) (auth : List Nat) (spender frm : Nat) (amount : Int) :
    Except Err State := do
  requireAuth auth spender
  let s ← spendAllowance c s frm spender amount
  let s ← update s (some frm) none amount
  pure (emit s (.burn frm amount))

/-! ### the token as a state machine over operations -/

inductive Op where
  | mint (to : Nat) (amount : Int)
  | transfer (frm to : Nat) (amount : Int)
  | transferFrom (spender frm to : Nat) (amount : Int)
  | approve (owner spender : Nat) (amount : Int) (lu : Nat)
  | burn (frm : Nat) (amount : Int)
  | burnFrom (spender frm : Nat) (amount : Int)
  | advance (n : Nat)
  deriving Repr

/-- one invocation with the authorizing addresses `auth` -/
def apply (c : Cfg) (s : State) (auth : List Nat) : Op → Except Err State
  | .mint to amount => mint s to amount
  | .transfer f t a => transfer s auth f t a
  | .transferFrom sp f t a => transferFrom c s auth sp f t a
  | .approve o sp a lu => approve c s auth o sp a lu
  | .burn f a => burn s auth f a
  | .burnFrom sp f a => burnFrom c s auth sp f a
  | .advance n => .ok { s with now := s.now + n }

/-- a failed invocation is rolled back by the host -/
def step (c : Cfg) (s : State) (x : List Nat × Op) : State :=
  match apply c s x.1 x.2 with
  | .ok s' => s'
  | .error _ => s

def run (c : Cfg) (s : State) (ops : List (List Nat × Op)) : State := ops.foldl (step c) s

/-- addresses mentioned by an operation -/
def Op.addrs : Op → List Nat
  | .mint to _ => [to]
  | .transfer f t _ => [f, t]
  | .transferFrom sp f t _ => [sp, f, t]
  | .approve o sp _ _ => [o, sp]
  | .burn f _ => [f]
  | .burnFrom sp f _ => [sp, f]
  | .advance _ => []

/-- who must authorize an operation for it to get past `require_auth` -/
def Op.required : Op → List Nat
  | .mint _ _ => []
  | .transfer f _ _ => [f]
  | .transferFrom sp _ _ _ => [sp]
  | .approve o _ _ _ => [o]
  | .burn f _ => [f]
  | .burnFrom sp _ _ => [sp]
  | .advance _ => []

/-- replaying mint / burn / transfer events from the empty balance map -/
def replayEvent (b : Nat → Int) : Event → (Nat → Int)
  | .mint to a => upd b to (b to + a)
  | .burn f a => upd b f (b f - a)
  | .transfer f t a => let b1 := upd b f (b f - a); upd b1 t (b1 t + a)
  | .approve _ _ _ _ => b

def replay (evs : List Event) : Nat → Int := evs.foldl replayEvent (fun _ => 0)

def total (U : List Nat) (b : Nat → Int) : Int := (U.map b).sum

end OZ.Fungible
