import OZ.Model.RegUtil
/-
Model of the context-rule registry of packages/accounts/src/smart_account/storage.rs
(`add_context_rule`, `update_context_rule_name`, `update_context_rule_valid_until`,
`remove_context_rule`, `add_signer`, `remove_signer`, `add_policy`, `remove_policy`,
`get_context_rule`, `get_context_rules`, `get_context_rules_count`), line by line.

Storage: `Meta(id)`, `Signers(id)`, `Policies(id)` (persistent, removed with the rule; the two
vectors are read with a default of the empty vector: `[]` = "no entry"), `Ids(type) -> Vec<u32>`,
`Fingerprint(hash) -> true`, `NextId`, `Count` (instance).
Signers, policies and context types are numbers. The fingerprint
`sha256(type XDR || sorted signers XDR || sorted policies XDR)` is modelled by the triple
`(type, sorted signers, sorted policies)` itself, i.e. SHA-256 is ASSUMED injective on the
encodings that occur (the harness compares the number of stored fingerprint entries and their
presence for every live rule on every step). `installOk p` = the cross-contract call
`install` of policy `p` returns; `uninstall` failures are swallowed by the code (`try_`).
The `policies` argument of `add_context_rule` is a `Map`: the driver passes its key vector
(sorted, duplicate-free).
-/
namespace OZ.RegRules
open OZ.Reg

def MAX_POLICIES : Nat := 5
def MAX_SIGNERS : Nat := 15
def MAX_CONTEXT_RULES : Nat := 15

abbrev FP := Nat × List Nat × List Nat

structure Meta where
  name : Nat
  ctx : Nat
  validUntil : Option Nat
  deriving DecidableEq, Repr

structure Rule where
  id : Nat
  ctx : Nat
  name : Nat
  signers : List Nat
  policies : List Nat
  validUntil : Option Nat
  deriving DecidableEq, Repr

structure State where
  info : Nat → Option Meta
  signers : Nat → List Nat
  policies : Nat → List Nat
  ids : Nat → List Nat
  fps : List FP
  nextId : Nat
  count : Nat
  now : Nat

def init (now : Nat) : State :=
  { info := fun _ => none, signers := fun _ => [], policies := fun _ => [], ids := fun _ => [],
    fps := [], nextId := 0, count := 0, now := now }

/-! ### getters -/

/-- `get_context_rule` (`none` = `ContextRuleNotFound`) -/
def getContextRule (s : State) (id : Nat) : Option Rule :=
  (s.info id).map fun m => ⟨id, m.ctx, m.name, s.signers id, s.policies id, m.validUntil⟩

/-- `get_context_rules(type)` (`none` = a listed id without `Meta`) -/
def getContextRules (s : State) (ctx : Nat) : Option (List Rule) := (s.ids ctx).mapM (getContextRule s)

def getContextRulesCount (s : State) : Nat := s.count

/-! ### fingerprints -/

def sortNat (l : List Nat) : List Nat := l.mergeSort (fun a b => decide (a ≤ b))

/-- `compute_fingerprint` (`DuplicateSigner` / `DuplicatePolicy` = `.dup`) -/
def computeFp (ctx : Nat) (signers policies : List Nat) : Except RErr FP :=
  if ¬ signers.Nodup then .error .dup
  else if ¬ policies.Nodup then .error .dup
  else .ok (ctx, sortNat signers, sortNat policies)

/-- `validate_and_set_fingerprint` -/
def setFp (s : State) (ctx : Nat) (signers policies : List Nat) : Except RErr State :=
  (computeFp ctx signers policies).bind fun fp =>
    if s.fps.contains fp then .error .dup else .ok { s with fps := s.fps ++ [fp] }

/-- `remove_fingerprint` -/
def removeFp (s : State) (ctx : Nat) (signers policies : List Nat) : Except RErr State :=
  (computeFp ctx signers policies).bind fun fp => .ok { s with fps := s.fps.filter (· ≠ fp) }

/-- `validate_signers_and_policies` -/
def validate (signers policies : List Nat) : Except RErr Unit :=
  if signers.length > MAX_SIGNERS then .error .limit
  else if policies.length > MAX_POLICIES then .error .limit
  else if signers = [] ∧ policies = [] then .error .empty
  else .ok ()

/-- `valid_until < e.ledger().sequence()` -/
def pastValidUntil (s : State) : Option Nat → Bool
  | some v => v < s.now
  | none => false

/-! ### add_context_rule -/

/-- the writes of `add_context_rule` after the fingerprint is stored -/
def storeRule (s : State) (ctx name : Nat) (vu : Option Nat) (signers ps : List Nat) : State :=
  { s with info := updD s.info s.nextId (some ⟨name, ctx, vu⟩),
           signers := updD s.signers s.nextId signers,
           policies := updD s.policies s.nextId ps,
           ids := updD s.ids ctx (s.ids ctx ++ [s.nextId]),
           nextId := s.nextId + 1,
           count := s.count + 1 }

def addContextRule (installOk : Nat → Bool) (s : State) (ctx name : Nat) (vu : Option Nat)
    (signers ps : List Nat) : Except RErr State :=
  if s.count ≥ MAX_CONTEXT_RULES then .error .limit
  else if ¬ signers.Nodup then .error .dup
  else if pastValidUntil s vu then .error .invalid
  else (validate signers ps).bind fun _ =>
    (setFp s ctx signers ps).bind fun s1 =>
      if !ps.all installOk then .error .notAllowed
      else .ok (storeRule s1 ctx name vu signers ps)

/-! ### updates of the metadata -/

def updateName (s : State) (id name : Nat) : Except RErr State :=
  match s.info id with
  | none => .error .absent
  | some m => .ok { s with info := updD s.info id (some { m with name := name }) }

def updateValidUntil (s : State) (id : Nat) (vu : Option Nat) : Except RErr State :=
  match s.info id with
  | none => .error .absent
  | some m =>
    if pastValidUntil s vu then .error .invalid
    else .ok { s with info := updD s.info id (some { m with validUntil := vu }) }

/-! ### remove_context_rule -/

/-- the writes of `remove_context_rule` after the fingerprint is removed (`eraseLast` is a
no-op when the id is not listed; `count - 1` on `count = 0` panics) -/
def dropRule (s : State) (id ctx : Nat) : Except RErr State :=
  if s.count = 0 then .error .panic
  else .ok { s with info := updD s.info id none,
                    signers := updD s.signers id [],
                    policies := updD s.policies id [],
                    ids := updD s.ids ctx (eraseLast (s.ids ctx) id),
                    count := s.count - 1 }

def removeContextRule (s : State) (id : Nat) : Except RErr State :=
  match s.info id with
  | none => .error .absent
  | some m => (removeFp s m.ctx (s.signers id) (s.policies id)).bind fun s1 => dropRule s1 id m.ctx

/-! ### signers and policies of a rule -/

/-- validate, store the new fingerprint, drop the old one -/
def refingerprint (s : State) (ctx : Nat) (oldS oldP newS newP : List Nat) : Except RErr State :=
  (validate newS newP).bind fun _ =>
    (setFp s ctx newS newP).bind fun s1 => removeFp s1 ctx oldS oldP

def addSigner (s : State) (id sg : Nat) : Except RErr State :=
  match s.info id with
  | none => .error .absent
  | some m =>
    if (s.signers id).contains sg then .error .dup
    else (refingerprint s m.ctx (s.signers id) (s.policies id) (s.signers id ++ [sg]) (s.policies id)).bind
      fun s1 => .ok { s1 with signers := updD s1.signers id (s.signers id ++ [sg]) }

def removeSigner (s : State) (id sg : Nat) : Except RErr State :=
  match s.info id with
  | none => .error .absent
  | some m =>
    if !(s.signers id).contains sg then .error .absent
    else (refingerprint s m.ctx (s.signers id) (s.policies id) (eraseLast (s.signers id) sg) (s.policies id)).bind
      fun s1 => .ok { s1 with signers := updD s1.signers id (eraseLast (s.signers id) sg) }

def addPolicy (installOk : Nat → Bool) (s : State) (id p : Nat) : Except RErr State :=
  match s.info id with
  | none => .error .absent
  | some m =>
    if (s.policies id).contains p then .error .dup
    else if !installOk p then .error .notAllowed
    else (refingerprint s m.ctx (s.signers id) (s.policies id) (s.signers id) (s.policies id ++ [p])).bind
      fun s1 => .ok { s1 with policies := updD s1.policies id (s.policies id ++ [p]) }

def removePolicy (s : State) (id p : Nat) : Except RErr State :=
  match s.info id with
  | none => .error .absent
  | some m =>
    if !(s.policies id).contains p then .error .absent
    else (refingerprint s m.ctx (s.signers id) (s.policies id) (s.signers id) (eraseLast (s.policies id) p)).bind
      fun s1 => .ok { s1 with policies := updD s1.policies id (eraseLast (s.policies id) p) }

/-! ### operation histories -/

inductive Op where
  | add (ctx name : Nat) (vu : Option Nat) (signers ps : List Nat)
  | rename (id name : Nat)
  | revalid (id : Nat) (vu : Option Nat)
  | remove (id : Nat)
  | addSigner (id sg : Nat)
  | removeSigner (id sg : Nat)
  | addPolicy (id p : Nat)
  | removePolicy (id p : Nat)
  /-- the ledger moves on by `n` sequence numbers; no storage entry is touched -/
  | advance (n : Nat)
  deriving DecidableEq, Repr

def step (installOk : Nat → Bool) (s : State) : Op → Except RErr State
  | .add c n vu sg ps => addContextRule installOk s c n vu sg ps
  | .rename id n => updateName s id n
  | .revalid id vu => updateValidUntil s id vu
  | .remove id => removeContextRule s id
  | .addSigner id sg => addSigner s id sg
  | .removeSigner id sg => removeSigner s id sg
  | .addPolicy id p => addPolicy installOk s id p
  | .removePolicy id p => removePolicy s id p
  | .advance n => .ok { s with now := s.now + n }

def next (installOk : Nat → Bool) (s : State) (o : Op) : State :=
  match step installOk s o with
  | .ok s' => s'
  | .error _ => s

def run (installOk : Nat → Bool) (s : State) (ops : List Op) : State := ops.foldl (next installOk) s

end OZ.RegRules
