import OZ.Model.SmartAccount
/-
The C03 MONITOR on parsed values, together with the typed form of everything the driver
OZ/Drv/C03.lean reads from the trace (op lines `MOp`, observation lines `Obs`, the scriptable
mock verifier / policy contracts of the harness `Mocks`). The driver only parses the strings and
calls `mstep` (model side: runs OZ.SmartAccount) resp. `checkCore` (monitor side: never calls the
model's transition functions). Kept apart from the driver so that OZ/Props/C03Mon.lean can prove
the monitor SOUND: on the observations of the model itself `checkCore` never reports a failure
(`monitor_accepts_every_model_trace`), hence an implementation whose observations agree with the
model's cannot raise a monitor alarm. Import-free apart from the model.

The monitor keeps its own plain list of rules (`GRule`, from the ACCEPTED management ops),
recomputes for every context the candidate rules in precedence order by SORTING (type-specific
by descending id, then Default by descending id, unexpired only) and evaluates on the observation
of every `check` / `e2e`:
  c03.sound.signature  c03.sound.verified  c03.sound.uncovered  c03.foreign  c03.sound.enforce
  c03.precedence  (accepted)            c03.complete  c03.foreign  (rejected)
and on every observation the getters against the ghost list (c03.getters, c03.limits,
c03.idle.changed) and, after an accepted management op, c03.fingerprint.duplicate.

Not in here (string level, in the driver): parsing of op / observation lines (`site=c03.parse`),
the `flagged` bit (a `!` or `?` anywhere in the line, or a store dump that does not parse), and
the classification of log events that are not in canonical form as `LEv.other`.
-/
namespace OZ.SmartAccount.Mon
open OZ.SmartAccount

/-! ### rendering (shared by the model side of the driver and the monitor's messages) -/

def showSigner : Signer → String
  | .delegated a => s!"d{a}"
  | .external v k => s!"x{v}.{k}"

def showType : RuleType → String
  | .default => "D"
  | .call a => s!"C{a}"
  | .create h => s!"K{h}"

def showCtx : Ctx → String
  | .call a t => s!"C{a}.{t}"
  | .create h t => s!"K{h}.{t}"

def plus (l : List String) : String := if l.isEmpty then "-" else "+".intercalate l
def commas (l : List String) : String := if l.isEmpty then "-" else ",".intercalate l

def showOptNat : Option Nat → String
  | some n => toString n
  | none => "-"

/-! ### the mocks of the harness as oracle tables (used by model side and, separately, by the monitor) -/

structure PolCfg where
  thr : List (Nat × Nat) := []
  dflt : Nat := 0
  denyFn : List Nat := []
  denyCreate : Bool := false
  budget : Option Nat := none
  installTrap : Bool := false
  uninstTrap : Bool := false

structure Mocks where
  vmode : List ((Nat × Nat) × Nat) := []
  pols : List (Nat × PolCfg) := []

def lookup {α β} [BEq α] (l : List (α × β)) (k : α) : Option β := (l.find? (fun p => p.1 == k)).map (·.2)
def setKey {α β} [BEq α] (l : List (α × β)) (k : α) (v : β) : List (α × β) := (k, v) :: l.filter (fun p => !(p.1 == k))

def Mocks.pol (m : Mocks) (p : Nat) : PolCfg := (lookup m.pols p).getD {}

def verifyMode (mode g : Nat) : Bool :=
  match mode with
  | 0 => g == 1
  | 1 => true
  | _ => false

/-- MockVerifier::verify; verifier index ≥ 2 is an address without a contract (the call traps) -/
def Mocks.verify (m : Mocks) (v k g : Nat) : Bool :=
  if v ≥ 2 then false
  else verifyMode ((lookup m.vmode (v, k)).getD 0) g

def ctxDenied (c : PolCfg) : Ctx → Bool
  | .call _ t => c.denyFn.contains t
  | .create _ _ => c.denyCreate

/-- MockPolicy::can_enforce -/
def Mocks.can (m : Mocks) (p : Nat) (ctx : Ctx) (n : Nat) (ruleId : Nat) : Bool :=
  decide (n ≥ (lookup (m.pol p).thr ruleId).getD (m.pol p).dflt) && !(ctxDenied (m.pol p) ctx)

def budgetOk (b : Option Nat) (before : Nat) : Bool :=
  match b with
  | none => true
  | some b => decide (before < b)

/-- MockPolicy::enforce does not trap after `before` earlier enforce calls on the same policy -/
def Mocks.enfOk (m : Mocks) (p : Nat) (before : Nat) : Bool := budgetOk (m.pol p).budget before

def spendOne (m : Mocks) (p : Nat) : Mocks :=
  match (m.pol p).budget with
  | none => m
  | some b => { m with pols := setKey m.pols p { m.pol p with budget := some (b - 1) } }

def Mocks.spend (m : Mocks) (ps : List Nat) : Mocks := ps.foldl spendOne m

/-- one `pset` line: which knob of a mock policy is turned -/
inductive PSet where
  | thr (r k : Nat)
  | dflt (x : Nat)
  | denyFn (f on : Nat)
  | denyCreate (b : Bool)
  | budget (o : Option Nat)
  | install (b : Bool)
  | uninst (b : Bool)
  | nop

inductive Setter where
  | vset (v k mode : Nat)
  | pset (p : Nat) (u : PSet)
  | nop

def applyPSet (c : PolCfg) : PSet → PolCfg
  | .thr r k => { c with thr := setKey c.thr r k }
  | .dflt x => { c with dflt := x }
  | .denyFn f on => { c with denyFn := if on = 0 then c.denyFn.filter (· != f) else f :: c.denyFn.filter (· != f) }
  | .denyCreate b => { c with denyCreate := b }
  | .budget o => { c with budget := o }
  | .install b => { c with installTrap := b }
  | .uninst b => { c with uninstTrap := b }
  | .nop => c

def applySetter (m : Mocks) : Setter → Mocks
  | .vset v k mode => { m with vmode := setKey m.vmode (v, k) mode }
  | .pset p u => { m with pols := setKey m.pols p (applyPSet (m.pol p) u) }
  | .nop => m

/-! ### the lines of the trace as values -/

/-- one entry of the `log=` field: a call received by a mock contract -/
inductive LEv where
  | v (v k g : Nat)
  | c (p rid : Nat) (ctx : Ctx) (sg : List Signer)
  | e (p rid : Nat) (ctx : Ctx) (sg : List Signer)
  | i (p id : Nat)
  | u (p id : Nat)
  /-- an entry that is not in canonical form (flagged by the harness with `!`, an unknown address
  `?`, …): `kind` 0 / 1 / 2 = it starts with `v` / `c` / `e`, 3 = anything else; `pol` = the
  number after the first letter if there is one -/
  | other (kind : Nat) (pol : Option Nat) (raw : String)
  deriving DecidableEq, Repr

def showLEv : LEv → String
  | .v v k g => s!"v{v}.{k}.{g}"
  | .c p rid c sg => s!"c{p}/{rid}/{showCtx c}/{plus (sg.map showSigner)}"
  | .e p rid c sg => s!"e{p}/{rid}/{showCtx c}/{plus (sg.map showSigner)}"
  | .i p id => s!"i{p}/{id}"
  | .u p id => s!"u{p}/{id}"
  | .other _ _ raw => raw

/-- an op line -/
inductive MOp where
  | setter (u : Setter)
  | ledger (seq : Option Nat)
  | add (t : RuleType) (vu : Option Nat) (sg : List Signer) (pm : List Nat)
  | rm (id : Nat)
  | vu (id : Nat) (vu : Option Nat)
  | name (id : Nat)
  | adds (id : Nat) (x : Signer)
  | rms (id : Nat) (x : Signer)
  | addp (id p : Nat)
  | rmp (id p : Nat)
  /-- `check` (direct `__check_auth`) and `e2e` (through a real authorization entry) -/
  | check (sigs : List (Signer × Nat)) (auth : List Nat) (ctxs : List Ctx)

def typeUniverse : List RuleType :=
  [.default, .call 0, .call 1, .call 2, .create 0, .create 1, .create 2]

/-- a rule as the getters show it (everything but the name) -/
structure GRule where
  id : Nat
  ty : RuleType
  vu : Option Nat
  signers : List Signer
  policies : List Nat
  deriving DecidableEq, Repr

/-- an observation line: ok / err, `id=`, `now=`, `log=`, `cnt=`, `ids=` and the getter dump -/
structure Obs where
  ok : Bool
  id : Option Nat
  now : Nat
  log : List LEv
  cnt : Nat
  ids : List (Nat × RuleType)
  rules : List GRule        -- in getter order: type universe order, then list order
  flagged : Bool            -- a `!` or `?` anywhere (getter inconsistency flagged by the harness)

/-! ### model side: the op lines run on OZ.SmartAccount -/

structure St where
  s : Store
  now : Nat
  mocks : Mocks

def oracleOf (m : Mocks) (auth : List Nat) : Oracle :=
  { verify := m.verify
    auth := fun a => auth.contains a
    can := fun p ctx matched rule => m.can p ctx matched.length rule.id
    enf := fun hist c => m.enfOk c.policy (hist.filter (fun h => h.policy == c.policy)).length }

/-- the entry of the `log=` field for one external call of the model's trace; the call to a
verifier address without a contract (index ≥ 2) is received by nobody -/
def toLEv : Event → Option LEv
  | .verify v k g => if v ≥ 2 then none else some (.v v k g)
  | .can p r c m => some (.c p r.id c m)
  | .enforce p r c m => some (.e p r.id c m)

/-- what the model answers to an op line beside the state: ok / err, the `id=` and the `log=` fields -/
structure MRes where
  ok : Bool
  id : Option Nat
  log : List LEv

def mgmtRes (st : St) (r : Except Err Store) (id : Option Nat) (log : List LEv) : St × MRes :=
  match r with
  | .ok s' => ({ st with s := s' }, ⟨true, id, log⟩)
  | .error _ => (st, ⟨false, none, []⟩)

def addRes (st : St) (r : Except Err (Store × Rule)) : St × MRes :=
  match r with
  | .ok (s', r) => mgmtRes st (.ok s') (some r.id) (r.policies.map (fun p => LEv.i p r.id))
  | .error e => mgmtRes st (.error e) none []

def polsOf (s : Store) (id : Nat) : List Nat :=
  match getContextRule s id with
  | .ok r => r.policies
  | .error _ => []

def checkRes (st : St) (log : List LEv) (r : Except Err (List EnfCall)) : St × MRes :=
  match r with
  | .ok calls => ({ st with mocks := st.mocks.spend (calls.map (·.policy)) }, ⟨true, none, log⟩)
  | .error _ => (st, ⟨false, none, log⟩)

/-- the model's answer to one op line (the driver prints `(mstep st op).2` and the getters of
`(mstep st op).1.s`) -/
def mstep (st : St) : MOp → St × MRes
  | .setter u => ({ st with mocks := applySetter st.mocks u }, ⟨true, none, []⟩)
  | .ledger seq => ({ st with now := seq.getD st.now }, ⟨true, none, []⟩)
  | .add t vu sg pm =>
    addRes st (addContextRule st.s st.now t 0 vu sg pm (fun p => !(st.mocks.pol p).installTrap))
  | .rm id => mgmtRes st (removeContextRule st.s id) none ((polsOf st.s id).map (fun p => LEv.u p id))
  | .vu id vu => mgmtRes st (updateValidUntil st.s st.now id vu) (some id) []
  | .name id => mgmtRes st (updateName st.s id 1) (some id) []
  | .adds id x => mgmtRes st (addSigner st.s id x) none []
  | .rms id x => mgmtRes st (removeSigner st.s id x) none []
  | .addp id p => mgmtRes st (addPolicy st.s id p (!(st.mocks.pol p).installTrap)) none [LEv.i p id]
  | .rmp id p => mgmtRes st (removePolicy st.s id p) none [LEv.u p id]
  | .check sigs auth ctxs =>
    checkRes st ((checkTrace (oracleOf st.mocks auth) st.s st.now sigs ctxs).1.filterMap toLEv)
      (doCheckAuth (oracleOf st.mocks auth) st.s st.now sigs ctxs)

def ctorStore (r : Except Err (Store × Rule)) : Store :=
  match r with
  | .ok (s, _) => s
  | .error _ => Store.empty

/-- the account after its constructor: rule 0 = Default, no expiry, signers `s0`, policies `p0` -/
def initSt (start : Nat) (s0 : List Signer) (p0 : List Nat) : St :=
  { s := ctorStore (addContextRule Store.empty start .default 0 none s0 p0 (fun _ => true)), now := start, mocks := {} }


/-- the monitor's view of a stored rule -/
def toG (r : Rule) : GRule := ⟨r.id, r.ctype, r.validUntil, r.signers, r.policies⟩

def rulesOfType (s : Store) (t : RuleType) : List GRule :=
  match getContextRules s (s.ids t) with
  | .ok rs => rs.map toG
  | .error _ => []

def typeFails (s : Store) (t : RuleType) : Bool :=
  match getContextRules s (s.ids t) with
  | .ok _ => false
  | .error _ => true

def idTyOf (s : Store) (id : Nat) : Option (Nat × RuleType) :=
  match getContextRule s id with
  | .ok r => some (id, r.ctype)
  | .error _ => none

/-- the observation line of the MODEL as a value: exactly the data the driver prints with
`obsLine` / `showStore` (OZ/Drv/C03.lean) for the state `st` after the op and its answer `r` —
ok / err, id, now, log, Count, `get_context_rule` for the ids `0 .. NextId+1`, and
`get_context_rules` of every type of the universe (a failing getter is printed `T:?`, which the
driver's `parseObs` reads back as `flagged`) -/
def modelObs (st : St) (r : MRes) : Obs :=
  { ok := r.ok, id := r.id, now := st.now, log := r.log, cnt := st.s.count,
    ids := (List.range (st.s.nextId + 2)).filterMap (idTyOf st.s),
    rules := typeUniverse.flatMap (rulesOfType st.s),
    flagged := typeUniverse.any (typeFails st.s) }

/-! ### monitor (independent of OZ.SmartAccount's transition functions) -/

structure Mon where
  rules : List GRule := []
  now : Nat := 0
  mocks : Mocks := {}

def insertSorted (x : Nat) : List Nat → List Nat
  | [] => [x]
  | y :: ys => if x < y then x :: y :: ys else if x == y then y :: ys else y :: insertSorted x ys

def sortDedup (l : List Nat) : List Nat := l.foldr insertSorted []

def modify (rules : List GRule) (id : Nat) (f : GRule → GRule) : List GRule :=
  rules.map (fun r => if r.id == id then f r else r)

def ghostAdd (rules : List GRule) (id : Option Nat) (t : RuleType) (vu : Option Nat) (sg : List Signer)
    (pm : List Nat) : List GRule :=
  match id with
  | some id => rules ++ [{ id := id, ty := t, vu := vu, signers := sg, policies := sortDedup pm }]
  | none => rules

/-- the monitor's plain view: apply an ACCEPTED management op to the list of rules -/
def ghostApply (rules : List GRule) (op : MOp) (o : Obs) : List GRule :=
  match op with
  | .add t vu sg pm => ghostAdd rules o.id t vu sg pm
  | .rm id => rules.filter (fun r => r.id != id)
  | .vu id vu => modify rules id (fun r => { r with vu := vu })
  | .adds id x => modify rules id (fun r => { r with signers := r.signers ++ [x] })
  | .rms id x => modify rules id (fun r => { r with signers := r.signers.filter (· != x) })
  | .addp id p => modify rules id (fun r => { r with policies := r.policies ++ [p] })
  | .rmp id p => modify rules id (fun r => { r with policies := r.policies.filter (· != p) })
  | _ => rules

def byIdAsc (l : List GRule) : List GRule := l.mergeSort (fun a b => a.id ≤ b.id)
def byIdDesc (l : List GRule) : List GRule := l.mergeSort (fun a b => a.id ≥ b.id)

def live (now : Nat) (r : GRule) : Bool :=
  match r.vu with
  | some v => decide (now ≤ v)
  | none => true

/-- precedence order of the property: newest first, type-specific before Default, unexpired only -/
def candidates (rules : List GRule) (now : Nat) (c : Ctx) : List GRule :=
  byIdDesc (rules.filter (fun r => r.ty == typeOf c && live now r)) ++
  byIdDesc (rules.filter (fun r => r.ty == RuleType.default && live now r))

def monCan (m : Mocks) (p : Nat) (c : Ctx) (n : Nat) (rid : Nat) : Bool :=
  decide ((lookup (m.pol p).thr rid).getD (m.pol p).dflt ≤ n) && !(ctxDenied (m.pol p) c)

/-- the rule's own signers that were supplied, in rule order -/
def counted (r : GRule) (supplied : List Signer) : List Signer := r.signers.filter (supplied.contains ·)

def satisfied (m : Mocks) (c : Ctx) (supplied : List Signer) (r : GRule) : Bool :=
  if r.policies.isEmpty then r.signers.all (supplied.contains ·)
  else r.policies.all (fun p => monCan m p c (counted r supplied).length r.id)

def askedStep (m : Mocks) (c : Ctx) (n rid : Nat) (acc : List Nat × Bool) (p : Nat) : List Nat × Bool :=
  if acc.2 then acc else (acc.1 ++ [p], !(monCan m p c n rid))

/-- the policies of a rule that are asked: in order, up to and including the first that refuses -/
def asked (m : Mocks) (c : Ctx) (n rid : Nat) (ps : List Nat) : List Nat :=
  (ps.foldl (askedStep m c n rid) ([], false)).1

def ruleCans (m : Mocks) (c : Ctx) (supplied : List Signer) (r : GRule) : List LEv :=
  (asked m c (counted r supplied).length r.id r.policies).map (fun p => LEv.c p r.id c (counted r supplied))

/-- can_enforce questions a precedence-respecting evaluation asks for one context -/
def expectedCans (m : Mocks) (c : Ctx) (supplied : List Signer) : List GRule → List LEv
  | [] => []
  | r :: rs =>
    if satisfied m c supplied r then ruleCans m c supplied r
    else ruleCans m c supplied r ++ expectedCans m c supplied rs

def sigValid (m : Mocks) (auth : List Nat) (sg : Signer) (g : Nat) : Bool :=
  match sg with
  | .external v k => m.verify v k g
  | .delegated a => auth.contains a

def countBefore (l : List Nat) (p : Nat) : Nat := (l.filter (· == p)).length

/-- does the ghost budget let every expected enforce call through? -/
def enforceAllowed (m : Mocks) : List Nat → List Nat → Bool
  | _, [] => true
  | seen, p :: ps => m.enfOk p (countBefore seen p) && enforceAllowed m (seen ++ [p]) ps

def LEv.isV : LEv → Bool
  | .v _ _ _ => true
  | .other 0 _ _ => true
  | _ => false

def LEv.isC : LEv → Bool
  | .c _ _ _ _ => true
  | .other 1 _ _ => true
  | _ => false

def LEv.isE : LEv → Bool
  | .e _ _ _ _ => true
  | .other 2 _ _ => true
  | _ => false

/-- the verifier calls that authenticating the whole signature map makes (addresses ≥ 2 have no contract) -/
def expVerif (sg : Signer × Nat) : Option LEv :=
  match sg.1 with
  | .external v k => if v ≥ 2 then none else some (.v v k sg.2)
  | .delegated _ => none

def allValid (m : Mocks) (auth : List Nat) (sigs : List (Signer × Nat)) : Bool :=
  sigs.all (fun sg => sigValid m auth sg.1 sg.2)

/-- per context the first candidate rule that is satisfied -/
def chosenOf (mn : Mon) (supplied : List Signer) (ctxs : List Ctx) : List (Ctx × Option GRule) :=
  ctxs.map (fun c => (c, (candidates mn.rules mn.now c).find? (satisfied mn.mocks c supplied)))

def covered (chosen : List (Ctx × Option GRule)) : Bool := chosen.all (fun p => p.2.isSome)

def enforceOfOne (supplied : List Signer) (p : Ctx × Option GRule) : List LEv :=
  match p.2 with
  | some r => r.policies.map (fun q => LEv.e q r.id p.1 (counted r supplied))
  | none => []

def expEnforce (supplied : List Signer) (chosen : List (Ctx × Option GRule)) : List LEv :=
  chosen.flatMap (enforceOfOne supplied)

def polsOfOne (p : Ctx × Option GRule) : List Nat :=
  match p.2 with
  | some r => r.policies
  | none => []

def expEnforcePols (chosen : List (Ctx × Option GRule)) : List Nat := chosen.flatMap polsOfOne

def expCans (mn : Mon) (supplied : List Signer) (ctxs : List Ctx) : List LEv :=
  ctxs.flatMap (fun c => expectedCans mn.mocks c supplied (candidates mn.rules mn.now c))

def foreignSg (rules : List GRule) (supplied : List Signer) (ev : LEv) (rid : Nat) (sg : List Signer) : Option LEv :=
  match rules.find? (fun r => r.id == rid) with
  | some r => if counted r supplied == sg then none else some ev
  | none => some ev

/-- foreign signers: the signer list handed to a policy is exactly (rule signers ∩ supplied) -/
def foreignEv (rules : List GRule) (supplied : List Signer) (ev : LEv) : Option LEv :=
  match ev with
  | .c _ rid _ sg => foreignSg rules supplied ev rid sg
  | .e _ rid _ sg => foreignSg rules supplied ev rid sg
  | _ => some ev

def foreign (rules : List GRule) (supplied : List Signer) (log : List LEv) : Option LEv :=
  (log.filter LEv.isC ++ log.filter LEv.isE).findSome? (foreignEv rules supplied)

def showChosen (chosen : List (Ctx × Option GRule)) : List (String × Option Nat) :=
  chosen.map (fun p => (showCtx p.1, p.2.map (·.id)))

def showLogL (l : List LEv) : List String := l.map showLEv

/-- an ACCEPTED check: soundness of acceptance, foreign signers, enforce calls, precedence -/
def verdictOk (mn : Mon) (sigs : List (Signer × Nat)) (auth : List Nat) (ctxs : List Ctx) (o : Obs) : Option String :=
  if !allValid mn.mocks auth sigs then some s!"site=c03.sound.signature accepted although a supplied signature does not verify"
  else if o.log.filter LEv.isV != sigs.filterMap expVerif then
    some s!"site=c03.sound.verified verifier calls {showLogL o.log} do not cover every supplied external signature"
  else if !covered (chosenOf mn (sigs.map Prod.fst) ctxs) then
    some s!"site=c03.sound.uncovered accepted although some context has no satisfied live rule; chosen={showChosen (chosenOf mn (sigs.map Prod.fst) ctxs)}"
  else if (foreign mn.rules (sigs.map Prod.fst) o.log).isSome then
    some s!"site=c03.foreign a policy received signers other than (rule signers ∩ supplied): {((foreign mn.rules (sigs.map Prod.fst) o.log).map showLEv).getD ""}"
  else if o.log.filter LEv.isE != expEnforce (sigs.map Prod.fst) (chosenOf mn (sigs.map Prod.fst) ctxs) then
    some s!"site=c03.sound.enforce enforce calls {showLogL (o.log.filter LEv.isE)} but the first satisfied rules require {showLogL (expEnforce (sigs.map Prod.fst) (chosenOf mn (sigs.map Prod.fst) ctxs))}"
  else if o.log.filter LEv.isC != expCans mn (sigs.map Prod.fst) ctxs then
    some s!"site=c03.precedence can_enforce calls {showLogL (o.log.filter LEv.isC)} but precedence order asks {showLogL (expCans mn (sigs.map Prod.fst) ctxs)}"
  else if !enforceAllowed mn.mocks [] (expEnforcePols (chosenOf mn (sigs.map Prod.fst) ctxs)) then
    some s!"site=c03.sound.enforce-refused accepted although an enforcement hook of a chosen rule refuses (chosen={showChosen (chosenOf mn (sigs.map Prod.fst) ctxs)}): the policy was not enforced"
  else none

/-- a REJECTED check: completeness, foreign signers -/
def verdictErr (mn : Mon) (sigs : List (Signer × Nat)) (auth : List Nat) (ctxs : List Ctx) (o : Obs) : Option String :=
  if allValid mn.mocks auth sigs && covered (chosenOf mn (sigs.map Prod.fst) ctxs)
      && enforceAllowed mn.mocks [] (expEnforcePols (chosenOf mn (sigs.map Prod.fst) ctxs)) then
    some s!"site=c03.complete rejected although all signatures verify, every context has a satisfied live rule (chosen={showChosen (chosenOf mn (sigs.map Prod.fst) ctxs)}) and no enforce hook refuses"
  else if (foreign mn.rules (sigs.map Prod.fst) o.log).isSome then
    some s!"site=c03.foreign a policy received signers other than (rule signers ∩ supplied): {((foreign mn.rules (sigs.map Prod.fst) o.log).map showLEv).getD ""}"
  else none

def checkAuthMon (mn : Mon) (sigs : List (Signer × Nat)) (auth : List Nat) (ctxs : List Ctx) (o : Obs) : Option String :=
  if o.ok then verdictOk mn sigs auth ctxs o else verdictErr mn sigs auth ctxs o

def showIdTy (p : Nat × RuleType) : String := s!"{p.1}{showType p.2}"

/-- getters list each type's rules in insertion order = ascending id (ids are handed out increasingly) -/
def expectRules (rules : List GRule) : List GRule :=
  typeUniverse.flatMap (fun t => byIdAsc (rules.filter (·.ty == t)))

def expectIds (rules : List GRule) : List (Nat × RuleType) := (byIdAsc rules).map (fun r => (r.id, r.ty))

def overLimit (r : GRule) : Bool :=
  decide (r.signers.length > 15 ∨ r.policies.length > 5 ∨ (r.signers.isEmpty && r.policies.isEmpty) = true)

def getterCheck (rules : List GRule) (o : Obs) : Option String :=
  if o.flagged then some "site=c03.getters the harness flagged an inconsistent getter / rule handed to a policy"
  else if o.rules != expectRules rules then some s!"site=c03.getters get_context_rules disagree with the accepted management history"
  else if o.ids != expectIds rules then some s!"site=c03.getters get_context_rule by id {o.ids.map showIdTy} disagrees with {(expectIds rules).map showIdTy}"
  else if o.cnt != rules.length then some s!"site=c03.getters count {o.cnt} but {rules.length} rules"
  else if rules.length > 15 ∨ rules.any overLimit then
    some "site=c03.limits a documented limit (15 rules / 15 signers / 5 policies / non-empty) is exceeded"
  else none

def sameSet {α} [BEq α] (a b : List α) : Bool := a.all (b.contains ·) && b.all (a.contains ·)

def sameFp (r q : GRule) : Bool := q.ty == r.ty && sameSet q.signers r.signers && sameSet q.policies r.policies

/-- no two stored rules may have the same type, signer set and policy set (duplicate fingerprint) -/
def fingerprintCheck : List GRule → Option String
  | [] => none
  | r :: rest =>
    match rest.find? (sameFp r) with
    | some q => some s!"site=c03.fingerprint.duplicate rules {r.id} and {q.id} have identical type, signers and policies"
    | none => fingerprintCheck rest

/-- budgets of the mock policies move only on an accepted check: by the enforce calls it made -/
def polOfLEv (ev : LEv) : Option Nat :=
  match ev with
  | .e p _ _ _ => some p
  | .other _ pol _ => pol
  | _ => none

def spentOf (o : Obs) : List Nat :=
  if o.ok then (o.log.filter LEv.isE).filterMap polOfLEv else []

def firstSome (a b : Option String) : Option String :=
  match a with
  | some x => some x
  | none => b

def idleMsg (now : Nat) (g : Option String) : Option String :=
  match g with
  | some msg => some s!"site=c03.idle.changed the rule store changed by the mere passage of time (ledger {now}): {msg.replace "site=" "was="}"
  | none => none

def mgmtVerdict (rules : List GRule) (o : Obs) : Option String :=
  firstSome (getterCheck rules o) (if o.ok then fingerprintCheck rules else none)

/-- the monitor's step on parsed values -/
def checkCore (mn : Mon) (op : MOp) (o : Obs) : Mon × Option String :=
  match op with
  | .check sigs auth ctxs =>
    ({ rules := mn.rules, now := o.now, mocks := mn.mocks.spend (spentOf o) },
     firstSome (checkAuthMon { mn with now := o.now } sigs auth ctxs o) (getterCheck mn.rules o))
  | .setter u =>
    ({ rules := mn.rules, now := o.now, mocks := applySetter mn.mocks u }, getterCheck mn.rules o)
  | .ledger _ =>
    -- pure passage of time: nothing may happen to the rule store
    ({ rules := mn.rules, now := o.now, mocks := mn.mocks }, idleMsg o.now (getterCheck mn.rules o))
  | op =>
    ({ rules := if o.ok then ghostApply mn.rules op o else mn.rules, now := o.now, mocks := mn.mocks },
     mgmtVerdict (if o.ok then ghostApply mn.rules op o else mn.rules) o)

/-- the constructor installs rule 0 (Default, no expiry, signers `s0`, policies `p0`) — provided
its arguments respect the documented limits (otherwise there is no account and no rule) -/
def ctorOk (s0 : List Signer) (p0 : List Nat) : Bool :=
  !(hasDup s0) && decide (s0.length ≤ 15) && decide ((sortDedup p0).length ≤ 5) && !(s0.isEmpty && (sortDedup p0).isEmpty)

def monInit (s0 : List Signer) (p0 : List Nat) : Mon :=
  { rules := if ctorOk s0 p0 then [{ id := 0, ty := .default, vu := none, signers := s0, policies := sortDedup p0 }] else [] }

/-- the initial ghost list the monitor used before its soundness was proved (kept for the
regression `legacy_minit_false_alarm` in OZ/Props/C03Mon.lean) -/
def legacyMonInit (s0 : List Signer) (p0 : List Nat) : Mon :=
  { rules := [{ id := 0, ty := .default, vu := none, signers := s0, policies := sortDedup p0 }] }

end OZ.SmartAccount.Mon
