import OZ.Model.AccessStk
/-
C06, machine `stk` (stacked role guards): the model side of the driver and the MONITOR on parsed values.

The driver OZ/Drv/C06.lean dispatches on the sequence label (`kind=stk`): for this machine it parses the
trace lines (`StkIO.parseOp`, `StkIO.parseObs`) and calls `stepM` (model side) resp. `checkCore` (monitor, fed
with the IMPLEMENTATION's observations; it never calls the model's transition functions and keeps its own
ghost role table / ghost counter, moved only by the calls the implementation accepted).
OZ/Props/C06StkMon.lean proves the monitor sound: on the observations of the model itself it never reports
anything. Import-free apart from the models.
-/
namespace OZ.Access.Stk.Mon
open OZ.Access OZ.Access.Stk

/-! ## model side -/

/-- `none` = rejected -/
def okOpt : Except Err St → Option St
  | .ok s' => some s'
  | .error _ => none

/-- one op through the model: the new state (unchanged when the call is rejected: the host rolls back)
and whether the call was accepted -/
def stepM (s : St) (auth : List Nat) (op : Op) : St × Bool :=
  match okOpt (s.apply auth op) with
  | some s' => (s', true)
  | none => (s, false)

/-- the parameter of a sequence label: `admin=` -/
structure Params where
  admin : Nat

def initM (p : Params) : St := St.construct p.admin

/-! ### the observation line, parsed

`ok|err ret=<i|-> counter=<i> roles=<bits of accounts 0..4 for role 0>;<role 1>;<role 2>`. `Stable` holds
everything a rejected call must leave unchanged. -/

/-- accounts and roles whose membership is displayed -/
def N_ACC : Nat := 5
def N_ROLE : Nat := 3

/-- the displayed part of a role table: for each role 0..2 the bits of accounts 0..4 -/
def tableOf (h : Nat → Nat → Bool) : List (List Bool) :=
  (List.range N_ROLE).map fun r => (List.range N_ACC).map fun a => h a r

structure Stable where
  counter : Int
  roles : List (List Bool)
  deriving DecidableEq

structure Obs where
  ok : Bool
  ret : Option Int
  st : Stable

/-- every getter the model driver prints for a state (`OZ.Drv.C06.StkIO.obsLine` prints exactly these) -/
def stableOf (s : St) : Stable := { counter := s.counter, roles := tableOf s.holds }

/-- the value an accepted stacked entry point returns: the new counter -/
def retOf (s : St) (ok : Bool) : Op → Option Int
  | .call _ _ _ => if ok then some s.counter else none
  | _ => none

/-- the model's observation of a call: the tag, the return value and the getters of the state after it -/
def modelObs (s : St) (ok : Bool) (op : Op) : Obs := ⟨ok, retOf s ok op, stableOf s⟩

/-! ## the monitor -/

/-- monitor state: the admin of the label, a ghost role table moved only by accepted grant / revoke calls,
a ghost counter moved only by accepted stacked calls, the previous getters -/
structure Mon where
  admin : Nat
  holds : Nat → Nat → Bool
  counter : Int
  prev : Option Stable

def monInit (p : Params) : Mon :=
  { admin := p.admin, holds := fun _ _ => false, counter := 0, prev := none }

/-- the account a guard names holds (one of) its role(s), by the ghost table -/
def roleOk (m : Mon) (a b : Nat) (g : Guard) : Bool := g.roles.any fun r => m.holds (g.who a b) r

/-- the account an `only_*` guard names authorized the call -/
def authOk (auth : List Nat) (a b : Nat) (g : Guard) : Bool := !g.needsAuth || auth.contains (g.who a b)

def macName : Guard → String
  | .has _ _ => "has_role"
  | .only _ _ => "only_role"
  | .hasAny _ _ => "has_any_role"
  | .onlyAny _ _ => "only_any_role"

def paramName (g : Guard) : String := if g.onB then "b" else "a"

/-- the first guard of a list that fails a test -/
def firstBad (p : Guard → Bool) (gs : List Guard) : Option Guard := gs.find? fun g => !p g

def describe (g : Option Guard) (a b : Nat) : String :=
  match g with
  | some g => s!"{macName g}({paramName g} = {g.who a b}, roles {g.roles})"
  | none => "?"

/-! ### ghost updates (from the op line and the IMPLEMENTATION's verdict only) -/

def holdsF (h : Nat → Nat → Bool) : Op → Nat → Nat → Bool
  | .grant acct role => setHolds h acct role true
  | .revoke acct role => setHolds h acct role false
  | .call _ _ _ => h

def holdsStep (m : Mon) (op : Op) (ok : Bool) : Nat → Nat → Bool := if ok then holdsF m.holds op else m.holds

def counterF (c : Int) : Op → Int
  | .call _ _ _ => c + 1
  | _ => c

def counterStep (m : Mon) (op : Op) (ok : Bool) : Int := if ok then counterF m.counter op else m.counter

/-! ### the checks -/

/-- a rejected call has no observable effect -/
def vRollback (m : Mon) (o : Obs) : Option String :=
  if ¬ o.ok ∧ m.prev.isSome ∧ m.prev ≠ some o.st then
    some "site=stacked.rollback a rejected call changed the observed state"
  else none

/-- every guard of the entry point holds, and the `i32` counter has room -/
def guardsHold (m : Mon) (auth : List Nat) (f : Fn) (a b : Nat) : Bool :=
  f.guards.all (roleOk m a b) && f.guards.all (authOk auth a b) && decide (m.counter + 1 ≤ I32_MAX)

/-- a stacked entry point: accepted only if the account EACH guard names holds (one of) that guard's
role(s) AND, for the `only_*` guards, authorized — whatever the order of the two attributes; refused only if
one of these fails -/
def vFn (m : Mon) (auth : List Nat) (f : Fn) (a b : Nat) (o : Obs) : Option String :=
  if o.ok ∧ ¬ f.guards.all (roleOk m a b) then
    some s!"site=stacked.bypass.role.{f.name} accepted although {describe (firstBad (roleOk m a b) f.guards) a b} is not satisfied: the account holds none of the roles"
  else if o.ok ∧ ¬ f.guards.all (authOk auth a b) then
    some s!"site=stacked.bypass.auth.{f.name} accepted without the authorization that {describe (firstBad (authOk auth a b) f.guards) a b} demands"
  else if ¬ o.ok ∧ guardsHold m auth f a b then
    some s!"site=stacked.refused.{f.name} refused although every guard's role is held and every only_* guard's account authorized"
  else none

def opName : Op → String
  | .call f _ _ => f.name
  | .grant _ _ => "grant"
  | .revoke _ _ => "revoke"

/-- the conditions under which the contract accepts a grant / revoke: the admin authorizes, the role is
one of the three, and — revoke — the pair is held -/
def adminOpDue (m : Mon) (auth : List Nat) : Op → Bool
  | .grant _ role => auth.contains m.admin && decide (role < 3)
  | .revoke acct role => auth.contains m.admin && decide (role < 3) && m.holds acct role
  | .call _ _ _ => false

/-- grant / revoke: accepted only with the admin's authorization; not refused when due -/
def vAdmin (m : Mon) (auth : List Nat) (op : Op) (o : Obs) : Option String :=
  if o.ok ∧ ¬ auth.contains m.admin then
    some s!"site=stacked.admin.{opName op} accepted without the admin's authorization"
  else if ¬ o.ok ∧ adminOpDue m auth op then
    some s!"site=stacked.refused.{opName op} the admin's {opName op} refused"
  else none

def vCall (m : Mon) (auth : List Nat) (op : Op) (o : Obs) : Option String :=
  match op with
  | .call f a b => vFn m auth f a b o
  | _ => vAdmin m auth op o

def isCall : Op → Bool
  | .call _ _ _ => true
  | _ => false

/-- the getters follow the accepted calls and nothing else: the counter is +1 per accepted stacked call,
the displayed role table is the one the accepted grants / revokes give, an accepted stacked call returns the
new counter -/
def vEffect (m : Mon) (op : Op) (o : Obs) : Option String :=
  if o.st.counter ≠ counterStep m op o.ok then
    some s!"site=stacked.effect counter = {o.st.counter} but the accepted calls give {counterStep m op o.ok}"
  else if o.st.roles ≠ tableOf (holdsStep m op o.ok) then
    some s!"site=stacked.effect the role table {o.st.roles} is not the one the accepted grants / revokes give, {tableOf (holdsStep m op o.ok)}"
  else if o.ok ∧ isCall op ∧ o.ret ≠ some o.st.counter then
    some s!"site=stacked.effect {opName op} did not return the new counter {o.st.counter}"
  else none

def orElse (a : Option String) (b : Unit → Option String) : Option String :=
  match a with
  | some x => some x
  | none => b ()

/-- the property's conclusion for one call, on observed values only (first failing check) -/
def verdict (m : Mon) (auth : List Nat) (op : Op) (o : Obs) : Option String :=
  orElse (vRollback m o) fun _ =>
  orElse (vCall m auth op o) fun _ =>
  vEffect m op o

/-- the monitor's step on parsed values -/
def checkCore (m : Mon) (auth : List Nat) (op : Op) (o : Obs) : Mon × Option String :=
  ({ m with holds := holdsStep m op o.ok, counter := counterStep m op o.ok, prev := some o.st },
   verdict m auth op o)

end OZ.Access.Stk.Mon
