import OZ.Model.Host
/-
Model of the two-step role hand-over, line by line:

  packages/access/src/role_transfer/storage.rs   transfer_role, accept_transfer
  packages/access/src/ownable/storage.rs         transfer_ownership, accept_ownership,
                                                 renounce_ownership, enforce_owner_auth
  packages/access/src/access_control/storage.rs  transfer_admin_role, accept_admin_transfer,
                                                 renounce_admin, enforce_admin_auth

The holder (owner / admin) lives in instance storage (never expires in the model), the
invited account in ONE temporary entry whose storage lifetime is the offer's expiry
(`OZ.Host.Temp`). The model follows the code AFTER the commit
`fix: drop the previous pending entry before storing a new role transfer offer`
(`transfer_role` removes the pending entry before `set`, so that the entry's lifetime is
the new offer's); the transition of the pinned tree is kept as `transferRoleLegacy`.
Import-free apart from the host model.
-/
namespace OZ.RoleTransfer
open OZ.Host

deriving instance DecidableEq for OZ.Host.Temp

inductive Err where
  | noPendingTransfer | invalidPendingAccount | invalidLiveUntilLedger | hostError
  | auth | holderNotSet | transferInProgress
  deriving DecidableEq, Repr

/-- which user of `role_transfer`: `Ownable` or the admin of `AccessControl`. They differ in
`accept` only (`accept_admin_transfer` first requires an admin to be set) and in the payload of
the completion event. -/
inductive Flavor where
  | owner | admin
  deriving DecidableEq, Repr

inductive Event where
  /-- `OwnershipTransfer` / `AdminTransferInitiated` (also emitted by a cancellation, lu = 0) -/
  | initiated (old new lu : Nat)
  /-- `OwnershipTransferCompleted` / `AdminTransferCompleted` (the latter names the previous admin) -/
  | completed (new : Nat) (prev : Option Nat)
  /-- `OwnershipRenounced` / `AdminRenounced` -/
  | renounced (old : Nat)
  deriving DecidableEq, Repr

structure State where
  holder : Option Nat               -- instance entry `Owner` / `Admin`
  pending : Option (Temp Nat)       -- temporary entry `PendingOwner` / `PendingAdmin`
  now : Nat
  events : List Event               -- oldest first
  deriving DecidableEq

def init (holder : Option Nat) (now : Nat) : State :=
  { holder := holder, pending := none, now := now, events := [] }

def emit (s : State) (ev : Event) : State := { s with events := s.events ++ [ev] }

/-- `enforce_owner_auth` / `enforce_admin_auth`: the stored holder exists and authorizes -/
def enforceHolderAuth (s : State) (auth : List Nat) : Except Err Nat :=
  match s.holder with
  | none => .error .holderNotSet
  | some h => if h ∈ auth then .ok h else .error .auth

/-- `transfer_role`, branch `live_until_ledger == 0`: cancel the pending transfer -/
def cancelPending (s : State) (new : Nat) : Except Err State :=
  match Temp.get? s.pending s.now with
  | none => .error .noPendingTransfer
  | some p => if p ≠ new then .error .invalidPendingAccount else .ok { s with pending := none }

/-- outcome of the final `extend_ttl` (a host error aborts the call) -/
def ofExtend (s : State) (r : Option (Temp Nat)) : Except Err State :=
  match r with
  | none => .error .hostError
  | some e => .ok { s with pending := some e }

/-- `transfer_role`, branch `live_until_ledger != 0`, on top of the entry `prev` found in
temporary storage: range check, `set(pending_key, new)`,
`extend_ttl(pending_key, live_for, live_for)` -/
def storePending (c : Cfg) (s : State) (prev : Option (Temp Nat)) (new lu : Nat) : Except Err State :=
  if lu > c.maxLiveUntil s.now ∨ lu < s.now then .error .invalidLiveUntilLedger
  else ofExtend s (Temp.extend c (Temp.set c prev s.now new) s.now (lu - s.now) (lu - s.now))

/-- `transfer_role` (fixed tree): `remove(pending_key)` precedes the `set`, i.e. the entry
is always created afresh -/
def transferRole (c : Cfg) (s : State) (new lu : Nat) : Except Err State :=
  if lu = 0 then cancelPending s new else storePending c s none new lu

/-- `transfer_role` of the pinned tree: `set` on top of whatever entry is there; a live
entry keeps its (possibly longer) lifetime and `extend_ttl` never shortens it -/
def transferRoleLegacy (c : Cfg) (s : State) (new lu : Nat) : Except Err State :=
  if lu = 0 then cancelPending s new else storePending c s s.pending new lu

/-- `transfer_ownership` / `transfer_admin_role` -/
def offer (c : Cfg) (s : State) (auth : List Nat) (new lu : Nat) : Except Err State := do
  let h ← enforceHolderAuth s auth
  let s1 ← transferRole c s new lu
  pure (emit s1 (.initiated h new lu))

def offerLegacy (c : Cfg) (s : State) (auth : List Nat) (new lu : Nat) : Except Err State := do
  let h ← enforceHolderAuth s auth
  let s1 ← transferRoleLegacy c s new lu
  pure (emit s1 (.initiated h new lu))

/-- `accept_transfer`: the live pending account authorizes, the pending entry is removed and
the account becomes the holder -/
def acceptTransfer (s : State) (auth : List Nat) : Except Err (State × Nat) :=
  match Temp.get? s.pending s.now with
  | none => .error .noPendingTransfer
  | some p => if p ∈ auth then .ok ({ s with pending := none, holder := some p }, p) else .error .auth

/-- `accept_ownership` -/
def acceptOwner (s : State) (auth : List Nat) : Except Err State := do
  let r ← acceptTransfer s auth
  pure (emit r.1 (.completed r.2 none))

/-- `accept_admin_transfer` -/
def acceptAdmin (s : State) (auth : List Nat) : Except Err State :=
  match s.holder with
  | none => .error .holderNotSet
  | some prev => do
    let r ← acceptTransfer s auth
    pure (emit r.1 (.completed r.2 (some prev)))

def accept (f : Flavor) (s : State) (auth : List Nat) : Except Err State :=
  match f with
  | .owner => acceptOwner s auth
  | .admin => acceptAdmin s auth

/-- the `TransferInProgress` test of `renounce_ownership` / `renounce_admin` -/
def refuseIfPending (s : State) : Except Err Unit :=
  match Temp.get? s.pending s.now with
  | some _ => .error .transferInProgress
  | none => .ok ()

/-- `renounce_ownership` / `renounce_admin` -/
def renounce (s : State) (auth : List Nat) : Except Err State := do
  let h ← enforceHolderAuth s auth
  refuseIfPending s
  pure (emit { s with holder := none } (.renounced h))

/-- a function behind `#[only_owner]` / `#[only_admin]` (`ExampleContract::increment`) -/
def guarded (s : State) (auth : List Nat) : Except Err State := do
  let _ ← enforceHolderAuth s auth
  pure s

/-! ### the machine -/

inductive Op where
  | offer (new lu : Nat)      -- lu = 0 cancels
  | accept
  | renounce
  | guarded
  | advance (n : Nat)
  deriving DecidableEq, Repr

def apply (c : Cfg) (f : Flavor) (s : State) (auth : List Nat) : Op → Except Err State
  | .offer new lu => offer c s auth new lu
  | .accept => accept f s auth
  | .renounce => renounce s auth
  | .guarded => guarded s auth
  | .advance n => .ok { s with now := s.now + n }

/-- the pinned tree's machine (only `offer` differs) -/
def applyLegacy (c : Cfg) (f : Flavor) (s : State) (auth : List Nat) : Op → Except Err State
  | .offer new lu => offerLegacy c s auth new lu
  | op => apply c f s auth op

/-- a failed invocation is rolled back by the host -/
def step (c : Cfg) (f : Flavor) (s : State) (x : List Nat × Op) : State :=
  match apply c f s x.1 x.2 with
  | .ok s' => s'
  | .error _ => s

def stepLegacy (c : Cfg) (f : Flavor) (s : State) (x : List Nat × Op) : State :=
  match applyLegacy c f s x.1 x.2 with
  | .ok s' => s'
  | .error _ => s

def run (c : Cfg) (f : Flavor) (s : State) (ops : List (List Nat × Op)) : State := ops.foldl (step c f) s
def runLegacy (c : Cfg) (f : Flavor) (s : State) (ops : List (List Nat × Op)) : State :=
  ops.foldl (stepLegacy c f) s

/-! ### ghost log: what the history of calls says about the open offer

`ghostStep` looks only at the call (operation, authorizing addresses), at whether it was
accepted, and at the holder / ledger observed before it. It is the bookkeeping an outside
observer can do; the driver's monitor runs the very same function on the implementation's
observations. `none` = no open offer: none made yet, or the latest accepted offer has since
been cancelled or accepted. A newer accepted offer replaces the older one. -/

structure Offer where
  acct : Nat                 -- the invited account
  lu : Nat                   -- the offer's live_until_ledger (≠ 0)
  madeAt : Nat               -- ledger of the offer
  holderThen : Option Nat    -- holder observed when the offer was made
  auth : List Nat            -- addresses that authorized the offering call
  deriving DecidableEq, Repr

def ghostStep (g : Option Offer) (holder : Option Nat) (now : Nat) (auth : List Nat) (op : Op)
    (accepted : Bool) : Option Offer :=
  if accepted then
    match op with
    | .offer new lu => if lu = 0 then none else some ⟨new, lu, now, holder, auth⟩
    | .accept => none
    | _ => g
  else g

/-- last ledger at which an offer can be accepted: its `live_until_ledger`, or — the
documented minimum-TTL caveat made exact — the end of the minimum lifetime of the fresh
temporary entry if that is later -/
def deadline (c : Cfg) (o : Offer) : Nat := max o.lu (o.madeAt + c.minTempTtl - 1)

/-- model state + ghost -/
structure GS where
  s : State
  g : Option Offer

def initG (holder : Option Nat) (now : Nat) : GS := ⟨init holder now, none⟩

def stepG (c : Cfg) (f : Flavor) (x : GS) (a : List Nat × Op) : GS :=
  match apply c f x.s a.1 a.2 with
  | .ok s' => ⟨s', ghostStep x.g x.s.holder x.s.now a.1 a.2 true⟩
  | .error _ => ⟨x.s, ghostStep x.g x.s.holder x.s.now a.1 a.2 false⟩

def runG (c : Cfg) (f : Flavor) (x : GS) (ops : List (List Nat × Op)) : GS := ops.foldl (stepG c f) x

/-- an operation that can open a new offer -/
def Op.isOffer : Op → Bool
  | .offer _ lu => lu != 0
  | _ => false

/-- an operation that can change the holder -/
def Op.isHandover : Op → Bool
  | .accept => true
  | .renounce => true
  | _ => false

end OZ.RoleTransfer
