import OZ.Model.Nft
/-
Model of packages/tokens/src/non_fungible/extensions/consecutive/storage.rs
(`impl Consecutive`, `find_bit_in_item`, `find_bit_in_bucket`), line by line, in two layers.

The contract logic (`owner_of`, `batch_mint`, `update`, `set_owner_for_previous_token`,
`transfer`, …) is written ONCE, over an abstract ownership-bit store `β` with the two
operations the code performs on it (`BitOps`):
  * `find bits token_id last_token_id` — the bucket scan inside `owner_of`
  * `set bits token_id`               — the bucket part of `set_ownership_in_bucket`

Set level  : `β = Nat → Bool`, `find` = least set position in `[token_id, last_token_id]`.
Bit level  : `β = Nat → Option (List Nat)` = `OwnershipBucket(n) ↦ Vec<u32>` (100 items of 32
             bits, most significant bit first), `find`/`set` exactly as coded.
-/
namespace OZ.NftCons
open OZ.Host OZ.Nft

/-- `ITEMS_IN_BUCKET` -/
def ITEMS_IN_BUCKET : Nat := 100
/-- `IDS_IN_ITEM` = `u32::BITS` -/
def IDS_IN_ITEM : Nat := 32
/-- `IDS_IN_BUCKET` -/
def IDS_IN_BUCKET : Nat := 3200
/-- `MAX_TOKENS_IN_BATCH` -/
def MAX_TOKENS_IN_BATCH : Nat := 32000

structure BitOps (β : Type) where
  find : β → Nat → Nat → Option Nat
  set : β → Nat → Option β            -- `none` = the `expect("token_id out of allowed range")` panic

structure State (β : Type) extends Core where
  mark : Nat → Option Nat             -- NFTConsecutiveStorageKey::Owner(id): sparse owner marks
  bits : β                            -- OwnershipBucket(..)
  burned : Nat → Bool                 -- BurnedToken(id)

def init {β : Type} (empty : β) (now : Nat) : State β :=
  { Core.init now with mark := fun _ => none, bits := empty, burned := fun _ => false }

section generic
variable {β : Type} (B : BitOps β)

def markOwner (s : State β) (j : Nat) : Except Err Nat :=
  match s.mark j with
  | some a => .ok a
  | none => .error .nonExistentToken

/-- `Consecutive::owner_of` -/
def ownerOf (s : State β) (id : Nat) : Except Err Nat :=
  if s.nextId = 0 then .error .nonExistentToken
  else if s.burned id = true ∨ id > s.nextId - 1 then .error .nonExistentToken
  else
    match B.find s.bits id (s.nextId - 1) with
    | none => .error .nonExistentToken
    | some j => markOwner s j

/-- `Consecutive::token_uri` succeeds iff the token is not burned and below the counter -/
def tokenUriExists (s : State β) (id : Nat) : Bool := !(s.burned id) && decide (id < s.nextId)

/-- `Consecutive::set_ownership_in_bucket` -/
def setOwnershipInBucket (s : State β) (id : Nat) : Except Err (State β) :=
  if id ≥ s.nextId then .error .nonExistentToken
  else
    match B.set s.bits id with
    | none => .error .panic
    | some b => .ok { s with bits := b }

/-- `Consecutive::set_owner_for_previous_token` -/
def setOwnerForPreviousToken (s : State β) (to id : Nat) : Except Err (State β) :=
  if id = 0 ∨ id ≥ s.nextId then .ok s
  else if (s.mark (id - 1)).isSome then .ok s
  else if s.burned (id - 1) = true then .ok s
  else setOwnershipInBucket B { s with mark := upd s.mark (id - 1) (some to) } (id - 1)

/-- `Consecutive::batch_mint`: returns the LAST minted id -/
def batchMint (s : State β) (to amount : Nat) : Except Err (State β × Nat) :=
  if amount = 0 ∨ amount > MAX_TOKENS_IN_BATCH then .error .invalidAmount
  else do
    let (c, first) ← incrementTokenId s.toCore amount
    let c ← increaseBalance c to amount
    let s ← setOwnershipInBucket B { s with toCore := c } (first + amount - 1)
    pure ({ s with mark := upd s.mark (first + amount - 1) (some to) }, first + amount - 1)

/-- the `from` branch of `Consecutive::update` -/
def debit (s : State β) (frm : Option Nat) (id : Nat) : Except Err (State β) :=
  match frm with
  | some f => do
    let o ← ownerOf B s id
    checkOwner o f
    let c ← decreaseBalance s.toCore f 1
    setOwnerForPreviousToken B { s with toCore := clearApproval c id } f id
  | none => .ok s

/-- the `to` branch of `Consecutive::update` -/
def credit (s : State β) (to : Option Nat) (id : Nat) : Except Err (State β) :=
  match to with
  | some t => do
    let c ← increaseBalance s.toCore t 1
    setOwnershipInBucket B { s with toCore := c, mark := upd s.mark id (some t) } id
  | none => .ok { s with mark := upd s.mark id none, burned := upd s.burned id true }

/-- `Consecutive::update` -/
def update (s : State β) (frm to : Option Nat) (id : Nat) : Except Err (State β) := do
  let s1 ← debit B s frm id
  credit B s1 to id

/-- `Consecutive::transfer` -/
def transfer (s : State β) (auth : List Nat) (frm to id : Nat) : Except Err (State β) := do
  requireAuth auth frm
  update B s (some frm) (some to) id

/-- `Consecutive::transfer_from` -/
def transferFrom (s : State β) (auth : List Nat) (spender frm to id : Nat) : Except Err (State β) := do
  requireAuth auth spender
  checkSpenderApproval s.toCore spender frm id
  update B s (some frm) (some to) id

/-- `Consecutive::burn` -/
def burn (s : State β) (auth : List Nat) (frm id : Nat) : Except Err (State β) := do
  requireAuth auth frm
  update B s (some frm) none id

/-- `Consecutive::burn_from` -/
def burnFrom (s : State β) (auth : List Nat) (spender frm id : Nat) : Except Err (State β) := do
  requireAuth auth spender
  checkSpenderApproval s.toCore spender frm id
  update B s (some frm) none id

/-- `Consecutive::approve` (the approval lives under the identically encoded
`NFTConsecutiveStorageKey::Approval(id)` / `NFTStorageKey::Approval(id)` key) -/
def approve (cfg : Cfg) (s : State β) (auth : List Nat) (approver approved id lu : Nat) :
    Except Err (State β) := do
  requireAuth auth approver
  let owner ← ownerOf B s id
  let c ← approveForOwner cfg s.toCore owner approver approved id lu
  pure { s with toCore := c }

/-- one invocation on the consecutive flavour -/
def apply (cfg : Cfg) (s : State β) (auth : List Nat) : Op → Except Err (State β × Option Nat)
  | .mintSeq _ => .error .unsupported
  | .mint _ _ => .error .unsupported
  | .batchMint to n => do let (s, last) ← batchMint B s to n; pure (s, some last)
  | .transfer f t id => do let s ← transfer B s auth f t id; pure (s, none)
  | .transferFrom sp f t id => do let s ← transferFrom B s auth sp f t id; pure (s, none)
  | .approve ap a id lu => do let s ← approve B cfg s auth ap a id lu; pure (s, none)
  | .approveForAll o p lu => do
    let c ← approveForAll cfg s.toCore auth o p lu; pure ({ s with toCore := c }, none)
  | .burn f id => do let s ← burn B s auth f id; pure (s, none)
  | .burnFrom sp f id => do let s ← burnFrom B s auth sp f id; pure (s, none)
  | .advance n => .ok ({ s with toCore := s.toCore.advance n }, none)

def step (cfg : Cfg) (s : State β) (x : List Nat × Op) : State β :=
  match apply B cfg s x.1 x.2 with
  | .ok (s', _) => s'
  | .error _ => s

def run (cfg : Cfg) (s : State β) (ops : List (List Nat × Op)) : State β := ops.foldl (step B cfg) s

end generic

/-! ### set level -/

/-- least `i` with `bit i`, among the `fuel` positions `start, start+1, …` -/
def findUp (bit : Nat → Bool) : Nat → Nat → Option Nat
  | 0, _ => none
  | fuel + 1, i => if bit i = true then some i else findUp bit fuel (i + 1)

/-- least set position in `[start, bound)` -/
def findFrom (bit : Nat → Bool) (start bound : Nat) : Option Nat := findUp bit (bound - start) start

def setOps : BitOps (Nat → Bool) where
  find := fun bits id last => findFrom bits id (last + 1)
  set := fun bits id => some (upd bits id true)

abbrev SState := State (Nat → Bool)

/-! ### bit level -/

/-- the loop of `find_bit_in_item`: `i` runs from its start value down to 0; bit `i` counted from
the least significant end is position `31 - i` counted from the most significant end -/
def scanItem (num : Nat) : Nat → Option Nat
  | 0 => if num &&& (1 <<< 0) ≠ 0 then some (31 - 0) else none
  | i + 1 => if num &&& (1 <<< (i + 1)) ≠ 0 then some (31 - (i + 1)) else scanItem num i

/-- `find_bit_in_item` -/
def findBitInItem (input : Option Nat) (start : Nat) : Option Nat :=
  match input with
  | some num =>
    if num = 0 then none
    else if start ≥ IDS_IN_ITEM then none
    else scanItem num (IDS_IN_ITEM - 1 - start)
  | none => none

def fromId (i first rel : Nat) : Nat := if i = first then rel else 0

/-- the `(item_index..bucket.len()).find_map(..)` of `find_bit_in_bucket` -/
def scanBucket (bucket : List Nat) (itemIndex rel : Nat) : Nat → Nat → Option Nat
  | 0, _ => none
  | fuel + 1, i =>
    match findBitInItem bucket[i]? (fromId i itemIndex rel) with
    | some p => some (i * IDS_IN_ITEM + p)
    | none => scanBucket bucket itemIndex rel fuel (i + 1)

/-- `find_bit_in_bucket` -/
def findBitInBucket (bucket : List Nat) (start : Nat) : Option Nat :=
  if start ≥ bucket.length * IDS_IN_ITEM then none
  else scanBucket bucket (start / IDS_IN_ITEM) (start % IDS_IN_ITEM)
         (bucket.length - start / IDS_IN_ITEM) (start / IDS_IN_ITEM)

abbrev Buckets := Nat → Option (List Nat)

/-- the `(bucket_index..=last_bucket_index).filter_map(..).find_map(..)` of `owner_of` -/
def scanBuckets (bk : Buckets) (bucketIndex rel : Nat) : Nat → Nat → Option Nat
  | 0, _ => none
  | fuel + 1, i =>
    match bk i with
    | none => scanBuckets bk bucketIndex rel fuel (i + 1)
    | some b =>
      match findBitInBucket b (fromId i bucketIndex rel) with
      | some p => some (i * IDS_IN_BUCKET + p)
      | none => scanBuckets bk bucketIndex rel fuel (i + 1)

/-- the whole scan of `owner_of` for `token_id`, `last_token_id` -/
def findInBuckets (bk : Buckets) (id last : Nat) : Option Nat :=
  scanBuckets bk (id / IDS_IN_BUCKET) (id % IDS_IN_BUCKET)
    (last / IDS_IN_BUCKET + 1 - id / IDS_IN_BUCKET) (id / IDS_IN_BUCKET)

def emptyBucket : List Nat := List.replicate ITEMS_IN_BUCKET 0

def bucketOrEmpty (bk : Buckets) (k : Nat) : List Nat :=
  match bk k with
  | some b => b
  | none => emptyBucket

/-- `1 << (ids_in_item - bit_index - 1)` -/
def maskOf (bitIndex : Nat) : Nat := 1 <<< (IDS_IN_ITEM - bitIndex - 1)

def setInBucket (bk : Buckets) (k : Nat) (bucket : List Nat) (itemIndex mask : Nat) : Option Buckets :=
  match bucket[itemIndex]? with
  | none => none
  | some item =>
    if item &&& mask ≠ 0 then some bk
    else some (upd bk k (some (bucket.set itemIndex (item ||| mask))))

/-- the bucket part of `set_ownership_in_bucket` -/
def setBit (bk : Buckets) (id : Nat) : Option Buckets :=
  setInBucket bk (id / IDS_IN_BUCKET) (bucketOrEmpty bk (id / IDS_IN_BUCKET))
    (id % IDS_IN_BUCKET / IDS_IN_ITEM) (maskOf (id % IDS_IN_BUCKET % IDS_IN_ITEM))

def bitOps : BitOps Buckets where
  find := findInBuckets
  set := setBit

abbrev BState := State Buckets

def noBuckets : Buckets := fun _ => none

/-- the ownership bit of `id` as stored in the buckets -/
def bitOf (bk : Buckets) (id : Nat) : Bool :=
  match bk (id / IDS_IN_BUCKET) with
  | none => false
  | some b => (b.getD (id % IDS_IN_BUCKET / IDS_IN_ITEM) 0).testBit (IDS_IN_ITEM - 1 - id % IDS_IN_BUCKET % IDS_IN_ITEM)

/-- abstraction of a bit-level state to the set level -/
def absState (s : BState) : SState := { s with bits := bitOf s.bits }

end OZ.NftCons
