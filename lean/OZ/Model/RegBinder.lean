import OZ.Model.RegUtil
/-
Model of packages/tokens/src/rwa/utils/token_binder/storage.rs, line by line.

Storage: `TokenBucket(i) -> Vec<Address>` (buckets of 100, read with a default of the empty
vector, never removed: `[]` = "no entry"), `TotalCount -> u32` (default 0).
`bind_tokens` fills bucket after bucket and persists each bucket once; since a read inside the
same invocation sees earlier writes, that is the same as pushing the tokens one by one to
bucket `count / 100` (`pushAll`). The `u32` subtraction `BUCKET_SIZE - used` cannot underflow
because bucket `count / 100` holds `count % 100` tokens (invariant, `OZ.Lemmas.RegBinder`).
-/
namespace OZ.RegBinder
open OZ.Reg

def BUCKET_SIZE : Nat := 100
def MAX_TOKENS : Nat := 10000

structure State where
  buckets : Nat → List Nat
  count : Nat

def init : State := { buckets := fun _ => [], count := 0 }

/-! ### getters -/

def linkedTokenCount (s : State) : Nat := s.count

/-- buckets `0 ..= (count-1)/100` in order -/
def bucketRange (s : State) : List Nat := List.range ((s.count - 1) / BUCKET_SIZE + 1)

/-- `linked_tokens` -/
def linkedTokens (s : State) : List Nat :=
  if s.count = 0 then [] else (bucketRange s).flatMap s.buckets

/-- `is_token_bound` -/
def isTokenBound (s : State) (t : Nat) : Bool :=
  if s.count = 0 then false else (bucketRange s).any (fun b => (s.buckets b).contains t)

/-- the scan of `get_token_index` over the buckets `bs` -/
def scan (s : State) (t : Nat) : List Nat → Option Nat
  | [] => none
  | b :: bs => if (s.buckets b).contains t then some (b * BUCKET_SIZE + (s.buckets b).idxOf t) else scan s t bs

/-- `get_token_index` (`none` = `TokenNotFound`) -/
def getTokenIndex (s : State) (t : Nat) : Option Nat :=
  if s.count = 0 then none else scan s t (bucketRange s)

/-- `get_token_by_index` (`none` = `TokenNotFound`, or one of the two `expect`s) -/
def getTokenByIndex (s : State) (i : Nat) : Option Nat :=
  if i ≥ s.count then none else (s.buckets (i / BUCKET_SIZE))[i % BUCKET_SIZE]?

/-! ### bind -/

/-- push one token to bucket `count / 100` and count it -/
def push (s : State) (t : Nat) : State :=
  { buckets := updD s.buckets (s.count / BUCKET_SIZE) (s.buckets (s.count / BUCKET_SIZE) ++ [t]),
    count := s.count + 1 }

/-- `bind_token` -/
def bindToken (s : State) (t : Nat) : Except RErr State :=
  if isTokenBound s t then .error .dup
  else if s.count ≥ MAX_TOKENS then .error .limit
  else .ok (push s t)

/-- the filling loop of `bind_tokens`; `bound` is the set of tokens bound BEFORE the call -/
def pushAll (bound : List Nat) (s : State) : List Nat → Except RErr State
  | [] => .ok s
  | t :: ts => if bound.contains t then .error .dup else pushAll bound (push s t) ts

/-- `bind_tokens` -/
def bindTokens (s : State) (ts : List Nat) : Except RErr State :=
  if ts.length > BUCKET_SIZE * 2 then .error .invalid
  else if s.count + ts.length > MAX_TOKENS then .error .limit
  else if ¬ ts.Nodup then .error .dup
  else pushAll (linkedTokens s) s ts

/-! ### unbind (swap-and-pop) -/

/-- overwrite the removed slot with the last token -/
def overwrite (s : State) (idx : Nat) (lastTok : Nat) : State :=
  { s with buckets := updD s.buckets (idx / BUCKET_SIZE)
                      ((s.buckets (idx / BUCKET_SIZE)).set (idx % BUCKET_SIZE) lastTok) }

/-- remove the last token from its bucket, store the new count -/
def popLast (s : State) (last : Nat) : State :=
  { buckets := updD s.buckets (last / BUCKET_SIZE) ((s.buckets (last / BUCKET_SIZE)).dropLast),
    count := last }

/-- `unbind_token` once the token's index is known -/
def unbindAt (s : State) (idx : Nat) : Except RErr State :=
  if idx ≠ s.count - 1 then
    (ofOpt .panic (getTokenByIndex s (s.count - 1))).bind fun lastTok =>
      .ok (popLast (overwrite s idx lastTok) (s.count - 1))
  else .ok (popLast s (s.count - 1))

/-- `unbind_token` -/
def unbindToken (s : State) (t : Nat) : Except RErr State :=
  (ofOpt .absent (getTokenIndex s t)).bind (unbindAt s)

/-! ### operation histories -/

inductive Op where
  | bind (t : Nat)
  | bindMany (ts : List Nat)
  | unbind (t : Nat)
  deriving DecidableEq, Repr

def step (s : State) : Op → Except RErr State
  | .bind t => bindToken s t
  | .bindMany ts => bindTokens s ts
  | .unbind t => unbindToken s t

def next (s : State) (o : Op) : State :=
  match step s o with
  | .ok s' => s'
  | .error _ => s

def run (s : State) (ops : List Op) : State := ops.foldl next s

end OZ.RegBinder
