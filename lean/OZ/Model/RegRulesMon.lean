import OZ.Model.RegRules
import OZ.Model.RegMonUtil
/-
The `rules` MONITOR of C20 on parsed values (the sub-driver OZ/Drv/C20Rules.lean parses the trace
lines and calls `checkCore`; it never calls a model transition function). The ghost is the plain
list of rules (id, type, name, expiry, signers, policies) built from the accepted operations, the
highest id handed out so far and the ledger sequence. Kept apart from the driver so that
OZ/Props/C20dMon.lean can prove it SOUND (`monitor_accepts_every_model_trace`).
Import-free apart from the model.
-/
namespace OZ.RegRules.Mon
open OZ.RegMon OZ.RegRules

/-- context types 0..3 are displayed -/
def NC : Nat := 4
/-- policy 6's `install` panics -/
def installOk (p : Nat) : Bool := p ≠ 6

def showVu (v : Option Nat) : String := match v with | some x => toString x | none => "none"

def showRule (r : Rule) : String :=
  s!"{r.id}:{r.ctx}:{r.name}:{showVu r.validUntil}:{nats r.signers}:{nats r.policies}"

/-- `get_context_rule` over all ids handed out so far (and the next one) -/
def liveRules (s : State) : List Rule := (List.range (s.nextId + 1)).filterMap (getContextRule s)

/-- the observation line
`ok|err ret=<id|-> n=<count> R=<rules> T=<type:ids;..> nfp=<n> fpd=<n> fpok=<bit>` -/
structure Obs where
  ok : Bool
  /-- the word after `ret=` as a number (`none` for `-`) -/
  ret : Option Nat
  /-- `get_context_rules_count` -/
  n : Nat
  /-- the word after `R=`: `get_context_rule` over all ids, printed -/
  R : String
  /-- the word after `T=`: the ids of `get_context_rules` per type, printed -/
  T : String
  /-- number of stored fingerprint entries -/
  nfp : Nat
  /-- number of distinct fingerprints of the live rules -/
  fpd : Nat
  /-- the word after `fpok=`: every live rule's fingerprint is stored -/
  fpok : String

structure GR where
  id : Nat
  ctx : Nat
  name : Nat
  vu : Option Nat
  sg : List Nat
  ps : List Nat

structure Mon where
  rules : List GR
  maxId : Nat            -- highest id ever handed out
  now : Nat

def find (g : Mon) (id : Nat) : Option GR := g.rules.find? (fun r => r.id == id)
def put (g : Mon) (r : GR) : Mon := { g with rules := g.rules.map (fun x => if x.id == r.id then r else x) }
/-- the fingerprint as a plain triple of sets -/
def sameFp (c : Nat) (sg ps : List Nat) (r : GR) : Bool := r.ctx == c && sameSet r.sg sg && sameSet r.ps ps
def past (g : Mon) (vu : Option Nat) : Bool := match vu with | some v => v < g.now | none => false
def showGR (r : GR) : String := s!"{r.id}:{r.ctx}:{r.name}:{showVu r.vu}:{nats r.sg}:{nats r.ps}"

/-- the plain list of rules with its documented limits.
CORRECTED (found by the soundness proof, OZ/Props/C20dMon.lean `legacy_monitor_false_alarm_dup_policy`):
an `add` whose policy vector repeats a policy is refused (`dup_policy`), like one that repeats a
signer; the earlier decision (`legacyPlainAdd`) accepted it, a false alarm on the model's own trace.
The driver's `parseOp` passes a duplicate-free policy vector, so no real trace is decided differently. -/
def plain (g : Mon) (op : Op) : Except String Mon :=
  match op with
  | .add c n vu sg ps =>
    if g.rules.length ≥ 15 then .error "limit.add_context_rule.rules"
    else if !nodupB sg then .error "dup_signer"
    else if past g vu then .error "past_valid_until"
    else if sg.length > 15 then .error "limit.add_context_rule.signers"
    else if ps.length > 5 then .error "limit.add_context_rule.policies"
    else if sg = [] ∧ ps = [] then .error "empty"
    else if !nodupB ps then .error "dup_policy"
    else if g.rules.any (sameFp c sg ps) then .error "dup_fingerprint"
    else if !ps.all installOk then .error "install_refused"
    else .ok { g with rules := g.rules ++ [⟨g.maxId + 1, c, n, vu, sg, ps⟩], maxId := g.maxId + 1 }
  | .rename id n => match find g id with
    | some r => .ok (put g { r with name := n })
    | none => .error "absent"
  | .revalid id vu => match find g id with
    | some r => if past g vu then .error "past_valid_until" else .ok (put g { r with vu := vu })
    | none => .error "absent"
  | .remove id => if (find g id).isSome then .ok { g with rules := g.rules.filter (fun r => r.id ≠ id) } else .error "absent"
  | .addSigner id s => match find g id with
    | none => .error "absent"
    | some r =>
      if r.sg.contains s then .error "dup"
      else if r.sg.length + 1 > 15 then .error "limit.add_signer.signers"
      else if g.rules.any (sameFp r.ctx (r.sg ++ [s]) r.ps) then .error "dup_fingerprint"
      else .ok (put g { r with sg := r.sg ++ [s] })
  | .removeSigner id s => match find g id with
    | none => .error "absent"
    | some r =>
      if !r.sg.contains s then .error "absent"
      else if r.sg.erase s = [] ∧ r.ps = [] then .error "empty"
      else if g.rules.any (sameFp r.ctx (r.sg.erase s) r.ps) then .error "dup_fingerprint"
      else .ok (put g { r with sg := r.sg.erase s })
  | .addPolicy id p => match find g id with
    | none => .error "absent"
    | some r =>
      if r.ps.contains p then .error "dup"
      else if !installOk p then .error "install_refused"
      else if r.ps.length + 1 > 5 then .error "limit.add_policy.policies"
      else if g.rules.any (sameFp r.ctx r.sg (r.ps ++ [p])) then .error "dup_fingerprint"
      else .ok (put g { r with ps := r.ps ++ [p] })
  | .advance n => .ok { g with now := g.now + n }
  | .removePolicy id p => match find g id with
    | none => .error "absent"
    | some r =>
      if !r.ps.contains p then .error "absent"
      else if r.sg = [] ∧ r.ps.erase p = [] then .error "empty"
      else if g.rules.any (sameFp r.ctx r.sg (r.ps.erase p)) then .error "dup_fingerprint"
      else .ok (put g { r with ps := r.ps.erase p })

/-- the `add` decision of the monitor BEFORE the correction (no `dup_policy` check); kept only to
state the false alarm it raised -/
def legacyPlainAdd (g : Mon) (c n : Nat) (vu : Option Nat) (sg ps : List Nat) : Except String Mon :=
  if g.rules.length ≥ 15 then .error "limit.add_context_rule.rules"
  else if !nodupB sg then .error "dup_signer"
  else if past g vu then .error "past_valid_until"
  else if sg.length > 15 then .error "limit.add_context_rule.signers"
  else if ps.length > 5 then .error "limit.add_context_rule.policies"
  else if sg = [] ∧ ps = [] then .error "empty"
  else if g.rules.any (sameFp c sg ps) then .error "dup_fingerprint"
  else if !ps.all installOk then .error "install_refused"
  else .ok { g with rules := g.rules ++ [⟨g.maxId + 1, c, n, vu, sg, ps⟩], maxId := g.maxId + 1 }

/-- the plain list before the correction: `legacyPlainAdd` for `add`, `plain` otherwise -/
def legacyPlain (g : Mon) (op : Op) : Except String Mon :=
  match op with
  | .add c n vu sg ps => legacyPlainAdd g c n vu sg ps
  | op => plain g op

/-- the site of a refusal of an operation the plain list accepts -/
def near (g : Mon) : Op → String
  | .add _ _ _ sg ps => if g.rules.length = 14 then "limit.add_context_rule.rules"
                        else if sg.length = 15 then "limit.add_context_rule.signers"
                        else if ps.length = 5 then "limit.add_context_rule.policies" else "valid"
  | .addSigner id _ => (match find g id with
      | some r => if r.sg.length = 14 then "limit.add_signer.signers" else "valid"
      | none => "valid")
  | .addPolicy id _ => (match find g id with
      | some r => if r.ps.length = 4 then "limit.add_policy.policies" else "valid"
      | none => "valid")
  | _ => "valid"

/-- ids are handed out once: the id returned by an accepted `add` is above every earlier one.
`g` is the ghost before the call, `g1` / `accept` the outcome of the accept / refuse decision. On an
agreed accepted `add` the ghost follows the implementation's id (the plain set only requires
freshness). -/
def idStep (g g1 : Mon) (accept : Option String) (op : Op) (ok : Bool) (ret : Option Nat) : Mon × Option String :=
  match op, ok with
  | .add c n vu sg ps, true =>
    (match ret with
    | some id =>
      if id ≤ g.maxId then (g1, some s!"site=rules.id_reused add_context_rule returned id {id}, not above the highest id handed out so far ({g.maxId})")
      else if accept.isNone then
        ({ g1 with rules := g.rules ++ [⟨id, c, n, vu, sg, ps⟩], maxId := id }, none)
      else (g1, none)
    | none => (g1, some "site=rules.id_reused an accepted add_context_rule returned no id"))
  | _, _ => (g1, none)

def rWant (g : Mon) : String := sepBy ";" (g.rules.map showGR)
def tWant (g : Mon) : String :=
  sepBy ";" ((List.range NC).map (fun c => s!"{c}:{nats ((g.rules.filter (fun r => r.ctx == c)).map (·.id))}"))

/-- every getter of the observation against the plain list `g` -/
def getters (g : Mon) (o : Obs) : List (Option String) :=
  [chk (o.n = g.rules.length) s!"site=rules.count get_context_rules_count = {o.n} but the plain rule set has {g.rules.length}",
   chk (o.R = rWant g) s!"site=rules.map get_context_rule over all ids = {o.R} but the plain rule set is {rWant g}",
   chk (o.T = tWant g) s!"site=rules.enumerates_once get_context_rules per type = {o.T} but the plain rule set gives {tWant g}",
   chk (o.nfp = g.rules.length ∧ o.fpd = g.rules.length ∧ o.fpok = "1")
     s!"site=rules.fingerprints stored fingerprints {o.nfp}, distinct fingerprints of the live rules {o.fpd}, all present {o.fpok}: not the image of the {g.rules.length} rules"]

/-- the monitor's step on parsed values: the accept / refuse decision against the plain list, the
returned id, then every getter of the observation against the new plain list -/
def checkCore (g : Mon) (op : Op) (o : Obs) : Mon × Option String :=
  ((idStep g (decide2 "rules" g (plain g op) o.ok (near g op)).1 (decide2 "rules" g (plain g op) o.ok (near g op)).2 op o.ok o.ret).1,
   firstFail ((decide2 "rules" g (plain g op) o.ok (near g op)).2 ::
     (idStep g (decide2 "rules" g (plain g op) o.ok (near g op)).1 (decide2 "rules" g (plain g op) o.ok (near g op)).2 op o.ok o.ret).2 ::
     getters (idStep g (decide2 "rules" g (plain g op) o.ok (near g op)).1 (decide2 "rules" g (plain g op) o.ok (near g op)).2 op o.ok o.ret).1 o))

end OZ.RegRules.Mon
