import OZ.Model.Base64Url
/-
Model of packages/accounts/src/verifiers/webauthn.rs (`verify` and its `validate_*` helpers),
packages/accounts/src/verifiers/utils/extract_from_bytes.rs, and
examples/multisig-smart-account/webauthn-verifier/src/contract.rs.

Import-free apart from the base64url model. What is NOT modelled but taken as an oracle
(a parameter of the model, answered by the real library / host in the correspondence run):
  * `serde_json_core::de::from_slice::<ClientDataJson>`  (`Oracles.parse`)
  * `e.crypto().sha256`                                    (`Oracles.sha256`)
  * `e.crypto().secp256r1_verify` returning normally       (`Oracles.p256Verify`)
  * `WebAuthnSigData::from_xdr`                            (`Oracles.fromXdr`)
Everything else — the order of the checks, the length bounds, the string comparisons, the
challenge computation through the coded base64url encoder, the flag tests on byte 32, the
composition `authenticator_data ‖ sha256(client_data)` of the signed message — is as coded.
The model follows the code AFTER the `fix:` commit (challenge extracted with `..`);
`validateChallengeLegacy` / `verifyLegacy` keep the original `0..32` for the regression theorem.
-/
namespace OZ.WebAuthn
open OZ.B64

inductive Err where
  | clientDataTooLong      -- 3111
  | jsonParse              -- 3112
  | typeFieldInvalid       -- 3113
  | payloadInvalid         -- 3110
  | challengeInvalid       -- 3114
  | authDataFormat         -- 3115
  | presentBitNotSet       -- 3116
  | verifiedBitNotSet      -- 3117
  | backupState            -- 3118
  | crypto                 -- host error raised by secp256r1_verify
  | panic                  -- Rust panic (`expect`, slice index)
  deriving DecidableEq, Repr

/-- decidable equality of outcomes (for `decide` on concrete instances) -/
instance exceptDecEq {ε α} [DecidableEq ε] [DecidableEq α] : DecidableEq (Except ε α)
  | .ok a, .ok b => if h : a = b then isTrue (by rw [h]) else isFalse (by intro h'; cases h'; exact h rfl)
  | .error a, .error b => if h : a = b then isTrue (by rw [h]) else isFalse (by intro h'; cases h'; exact h rfl)
  | .ok _, .error _ => isFalse (by intro h; cases h)
  | .error _, .ok _ => isFalse (by intro h; cases h)

/-- `struct ClientDataJson<'a> { challenge: &'a str, type_field: &'a str }` (as bytes) -/
structure ClientDataJson where
  challenge : Bytes
  typeField : Bytes
  deriving DecidableEq

/-- `struct WebAuthnSigData { signature: BytesN<64>, authenticator_data, client_data }` -/
structure SigData where
  signature : Bytes
  authenticatorData : Bytes
  clientData : Bytes

structure Oracles where
  parse : Bytes → Option ClientDataJson
  sha256 : Bytes → Bytes
  /-- `secp256r1_verify(pub_key, digest, signature)` returns (does not trap) -/
  p256Verify : (key digest sig : Bytes) → Bool
  fromXdr : Bytes → Option SigData

def AUTH_DATA_FLAGS_UP : Nat := 0x01
def AUTH_DATA_FLAGS_UV : Nat := 0x04
def AUTH_DATA_FLAGS_BE : Nat := 0x08
def AUTH_DATA_FLAGS_BS : Nat := 0x10
def CLIENT_DATA_MAX_LEN : Nat := 1024
def AUTHENTICATOR_DATA_MIN_LEN : Nat := 37

/-- the ASCII bytes of `"webauthn.get"` -/
def WEBAUTHN_GET : Bytes := [119, 101, 98, 97, 117, 116, 104, 110, 46, 103, 101, 116]

/-- `extract_from_bytes::<N>(e, data, start..end)`; `stop = none` is the unbounded `start..`.
`None` if `end > data.len() || end - start != N`. -/
def rangeEnd (data : Bytes) : Option Nat → Nat
  | none => data.length
  | some n => n

def extractFromBytes (N : Nat) (data : Bytes) (start : Nat) (stop : Option Nat) : Option Bytes :=
  if rangeEnd data stop > data.length ∨ rangeEnd data stop - start ≠ N then none
  else some ((data.drop start).take (rangeEnd data stop - start))

/-- `validate_expected_type` -/
def validateExpectedType (j : ClientDataJson) : Except Err Unit :=
  if j.typeField ≠ WEBAUTHN_GET then .error .typeFieldInvalid else .ok ()

/-- `let mut expected_challenge = [0u8; 43]; base64_url_encode(&mut expected_challenge, …);
if client_data_json.challenge.as_bytes() != expected_challenge { panic }` -/
def compareChallenge (j : ClientDataJson) (p : Bytes) : Except Err Unit :=
  match encodeInto (List.replicate 43 0) p with
  | none => .error .panic
  | some expected => if j.challenge ≠ expected then .error .challengeInvalid else .ok ()

/-- `validate_challenge` (fixed code): `extract_from_bytes(e, signature_payload, ..)` into a
`BytesN<32>`, i.e. the WHOLE payload, which therefore must be exactly 32 bytes long. -/
def validateChallenge (j : ClientDataJson) (payload : Bytes) : Except Err Unit :=
  match extractFromBytes 32 payload 0 none with
  | none => .error .payloadInvalid
  | some p => compareChallenge j p

/-- the code before the fix: `extract_from_bytes(e, signature_payload, 0..32)` -/
def validateChallengeLegacy (j : ClientDataJson) (payload : Bytes) : Except Err Unit :=
  match extractFromBytes 32 payload 0 (some 32) with
  | none => .error .payloadInvalid
  | some p => compareChallenge j p

def flagSet (flags : Byte) (mask : Nat) : Bool := (flags.toNat &&& mask) != 0

def validateUserPresentBitSet (flags : Byte) : Except Err Unit :=
  if (flags.toNat &&& AUTH_DATA_FLAGS_UP) = 0 then .error .presentBitNotSet else .ok ()

def validateUserVerifiedBitSet (flags : Byte) : Except Err Unit :=
  if (flags.toNat &&& AUTH_DATA_FLAGS_UV) = 0 then .error .verifiedBitNotSet else .ok ()

def validateBackupEligibilityAndState (flags : Byte) : Except Err Unit :=
  if (flags.toNat &&& AUTH_DATA_FLAGS_BE) = 0 ∧ (flags.toNat &&& AUTH_DATA_FLAGS_BS) ≠ 0
  then .error .backupState else .ok ()

def checkClientDataLen (cd : Bytes) : Except Err Unit :=
  if cd.length > CLIENT_DATA_MAX_LEN then .error .clientDataTooLong else .ok ()

def parseClientData (O : Oracles) (cd : Bytes) : Except Err ClientDataJson :=
  match O.parse cd with
  | none => .error .jsonParse
  | some j => .ok j

def checkAuthDataLen (ad : Bytes) : Except Err Unit :=
  if ad.length < AUTHENTICATOR_DATA_MIN_LEN then .error .authDataFormat else .ok ()

/-- `authenticator_data.get(32).expect(..)` -/
def flagsByte (ad : Bytes) : Except Err Byte :=
  match ad[32]? with
  | none => .error .panic
  | some f => .ok f

/-- `message_digest = authenticator_data ‖ sha256(client_data)`;
`secp256r1_verify(pub_key, sha256(message_digest), signature)` -/
def checkSignature (O : Oracles) (key sig ad cd : Bytes) : Except Err Bool :=
  if O.p256Verify key (O.sha256 (ad ++ O.sha256 cd)) sig then .ok true else .error .crypto

/-- the checks after the challenge, shared by the fixed and the legacy code -/
def verifyRest (O : Oracles) (key sig ad cd : Bytes) : Except Err Bool := do
  checkAuthDataLen ad
  let flags ← flagsByte ad
  validateUserPresentBitSet flags
  validateUserVerifiedBitSet flags
  validateBackupEligibilityAndState flags
  checkSignature O key sig ad cd

/-- `webauthn::verify(e, signature_payload, pub_key, sig_data)` -/
def verify (O : Oracles) (payload key : Bytes) (sd : SigData) : Except Err Bool := do
  checkClientDataLen sd.clientData
  let j ← parseClientData O sd.clientData
  validateExpectedType j
  validateChallenge j payload
  verifyRest O key sd.signature sd.authenticatorData sd.clientData

def verifyLegacy (O : Oracles) (payload key : Bytes) (sd : SigData) : Except Err Bool := do
  checkClientDataLen sd.clientData
  let j ← parseClientData O sd.clientData
  validateExpectedType j
  validateChallengeLegacy j payload
  verifyRest O key sd.signature sd.authenticatorData sd.clientData

/-! ### examples/multisig-smart-account/webauthn-verifier -/

def decodeSigData (O : Oracles) (sigData : Bytes) : Except Err SigData :=
  match O.fromXdr sigData with
  | none => .error .panic     -- `.expect("WebAuthnSigData with correct format")`
  | some sd => .ok sd

def extractPubKey (keyData : Bytes) : Except Err Bytes :=
  match extractFromBytes 65 keyData 0 (some 65) with
  | none => .error .panic     -- `.expect("65-byte public key to be extracted")`
  | some k => .ok k

/-- `WebauthnVerifierContract::verify(e, signature_payload, key_data, sig_data)` -/
def exampleVerify (O : Oracles) (payload keyData sigData : Bytes) : Except Err Bool := do
  let sd ← decodeSigData O sigData
  let pk ← extractPubKey keyData
  verify O payload pk sd

end OZ.WebAuthn
