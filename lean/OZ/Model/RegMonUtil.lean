import OZ.Model.RegUtil
/-
Vocabulary shared by the eight C20 monitor cores (OZ/Model/Reg*Mon.lean): printing helpers whose
output the monitors compare with observation words, the tiny "plain set" vocabulary (lists used as
sets) and the verdict sites. Moved here UNCHANGED from OZ/Drv/C20Util.lean (which re-exports them),
so that the monitor cores import nothing but model files. Import-free apart from RegUtil.
-/
namespace OZ.RegMon

def bit (b : Bool) : String := if b then "1" else "0"
def bits (l : List Bool) : String := if l.isEmpty then "-" else "".intercalate (l.map bit)

/-- `OZ.Drv.showList toString` -/
def nats (l : List Nat) : String := if l.isEmpty then "-" else ",".intercalate (l.map toString)
def sepBy (sep : String) (l : List String) : String := if l.isEmpty then "-" else sep.intercalate l

def showOpt (o : Option Nat) : String := match o with | some v => toString v | none => "x"

/-! plain-set helpers for monitors -/
def sameSet [BEq α] (a b : List α) : Bool := a.all (b.contains ·) && b.all (a.contains ·)
def nodupB [BEq α] : List α → Bool
  | [] => true
  | x :: xs => !xs.contains x && nodupB xs

/-- a failed monitor check: the first `some` wins -/
def firstFail (l : List (Option String)) : Option String := l.findSome? id

def chk (c : Bool) (msg : String) : Option String := if c then none else some msg

/-- verdict sites. A capacity limit is named per ENTRY POINT: `limit.<entry point>.<capacity>`;
`..._exact_refused` = the implementation refused an operation that lands exactly on the documented
capacity, `..._over_accepted` = it accepted one that goes past it. -/
def refusedSite (reg near : String) : String :=
  if near.startsWith "limit." then
    s!"site={reg}.{near}_exact_refused the implementation refused an operation that reaches the documented capacity exactly (the plain structure with its documented limits accepts it)"
  else s!"site={reg}.{near}_refused the implementation refused an operation the plain structure (with its documented limits) accepts"

def acceptedSite (reg why : String) : String :=
  if why.startsWith "limit." then
    s!"site={reg}.{why}_over_accepted the implementation accepted an operation that exceeds the documented capacity ({why})"
  else s!"site={reg}.{why}_accepted the implementation accepted an operation the plain structure refuses ({why})"

/-- the accept / refuse decision of the implementation (`ok`) against the plain structure's
(`plain`): the new ghost and the message, if they differ. `near` names the site of a refusal of an
operation the plain structure accepts. -/
def decide2 {γ : Type} (reg : String) (g : γ) (plain : Except String γ) (ok : Bool) (near : String) : γ × Option String :=
  match plain, ok with
  | .ok g', true => (g', none)
  | .error _, false => (g, none)
  | .ok _, false => (g, some (refusedSite reg near))
  | .error why, true => (g, some (acceptedSite reg why))

end OZ.RegMon
