import OZ.Model.RegUtil
/-
Model of packages/tokens/src/rwa/extensions/doc_manager/storage.rs, line by line.

Storage: `Index(name) -> u32` (removed with the document), `Bucket(i) -> Vec<(name, Document)>`
(buckets of 50; `[]` = "no entry": the code reads `get_documents` with a default and never
stores into a bucket it has not read successfully), `Count -> u32` (default 0).
A document is `(uri length, hash, timestamp)`; the harness uses the URI `"aaa...a"` of that
length, so the length determines the URI.
-/
namespace OZ.RegDocs
open OZ.Reg

def BUCKET_SIZE : Nat := 50
def MAX_DOCUMENTS : Nat := 5000
def MAX_URI_LEN : Nat := 200

structure Doc where
  uri : Nat
  hash : Nat
  ts : Nat
  deriving DecidableEq, Repr

abbrev Entry := Nat × Doc

structure State where
  index : Nat → Option Nat
  buckets : Nat → List Entry
  count : Nat

def init : State := { index := fun _ => none, buckets := fun _ => [], count := 0 }

/-! ### getters -/

def getDocumentCount (s : State) : Nat := s.count

/-- `get_document_by_index` (`none` = `DocumentNotFound` or an `expect`) -/
def getDocumentByIndex (s : State) (i : Nat) : Option Entry :=
  if i ≥ s.count then none else (s.buckets (i / BUCKET_SIZE))[i % BUCKET_SIZE]?

/-- `get_document` -/
def getDocument (s : State) (name : Nat) : Option Doc :=
  (s.index name).bind fun i => (getDocumentByIndex s i).map (·.2)

/-- `get_documents(bucket_index)` -/
def getDocuments (s : State) (b : Nat) : List Entry := s.buckets b

/-! ### set_document -/

/-- update branch: `bucket.set(offset, (name, document))`; the bucket must be present -/
def overwriteAt (s : State) (i : Nat) (e : Entry) : Except RErr State :=
  if s.buckets (i / BUCKET_SIZE) = [] then .error .panic
  else if i % BUCKET_SIZE ≥ (s.buckets (i / BUCKET_SIZE)).length then .error .panic   -- `Vec::set` out of bounds
  else .ok { s with buckets := updD s.buckets (i / BUCKET_SIZE)
                      ((s.buckets (i / BUCKET_SIZE)).set (i % BUCKET_SIZE) e) }

/-- add branch -/
def appendNew (s : State) (e : Entry) : Except RErr State :=
  if s.count ≥ MAX_DOCUMENTS then .error .limit
  else .ok { index := updD s.index e.1 (some s.count),
             buckets := updD s.buckets (s.count / BUCKET_SIZE) (s.buckets (s.count / BUCKET_SIZE) ++ [e]),
             count := s.count + 1 }

/-- `set_document(name, uri, document_hash)` at ledger timestamp `ts` -/
def setDocument (s : State) (name uri hash ts : Nat) : Except RErr State :=
  if uri > MAX_URI_LEN then .error .invalid
  else match s.index name with
    | some i => overwriteAt s i (name, ⟨uri, hash, ts⟩)
    | none => appendNew s (name, ⟨uri, hash, ts⟩)

/-! ### remove_document (swap-and-pop) -/

/-- move the last entry to slot `idx` and repoint its index -/
def moveLast (s : State) (idx : Nat) (e : Entry) : Except RErr State :=
  if s.buckets (idx / BUCKET_SIZE) = [] then .error .panic
  else if idx % BUCKET_SIZE ≥ (s.buckets (idx / BUCKET_SIZE)).length then .error .panic
  else .ok { s with index := updD s.index e.1 (some idx),
                    buckets := updD s.buckets (idx / BUCKET_SIZE)
                      ((s.buckets (idx / BUCKET_SIZE)).set (idx % BUCKET_SIZE) e) }

/-- pop the last bucket's last entry, drop the index of `name`, store the new count -/
def popLast (s : State) (name last : Nat) : Except RErr State :=
  if s.buckets (last / BUCKET_SIZE) = [] then .error .panic
  else .ok { index := updD s.index name none,
             buckets := updD s.buckets (last / BUCKET_SIZE) ((s.buckets (last / BUCKET_SIZE)).dropLast),
             count := last }

/-- `remove_document` once the document's index is known (`count - 1` underflows for
`count = 0`: a panic) -/
def removeAt (s : State) (name idx : Nat) : Except RErr State :=
  if s.count = 0 then .error .panic
  else if idx ≠ s.count - 1 then
    (ofOpt .panic ((s.buckets ((s.count - 1) / BUCKET_SIZE))[(s.count - 1) % BUCKET_SIZE]?)).bind fun e =>
      (moveLast s idx e).bind fun s1 => popLast s1 name (s.count - 1)
  else popLast s name (s.count - 1)

def removeDocument (s : State) (name : Nat) : Except RErr State :=
  (ofOpt .absent (s.index name)).bind (removeAt s name)

/-! ### operation histories -/

inductive Op where
  | set (name uri hash ts : Nat)
  | remove (name : Nat)
  deriving DecidableEq, Repr

def step (s : State) : Op → Except RErr State
  | .set n u h ts => setDocument s n u h ts
  | .remove n => removeDocument s n

def next (s : State) (o : Op) : State :=
  match step s o with
  | .ok s' => s'
  | .error _ => s

def run (s : State) (ops : List Op) : State := ops.foldl next s

/-- all entries in index order -/
def entries (s : State) : List Entry :=
  if s.count = 0 then [] else (List.range ((s.count - 1) / BUCKET_SIZE + 1)).flatMap s.buckets

end OZ.RegDocs
