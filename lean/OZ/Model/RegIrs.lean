import OZ.Model.RegUtil
/-
Model of packages/tokens/src/rwa/identity_registry_storage/storage.rs, line by line.

Storage: `Identity(account) -> Address`, `IdentityProfile(account) -> {type, Vec<CountryData>}`,
`RecoveredTo(old) -> new`. A country data entry is `(code, metadata entries, metadata string
length)`: the harness builds `Individual(Residence(code))` with a metadata map of that many
entries whose values all have that length (`0` entries = `None`).
-/
namespace OZ.RegIrs
open OZ.Reg

def MAX_COUNTRY_ENTRIES : Nat := 15
def MAX_METADATA_ENTRIES : Nat := 10
def MAX_METADATA_STRING_LEN : Nat := 100

structure CD where
  code : Nat
  metaN : Nat
  metaLen : Nat
  deriving DecidableEq, Repr

structure Profile where
  ty : Nat
  countries : List CD
  deriving DecidableEq, Repr

structure State where
  identity : Nat → Option Nat
  profile : Nat → Option Profile
  recoveredTo : Nat → Option Nat

def init : State := { identity := fun _ => none, profile := fun _ => none, recoveredTo := fun _ => none }

/-! ### getters -/

def storedIdentity (s : State) (a : Nat) : Option Nat := s.identity a
def getIdentityProfile (s : State) (a : Nat) : Option Profile := s.profile a
def getCountryData (s : State) (a i : Nat) : Option CD := (s.profile a).bind fun p => p.countries[i]?
def getCountryDataEntries (s : State) (a : Nat) : List CD :=
  match s.profile a with
  | some p => p.countries
  | none => []
def getRecoveredTo (s : State) (a : Nat) : Option Nat := s.recoveredTo a

/-! ### mutators -/

/-- `validate_country_data` -/
def validCD (c : CD) : Bool := c.metaN ≤ MAX_METADATA_ENTRIES ∧ (c.metaN = 0 ∨ c.metaLen ≤ MAX_METADATA_STRING_LEN)

def addIdentity (s : State) (a ident ty : Nat) (cs : List CD) : Except RErr State :=
  if (s.recoveredTo a).isSome then .error .notAllowed
  else if cs = [] then .error .empty
  else if cs.length > MAX_COUNTRY_ENTRIES then .error .limit
  else if !cs.all validCD then .error .invalid
  else if (s.identity a).isSome then .error .dup
  else .ok { s with identity := updD s.identity a (some ident), profile := updD s.profile a (some ⟨ty, cs⟩) }

def modifyIdentity (s : State) (a ident : Nat) : Except RErr State :=
  if (s.identity a).isNone then .error .absent
  else .ok { s with identity := updD s.identity a (some ident) }

def removeIdentity (s : State) (a : Nat) : Except RErr State :=
  if (s.identity a).isNone then .error .absent
  else if (s.profile a).isNone then .error .panic
  else .ok { s with identity := updD s.identity a none, profile := updD s.profile a none }

/-- `recover_identity` once the old identity and profile are read -/
def moveIdentity (s : State) (old new ident : Nat) (p : Profile) : State :=
  { identity := updD (updD s.identity new (some ident)) old none,
    profile := updD (updD s.profile new (some p)) old none,
    recoveredTo := updD s.recoveredTo old (some new) }

def recoverIdentity (s : State) (old new : Nat) : Except RErr State :=
  if (s.recoveredTo new).isSome then .error .notAllowed
  else match s.identity old with
    | none => .error .absent
    | some ident =>
      if (s.identity new).isSome then .error .dup
      else match s.profile old with
        | none => .error .panic
        | some p => .ok (moveIdentity s old new ident p)

def addCountryDataEntries (s : State) (a : Nat) (cs : List CD) : Except RErr State :=
  if cs = [] then .error .empty
  else if !cs.all validCD then .error .invalid
  else match s.profile a with
    | none => .error .absent
    | some p =>
      if (p.countries ++ cs).length > MAX_COUNTRY_ENTRIES then .error .limit
      else .ok { s with profile := updD s.profile a (some { p with countries := p.countries ++ cs }) }

def modifyCountryData (s : State) (a i : Nat) (c : CD) : Except RErr State :=
  if !validCD c then .error .invalid
  else match s.profile a with
    | none => .error .absent
    | some p =>
      if i ≥ p.countries.length then .error .absent
      else .ok { s with profile := updD s.profile a (some { p with countries := p.countries.set i c }) }

def deleteCountryData (s : State) (a i : Nat) : Except RErr State :=
  match s.profile a with
  | none => .error .absent
  | some p =>
    if p.countries.length = 1 then .error .empty
    else if i ≥ p.countries.length then .error .absent
    else .ok { s with profile := updD s.profile a (some { p with countries := p.countries.eraseIdx i }) }

/-! ### operation histories -/

inductive Op where
  | add (a ident ty : Nat) (cs : List CD)
  | modify (a ident : Nat)
  | remove (a : Nat)
  | recover (old new : Nat)
  | addCountries (a : Nat) (cs : List CD)
  | modifyCountry (a i : Nat) (c : CD)
  | deleteCountry (a i : Nat)
  deriving DecidableEq, Repr

def step (s : State) : Op → Except RErr State
  | .add a i ty cs => addIdentity s a i ty cs
  | .modify a i => modifyIdentity s a i
  | .remove a => removeIdentity s a
  | .recover o n => recoverIdentity s o n
  | .addCountries a cs => addCountryDataEntries s a cs
  | .modifyCountry a i c => modifyCountryData s a i c
  | .deleteCountry a i => deleteCountryData s a i

def next (s : State) (o : Op) : State :=
  match step s o with
  | .ok s' => s'
  | .error _ => s

def run (s : State) (ops : List Op) : State := ops.foldl next s

end OZ.RegIrs
