import OZ.Model.Fungible
import OZ.Model.MulDiv
/-
Model of packages/tokens/src/vault/storage.rs (`impl Vault`) as wired by
examples/fungible-vault/src/contract.rs, line by line. Import-free apart from the host,
fungible and mul-div models.

* the SHARE token is the vault contract's own `Base` storage (`ContractOverrides for Vault`
  overrides only `decimals`, so `transfer / transfer_from / approve / balance / total_supply`
  are `Base`'s): `sh : OZ.Fungible.State`;
* the ASSET token is another contract; the correspondence harness uses the library's own
  `Base` token: `ast : OZ.Fungible.State`; `total_assets = ast.bal vault`;
* `offset` is `VirtualDecimalsOffset` (set once by the constructor, `≤ 10`);
* the conversions call the C12 model `OZ.MulDiv.mulDiv128` with exactly the coded operands.

Authorization. `auth` is the list of addresses that signed an authorization tree whose
root is this invocation of the vault; `sub = true` means that every such tree also
contains the nested invocation of the asset token that the vault is going to make
(`transfer(from, vault, assets)` resp. `transfer_from(operator, from, vault, assets)`).
Inside a cross-contract call made by the vault, the vault itself is authorized as the
direct invoker. Hence the authorizing set seen by the asset token is `tokenAuth`.
-/
namespace OZ.Vault
open OZ.Host

abbrev Tok := OZ.Fungible.State
abbrev Rounding := OZ.MulDiv.Rounding

inductive Err where
  | invalidAssets | invalidShares
  | exceededMaxDeposit | exceededMaxMint | exceededMaxWithdraw | exceededMaxRedeem
  | offsetExceeded | mathOverflow | fixedPoint | auth
  | share (e : OZ.Fungible.Err)
  | asset (e : OZ.Fungible.Err)
  deriving DecidableEq, Repr

inductive Event where
  | deposit (operator frm receiver : Nat) (assets shares : Int)
  | withdraw (operator receiver owner : Nat) (assets shares : Int)
  /-- an event of the share token's `Base` entry points (same contract, same stream) -/
  | token (ev : OZ.Fungible.Event)
  deriving DecidableEq, Repr

structure State where
  sh : Tok
  ast : Tok
  vault : Nat
  offset : Nat
  events : List Event        -- the vault's own events, oldest first

/-- `MAX_DECIMALS_OFFSET` -/
def MAX_DECIMALS_OFFSET : Nat := 10

/-- `__constructor` of the example: `set_asset`, `set_decimals_offset` (fails above 10) -/
def construct (vault offset now : Nat) : Except Err State :=
  if offset > MAX_DECIMALS_OFFSET then .error .offsetExceeded
  else .ok { sh := OZ.Fungible.init now, ast := OZ.Fungible.init now, vault := vault,
             offset := offset, events := [] }

def emit (s : State) (ev : Event) : State := { s with events := s.events ++ [ev] }

def liftS {α : Type} : Except OZ.Fungible.Err α → Except Err α
  | .ok v => .ok v
  | .error e => .error (.share e)

def liftA {α : Type} : Except OZ.Fungible.Err α → Except Err α
  | .ok v => .ok v
  | .error e => .error (.asset e)

/-- `checked_*(..).unwrap_or_else(|| panic_with_error!(e, MathOverflow))` -/
def ofChk : Option Int → Except Err Int
  | some v => .ok v
  | none => .error .mathOverflow

/-- result of `mul_div_i128` (it panics with a `SorobanFixedPointError`) -/
def ofRes : OZ.MulDiv.Res → Except Err Int
  | .ok v => .ok v
  | _ => .error .fixedPoint

def guard (p : Prop) [Decidable p] (e : Err) : Except Err Unit := if p then .ok () else .error e

def requireAuth (auth : List Nat) (a : Nat) : Except Err Unit := guard (a ∈ auth) .auth

/-- `Vault::total_assets`: the asset token's `balance(vault)` -/
def totalAssets (s : State) : Int := s.ast.bal s.vault

/-- `Vault::total_supply` = `Base::total_supply` -/
def totalShares (s : State) : Int := s.sh.supply

/-- `10_i128.checked_pow(offset)` -/
def virtualShares (s : State) : Except Err Int := ofChk (OZ.MulDiv.chk128 (10 ^ s.offset))

/-- `Vault::convert_to_shares_with_rounding`:
`mul_div_i128(assets, total_supply + 10^offset, total_assets + 1, rounding)` -/
def convertToShares (s : State) (assets : Int) (rd : Rounding) : Except Err Int :=
  if assets < 0 then .error .invalidAssets
  else if assets = 0 then .ok 0
  else do
    let pow ← virtualShares s
    let y ← ofChk (OZ.MulDiv.chk128 (totalShares s + pow))
    let d ← ofChk (OZ.MulDiv.chk128 (totalAssets s + 1))
    ofRes (OZ.MulDiv.mulDiv128 rd assets y d)

/-- `Vault::convert_to_assets_with_rounding`:
`mul_div_i128(shares, total_assets + 1, total_supply + 10^offset, rounding)` -/
def convertToAssets (s : State) (shares : Int) (rd : Rounding) : Except Err Int :=
  if shares < 0 then .error .invalidShares
  else if shares = 0 then .ok 0
  else do
    let y ← ofChk (OZ.MulDiv.chk128 (totalAssets s + 1))
    let pow ← virtualShares s
    let d ← ofChk (OZ.MulDiv.chk128 (totalShares s + pow))
    ofRes (OZ.MulDiv.mulDiv128 rd shares y d)

/-! ### queries -/

def convertToSharesQ (s : State) (assets : Int) := convertToShares s assets .floor
def convertToAssetsQ (s : State) (shares : Int) := convertToAssets s shares .floor
def maxDeposit : Int := I128_MAX
def maxMint : Int := I128_MAX
def previewDeposit (s : State) (assets : Int) := convertToShares s assets .floor
def previewMint (s : State) (shares : Int) := convertToAssets s shares .ceil
def previewWithdraw (s : State) (assets : Int) := convertToShares s assets .ceil
def previewRedeem (s : State) (shares : Int) := convertToAssets s shares .floor
def maxWithdraw (s : State) (owner : Nat) := convertToAssets s (s.sh.bal owner) .floor
def maxRedeem (s : State) (owner : Nat) : Int := s.sh.bal owner

/-! ### state-changing entry points -/

/-- who the asset token sees as authorizing a call made by the vault -/
def tokenAuth (s : State) (auth : List Nat) (sub : Bool) : List Nat :=
  s.vault :: (if sub then auth else [])

/-- first half of `deposit_internal`: pull the assets in, directly or through the
allowance `from → operator` on the asset token -/
def pullAssets (c : Cfg) (s : State) (tauth : List Nat) (frm operator : Nat) (assets : Int) :
    Except Err Tok :=
  if operator = frm then liftA (OZ.Fungible.transfer s.ast tauth frm s.vault assets)
  else liftA (OZ.Fungible.transferFrom c s.ast tauth operator frm s.vault assets)

/-- `Vault::deposit_internal` -/
def depositInternal (c : Cfg) (s : State) (tauth : List Nat) (receiver : Nat) (assets shares : Int)
    (frm operator : Nat) : Except Err State := do
  let ast ← pullAssets c s tauth frm operator assets
  let sh ← liftS (OZ.Fungible.update s.sh none (some receiver) shares)
  pure { s with ast := ast, sh := sh }

/-- `if operator != owner { Base::spend_allowance(owner, operator, shares) }` -/
def spendShares (c : Cfg) (s : State) (owner operator : Nat) (shares : Int) : Except Err Tok :=
  if operator = owner then .ok s.sh
  else liftS (OZ.Fungible.spendAllowance c s.sh owner operator shares)

/-- `Vault::withdraw_internal` -/
def withdrawInternal (c : Cfg) (s : State) (receiver owner : Nat) (assets shares : Int)
    (operator : Nat) : Except Err State := do
  let sh1 ← spendShares c s owner operator shares
  let sh2 ← liftS (OZ.Fungible.update sh1 (some owner) none shares)
  let ast ← liftA (OZ.Fungible.transfer s.ast [s.vault] s.vault receiver assets)
  pure { s with sh := sh2, ast := ast }

/-- `Vault::deposit` -/
def deposit (c : Cfg) (s : State) (auth : List Nat) (sub : Bool) (assets : Int)
    (receiver frm operator : Nat) : Except Err (State × Int) := do
  requireAuth auth operator
  guard (assets ≤ maxDeposit) .exceededMaxDeposit
  let shares ← previewDeposit s assets
  let s' ← depositInternal c s (tokenAuth s auth sub) receiver assets shares frm operator
  pure (emit s' (.deposit operator frm receiver assets shares), shares)

/-- `Vault::mint` -/
def mint (c : Cfg) (s : State) (auth : List Nat) (sub : Bool) (shares : Int)
    (receiver frm operator : Nat) : Except Err (State × Int) := do
  requireAuth auth operator
  guard (shares ≤ maxMint) .exceededMaxMint
  let assets ← previewMint s shares
  let s' ← depositInternal c s (tokenAuth s auth sub) receiver assets shares frm operator
  pure (emit s' (.deposit operator frm receiver assets shares), assets)

/-- `Vault::withdraw` -/
def withdraw (c : Cfg) (s : State) (auth : List Nat) (assets : Int)
    (receiver owner operator : Nat) : Except Err (State × Int) := do
  requireAuth auth operator
  let maxAssets ← maxWithdraw s owner
  guard (assets ≤ maxAssets) .exceededMaxWithdraw
  let shares ← previewWithdraw s assets
  let s' ← withdrawInternal c s receiver owner assets shares operator
  pure (emit s' (.withdraw operator receiver owner assets shares), shares)

/-- `Vault::redeem` -/
def redeem (c : Cfg) (s : State) (auth : List Nat) (shares : Int)
    (receiver owner operator : Nat) : Except Err (State × Int) := do
  requireAuth auth operator
  guard (shares ≤ maxRedeem s owner) .exceededMaxRedeem
  let assets ← previewRedeem s shares
  let s' ← withdrawInternal c s receiver owner assets shares operator
  pure (emit s' (.withdraw operator receiver owner assets shares), assets)

/-! ### the vault, its share token and the asset token as one state machine -/

inductive Op where
  | deposit (sub : Bool) (assets : Int) (receiver frm operator : Nat)
  | mint (sub : Bool) (shares : Int) (receiver frm operator : Nat)
  | withdraw (assets : Int) (receiver owner operator : Nat)
  | redeem (shares : Int) (receiver owner operator : Nat)
  /-- an operation of the share token (`FungibleToken for ExampleContract`) -/
  | share (op : OZ.Fungible.Op)
  /-- an operation of the asset token; `transfer u vault x` is a donation -/
  | asset (op : OZ.Fungible.Op)
  | advance (n : Nat)
  deriving Repr

def withRet (r : Except Err State) : Except Err (State × Int) :=
  match r with
  | .ok s => .ok (s, 0)
  | .error e => .error e

/-- the share token has no public `mint`/`burn` in the example contract -/
def shareOpAllowed : OZ.Fungible.Op → Bool
  | .transfer _ _ _ => true
  | .transferFrom _ _ _ _ => true
  | .approve _ _ _ _ => true
  | _ => false

/-- the event a successful share-token entry point publishes -/
def shareEvent : OZ.Fungible.Op → Option OZ.Fungible.Event
  | .transfer f t a => some (.transfer f t a)
  | .transferFrom _ f t a => some (.transfer f t a)
  | .approve o sp a lu => some (.approve o sp a lu)
  | _ => none

def emitOpt (s : State) : Option OZ.Fungible.Event → State
  | some ev => emit s (.token ev)
  | none => s

def shareOp (c : Cfg) (s : State) (auth : List Nat) (op : OZ.Fungible.Op) : Except Err State :=
  if shareOpAllowed op then
    match liftS (OZ.Fungible.apply c s.sh auth op) with
    | .ok sh => .ok (emitOpt { s with sh := sh } (shareEvent op))
    | .error e => .error e
  else .error .auth

def assetOp (c : Cfg) (s : State) (auth : List Nat) (op : OZ.Fungible.Op) : Except Err State :=
  match liftA (OZ.Fungible.apply c s.ast auth op) with
  | .ok a => .ok { s with ast := a }
  | .error e => .error e

def advance (s : State) (n : Nat) : State :=
  { s with sh := { s.sh with now := s.sh.now + n }, ast := { s.ast with now := s.ast.now + n } }

/-- one invocation with the authorizing addresses `auth`: new state and return value -/
def apply (c : Cfg) (s : State) (auth : List Nat) : Op → Except Err (State × Int)
  | .deposit sub a r f o => deposit c s auth sub a r f o
  | .mint sub sh r f o => mint c s auth sub sh r f o
  | .withdraw a r ow o => withdraw c s auth a r ow o
  | .redeem sh r ow o => redeem c s auth sh r ow o
  | .share op => withRet (shareOp c s auth op)
  | .asset op => withRet (assetOp c s auth op)
  | .advance n => .ok (advance s n, 0)

/-- a failed invocation is rolled back by the host -/
def step (c : Cfg) (s : State) (x : List Nat × Op) : State :=
  match apply c s x.1 x.2 with
  | .ok r => r.1
  | .error _ => s

def run (c : Cfg) (s : State) (ops : List (List Nat × Op)) : State := ops.foldl (step c) s

/-- addresses mentioned by an operation -/
def Op.addrs : Op → List Nat
  | .deposit _ _ r f o => [r, f, o]
  | .mint _ _ r f o => [r, f, o]
  | .withdraw _ r ow o => [r, ow, o]
  | .redeem _ r ow o => [r, ow, o]
  | .share op => op.addrs
  | .asset op => op.addrs
  | .advance _ => []

/-- who must authorize an operation for it to get past the vault's `require_auth` -/
def Op.required : Op → List Nat
  | .deposit _ _ _ _ o => [o]
  | .mint _ _ _ _ o => [o]
  | .withdraw _ _ _ o => [o]
  | .redeem _ _ _ o => [o]
  | .share op => op.required
  | .asset op => op.required
  | .advance _ => []

/-- replaying the vault contract's events on a share-balance map: Deposit mints `shares` to
the receiver, Withdraw burns `shares` from the owner, token events as in C01 -/
def replayEvent (b : Nat → Int) : Event → (Nat → Int)
  | .deposit _ _ r _ sh => upd b r (b r + sh)
  | .withdraw _ _ ow _ sh => upd b ow (b ow - sh)
  | .token ev => OZ.Fungible.replayEvent b ev

def replay (evs : List Event) : Nat → Int := evs.foldl replayEvent (fun _ => 0)

end OZ.Vault
