import OZ.Model.Timelock
/-
Model of examples/timelock-controller/src/contract.rs (after the `fix:` commit that makes
`__check_auth` reject a descriptor vector whose length differs from the number of authorized
contexts), on top of the timelock model (OZ/Model/Timelock.lean, C08) and a plain-set model
of the access-control roles (packages/access/src/access_control/storage.rs: `has_role`,
`get_role_member_count`, `grant_role`, `revoke_role`, `enforce_admin_auth`, admin transfer).

Addresses are naturals; `self` is the controller's own address. Argument values (`Val`) of the
controller's own entry points are coded injectively as naturals (`vU32`, `vAddr`, `vSym`).

Authorization. Every top-level invocation carries
* `auth : List AuthTok` — what ordinary accounts signed: `.call a` = account `a` authorizes this
  invocation (`a.require_auth()`), `.exec a …` = account `a` authorizes the argument tuple
  `("execute_op", target, fn, args, predecessor, salt)` demanded by `require_auth_for_args`
  inside `__check_auth`;
* `sig : Option (List Meta)` — the signature payload (`Vec<OperationMeta>`) of the
  authorization entry whose credential is the controller's own address, if there is one.
  `self.require_auth()` succeeds iff the host's call of `__check_auth` (here `checkAuth`) with
  that payload and the invocation as the single context returns Ok; its state changes (operations
  marked done) are part of the invocation.
The controller is assumed to hold none of the proposer / executor / canceller roles itself
(`requireAuthPlain` rejects it); the harness never grants it one.
-/
namespace OZ.TimelockController
open OZ.Host OZ.Timelock

def PROPOSER : Nat := 0
def EXECUTOR : Nat := 1
def CANCELLER : Nat := 2

/-- coding of `Val`s that occur as arguments of the controller's own entry points -/
def vU32 (n : Nat) : Nat := 3 * n
def vAddr (a : Nat) : Nat := 3 * a + 1
def vSym (r : Nat) : Nat := 3 * r + 2

/-- function symbols of the controller's admin-only entry points -/
def FN_UPDATE_DELAY : Nat := 0
def FN_GRANT_ROLE : Nat := 1
def FN_REVOKE_ROLE : Nat := 2
def FN_TRANSFER_ADMIN : Nat := 3
def FN_RENOUNCE_ADMIN : Nat := 4

inductive CErr where
  | timelock (e : Timelock.Err)
  | unauthorized | auth | panic | adminNotSet | roleNotHeld | noPendingTransfer
  | invalidPendingAccount | invalidLiveUntil | transferInProgress | lengthMismatch
  deriving DecidableEq, Repr

/-- `struct OperationMeta` -/
structure Meta where
  pred : Id
  salt : Nat
  executor : Option Nat
  deriving DecidableEq, Repr

/-- `soroban_sdk::auth::Context` -/
inductive Context where
  | contract (addr fn : Nat) (args : List Nat)
  | createContract
  deriving DecidableEq, Repr

inductive AuthTok where
  | call (a : Nat)
  | exec (a : Nat) (target fn : Nat) (args : List Nat) (pred : Id) (salt : Nat)
  deriving DecidableEq, Repr

structure CState where
  tl : Timelock.State
  self : Nat
  admin : Option Nat                  -- AccessControlStorageKey::Admin
  pending : Option (Nat × Nat)        -- PendingAdmin (temporary entry): account, live-until ledger
  roles : Nat → List Nat              -- members of each role
  maxTtl : Nat                        -- host `max_entry_ttl`

def CState.hasRole (c : CState) (r a : Nat) : Bool := (c.roles r).contains a

/-- `TimelockController::__constructor` -/
def construct (now maxTtl self minDelay : Nat) (proposers executors : List Nat) (admin : Option Nat) : CState :=
  { tl := setMinDelay (Timelock.init now) minDelay
    self := self
    admin := some (admin.getD self)
    pending := none
    roles := fun r =>
      if r = PROPOSER ∨ r = CANCELLER then proposers.eraseDups
      else if r = EXECUTOR then executors.eraseDups else []
    maxTtl := maxTtl }

/-! ### `__check_auth` -/

/-- the executor part of one loop iteration of `__check_auth` -/
def execGate (c : CState) (auth : List AuthTok) (fn : Nat) (args : List Nat) (m : Meta) : Except CErr Unit :=
  if (c.roles EXECUTOR).length = 0 then .ok ()
  else
    match m.executor with
    | none => .error .panic
    | some ex =>
      if !c.hasRole EXECUTOR ex then .error .unauthorized
      else if AuthTok.exec ex c.self fn args m.pred m.salt ∈ auth then .ok ()
      else .error .auth

def liftTl (c : CState) (r : Except Timelock.Err Timelock.State) : Except CErr CState :=
  match r with
  | .ok tl' => .ok { c with tl := tl' }
  | .error e => .error (.timelock e)

/-- one iteration of the loop of `__check_auth` -/
def checkOne (c : CState) (auth : List AuthTok) (ctx : Context) (m : Meta) : Except CErr CState :=
  match ctx with
  | .contract addr fn args =>
    if addr ≠ c.self then .error .unauthorized
    else
      match execGate c auth fn args m with
      | .error e => .error e
      | .ok _ => liftTl c (setExecute c.tl ⟨addr, fn, args, m.pred, m.salt⟩)
  | .createContract => .error .unauthorized

/-- `for (context, meta) in auth_contexts.iter().zip(context_meta)` -/
def checkPairs (c : CState) (auth : List AuthTok) : List (Context × Meta) → Except CErr CState
  | [] => .ok c
  | (ctx, m) :: rest =>
    match checkOne c auth ctx m with
    | .error e => .error e
    | .ok c1 => checkPairs c1 auth rest

/-- `__check_auth` as it was before the fix: `zip` silently drops the contexts that have no
descriptor -/
def checkAuthLegacy (c : CState) (auth : List AuthTok) (metas : List Meta) (ctxs : List Context) :
    Except CErr CState :=
  checkPairs c auth (ctxs.zip metas)

/-- `__check_auth` (fixed) -/
def checkAuth (c : CState) (auth : List AuthTok) (metas : List Meta) (ctxs : List Context) :
    Except CErr CState :=
  if metas.length ≠ ctxs.length then .error .lengthMismatch
  else checkPairs c auth (ctxs.zip metas)

/-! ### `require_auth` -/

/-- `who.require_auth()` for an ordinary account -/
def requireAuthPlain (c : CState) (auth : List AuthTok) (who : Nat) : Except CErr Unit :=
  if who = c.self then .error .auth
  else if AuthTok.call who ∈ auth then .ok () else .error .auth

/-- `who.require_auth()` inside the invocation `(self, fn, args)`: the controller's own address
is authorized by `__check_auth` over the attached payload, anybody else by a signature -/
def requireAuth (check : CState → List AuthTok → List Meta → List Context → Except CErr CState)
    (c : CState) (auth : List AuthTok) (sig : Option (List Meta)) (who fn : Nat) (args : List Nat) :
    Except CErr CState :=
  if who = c.self then
    match sig with
    | none => .error .auth
    | some metas => check c auth metas [.contract c.self fn args]
  else if AuthTok.call who ∈ auth then .ok c else .error .auth

/-- `enforce_admin_auth` -/
def enforceAdminAuth (check : CState → List AuthTok → List Meta → List Context → Except CErr CState)
    (c : CState) (auth : List AuthTok) (sig : Option (List Meta)) (fn : Nat) (args : List Nat) :
    Except CErr CState :=
  match c.admin with
  | none => .error .adminNotSet
  | some a => requireAuth check c auth sig a fn args

/-! ### entry points -/

/-- `schedule_op` (`#[only_role(proposer, "proposer")]`) -/
def scheduleOp (c : CState) (auth : List AuthTok) (op : Operation) (delay proposer : Nat) : Except CErr CState :=
  if !c.hasRole PROPOSER proposer then .error .unauthorized
  else
    match requireAuthPlain c auth proposer with
    | .error e => .error e
    | .ok _ => liftTl c (schedule c.tl op delay)

/-- `cancel_op` (`#[only_role(canceller, "canceller")]`) -/
def cancelOp (c : CState) (auth : List AuthTok) (id : Id) (canceller : Nat) : Except CErr CState :=
  if !c.hasRole CANCELLER canceller then .error .unauthorized
  else
    match requireAuthPlain c auth canceller with
    | .error e => .error e
    | .ok _ => liftTl c (cancel c.tl id)

/-- the executor guard of `execute_op` -/
def executorGate (c : CState) (auth : List AuthTok) (executor : Option Nat) : Except CErr Unit :=
  if (c.roles EXECUTOR).length = 0 then .ok ()
  else
    match executor with
    | none => .error .panic
    | some ex => if !c.hasRole EXECUTOR ex then .error .unauthorized else requireAuthPlain c auth ex

/-- `execute_op` -/
def executeOp (c : CState) (auth : List AuthTok) (op : Operation) (executor : Option Nat) (callOk : Bool) :
    Except CErr CState :=
  match executorGate c auth executor with
  | .error e => .error e
  | .ok _ => liftTl c (execute c.tl op callOk)

abbrev Check := CState → List AuthTok → List Meta → List Context → Except CErr CState

/-- `update_delay` (`#[only_admin]`) -/
def updateDelayW (check : Check) (c : CState) (auth : List AuthTok) (sig : Option (List Meta)) (newDelay : Nat) :
    Except CErr CState :=
  match enforceAdminAuth check c auth sig FN_UPDATE_DELAY [vU32 newDelay] with
  | .error e => .error e
  | .ok c1 => .ok { c1 with tl := setMinDelay c1.tl newDelay }

/-- `ensure_if_admin_or_admin_role` (no role admins are configured in this contract) -/
def ensureAdmin (c : CState) (caller : Nat) : Except CErr Unit :=
  if c.admin = some caller then .ok () else .error .unauthorized

def setRole (c : CState) (r : Nat) (l : List Nat) : CState :=
  { c with roles := fun x => if x = r then l else c.roles x }

/-- `grant_role` -/
def grantRoleW (check : Check) (c : CState) (auth : List AuthTok) (sig : Option (List Meta))
    (account role caller : Nat) : Except CErr CState :=
  match requireAuth check c auth sig caller FN_GRANT_ROLE [vAddr account, vSym role, vAddr caller] with
  | .error e => .error e
  | .ok c1 =>
    match ensureAdmin c1 caller with
    | .error e => .error e
    | .ok _ => if c1.hasRole role account then .ok c1 else .ok (setRole c1 role (c1.roles role ++ [account]))

/-- `revoke_role` -/
def revokeRoleW (check : Check) (c : CState) (auth : List AuthTok) (sig : Option (List Meta))
    (account role caller : Nat) : Except CErr CState :=
  match requireAuth check c auth sig caller FN_REVOKE_ROLE [vAddr account, vSym role, vAddr caller] with
  | .error e => .error e
  | .ok c1 =>
    match ensureAdmin c1 caller with
    | .error e => .error e
    | .ok _ =>
      if !c1.hasRole role account then .error .roleNotHeld
      else .ok (setRole c1 role ((c1.roles role).erase account))

/-- the live pending admin (`storage().temporary().get(PendingAdmin)`) -/
def livePending (c : CState) : Option Nat :=
  match c.pending with
  | some (p, lu) => if c.tl.now ≤ lu then some p else none
  | none => none

/-- `role_transfer::transfer_role` on the pending-admin key -/
def transferRole (c : CState) (newAdmin lu : Nat) : Except CErr CState :=
  if lu = 0 then
    match livePending c with
    | none => .error .noPendingTransfer
    | some p => if p ≠ newAdmin then .error .invalidPendingAccount else .ok { c with pending := none }
  else if lu > c.tl.now + c.maxTtl - 1 ∨ lu < c.tl.now then .error .invalidLiveUntil
  else .ok { c with pending := some (newAdmin, lu) }

/-- `transfer_admin_role` -/
def transferAdminW (check : Check) (c : CState) (auth : List AuthTok) (sig : Option (List Meta))
    (newAdmin lu : Nat) : Except CErr CState :=
  match enforceAdminAuth check c auth sig FN_TRANSFER_ADMIN [vAddr newAdmin, vU32 lu] with
  | .error e => .error e
  | .ok c1 => transferRole c1 newAdmin lu

/-- `accept_admin_transfer` -/
def acceptAdmin (c : CState) (auth : List AuthTok) : Except CErr CState :=
  match c.admin with
  | none => .error .adminNotSet
  | some _ =>
    match livePending c with
    | none => .error .noPendingTransfer
    | some p =>
      match requireAuthPlain c auth p with
      | .error e => .error e
      | .ok _ => .ok { c with admin := some p, pending := none }

/-- `renounce_admin` -/
def renounceAdminW (check : Check) (c : CState) (auth : List AuthTok) (sig : Option (List Meta)) :
    Except CErr CState :=
  match enforceAdminAuth check c auth sig FN_RENOUNCE_ADMIN [] with
  | .error e => .error e
  | .ok c1 => if (livePending c1).isSome then .error .transferInProgress else .ok { c1 with admin := none }

/-! ### the controller as a state machine -/

inductive Entry where
  | scheduleOp (op : Operation) (delay proposer : Nat)
  | cancelOp (id : Id) (canceller : Nat)
  | executeOp (op : Operation) (executor : Option Nat) (callOk : Bool)
  | updateDelay (newDelay : Nat)
  | grantRole (account role caller : Nat)
  | revokeRole (account role caller : Nat)
  | transferAdmin (newAdmin lu : Nat)
  | acceptAdmin
  | renounceAdmin
  | checkAuth (metas : List Meta) (ctxs : List Context)   -- `__check_auth` driven directly
  | advance (n : Nat)
  deriving Repr

/-- one top-level invocation; `check` is `checkAuth` (the code) or `checkAuthLegacy` (before the fix) -/
def applyW (check : Check) (c : CState) (auth : List AuthTok) (sig : Option (List Meta)) : Entry → Except CErr CState
  | .scheduleOp op d p => scheduleOp c auth op d p
  | .cancelOp id k => cancelOp c auth id k
  | .executeOp op ex ok => executeOp c auth op ex ok
  | .updateDelay d => updateDelayW check c auth sig d
  | .grantRole a r k => grantRoleW check c auth sig a r k
  | .revokeRole a r k => revokeRoleW check c auth sig a r k
  | .transferAdmin a lu => transferAdminW check c auth sig a lu
  | .acceptAdmin => acceptAdmin c auth
  | .renounceAdmin => renounceAdminW check c auth sig
  | .checkAuth metas ctxs => check c auth metas ctxs
  | .advance n => liftTl c (advance c.tl n)

def applyE : CState → List AuthTok → Option (List Meta) → Entry → Except CErr CState := applyW checkAuth
def applyLegacy : CState → List AuthTok → Option (List Meta) → Entry → Except CErr CState := applyW checkAuthLegacy

/-- the operation a context and its descriptor denote -/
def opOf (self fn : Nat) (args : List Nat) (m : Meta) : Operation := ⟨self, fn, args, m.pred, m.salt⟩

/-- the admin-only entry points and the call (function symbol, arguments) each of them is -/
def Entry.adminCall : Entry → Option (Nat × List Nat)
  | .updateDelay d => some (FN_UPDATE_DELAY, [vU32 d])
  | .grantRole a r k => some (FN_GRANT_ROLE, [vAddr a, vSym r, vAddr k])
  | .revokeRole a r k => some (FN_REVOKE_ROLE, [vAddr a, vSym r, vAddr k])
  | .transferAdmin a lu => some (FN_TRANSFER_ADMIN, [vAddr a, vU32 lu])
  | .renounceAdmin => some (FN_RENOUNCE_ADMIN, [])
  | _ => none

end OZ.TimelockController
