import OZ.Model.Timelock
import OZ.Model.Access
/-
Model of examples/timelock-controller/src/contract.rs (after the `fix:` commit that makes
`__check_auth` reject a descriptor vector whose length differs from the number of authorized
contexts), on top of the timelock model (OZ/Model/Timelock.lean, C08) and of the access-control
model of C06 (OZ/Model/Access.lean: roles with their enumeration, role admins, the admin
hand-over machine of OZ/Model/RoleTransfer.lean). The controller exposes the whole
`AccessControl` trait (`impl AccessControl for TimelockController {}`): `grant_role`,
`revoke_role`, `renounce_role`, `set_role_admin`, `transfer_admin_role`,
`accept_admin_transfer`, `renounce_admin`; all of them are entry points here. The library
functions are reused from `OZ.Access` / `OZ.RoleTransfer` below their `require_auth` line
(`ensure_if_admin_or_admin_role`, `grant_role_no_auth`, `revoke_role_no_auth`,
`set_role_admin_no_auth`, `transfer_role`, `accept_admin_transfer`, the pending test of
`renounce_admin`); the `require_auth` itself is modelled here because the address that must
authorize may be the controller.

Addresses are naturals; `self` is the controller's own address. Argument values (`Val`) of the
controller's own entry points are coded injectively as naturals (`vU32`, `vAddr`, `vSym`).

Authorization. Every top-level invocation carries
* `auth : List AuthTok` — what ordinary accounts signed: `.call a` = account `a` authorizes this
  invocation (`a.require_auth()`), `.exec a …` = account `a` authorizes the argument tuple
  `("execute_op", target, fn, args, predecessor, salt)` demanded by `require_auth_for_args`
  inside `__check_auth`;
* `sig : Option (List Meta)` — the signature payload (`Vec<OperationMeta>`) of the
  authorization entry whose credential is the controller's own address, if there is one.
  `self.require_auth()` succeeds iff the host's call of `__check_auth` (here `checkAuth`) with
  that payload and the invocation as the single context returns Ok; its state changes (operations
  marked done) are part of the invocation.
In `schedule_op` / `cancel_op` / `execute_op` / `accept_admin_transfer` the authorizing account is
assumed not to be the controller itself (`requireAuthPlain`, `plainAuth` reject it; the arguments
of those calls are not coded as `Val`s); the harness never makes the controller a proposer,
canceller, executor or pending admin.
-/
namespace OZ.TimelockController
open OZ.Host OZ.Timelock

abbrev AC := OZ.Access.State
abbrev RT := OZ.RoleTransfer.State

def PROPOSER : Nat := 0
def EXECUTOR : Nat := 1
def CANCELLER : Nat := 2

/-- coding of `Val`s that occur as arguments of the controller's own entry points -/
def vU32 (n : Nat) : Nat := 3 * n
def vAddr (a : Nat) : Nat := 3 * a + 1
def vSym (r : Nat) : Nat := 3 * r + 2

/-- function symbols of the entry points whose guard may be the controller's own `require_auth` -/
def FN_UPDATE_DELAY : Nat := 0
def FN_GRANT_ROLE : Nat := 1
def FN_REVOKE_ROLE : Nat := 2
def FN_TRANSFER_ADMIN : Nat := 3
def FN_RENOUNCE_ADMIN : Nat := 4
def FN_SET_ROLE_ADMIN : Nat := 5
def FN_RENOUNCE_ROLE : Nat := 6

inductive CErr where
  | timelock (e : Timelock.Err)
  | access (e : OZ.Access.Err)
  | transfer (e : OZ.RoleTransfer.Err)
  | unauthorized | auth | panic | adminNotSet | lengthMismatch
  deriving DecidableEq, Repr

/-- `struct OperationMeta` -/
structure Meta where
  pred : Id
  salt : Nat
  executor : Option Nat
  deriving DecidableEq, Repr

/-- `soroban_sdk::auth::Context` -/
inductive Context where
  | contract (addr fn : Nat) (args : List Nat)
  | createContract
  deriving DecidableEq, Repr

inductive AuthTok where
  | call (a : Nat)
  | exec (a : Nat) (target fn : Nat) (args : List Nat) (pred : Id) (salt : Nat)
  deriving DecidableEq, Repr

structure CState where
  tl : Timelock.State
  self : Nat
  ac : AC                 -- roles, role admins, Admin / PendingAdmin (C06's model)
  cfg : Cfg               -- host ledger configuration (lifetime of the pending-admin entry)

/-- `get_admin` -/
def CState.admin (c : CState) : Option Nat := OZ.Access.getAdmin c.ac

/-- `has_role(account, role).is_some()` -/
def CState.hasRole (c : CState) (r a : Nat) : Bool := (OZ.Access.hasRoleQ c.ac a r).isSome

/-- `get_role_member_count(EXECUTOR_ROLE)` -/
def CState.executorCount (c : CState) : Nat := OZ.Access.cnt c.ac EXECUTOR

def withAc (c : CState) (r : Except OZ.Access.Err AC) : Except CErr CState :=
  match r with
  | .ok a => .ok { c with ac := a }
  | .error e => .error (.access e)

def withAdm (c : CState) (r : Except OZ.RoleTransfer.Err RT) : Except CErr CState :=
  match r with
  | .ok t => .ok { c with ac := { c.ac with adm := t } }
  | .error e => .error (.transfer e)


def liftTl (c : CState) (r : Except Timelock.Err Timelock.State) : Except CErr CState :=
  match r with
  | .ok tl' => .ok { c with tl := tl' }
  | .error e => .error (.timelock e)

/-- `grant_role_no_auth` inside the constructor (it cannot fail there; a failure would abort the
deployment) -/
def grantOrKeep (s : AC) (account role caller : Nat) : AC :=
  match OZ.Access.grantRoleNoAuth s account role caller with
  | .ok s' => s'
  | .error _ => s

/-- `TimelockController::__constructor` -/
def construct (now maxTtl self minDelay : Nat) (proposers executors : List Nat) (admin : Option Nat) : CState :=
  let adminAddr := admin.getD self
  let s0 := OZ.Access.init (some adminAddr) none now
  let s1 := proposers.foldl (fun s p => grantOrKeep (grantOrKeep s p PROPOSER adminAddr) p CANCELLER adminAddr) s0
  let s2 := executors.foldl (fun s x => grantOrKeep s x EXECUTOR adminAddr) s1
  { tl := setMinDelay (Timelock.init now) minDelay, self := self, ac := s2, cfg := ⟨16, maxTtl⟩ }

/-! ### `__check_auth` -/

/-- the executor part of one loop iteration of `__check_auth` -/
def execGate (c : CState) (auth : List AuthTok) (fn : Nat) (args : List Nat) (m : Meta) : Except CErr Unit :=
  if c.executorCount = 0 then .ok ()
  else
    match m.executor with
    | none => .error .panic
    | some ex =>
      if !c.hasRole EXECUTOR ex then .error .unauthorized
      else if AuthTok.exec ex c.self fn args m.pred m.salt ∈ auth then .ok ()
      else .error .auth

/-- one iteration of the loop of `__check_auth` -/
def checkOne (c : CState) (auth : List AuthTok) (ctx : Context) (m : Meta) : Except CErr CState :=
  match ctx with
  | .contract addr fn args =>
    if addr ≠ c.self then .error .unauthorized
    else
      match execGate c auth fn args m with
      | .error e => .error e
      | .ok _ => liftTl c (setExecute c.tl ⟨addr, fn, args, m.pred, m.salt⟩)
  | .createContract => .error .unauthorized

/-- `for (context, meta) in auth_contexts.iter().zip(context_meta)` -/
def checkPairs (c : CState) (auth : List AuthTok) : List (Context × Meta) → Except CErr CState
  | [] => .ok c
  | (ctx, m) :: rest =>
    match checkOne c auth ctx m with
    | .error e => .error e
    | .ok c1 => checkPairs c1 auth rest

/-- `__check_auth` as it was before the fix: `zip` silently drops the contexts that have no
descriptor -/
def checkAuthLegacy (c : CState) (auth : List AuthTok) (metas : List Meta) (ctxs : List Context) :
    Except CErr CState :=
  checkPairs c auth (ctxs.zip metas)

/-- `__check_auth` (fixed) -/
def checkAuth (c : CState) (auth : List AuthTok) (metas : List Meta) (ctxs : List Context) :
    Except CErr CState :=
  if metas.length ≠ ctxs.length then .error .lengthMismatch
  else checkPairs c auth (ctxs.zip metas)

/-! ### `require_auth` -/

/-- `who.require_auth()` for an ordinary account -/
def requireAuthPlain (c : CState) (auth : List AuthTok) (who : Nat) : Except CErr Unit :=
  if who = c.self then .error .auth
  else if AuthTok.call who ∈ auth then .ok () else .error .auth

/-- the ordinary accounts that authorized this invocation (for the library functions of
`OZ.RoleTransfer` that take a plain list) -/
def plainAuth (c : CState) (auth : List AuthTok) : List Nat :=
  auth.filterMap (fun t => match t with
    | .call a => if a = c.self then none else some a
    | _ => none)

abbrev Check := CState → List AuthTok → List Meta → List Context → Except CErr CState

/-- `who.require_auth()` inside the invocation `(self, fn, args)`: the controller's own address
is authorized by `__check_auth` over the attached payload, anybody else by a signature -/
def requireAuth (check : Check) (c : CState) (auth : List AuthTok) (sig : Option (List Meta))
    (who fn : Nat) (args : List Nat) : Except CErr CState :=
  if who = c.self then
    match sig with
    | none => .error .auth
    | some metas => check c auth metas [.contract c.self fn args]
  else if AuthTok.call who ∈ auth then .ok c else .error .auth

/-- `enforce_admin_auth` (also the first lines of `set_role_admin`) -/
def enforceAdminAuth (check : Check) (c : CState) (auth : List AuthTok) (sig : Option (List Meta))
    (fn : Nat) (args : List Nat) : Except CErr CState :=
  match c.admin with
  | none => .error .adminNotSet
  | some a => requireAuth check c auth sig a fn args

/-! ### entry points -/

/-- `schedule_op` (`#[only_role(proposer, "proposer")]`: `ensure_role`, `require_auth`, body) -/
def scheduleOp (c : CState) (auth : List AuthTok) (op : Operation) (delay proposer : Nat) : Except CErr CState :=
  if !c.hasRole PROPOSER proposer then .error .unauthorized
  else
    match requireAuthPlain c auth proposer with
    | .error e => .error e
    | .ok _ => liftTl c (schedule c.tl op delay)

/-- `cancel_op` (`#[only_role(canceller, "canceller")]`) -/
def cancelOp (c : CState) (auth : List AuthTok) (id : Id) (canceller : Nat) : Except CErr CState :=
  if !c.hasRole CANCELLER canceller then .error .unauthorized
  else
    match requireAuthPlain c auth canceller with
    | .error e => .error e
    | .ok _ => liftTl c (cancel c.tl id)

/-- the executor guard of `execute_op` -/
def executorGate (c : CState) (auth : List AuthTok) (executor : Option Nat) : Except CErr Unit :=
  if c.executorCount = 0 then .ok ()
  else
    match executor with
    | none => .error .panic
    | some ex => if !c.hasRole EXECUTOR ex then .error .unauthorized else requireAuthPlain c auth ex

/-- `execute_op` -/
def executeOp (c : CState) (auth : List AuthTok) (op : Operation) (executor : Option Nat) (callOk : Bool) :
    Except CErr CState :=
  match executorGate c auth executor with
  | .error e => .error e
  | .ok _ => liftTl c (execute c.tl op callOk)

/-- `update_delay` (`#[only_admin]`) -/
def updateDelayW (check : Check) (c : CState) (auth : List AuthTok) (sig : Option (List Meta)) (newDelay : Nat) :
    Except CErr CState :=
  match enforceAdminAuth check c auth sig FN_UPDATE_DELAY [vU32 newDelay] with
  | .error e => .error e
  | .ok c1 => .ok { c1 with tl := setMinDelay c1.tl newDelay }

/-- `ensure_if_admin_or_admin_role`, then the no-auth body -/
def guardedRoleChange (c1 : CState) (role caller : Nat) (body : Except OZ.Access.Err AC) : Except CErr CState :=
  match OZ.Access.ensureIfAdminOrAdminRole c1.ac role caller with
  | .error e => .error (.access e)
  | .ok _ => withAc c1 body

/-- `grant_role`: `caller.require_auth()`, `ensure_if_admin_or_admin_role`, `grant_role_no_auth` -/
def grantRoleW (check : Check) (c : CState) (auth : List AuthTok) (sig : Option (List Meta))
    (account role caller : Nat) : Except CErr CState :=
  match requireAuth check c auth sig caller FN_GRANT_ROLE [vAddr account, vSym role, vAddr caller] with
  | .error e => .error e
  | .ok c1 => guardedRoleChange c1 role caller (OZ.Access.grantRoleNoAuth c1.ac account role caller)

/-- `revoke_role` -/
def revokeRoleW (check : Check) (c : CState) (auth : List AuthTok) (sig : Option (List Meta))
    (account role caller : Nat) : Except CErr CState :=
  match requireAuth check c auth sig caller FN_REVOKE_ROLE [vAddr account, vSym role, vAddr caller] with
  | .error e => .error e
  | .ok c1 => guardedRoleChange c1 role caller (OZ.Access.revokeRoleNoAuth c1.ac account role caller)

/-- `renounce_role`: `caller.require_auth()`, then the caller's own membership is removed -/
def renounceRoleW (check : Check) (c : CState) (auth : List AuthTok) (sig : Option (List Meta))
    (role caller : Nat) : Except CErr CState :=
  match requireAuth check c auth sig caller FN_RENOUNCE_ROLE [vSym role, vAddr caller] with
  | .error e => .error e
  | .ok c1 => withAc c1 (OZ.Access.revokeRoleNoAuth c1.ac caller role caller)

/-- `set_role_admin`: the admin authorizes, `set_role_admin_no_auth` -/
def setRoleAdminW (check : Check) (c : CState) (auth : List AuthTok) (sig : Option (List Meta))
    (role adminRole : Nat) : Except CErr CState :=
  match enforceAdminAuth check c auth sig FN_SET_ROLE_ADMIN [vSym role, vSym adminRole] with
  | .error e => .error e
  | .ok c1 => .ok { c1 with ac := OZ.Access.setRoleAdminNoAuth c1.ac role adminRole }

/-- `transfer_admin_role`: `enforce_admin_auth`, `role_transfer::transfer_role` on the pending-admin
key, event -/
def transferAdminW (check : Check) (c : CState) (auth : List AuthTok) (sig : Option (List Meta))
    (newAdmin lu : Nat) : Except CErr CState :=
  match enforceAdminAuth check c auth sig FN_TRANSFER_ADMIN [vAddr newAdmin, vU32 lu] with
  | .error e => .error e
  | .ok c1 =>
    withAdm c1 ((OZ.RoleTransfer.transferRole c1.cfg c1.ac.adm newAdmin lu).map
      (fun t => OZ.RoleTransfer.emit t (.initiated (c.admin.getD 0) newAdmin lu)))

/-- `accept_admin_transfer` -/
def acceptAdmin (c : CState) (auth : List AuthTok) : Except CErr CState :=
  withAdm c (OZ.RoleTransfer.acceptAdmin c.ac.adm (plainAuth c auth))

def setAdm (a : AC) (t : RT) : AC := { a with adm := t }
def dropHolder (t : RT) : RT := { t with holder := none }
def tick (t : RT) (n : Nat) : RT := { t with now := t.now + n }
def tickAc (a : AC) (n : Nat) : AC := { a with adm := tick a.adm n, own := tick a.own n }

/-- the tail of `renounce_admin` after `enforce_admin_auth` -/
def dropAdmin (c1 : CState) (h : Nat) : Except CErr CState :=
  match OZ.RoleTransfer.refuseIfPending c1.ac.adm with
  | .error e => .error (.transfer e)
  | .ok _ => .ok { c1 with ac := setAdm c1.ac (OZ.RoleTransfer.emit (dropHolder c1.ac.adm) (.renounced h)) }

/-- `renounce_admin` -/
def renounceAdminW (check : Check) (c : CState) (auth : List AuthTok) (sig : Option (List Meta)) :
    Except CErr CState :=
  match enforceAdminAuth check c auth sig FN_RENOUNCE_ADMIN [] with
  | .error e => .error e
  | .ok c1 => dropAdmin c1 (c.admin.getD 0)

/-- the ledger sequence moves: the timelock's clock and the clocks of the hand-over machines -/
def advanceC (c : CState) (n : Nat) : Except CErr CState :=
  match advance c.tl n with
  | .error e => .error (.timelock e)
  | .ok tl' => .ok { c with tl := tl', ac := tickAc c.ac n }

/-! ### the controller as a state machine -/

inductive Entry where
  | scheduleOp (op : Operation) (delay proposer : Nat)
  | cancelOp (id : Id) (canceller : Nat)
  | executeOp (op : Operation) (executor : Option Nat) (callOk : Bool)
  | updateDelay (newDelay : Nat)
  | grantRole (account role caller : Nat)
  | revokeRole (account role caller : Nat)
  | renounceRole (role caller : Nat)
  | setRoleAdmin (role adminRole : Nat)
  | transferAdmin (newAdmin lu : Nat)
  | acceptAdmin
  | renounceAdmin
  | checkAuth (metas : List Meta) (ctxs : List Context)   -- `__check_auth` driven directly
  | advance (n : Nat)
  deriving Repr

/-- one top-level invocation; `check` is `checkAuth` (the code) or `checkAuthLegacy` (before the fix) -/
def applyW (check : Check) (c : CState) (auth : List AuthTok) (sig : Option (List Meta)) : Entry → Except CErr CState
  | .scheduleOp op d p => scheduleOp c auth op d p
  | .cancelOp id k => cancelOp c auth id k
  | .executeOp op ex ok => executeOp c auth op ex ok
  | .updateDelay d => updateDelayW check c auth sig d
  | .grantRole a r k => grantRoleW check c auth sig a r k
  | .revokeRole a r k => revokeRoleW check c auth sig a r k
  | .renounceRole r k => renounceRoleW check c auth sig r k
  | .setRoleAdmin r ar => setRoleAdminW check c auth sig r ar
  | .transferAdmin a lu => transferAdminW check c auth sig a lu
  | .acceptAdmin => acceptAdmin c auth
  | .renounceAdmin => renounceAdminW check c auth sig
  | .checkAuth metas ctxs => check c auth metas ctxs
  | .advance n => advanceC c n

def applyE : CState → List AuthTok → Option (List Meta) → Entry → Except CErr CState := applyW checkAuth
def applyLegacy : CState → List AuthTok → Option (List Meta) → Entry → Except CErr CState := applyW checkAuthLegacy

/-- the operation a context and its descriptor denote -/
def opOf (self fn : Nat) (args : List Nat) (m : Meta) : Operation := ⟨self, fn, args, m.pred, m.salt⟩

/-- the admin-only entry points (`enforce_admin_auth` first) and the call (function symbol,
arguments) each of them is -/
def Entry.adminCall : Entry → Option (Nat × List Nat)
  | .updateDelay d => some (FN_UPDATE_DELAY, [vU32 d])
  | .setRoleAdmin r ar => some (FN_SET_ROLE_ADMIN, [vSym r, vSym ar])
  | .transferAdmin a lu => some (FN_TRANSFER_ADMIN, [vAddr a, vU32 lu])
  | .renounceAdmin => some (FN_RENOUNCE_ADMIN, [])
  | _ => none

/-- the entry points guarded by `caller.require_auth()` of a caller named in the arguments:
(caller, function symbol, arguments) -/
def Entry.callerCall : Entry → Option (Nat × Nat × List Nat)
  | .grantRole a r k => some (k, FN_GRANT_ROLE, [vAddr a, vSym r, vAddr k])
  | .revokeRole a r k => some (k, FN_REVOKE_ROLE, [vAddr a, vSym r, vAddr k])
  | .renounceRole r k => some (k, FN_RENOUNCE_ROLE, [vSym r, vAddr k])
  | _ => none

end OZ.TimelockController
