import OZ.Model.Gates
/-
C16, machine `stk` ("stacked guards") — entry points that stack an AUTHORIZATION guard and a PAUSE
guard of `stellar_macros`, in both orders of the attributes.

Line-by-line model of the harness contract `stk::Stacked` (harness/src/bin/c16.rs), which is compiled
with the working tree's macros:
  packages/macros/src/pausable.rs        `#[when_not_paused]` / `#[when_paused]`
                                          = `pausable::when_not_paused(e)` resp. `when_paused(e)`, then the body
  packages/macros/src/helpers.rs         `generate_auth_check`: `#[only_owner]` =
                                          `ownable::enforce_owner_auth(e)`, `#[only_admin]` =
                                          `access_control::enforce_admin_auth(e)`, then the body
  packages/macros/src/access_control.rs  `#[only_role(caller, "op")]` =
                                          `ensure_role(e, "op", &caller); caller.require_auth();`, then the body
  packages/access/src/ownable/storage.rs         `enforce_owner_auth` (owner set, then `owner.require_auth()`)
  packages/access/src/access_control/storage.rs  `enforce_admin_auth`, `ensure_role`
Every one of these attribute macros re-emits the attributes still attached to the function
(`#(#fn_attrs)*`), so the guard written BELOW is injected too — and, attribute macros expanding
outermost first, the guard written below ends up as the FIRST statement:

    #[only_owner] #[when_not_paused] fn inc_a   ==>   { when_not_paused(e); { enforce_owner_auth(e); { body } } }
    #[when_not_paused] #[only_owner] fn inc_b   ==>   { enforce_owner_auth(e); { when_not_paused(e); { body } } }

An entry point = ALL of its guards (`Stk.guards`, in the order of the expansion), then the body; a failed
call changes nothing (`Stk.step`). The pause machinery (`Pause`, `whenNotPaused`, `whenPaused`, `pause`,
`unpause`, `callerIsOwner`) is the one of OZ/Model/Gates.lean, unchanged.
-/
namespace OZ.Gates.Stk
open OZ.Host OZ.Fungible OZ.Gates

/-- whose authorization the authorization guard of an entry point demands -/
inductive Who where
  | owner | admin | role
  deriving DecidableEq, Repr

/-- the two attributes of an entry point: the authorization guard, the pause guard
(`needPaused = false`: `#[when_not_paused]`, `true`: `#[when_paused]`), and which is written on top -/
structure Spec where
  who : Who
  needPaused : Bool
  authAbove : Bool
  deriving DecidableEq, Repr

/-- the twelve guarded entry points of `stk::Stacked` -/
inductive Fn where
  | incA | incB | resetA | resetB        -- owner
  | incC | incD | resetC | resetD        -- admin
  | incR | incR2 | resetR | resetR2      -- role "op"
  deriving DecidableEq, Repr

/-- the attributes as written in the contract -/
def Fn.spec : Fn → Spec
  | .incA => ⟨.owner, false, true⟩      -- #[only_owner] #[when_not_paused]
  | .incB => ⟨.owner, false, false⟩     -- #[when_not_paused] #[only_owner]
  | .resetA => ⟨.owner, true, true⟩     -- #[only_owner] #[when_paused]
  | .resetB => ⟨.owner, true, false⟩    -- #[when_paused] #[only_owner]
  | .incC => ⟨.admin, false, true⟩      -- #[only_admin] #[when_not_paused]
  | .incD => ⟨.admin, false, false⟩     -- #[when_not_paused] #[only_admin]
  | .resetC => ⟨.admin, true, true⟩     -- #[only_admin] #[when_paused]
  | .resetD => ⟨.admin, true, false⟩    -- #[when_paused] #[only_admin]
  | .incR => ⟨.role, false, true⟩       -- #[only_role(caller, "op")] #[when_not_paused]
  | .incR2 => ⟨.role, false, false⟩     -- #[when_not_paused] #[only_role(caller, "op")]
  | .resetR => ⟨.role, true, true⟩      -- #[only_role(caller, "op")] #[when_paused]
  | .resetR2 => ⟨.role, true, false⟩    -- #[when_paused] #[only_role(caller, "op")]

/-- the body: `inc_*` add 1 to the counter, `reset_*` set it to 0 -/
def Fn.isInc : Fn → Bool
  | .incA | .incB | .incC | .incD | .incR | .incR2 => true
  | _ => false

def Fn.name : Fn → String
  | .incA => "inc_a" | .incB => "inc_b" | .resetA => "reset_a" | .resetB => "reset_b"
  | .incC => "inc_c" | .incD => "inc_d" | .resetC => "reset_c" | .resetD => "reset_d"
  | .incR => "inc_r" | .incR2 => "inc_r2" | .resetR => "reset_r" | .resetR2 => "reset_r2"

/-- instance storage of the contract: the counter, the `Paused` flag (with the events of the module),
`OwnableStorageKey::Owner`, `AccessControlStorageKey::Admin` and who holds the role "op" -/
structure Stk where
  counter : Int
  p : Pause
  owner : Option Nat
  admin : Option Nat
  isOp : Nat → Bool

/-- the check of `ownable::enforce_owner_auth` / `access_control::enforce_admin_auth` once the entry is
read: `let Some(x) = get_..(e) else { panic }; x.require_auth();` -/
def enforceAuth (who : Option Nat) (auth : List Nat) : Except Err Unit :=
  match who with
  | none => .error .gate
  | some o => requireAuth auth o

/-- `#[only_owner]`: `stellar_access::ownable::enforce_owner_auth(e)` -/
def enforceOwnerAuth (s : Stk) (auth : List Nat) : Except Err Unit := enforceAuth s.owner auth

/-- `#[only_admin]`: `stellar_access::access_control::enforce_admin_auth(e)` -/
def enforceAdminAuth (s : Stk) (auth : List Nat) : Except Err Unit := enforceAuth s.admin auth

/-- `access_control::ensure_role(e, "op", &caller)` -/
def ensureRole (s : Stk) (caller : Nat) : Except Err Unit :=
  if !s.isOp caller then .error .auth else .ok ()

/-- `#[only_role(caller, "op")]`: `ensure_role(e, "op", &caller); caller.require_auth();` -/
def onlyRole (s : Stk) (auth : List Nat) (caller : Nat) : Except Err Unit := do
  ensureRole s caller
  requireAuth auth caller

/-- the authorization guard of an entry point -/
def authGuard (s : Stk) (auth : List Nat) (caller : Nat) : Who → Except Err Unit
  | .owner => enforceOwnerAuth s auth
  | .admin => enforceAdminAuth s auth
  | .role => onlyRole s auth caller

/-- the pause guard of an entry point: `#[when_paused]` resp. `#[when_not_paused]` -/
def pauseGuard (s : Stk) (needPaused : Bool) : Except Err Unit :=
  if needPaused then whenPaused s.p else whenNotPaused s.p

/-- BOTH guards, in the order in which the expansion runs them: the attribute written below is the
outer block, so it runs first -/
def Stk.guards (s : Stk) (auth : List Nat) (caller : Nat) (sp : Spec) : Except Err Unit :=
  if sp.authAbove then do
    pauseGuard s sp.needPaused
    authGuard s auth caller sp.who
  else do
    authGuard s auth caller sp.who
    pauseGuard s sp.needPaused

/-- `bump`: `counter.checked_add(1).expect(..)` on an `i32` -/
def Stk.bump (s : Stk) : Except Err Stk :=
  if s.counter + 1 > I32_MAX then .error .overflowPanic
  else .ok { s with counter := s.counter + 1 }

/-- `clear` -/
def Stk.clear (s : Stk) : Stk := { s with counter := 0 }

def Stk.body (s : Stk) (f : Fn) : Except Err Stk :=
  if f.isInc then s.bump else .ok s.clear

/-- a guarded entry point: all of its guards, then the body (`caller`: the argument of the role-guarded
entry points; the owner- and admin-guarded ones take none) -/
def Stk.call (s : Stk) (auth : List Nat) (f : Fn) (caller : Nat) : Except Err Stk := do
  s.guards auth caller f.spec
  s.body f

inductive Op where
  | call (f : Fn) (caller : Nat)
  | pause (caller : Nat)
  | unpause (caller : Nat)

/-- `Pausable::pause` / `unpause` of the contract are those of examples/pausable: the caller authorizes and
must be the owner (read through `ownable::get_owner`, `expect`ed to be set) -/
def callerIsTheOwner (s : Stk) (auth : List Nat) (caller : Nat) : Except Err Unit :=
  match s.owner with
  | none => .error .gate
  | some o => callerIsOwner auth o caller

def Stk.apply (s : Stk) (auth : List Nat) : Op → Except Err Stk
  | .call f caller => s.call auth f caller
  | .pause caller => do
    -- `caller.require_auth()` comes first in the contract; with no owner either way fails
    callerIsTheOwner s auth caller
    let p ← pause s.p
    pure { s with p := p }
  | .unpause caller => do
    callerIsTheOwner s auth caller
    let p ← unpause s.p
    pure { s with p := p }

/-- a failed invocation is rolled back by the host: it changes nothing -/
def Stk.step (s : Stk) (x : List Nat × Op) : Stk :=
  match s.apply x.1 x.2 with
  | .ok s' => s'
  | .error _ => s

def Stk.run (s : Stk) (ops : List (List Nat × Op)) : Stk := ops.foldl Stk.step s

/-- `__constructor(owner, admin, op)`: `set_owner`, `set_admin`, `grant_role_no_auth(op, "op", admin)`,
counter 0 -/
def Stk.construct (owner admin opr : Nat) : Stk :=
  { counter := 0, p := { paused := false, log := [] }, owner := some owner, admin := some admin,
    isOp := fun a => a == opr }

end OZ.Gates.Stk
