/-
Model of packages/accounts/src/verifiers/utils/base64_url.rs (`base64_url_encode`) and the
specification it is compared with: RFC 4648 section 5 ("base64url"), without padding.

Import-free (core Lean only) so that the driver links natively.
A byte is a `UInt8`, a byte string a `List UInt8`; ASCII text is a byte string too (the Rust
code compares `challenge.as_bytes()` with the encoder's output buffer).
-/
namespace OZ.B64

abbrev Byte := UInt8
abbrev Bytes := List UInt8

/-- `const ALPHABET: &[u8] = b"ABCDEFGHIJKLMNOPQRSTUVWXYZabcdefghijklmnopqrstuvwxyz0123456789-_"` -/
def ALPHABET : List Nat :=
  [65, 66, 67, 68, 69, 70, 71, 72, 73, 74, 75, 76, 77, 78, 79, 80, 81, 82, 83, 84, 85, 86, 87, 88, 89, 90,
   97, 98, 99, 100, 101, 102, 103, 104, 105, 106, 107, 108, 109, 110, 111, 112, 113, 114, 115, 116, 117,
   118, 119, 120, 121, 122,
   48, 49, 50, 51, 52, 53, 54, 55, 56, 57,
   45, 95]

/-- `ALPHABET[i]` (every index used by the code is `… & 0x3F`, so always in range) -/
def alpha (i : Nat) : Byte := UInt8.ofNat (ALPHABET.getD i 0)

/-! ### The encoder as coded -/

/-- `src[i] as usize` (reads are in range in the code; out of range cannot happen, see
`n`/`remain` below) -/
def rd (src : Bytes) (i : Nat) : Nat := (src.getD i 0).toNat

/-- `ALPHABET[val >> sh & 0x3F]` -/
def pick (val sh : Nat) : Byte := alpha ((val >>> sh) &&& 0x3F)

/-- the 24-bit group `src[si] << 16 | src[si+1] << 8 | src[si+2]` -/
def val3 (src : Bytes) (si : Nat) : Nat :=
  (rd src si) <<< 16 ||| (rd src (si + 1)) <<< 8 ||| (rd src (si + 2))

/-- `while si < n { …; si += 3; di += 4 }` with `iters = (n - si) / 3` iterations left.
The four `dst[di..di+4]` writes of each iteration are returned in order of `di`. -/
def loop (src : Bytes) : (iters si : Nat) → Bytes
  | 0, _ => []
  | k + 1, si =>
    pick (val3 src si) 18 :: pick (val3 src si) 12 :: pick (val3 src si) 6 :: pick (val3 src si) 0
      :: loop src k (si + 3)

/-- the code after the loop, `si = n`, `remain = src.len() - si` -/
def tailOut (src : Bytes) (si : Nat) : Bytes :=
  if src.length - si = 0 then []
  else if src.length - si = 2 then
    [pick ((rd src si) <<< 16 ||| (rd src (si + 1)) <<< 8) 18,
     pick ((rd src si) <<< 16 ||| (rd src (si + 1)) <<< 8) 12,
     pick ((rd src si) <<< 16 ||| (rd src (si + 1)) <<< 8) 6]
  else
    [pick ((rd src si) <<< 16) 18, pick ((rd src si) <<< 16) 12]

/-- everything `base64_url_encode` writes, in order of the destination index:
`n = (src.len() / 3) * 3`; the loop runs `n / 3` times from `si = 0`; then the tail at `si = n`. -/
def encode (src : Bytes) : Bytes :=
  loop src (src.length / 3 * 3 / 3) 0 ++ tailOut src (src.length / 3 * 3)

/-- `base64_url_encode(dst, src)`: writes `encode src` at the start of `dst` and leaves the
rest untouched; an index past `dst.len()` is a Rust panic (`none`). -/
def encodeInto (dst src : Bytes) : Option Bytes :=
  if dst.length < (encode src).length then none
  else some (encode src ++ dst.drop (encode src).length)

/-! ### RFC 4648 section 5, unpadded — the specification

"The encoding process represents 24-bit groups of input bits as output strings of 4 encoded
characters. Proceeding from left to right … each 6-bit group is used as an index into an
array of 64 printable characters." When fewer than 24 bits remain, "bits with value zero are
added (on the right) to form an integral number of 6-bit groups"; padding characters are
omitted. Table 2 (URL and filename safe alphabet): 0–25 `A–Z`, 26–51 `a–z`, 52–61 `0–9`,
62 `-`, 63 `_`. -/

/-- the eight bits of a byte, most significant first -/
def byteBits (b : Byte) : List Nat :=
  [b.toNat / 128 % 2, b.toNat / 64 % 2, b.toNat / 32 % 2, b.toNat / 16 % 2,
   b.toNat / 8 % 2, b.toNat / 4 % 2, b.toNat / 2 % 2, b.toNat % 2]

/-- the input as one bit string -/
def bitsOf : Bytes → List Nat
  | [] => []
  | b :: rest => byteBits b ++ bitsOf rest

/-- value of a 6-bit group, first bit most significant -/
def val6 (a b c d e f : Nat) : Nat := 32 * a + 16 * b + 8 * c + 4 * d + 2 * e + f

/-- cut the bit string into 6-bit groups; a shorter last group is filled with zero bits on
the right -/
def sextets : List Nat → List Nat
  | a :: b :: c :: d :: e :: f :: rest => val6 a b c d e f :: sextets rest
  | [a, b, c, d, e] => [val6 a b c d e 0]
  | [a, b, c, d] => [val6 a b c d 0 0]
  | [a, b, c] => [val6 a b c 0 0 0]
  | [a, b] => [val6 a b 0 0 0 0]
  | [a] => [val6 a 0 0 0 0 0]
  | [] => []

/-- Table 2 of RFC 4648, written independently of `ALPHABET` -/
def urlChar (v : Nat) : Byte :=
  UInt8.ofNat (if v < 26 then 65 + v          -- 'A' ..
    else if v < 52 then 97 + (v - 26)          -- 'a' ..
    else if v < 62 then 48 + (v - 52)          -- '0' ..
    else if v = 62 then 45                     -- '-'
    else 95)                                   -- '_'

/-- RFC 4648 §5 base64url without padding -/
def rfc4648 (src : Bytes) : Bytes := (sextets (bitsOf src)).map urlChar

/-! ### A decoder (used to state injectivity constructively) -/

/-- inverse of Table 2 on its range -/
def unChar (c : Byte) : Nat :=
  if 65 ≤ c.toNat ∧ c.toNat ≤ 90 then c.toNat - 65
  else if 97 ≤ c.toNat ∧ c.toNat ≤ 122 then c.toNat - 97 + 26
  else if 48 ≤ c.toNat ∧ c.toNat ≤ 57 then c.toNat - 48 + 52
  else if c.toNat = 45 then 62 else 63

def decode : Bytes → Bytes
  | c0 :: c1 :: c2 :: c3 :: rest =>
    UInt8.ofNat ((unChar c0 * 4 + unChar c1 / 16) % 256)
      :: UInt8.ofNat ((unChar c1 % 16 * 16 + unChar c2 / 4) % 256)
      :: UInt8.ofNat ((unChar c2 % 4 * 64 + unChar c3) % 256) :: decode rest
  | [c0, c1, c2] =>
    [UInt8.ofNat ((unChar c0 * 4 + unChar c1 / 16) % 256),
     UInt8.ofNat ((unChar c1 % 16 * 16 + unChar c2 / 4) % 256)]
  | [c0, c1] => [UInt8.ofNat ((unChar c0 * 4 + unChar c1 / 16) % 256)]
  | _ => []

/-! ### hex / text helpers for the driver -/

def hexDigit (n : Nat) : Char := if n < 10 then Char.ofNat (48 + n) else Char.ofNat (87 + n)

def toHex (bs : Bytes) : String :=
  if bs.isEmpty then "-" else
  String.ofList (bs.foldr (fun b acc => hexDigit (b.toNat / 16) :: hexDigit (b.toNat % 16) :: acc) [])

def hexVal (c : Char) : Option Nat :=
  if '0' ≤ c ∧ c ≤ '9' then some (c.toNat - 48)
  else if 'a' ≤ c ∧ c ≤ 'f' then some (c.toNat - 87)
  else if 'A' ≤ c ∧ c ≤ 'F' then some (c.toNat - 55)
  else none

def ofHexChars : List Char → Option Bytes
  | [] => some []
  | [_] => none
  | a :: b :: rest => do
    let x ← hexVal a
    let y ← hexVal b
    let r ← ofHexChars rest
    pure (UInt8.ofNat (x * 16 + y) :: r)

/-- "-" is the empty string -/
def ofHex (s : String) : Option Bytes := if s = "-" then some [] else ofHexChars s.toList

def ofAscii (s : String) : Bytes := s.toList.map (fun c => UInt8.ofNat c.toNat)
def toAscii (bs : Bytes) : String := String.ofList (bs.map (fun b => Char.ofNat b.toNat))

end OZ.B64
