import OZ.Model.Identity
/-
The C15 MONITOR on parsed values (the driver OZ/Drv/C15.lean parses the trace lines and calls
`checkCore`; the monitor never calls the model's transition function). Kept apart from the driver
so that OZ/Props/C15Mon.lean can prove it SOUND: on the observations of the model itself the monitor
never reports a failure (`monitor_accepts_every_model_trace`). Import-free apart from the model.

Ghost state `G` at the level of the property: required topics as a set of (registry, topic) pairs,
trusted issuer ↦ topic set as a plain map, account ↦ identity, the claims an identity holds, per
issuer the allowed (key, scheme, topic, registry) tuples, nonces, revocations — updated from ACCEPTED
operations only (`update`), never through the model.

Also here (shared with the driver's model side so that the theorems speak about what the driver
runs): the harness universe, the symbolic signature oracle `symVerify`, the model driver's state
`M`, its initial value `initM` and its step `stepM`.
-/
namespace OZ.Identity.Mon
open OZ.Host OZ.Identity OZ.ClaimIssuer

def REGS : List Nat := [0, 1]
def ISSUERS : List Nat := [4, 5, 6]
def ISSUER_CANDS : List Nat := [4, 5, 6, 7, 8]
def IDS : List Nat := [8, 9]
def ACCOUNTS : List Nat := [11, 12, 13]
def TS0 : Nat := 1700000000

/-- the verifier (algorithm) a scheme number of the harness issuer selects; 0 = none -/
def algOf (scheme : Nat) : Nat :=
  if scheme = 101 ∨ scheme = 111 then 101 else if scheme = 102 ∨ scheme = 112 then 102
  else if scheme = 103 ∨ scheme = 113 then 103 else 0

/-- symbolic signature bytes -/
structure SymSig where
  ok : Bool          -- verifies (Rust crates) under the embedded key over `msg`, algorithm `ns`
  ns : Nat
  msg : Msg
  tag : Nat          -- names the (sig_data, data) byte strings in the dumps
  deriving Repr

def symVerify : Verifier SymSig := fun scheme _pk m s => s.ok && s.ns == algOf scheme && decide (s.msg = m)

/-! ### model side of the driver -/

structure M where
  w : World SymSig
  rv : List (Nat × Nat × Nat × List Nat)     -- revocation triples seen in revoke op lines

def initWorld : World SymSig :=
  { env := { network := 0, timestamp := TS0 },
    regs := fun a => if a = 0 ∨ a = 1 then some Reg.empty else none,
    irs := Irs.empty,
    ids := fun a => if a = 8 ∨ a = 9 then some IdStore.empty else none,
    issuers := fun a => if a = 4 ∨ a = 5 ∨ a = 6 then some Issuer.empty else none,
    vCti := none, vIrs := false }

def initM : M := { w := initWorld, rv := [] }

def trackRv (rv : List (Nat × Nat × Nat × List Nat)) (op : Op SymSig) : List (Nat × Nat × Nat × List Nat) :=
  match op with
  | .revoke i d t data _ => if rv.contains (i, d, t, data) ∨ ¬ ISSUERS.contains i then rv else rv ++ [(i, d, t, data)]
  | _ => rv

/-- one op line on the model side: the new driver state and whether the model accepted the call
(a rejected call is rolled back; the list of revocation triples to display grows either way) -/
def stepM (m : M) (op : Op SymSig) : M × Bool :=
  match applyOp symVerify m.w op with
  | .ok w' => ({ w := w', rv := trackRv m.rv op }, true)
  | .error _ => ({ w := m.w, rv := trackRv m.rv op }, false)

def isOk {ε α : Type} : Except ε α → Bool
  | .ok _ => true
  | .error _ => false

/-- the `ver=` field: `verify_identity` of every account of the universe -/
def verOf (w : World SymSig) : List Nat :=
  ACCOUNTS.map (fun a => if isOk (verifyIdentity symVerify w a) then 1 else 0)

/-! ### monitor: ghost state at the level of the property -/

structure G where
  ts : Nat
  cti : Option Nat
  virs : Bool
  req : List (Nat × Nat)                                 -- (registry, required topic)
  trust : List ((Nat × Nat) × List Nat)                  -- (registry, issuer) ↦ topic set
  ident : List (Nat × Nat)                               -- account ↦ identity
  claims : List ((Nat × Nat × Nat) × Claim SymSig)       -- (identity, id issuer, id topic) ↦ claim
  loose : List Nat                                       -- identities whose contract used the library's
                                                         -- `remove_claim` on a claim NOT carrying the topic of
                                                         -- its id (the topic index may then keep an entry
                                                         -- without a claim: `verify_identity` can panic)
  keys : List (Nat × Nat × Nat × Nat × Nat)              -- (issuer, key, scheme, topic, registry)
  removed : List (Nat × Nat × Nat × Nat)                 -- (issuer, key, scheme, topic) whose last
                                                         -- authorisation was taken back by remove_key
  nonce : List ((Nat × Nat × Nat) × Nat)                 -- (issuer, identity, topic) ↦ bumps
  revoked : List ((Nat × Nat × Nat × List Nat) × Bool)   -- (issuer, identity, topic, data) ↦ flag
  prev : String

def G.init : G :=
  { ts := TS0, cti := none, virs := false, req := [], trust := [], ident := [], claims := [], loose := [],
    keys := [], removed := [], nonce := [], revoked := [], prev := "" }

def assocSet {κ ν : Type} [BEq κ] (l : List (κ × ν)) (k : κ) (v : ν) : List (κ × ν) :=
  (k, v) :: l.filter (fun p => !(p.1 == k))
def assocDel {κ ν : Type} [BEq κ] (l : List (κ × ν)) (k : κ) : List (κ × ν) := l.filter (fun p => !(p.1 == k))
def assocGet {κ ν : Type} [BEq κ] (l : List (κ × ν)) (k : κ) : Option ν := (l.find? (fun p => p.1 == k)).map (·.2)

/-- effect of an accepted registry operation -/
def updateReg (g : G) (r : Nat) : RegOp → G
  | .addTopic t => { g with req := (r, t) :: g.req }
  | .removeTopic t =>
    { g with req := g.req.filter (fun p => !(p == (r, t))),
             trust := g.trust.map (fun p => if p.1.1 = r then (p.1, p.2.filter (· ≠ t)) else p) }
  | .addIssuer i ts => { g with trust := assocSet g.trust (r, i) ts }
  | .updateIssuer i ts => { g with trust := assocSet g.trust (r, i) ts }
  | .removeIssuer i => { g with trust := assocDel g.trust (r, i) }

def updateRecover (g : G) (a b : Nat) : G :=
  match assocGet g.ident a with
  | some d => { g with ident := assocSet (assocDel g.ident a) b d }
  | none => g

/-- does the library's `remove_claim` of the id `(ci, ct)` de-index under ANOTHER topic than `ct`
(the stored claim, as the accepted operations wrote it, says another topic)? -/
def removesLoosely (g : G) (d ci ct : Nat) : Bool :=
  match assocGet g.claims (d, ci, ct) with
  | some c => decide (c.topic ≠ ct)
  | none => false

def keysAfterRemove (g : G) (i k s t r : Nat) : List (Nat × Nat × Nat × Nat × Nat) :=
  g.keys.filter (fun x => !(x == (i, k, s, t, r)))

def keyLeft (keys : List (Nat × Nat × Nat × Nat × Nat)) (i k s t : Nat) : Bool :=
  keys.any (fun x => x.1 == i && x.2.1 == k && x.2.2.1 == s && x.2.2.2.1 == t)

/-- effect of an ACCEPTED operation, at the level of the property -/
def update (g : G) : Op SymSig → G
  | .reg r op => updateReg g r op
  | .irsAdd a d => { g with ident := assocSet g.ident a d }
  | .irsModify a d => { g with ident := assocSet g.ident a d }
  | .irsRemove a => { g with ident := assocDel g.ident a }
  | .irsRecover a b => updateRecover g a b
  | .addClaim d c => { g with claims := assocSet g.claims (d, c.issuer, c.topic) c }
  | .rawPut d ci ct c => { g with claims := assocSet g.claims (d, ci, ct) c }
  | .removeClaim d ci ct =>
    { g with claims := assocDel g.claims (d, ci, ct),
             loose := if removesLoosely g d ci ct then d :: g.loose else g.loose }
  | .rawDel d ci ct => { g with claims := assocDel g.claims (d, ci, ct) }
  | .allowKey i k s r t =>
    { g with keys := (i, k, s, t, r) :: g.keys,
             removed := g.removed.filter (fun x => !(x == (i, k, s, t))) }
  | .removeKey i k s r t =>
    { g with keys := keysAfterRemove g i k s t r,
             removed := if keyLeft (keysAfterRemove g i k s t r) i k s t then g.removed else (i, k, s, t) :: g.removed }
  | .invalidate i d t =>
    { g with nonce := assocSet g.nonce (i, d, t) ((assocGet g.nonce (i, d, t)).getD 0 + 1) }
  | .revoke i d t data v => { g with revoked := assocSet g.revoked (i, d, t, data) v }
  | .setCti r => { g with cti := some r }
  | .setIrs => { g with virs := true }
  | .time ts => { g with ts := ts }   -- nothing else changes with time: revoked stays revoked, removed stays removed
  | .valid _ _ _ _ _ _ => g
  | .verify _ => g

def wellFormed (scheme sl : Nat) : Bool :=
  (algOf scheme = 101 ∧ sl = 96) ∨ (algOf scheme = 102 ∧ sl = 129) ∨ (algOf scheme = 103 ∧ sl = 133)

def gValidUntil (data : List Nat) : Option Nat :=
  if data.length < 16 then none else some (((data.drop 8).take 8).foldl (fun a b => a * 256 + b) 0)

/-- the property's second sentence: the issuer confirms a claim only if it is signed, over this
network, issuer, identity, topic, current nonce and data, by a key currently allowed for the topic
(the ghost key registry is keyed by (issuer, KEY, SCHEME, topic, registry): the same key bytes under
another scheme number are another signing key), and the claim is neither expired nor revoked -/
def G.keyAllowed (g : G) (i pk scheme t : Nat) : Bool :=
  g.keys.any (fun x => x.1 == i && x.2.1 == pk && x.2.2.1 == scheme && x.2.2.2.1 == t)

def G.isRevoked (g : G) (i d t : Nat) (data : List Nat) : Bool :=
  (assocGet g.revoked (i, d, t, data)).getD false

def notExpired (ts : Nat) (data : List Nat) : Bool :=
  match gValidUntil data with
  | some vu => decide (ts < vu)
  | none => false

/-- well-formed, genuinely signed over exactly (network, issuer, identity, topic, current nonce, data),
not expired -/
def G.coreOk (g : G) (i d t scheme : Nat) (sd : SigData SymSig) (data : List Nat) : Bool :=
  ISSUERS.contains i
  && wellFormed scheme sd.len
  && (sd.sig.ok && sd.sig.ns == algOf scheme)
  && decide (sd.sig.msg = { network := 0, issuer := i, identity := d, topic := t,
                            nonce := (assocGet g.nonce (i, d, t)).getD 0, data := data })
  && notExpired g.ts data

/-- every condition but "signed by a key currently allowed for the topic" -/
def G.confirmsButKey (g : G) (i d t scheme : Nat) (sd : SigData SymSig) (data : List Nat) : Bool :=
  g.coreOk i d t scheme sd data && !g.isRevoked i d t data

def G.confirms (g : G) (i d t scheme : Nat) (sd : SigData SymSig) (data : List Nat) : Bool :=
  g.confirmsButKey i d t scheme sd data && g.keyAllowed i sd.pk scheme t

def G.trustedFor (g : G) (r i t : Nat) : Bool :=
  match assocGet g.trust (r, i) with
  | some ts => ts.contains t
  | none => false

/-- the identity holds, under the id of (issuer, topic), a claim that says this topic and this issuer
and that the issuer confirms -/
def G.claimOk (g : G) (d i t : Nat) : Bool :=
  match assocGet g.claims (d, i, t) with
  | some c => c.topic == t && c.issuer == i && g.confirms i d t c.scheme c.sig c.data
  | none => false

/-- some issuer currently trusted for the topic settles it -/
def G.topicOk (g : G) (r d t : Nat) : Bool :=
  ISSUER_CANDS.any (fun i => g.trustedFor r i t && IDS.contains d && g.claimOk d i t)

def G.verifiesWith (g : G) (d r : Nat) : Bool :=
  REGS.contains r && (g.req.filter (fun p => p.1 == r)).all (fun p => g.topicOk r d p.2)

/-- the property's first sentence -/
def G.verifies (g : G) (a : Nat) : Bool :=
  g.virs &&
  match assocGet g.ident a, g.cti with
  | some d, some r => g.verifiesWith d r
  | _, _ => false

/-- the account's identity contract is one whose topic index may hold an entry without a claim
(see `G.loose`): there `verify_identity` may panic although every required topic has a valid claim
of a trusted issuer, so only the property's "only by valid claims" direction is demanded -/
def G.looseAcct (g : G) (a : Nat) : Bool :=
  match assocGet g.ident a with
  | some d => g.loose.contains d
  | none => false

/-! ### the checks -/

/-- what the monitor reads of an observation line: the tag, everything after the tag (compared as a
whole by the rollback check) and the `ver=` list -/
structure Obs where
  ok : Bool
  rest : String
  ver : List Nat

def isRevoke : Op SymSig → Bool
  | .revoke _ _ _ _ _ => true
  | _ => false

/-- a rejected operation changes no observable (a `revoke` line adds its triple to the displayed
revocation statuses even when rejected, hence the exception) -/
def verdictRollback (g : G) (op : Op SymSig) (o : Obs) : Option String :=
  if ¬ o.ok ∧ g.prev ≠ "" ∧ ¬ isRevoke op ∧ o.rest ≠ g.prev then
    some "site=identity.rollback a rejected operation changed an observable"
  else none

def verdictLen (o : Obs) : Option String :=
  if o.ver.length ≠ ACCOUNTS.length then some s!"site=identity.parse unparsable observation" else none

/-- `is_claim_valid` was accepted although the property's condition does not hold: which part fails -/
def validAccepts (g1 : G) (i d t scheme : Nat) (sd : SigData SymSig) (data : List Nat) : Option String :=
  if g1.coreOk i d t scheme sd data ∧ g1.keyAllowed i sd.pk scheme t ∧ g1.isRevoked i d t data then
    some s!"site=identity.issuer.revoked_accepts issuer={i} identity={d} topic={t}: is_claim_valid accepts a claim that was revoked and never un-revoked (now ts={g1.ts})"
  else if g1.confirmsButKey i d t scheme sd data then
    if g1.removed.contains (i, sd.pk, scheme, t) then
      some s!"site=identity.issuer.key_removed_accepts issuer={i} key={sd.pk} scheme={scheme} topic={t}: is_claim_valid accepts a claim signed by a (key, scheme) whose authorisation for the topic was removed"
    else
      some s!"site=identity.issuer.key_not_allowed_accepts issuer={i} key={sd.pk} scheme={scheme} topic={t}: is_claim_valid accepts a claim signed by a (key, scheme) not allowed for the topic"
  else
    some s!"site=issuer.valid.accepts issuer={i}: is_claim_valid accepts a claim that is not (signed over network, issuer, identity, topic, current nonce, data by an allowed key, unexpired, unrevoked)"

def validRejects (g1 : G) (i : Nat) (scheme : Nat) (sd : SigData SymSig) (t : Nat) : Option String :=
  if g1.removed.any (fun x => x.1 == i && x.2.1 == sd.pk && x.2.2.1 != scheme) then
    some s!"site=identity.issuer.key_kept_rejects issuer={i} key={sd.pk} scheme={scheme} topic={t}: is_claim_valid rejects a claim signed by a (key, scheme) still allowed for the topic after the same key was removed under another scheme"
  else
    some s!"site=issuer.valid.rejects issuer={i}: is_claim_valid rejects a claim meeting every condition"

/-- a `valid` query: the outcome of `is_claim_valid` must equal the property's condition -/
def verdictValid (g1 : G) (op : Op SymSig) (ok : Bool) : Option String :=
  match op with
  | .valid i d t scheme sd data =>
    if ok ∧ ¬ g1.confirms i d t scheme sd data then validAccepts g1 i d t scheme sd data
    else if ¬ ok ∧ g1.confirms i d t scheme sd data then validRejects g1 i scheme sd t
    else none
  | _ => none

/-- does the entry (account, observed, expected) of the `ver=` comparison count as a failure?
Every mismatch does, except — unless `strict` — a refusal for an account whose identity contract is
`loose` (the old monitor was `strict`; see `legacy_monitor_false_alarm` in OZ/Props/C15Mon.lean) -/
def verBad (strict : Bool) (g1 : G) (x : Nat × Nat × Nat) : Bool :=
  decide (x.2.1 ≠ x.2.2) && (strict || x.2.1 == 1 || !g1.looseAcct x.1)

def expOf (g1 : G) : List Nat := ACCOUNTS.map (fun a => if g1.verifies a then 1 else 0)

def verMsg (x : Nat × Nat × Nat) : String :=
  if x.2.1 = 1 then
    s!"site=identity.verify.accepts account={x.1}: verification succeeds although some required topic has no valid claim from a currently trusted issuer"
  else
    s!"site=identity.verify.rejects account={x.1}: verification fails although every required topic has a valid claim from a currently trusted issuer"

/-- every `ver=` entry must equal the property's first sentence evaluated on the ghost state -/
def verdictVer (strict : Bool) (g1 : G) (o : Obs) : Option String :=
  ((ACCOUNTS.zip (o.ver.zip (expOf g1))).find? (verBad strict g1)).map verMsg

/-- a `verify` call: its outcome must equal the property's condition -/
def verdictVerifyOp (strict : Bool) (g1 : G) (a : Nat) (ok : Bool) : Option String :=
  if ok ≠ g1.verifies a ∧ (strict ∨ ok ∨ ¬ g1.looseAcct a) then
    some s!"site=identity.verify.op account={a} outcome differs from the property's condition"
  else none

/-- an identity built from `add_claim` stores only claims its issuer confirmed (in the state BEFORE
the call) -/
def verdictAddClaim (g : G) (d : Nat) (c : Claim SymSig) : Option String :=
  if g.confirms c.issuer d c.topic c.scheme c.sig c.data then none
  else some s!"site=identity.add_claim.accepts a claim its issuer does not confirm was stored"

/-- the checks that depend on the kind of operation -/
def verdictKind (strict : Bool) (g g1 : G) (op : Op SymSig) (ok : Bool) : Option String :=
  match op with
  | .verify a => verdictVerifyOp strict g1 a ok
  | .addClaim d c => if ok then verdictAddClaim g d c else none
  | _ => none

def firstSome (a b : Option String) : Option String :=
  match a with
  | some x => some x
  | none => b

/-- ghost state after the observation: updated iff the implementation accepted the call -/
def ghostAfter (g : G) (op : Op SymSig) (ok : Bool) : G := if ok then update g op else g

/-- all checks on one observation, in the monitor's order -/
def verdict (strict : Bool) (g : G) (op : Op SymSig) (o : Obs) : Option String :=
  firstSome (verdictRollback g op o)
    (firstSome (verdictLen o)
      (firstSome (verdictValid (ghostAfter g op o.ok) op o.ok)
        (firstSome (verdictVer strict (ghostAfter g op o.ok) o)
          (verdictKind strict g (ghostAfter g op o.ok) op o.ok))))

/-- the monitor's step on parsed values -/
def checkCoreWith (strict : Bool) (g : G) (op : Op SymSig) (o : Obs) : G × Option String :=
  ({ ghostAfter g op o.ok with prev := o.rest }, verdict strict g op o)

/-- the monitor the driver runs -/
def checkCore (g : G) (op : Op SymSig) (o : Obs) : G × Option String := checkCoreWith false g op o

/-- the monitor as it was before the soundness proof (it demanded the refusal direction also for
identity contracts with a dangling topic-index entry) -/
def checkCoreLegacy (g : G) (op : Op SymSig) (o : Obs) : G × Option String := checkCoreWith true g op o

end OZ.Identity.Mon
