import OZ.Model.ClaimIssuer
/-
Model of
  packages/tokens/src/rwa/identity_claims/storage.rs     (claims held by an identity contract)
  packages/tokens/src/rwa/identity_verifier/storage.rs   (`verify_identity`, `validate_claim`)
line by line, over a world of contracts: claim-topics-and-issuers registries, one identity
registry storage, identity contracts, claim issuer contracts and one verifier.

`generate_claim_id = keccak256(issuer ‖ topic)` is the pair `(issuer, topic)` (hash = injective
oracle). `ClaimsByTopic(t)` absent = `[]` (the code removes the entry when it becomes empty and
reads an absent entry as the empty vector).
-/
namespace OZ.Identity
open OZ.Host OZ.ClaimIssuer

/-- `Claim` without the uri (never read by verification) -/
structure Claim (σ : Type) where
  topic : Nat
  scheme : Nat
  issuer : Nat
  sig : SigData σ
  data : List Nat

/-- storage of one identity contract -/
structure IdStore (σ : Type) where
  claim : Nat → Nat → Option (Claim σ)      -- Claim(id), id = (issuer, topic)
  byTopic : Nat → List (Nat × Nat)          -- ClaimsByTopic(topic)

def IdStore.empty {σ : Type} : IdStore σ := ⟨fun _ _ => none, fun _ => []⟩

structure World (σ : Type) where
  env : Env
  regs : Nat → Option Reg                   -- claim-topics-and-issuers contracts by address
  irs : Irs                                 -- the identity registry storage contract
  ids : Nat → Option (IdStore σ)            -- identity contracts by address
  issuers : Nat → Option Issuer             -- claim issuer contracts by address
  vCti : Option Nat                         -- verifier: ClaimTopicsAndIssuers
  vIrs : Bool                               -- verifier: IdentityRegistryStorage set (there is one)

variable {σ : Type}

/-- what `ClaimIssuerClient::try_is_claim_valid` yields as `Ok(Ok(_))`; an address without a claim
issuer contract makes the call fail -/
def issuerConfirms (V : Verifier σ) (W : World σ) (issuer identity topic scheme : Nat)
    (sd : SigData σ) (data : List Nat) : Bool :=
  match W.issuers issuer with
  | none => false
  | some s => isClaimValid V W.env s issuer identity topic scheme sd data

/-- `validate_claim` -/
def validateClaim (V : Verifier σ) (W : World σ) (c : Claim σ) (topic issuer identity : Nat) : Bool :=
  if c.topic = topic ∧ c.issuer = issuer then issuerConfirms V W issuer identity topic c.scheme c.sig c.data
  else false

/-- the inner loop of `verify_identity` over the issuers of one topic (`is_last` = no issuer
left); `.ok ()` = `break` or iterator exhausted, `.error` = panic -/
def issuerLoop (V : Verifier σ) (W : World σ) (st : IdStore σ) (identity topic : Nat) :
    List Nat → Except Err Unit
  | [] => .ok ()
  | i :: rest =>
    if (st.byTopic topic).contains (i, topic) then
      match st.claim i topic with
      | none => .error .fail                                   -- `get_claim` panics
      | some c =>
        if validateClaim V W c topic i identity then .ok ()
        else if rest.isEmpty then .error .fail
        else issuerLoop V W st identity topic rest
    else if rest.isEmpty then .error .fail
    else issuerLoop V W st identity topic rest

/-- body of the outer loop (after the `fix:` commit: a topic without issuers fails) -/
def verifyTopic (V : Verifier σ) (W : World σ) (identity : Nat) (ti : Nat × List Nat) : Except Err Unit :=
  if ti.2.isEmpty then .error .fail
  else
    match W.ids identity with
    | none => .error .fail                                     -- `get_claim_ids_by_topic` on a non-identity
    | some st => issuerLoop V W st identity ti.1 ti.2

/-- body of the outer loop before the fix: the inner loop runs zero times for `[]` -/
def verifyTopicLegacy (V : Verifier σ) (W : World σ) (identity : Nat) (ti : Nat × List Nat) : Except Err Unit :=
  match W.ids identity with
  | none => .error .fail
  | some st => issuerLoop V W st identity ti.1 ti.2

def forAllOk {α : Type} (f : α → Except Err Unit) : List α → Except Err Unit
  | [] => .ok ()
  | a :: rest =>
    match f a with
    | .ok () => forAllOk f rest
    | .error e => .error e

/-- `verify_identity` parameterised by the loop body -/
def verifyWith (body : World σ → Nat → Nat × List Nat → Except Err Unit) (W : World σ) (account : Nat) :
    Except Err Unit :=
  if !W.vIrs then .error .fail
  else
    match storedIdentity W.irs account with
    | .error e => .error e
    | .ok identity =>
      match W.vCti with
      | none => .error .fail
      | some ra =>
        match W.regs ra with
        | none => .error .fail
        | some r =>
          match getClaimTopicsAndIssuers r with
          | .error e => .error e
          | .ok tis => forAllOk (body W identity) tis

/-- `verify_identity` -/
def verifyIdentity (V : Verifier σ) (W : World σ) (account : Nat) : Except Err Unit :=
  verifyWith (verifyTopic V) W account

/-- `verify_identity` of the unfixed tree (8e54c03) -/
def verifyIdentityLegacy (V : Verifier σ) (W : World σ) (account : Nat) : Except Err Unit :=
  verifyWith (verifyTopicLegacy V) W account

/-! ### identity claims store -/

/-- `add_claim_to_topic_index` -/
def indexAdd (st : IdStore σ) (topic : Nat) (id : Nat × Nat) : IdStore σ :=
  { st with byTopic := upd st.byTopic topic (st.byTopic topic ++ [id]) }

/-- `remove_claim_from_topic_index` -/
def indexRemove (st : IdStore σ) (topic : Nat) (id : Nat × Nat) : IdStore σ :=
  if (st.byTopic topic).contains id then { st with byTopic := upd st.byTopic topic ((st.byTopic topic).erase id) }
  else st

/-- the storage part of `add_claim` (after the issuer accepted the claim) -/
def storeClaim (st : IdStore σ) (c : Claim σ) : IdStore σ :=
  if (st.claim c.issuer c.topic).isSome then { st with claim := upd2 st.claim c.issuer c.topic (some c) }
  else indexAdd { st with claim := upd2 st.claim c.issuer c.topic (some c) } c.topic (c.issuer, c.topic)

/-- `add_claim` on the identity contract at `identity`: the issuer is asked first (plain call, a
refusal panics) -/
def addClaim (V : Verifier σ) (W : World σ) (identity : Nat) (c : Claim σ) : Except Err (World σ) :=
  match W.ids identity with
  | none => .error .fail
  | some st =>
    if issuerConfirms V W c.issuer identity c.topic c.scheme c.sig c.data then
      .ok { W with ids := upd W.ids identity (some (storeClaim st c)) }
    else .error .fail

/-- `remove_claim` -/
def removeClaimSt (st : IdStore σ) (ci ct : Nat) : Except Err (IdStore σ) :=
  match st.claim ci ct with
  | none => .error .fail
  | some c => .ok (indexRemove { st with claim := upd2 st.claim ci ct none } c.topic (ci, ct))

/-- an identity contract that is NOT built from `add_claim`: stores any claim under the id
`(ci, ct)` and indexes it under `ct`, without asking anybody (harness entry point `raw_put`) -/
def rawPutSt (st : IdStore σ) (ci ct : Nat) (c : Claim σ) : IdStore σ :=
  if (st.byTopic ct).contains (ci, ct) then { st with claim := upd2 st.claim ci ct (some c) }
  else indexAdd { st with claim := upd2 st.claim ci ct (some c) } ct (ci, ct)

/-- harness entry point `raw_del`: removes the claim and its index entry under `ct` -/
def rawDelSt (st : IdStore σ) (ci ct : Nat) : IdStore σ :=
  indexRemove { st with claim := upd2 st.claim ci ct none } ct (ci, ct)

/-! ### operations of the whole stack (what the correspondence harness drives) -/

inductive Op (σ : Type) where
  | reg (ra : Nat) (op : RegOp)
  | irsAdd (account identity : Nat)
  | irsModify (account identity : Nat)
  | irsRemove (account : Nat)
  | irsRecover (old new : Nat)
  | addClaim (identity : Nat) (c : Claim σ)
  | removeClaim (identity ci ct : Nat)
  | rawPut (identity ci ct : Nat) (c : Claim σ)
  | rawDel (identity ci ct : Nat)
  | allowKey (issuer pk scheme registry topic : Nat)
  | removeKey (issuer pk scheme registry topic : Nat)
  | invalidate (issuer identity topic : Nat)
  | revoke (issuer identity topic : Nat) (data : List Nat) (revoked : Bool)
  | setCti (ra : Nat)
  | setIrs
  | time (ts : Nat)
  | valid (issuer identity topic scheme : Nat) (sd : SigData σ) (data : List Nat)   -- query
  | verify (account : Nat)                                                            -- query

def onReg (W : World σ) (ra : Nat) (f : Reg → Except Err Reg) : Except Err (World σ) :=
  match W.regs ra with
  | none => .error .fail
  | some r =>
    match f r with
    | .ok r' => .ok { W with regs := upd W.regs ra (some r') }
    | .error e => .error e

def onIrs (W : World σ) (f : Irs → Except Err Irs) : Except Err (World σ) :=
  match f W.irs with
  | .ok s => .ok { W with irs := s }
  | .error e => .error e

def onId (W : World σ) (d : Nat) (f : IdStore σ → Except Err (IdStore σ)) : Except Err (World σ) :=
  match W.ids d with
  | none => .error .fail
  | some st =>
    match f st with
    | .ok st' => .ok { W with ids := upd W.ids d (some st') }
    | .error e => .error e

def onIssuer (W : World σ) (i : Nat) (f : Issuer → Except Err Issuer) : Except Err (World σ) :=
  match W.issuers i with
  | none => .error .fail
  | some s =>
    match f s with
    | .ok s' => .ok { W with issuers := upd W.issuers i (some s') }
    | .error e => .error e

def unitOk (b : Bool) : Except Err Unit := if b then .ok () else .error .fail

def applyOp (V : Verifier σ) (W : World σ) : Op σ → Except Err (World σ)
  | .reg ra op => onReg W ra (fun r => op.apply r)
  | .irsAdd a d => onIrs W (fun s => addIdentity s a d)
  | .irsModify a d => onIrs W (fun s => modifyIdentity s a d)
  | .irsRemove a => onIrs W (fun s => removeIdentity s a)
  | .irsRecover a b => onIrs W (fun s => recoverIdentity s a b)
  | .addClaim d c => addClaim V W d c
  | .removeClaim d ci ct => onId W d (fun st => removeClaimSt st ci ct)
  | .rawPut d ci ct c => onId W d (fun st => .ok (rawPutSt st ci ct c))
  | .rawDel d ci ct => onId W d (fun st => .ok (rawDelSt st ci ct))
  | .allowKey i pk scheme ra topic =>
    onIssuer W i (fun s => allowKey s ((W.regs ra)) i pk ra scheme topic)
  | .removeKey i pk scheme ra topic => onIssuer W i (fun s => removeKey s pk ra scheme topic)
  | .invalidate i d t => onIssuer W i (fun s => invalidateClaimSignatures s d t)
  | .revoke i d t data rv => onIssuer W i (fun s => .ok (setClaimRevoked s d t data rv))
  | .setCti ra => .ok { W with vCti := some ra }
  | .setIrs => .ok { W with vIrs := true }
  | .time ts => .ok { W with env := { W.env with timestamp := ts } }
  | .valid i d t scheme sd data =>
    match unitOk (issuerConfirms V W i d t scheme sd data) with
    | .ok () => .ok W
    | .error e => .error e
  | .verify a =>
    match verifyIdentity V W a with
    | .ok () => .ok W
    | .error e => .error e

end OZ.Identity
