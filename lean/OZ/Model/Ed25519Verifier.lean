import OZ.Model.Base64Url
/-
Model of packages/accounts/src/verifiers/ed25519.rs (`verify`) and
examples/multisig-smart-account/ed25519-verifier/src/contract.rs (a pure pass-through).

`e.crypto().ed25519_verify(public_key, payload, signature)` traps (host error) unless the
signature verifies; whether it does is the oracle `ed25519Verify` (the host uses
ed25519-dalek `verify_strict`). The function then returns `true`; it never returns `false`.
-/
namespace OZ.Ed25519Verifier
open OZ.B64

inductive Err where
  | crypto
  deriving DecidableEq, Repr

/-- `ed25519::verify(e, signature_payload, public_key, signature)` -/
def verify (ed25519Verify : (key msg sig : Bytes) → Bool) (payload key sig : Bytes) : Except Err Bool :=
  if ed25519Verify key payload sig then .ok true else .error .crypto

/-- `Ed25519VerifierContract::verify` forwards its arguments unchanged -/
def exampleVerify (ed25519Verify : (key msg sig : Bytes) → Bool) (payload keyData sigData : Bytes) :
    Except Err Bool :=
  verify ed25519Verify payload keyData sigData

end OZ.Ed25519Verifier
