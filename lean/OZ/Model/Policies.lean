import OZ.Model.Host
/-
C14 — model of the three account policies of packages/accounts/src/policies:
  simple_threshold.rs, weighted_threshold.rs, spending_limit.rs
(the example contracts examples/multisig-smart-account/{threshold-policy,spending-limit-policy}
are pass-through wrappers of these library functions). Import-free except for OZ.Host.

Conventions
* smart accounts, context-rule ids and signers are natural numbers (the harness keeps the
  bijection to `Address` / `Signer` values);
* a `ContextRule` is reduced to what the policies read: its `id` and its `signers` list;
* the authorization `Context` is reduced to what `spending_limit` can distinguish:
  a contract call of `transfer` whose argument 2 converts to an i128 (`transfer amt`),
  a `transfer` call without such an argument (`malformed`), any other contract call
  (`otherCall`), a create-contract context (`createContract`);
* storage is persistent and keyed by `AccountContext(account, rule id)`: total maps
  `Nat → Nat → Option _`; TTL extension of persistent entries has no observable effect;
* u32 arithmetic of the weighted policy is `checked_add` (error `MathOverflow`), the i128
  arithmetic of the spending policy is unchecked in the source and the workspace builds with
  `overflow-checks = true`: out of range = panic = the invocation fails (`chk`);
* every operation returns `Except Err _`; on `.error` the caller keeps the old state.
-/
namespace OZ.Policies
open OZ.Host

inductive Err
  | auth | notInstalled | invalidThreshold | notAllowed | alreadyInstalled | mathOverflow
  | limitExceeded | invalidLimitOrPeriod | historyCapacity | overflowPanic
  deriving Repr, DecidableEq

/-- the part of a `ContextRule` the policies look at -/
structure Rule where
  id : Nat
  signers : List Nat
  deriving Repr, DecidableEq

/-- the authorization context as far as the policies can tell contexts apart -/
inductive Ctx
  | transfer (amount : Int)
  | malformed
  | otherCall
  | createContract
  deriving Repr, DecidableEq

/-- `smart_account.require_auth()` -/
def requireAuth (auth : List Nat) (a : Nat) : Except Err Unit :=
  if a ∈ auth then .ok () else .error .auth

def ofOpt {α : Type} (e : Err) : Option α → Except Err α
  | some x => .ok x
  | none => .error e

/-! ## simple_threshold.rs -/
namespace Simple

inductive Event
  | enforced (acct rule : Nat) (signers : List Nat)
  deriving Repr, DecidableEq

structure State where
  thr : Nat → Nat → Option Nat          -- account → rule id → threshold
  events : List Event

def init : State := ⟨fun _ _ => none, []⟩

/-- `get_threshold` -/
def getThreshold (s : State) (rid acct : Nat) : Except Err Nat := ofOpt .notInstalled (s.thr acct rid)

/-- `can_enforce`: `authenticated_signers.len() >= threshold`, `false` when not installed;
the context is unused -/
def canEnforce (s : State) (_ctx : Ctx) (signers : List Nat) (rule : Rule) (acct : Nat) : Bool :=
  match s.thr acct rule.id with
  | some t => decide (t ≤ signers.length)
  | none => false

/-- the comparison of `enforce` and its event -/
def checkCount (s : State) (signers : List Nat) (rule : Rule) (acct t : Nat) : Except Err State :=
  if t ≤ signers.length then .ok { s with events := s.events ++ [.enforced acct rule.id signers] }
  else .error .notAllowed

/-- `enforce` -/
def enforce (s : State) (auth : List Nat) (_ctx : Ctx) (signers : List Nat) (rule : Rule) (acct : Nat) :
    Except Err State := do
  requireAuth auth acct
  let t ← getThreshold s rule.id acct
  checkCount s signers rule acct t

/-- `validate_and_set_threshold` -/
def validateAndSet (s : State) (t : Nat) (rule : Rule) (acct : Nat) : Except Err State :=
  if t = 0 ∨ t > rule.signers.length then .error .invalidThreshold
  else .ok { s with thr := upd2 s.thr acct rule.id (some t) }

/-- `set_threshold` (note: no "installed" check in the source) -/
def setThreshold (s : State) (auth : List Nat) (t : Nat) (rule : Rule) (acct : Nat) : Except Err State := do
  requireAuth auth acct
  validateAndSet s t rule acct

/-- `install` -/
def install (s : State) (auth : List Nat) (t : Nat) (rule : Rule) (acct : Nat) : Except Err State := do
  requireAuth auth acct
  if (s.thr acct rule.id).isSome then .error .alreadyInstalled
  else validateAndSet s t rule acct

/-- `uninstall` -/
def uninstall (s : State) (auth : List Nat) (rule : Rule) (acct : Nat) : Except Err State := do
  requireAuth auth acct
  .ok { s with thr := upd2 s.thr acct rule.id none }

inductive Op
  | install (acct : Nat) (rule : Rule) (t : Nat)
  | setThreshold (acct : Nat) (rule : Rule) (t : Nat)
  | uninstall (acct : Nat) (rule : Rule)
  | enforce (acct : Nat) (rule : Rule) (ctx : Ctx) (signers : List Nat)
  deriving Repr

def Op.acct : Op → Nat
  | .install a _ _ => a
  | .setThreshold a _ _ => a
  | .uninstall a _ => a
  | .enforce a _ _ _ => a

def apply (s : State) (auth : List Nat) : Op → Except Err State
  | .install a r t => install s auth t r a
  | .setThreshold a r t => setThreshold s auth t r a
  | .uninstall a r => uninstall s auth r a
  | .enforce a r c sg => enforce s auth c sg r a

/-- a failed invocation is rolled back by the host -/
def step (s : State) (x : List Nat × Op) : State :=
  match apply s x.1 x.2 with
  | .ok s' => s'
  | .error _ => s

def run (s : State) (ops : List (List Nat × Op)) : State := ops.foldl step s

end Simple

/-! ## weighted_threshold.rs -/
namespace Weighted

/-- `Map<Signer, u32>`: association list sorted by key, one entry per key -/
abbrev WMap := List (Nat × Nat)

/-- `Map::get` -/
def lookup : WMap → Nat → Option Nat
  | [], _ => none
  | (a, w) :: r, k => if a = k then some w else lookup r k

/-- `Map::set` (insert in key order or overwrite) -/
def mset : WMap → Nat → Nat → WMap
  | [], k, v => [(k, v)]
  | (a, w) :: r, k, v =>
    if k < a then (k, v) :: (a, w) :: r
    else if k = a then (k, v) :: r
    else (a, w) :: mset r k v

/-- the map a list of `(signer, weight)` pairs denotes (later pairs overwrite earlier ones) -/
def mkMap (pairs : List (Nat × Nat)) : WMap := pairs.foldl (fun m p => mset m p.1 p.2) []

/-- the loop `total = total.checked_add(w).unwrap_or_else(MathOverflow)` -/
def csum : Nat → List Nat → Except Err Nat
  | acc, [] => .ok acc
  | acc, w :: ws => if acc + w ≤ U32_MAX then csum (acc + w) ws else .error .mathOverflow

/-- `calculate_total_weight`: checked sum of `signer_weights.values()` -/
def totalWeight (m : WMap) : Except Err Nat := csum 0 (m.map Prod.snd)

/-- `calculate_weight`: checked sum over the given signers, in order, with multiplicity;
signers without a configured weight are skipped -/
def calcWeight (m : WMap) (signers : List Nat) : Except Err Nat := csum 0 (signers.filterMap (lookup m))

structure Params where
  weights : WMap
  threshold : Nat
  deriving Repr, DecidableEq

inductive Event
  | enforced (acct rule : Nat) (signers : List Nat)
  deriving Repr, DecidableEq

structure State where
  par : Nat → Nat → Option Params
  events : List Event

def init : State := ⟨fun _ _ => none, []⟩

def getParams (s : State) (rid acct : Nat) : Except Err Params := ofOpt .notInstalled (s.par acct rid)

/-- the comparison `total_weight >= params.threshold` -/
def meets (p : Params) (signers : List Nat) : Except Err Bool := do
  let w ← calcWeight p.weights signers
  pure (decide (p.threshold ≤ w))

/-- `can_enforce`: `false` when not installed; a `MathOverflow` panic of `calculate_weight`
propagates (the call traps instead of answering) -/
def canEnforce (s : State) (_ctx : Ctx) (signers : List Nat) (rule : Rule) (acct : Nat) : Except Err Bool :=
  match s.par acct rule.id with
  | some p => meets p signers
  | none => .ok false

def enforceWith (s : State) (p : Params) (signers : List Nat) (rule : Rule) (acct : Nat) : Except Err State := do
  let w ← calcWeight p.weights signers
  if p.threshold ≤ w then .ok { s with events := s.events ++ [.enforced acct rule.id signers] }
  else .error .notAllowed

/-- `enforce` -/
def enforce (s : State) (auth : List Nat) (_ctx : Ctx) (signers : List Nat) (rule : Rule) (acct : Nat) :
    Except Err State := do
  requireAuth auth acct
  let p ← getParams s rule.id acct
  enforceWith s p signers rule acct

/-- common tail of `set_threshold`, `set_signer_weight`, `install`: compute the total weight
(may overflow), refuse an unreachable threshold, store -/
def checkAndStore (s : State) (p : Params) (rule : Rule) (acct : Nat) : Except Err State := do
  let total ← totalWeight p.weights
  if p.threshold > total then .error .invalidThreshold
  else .ok { s with par := upd2 s.par acct rule.id (some p) }

/-- `set_threshold` -/
def setThreshold (s : State) (auth : List Nat) (t : Nat) (rule : Rule) (acct : Nat) : Except Err State := do
  requireAuth auth acct
  if t = 0 then .error .invalidThreshold
  else do
    let p ← getParams s rule.id acct
    checkAndStore s { p with threshold := t } rule acct

/-- `set_signer_weight` -/
def setSignerWeight (s : State) (auth : List Nat) (signer w : Nat) (rule : Rule) (acct : Nat) :
    Except Err State := do
  requireAuth auth acct
  let p ← getParams s rule.id acct
  checkAndStore s { p with weights := mset p.weights signer w } rule acct

/-- tail of `install`: total weight, then `threshold == 0 || threshold > total` -/
def checkInstall (s : State) (m : WMap) (t : Nat) (rule : Rule) (acct : Nat) : Except Err State := do
  let total ← totalWeight m
  if t = 0 ∨ t > total then .error .invalidThreshold
  else .ok { s with par := upd2 s.par acct rule.id (some ⟨m, t⟩) }

/-- `install` (the total is computed before the `threshold == 0` test, so an overflowing map
fails with `MathOverflow`; either way the call fails) -/
def install (s : State) (auth : List Nat) (pairs : List (Nat × Nat)) (t : Nat) (rule : Rule) (acct : Nat) :
    Except Err State := do
  requireAuth auth acct
  if (s.par acct rule.id).isSome then .error .alreadyInstalled
  else checkInstall s (mkMap pairs) t rule acct

/-- `uninstall` -/
def uninstall (s : State) (auth : List Nat) (rule : Rule) (acct : Nat) : Except Err State := do
  requireAuth auth acct
  .ok { s with par := upd2 s.par acct rule.id none }

inductive Op
  | install (acct : Nat) (rule : Rule) (pairs : List (Nat × Nat)) (t : Nat)
  | setThreshold (acct : Nat) (rule : Rule) (t : Nat)
  | setSignerWeight (acct : Nat) (rule : Rule) (signer w : Nat)
  | uninstall (acct : Nat) (rule : Rule)
  | enforce (acct : Nat) (rule : Rule) (ctx : Ctx) (signers : List Nat)
  deriving Repr

def Op.acct : Op → Nat
  | .install a _ _ _ => a
  | .setThreshold a _ _ => a
  | .setSignerWeight a _ _ _ => a
  | .uninstall a _ => a
  | .enforce a _ _ _ => a

def apply (s : State) (auth : List Nat) : Op → Except Err State
  | .install a r ps t => install s auth ps t r a
  | .setThreshold a r t => setThreshold s auth t r a
  | .setSignerWeight a r sg w => setSignerWeight s auth sg w r a
  | .uninstall a r => uninstall s auth r a
  | .enforce a r c sg => enforce s auth c sg r a

def step (s : State) (x : List Nat × Op) : State :=
  match apply s x.1 x.2 with
  | .ok s' => s'
  | .error _ => s

def run (s : State) (ops : List (List Nat × Op)) : State := ops.foldl step s

end Weighted

/-! ## spending_limit.rs -/
namespace Spend

def MAX_HISTORY_ENTRIES : Nat := 1000

/-- `SpendingEntry` -/
structure Entry where
  amount : Int
  ledger : Nat
  deriving Repr, DecidableEq

/-- `SpendingLimitData` -/
structure Data where
  limit : Int
  period : Nat
  history : List Entry
  cached : Int
  deriving Repr, DecidableEq

inductive Event
  | enforced (acct rule : Nat) (amount total : Int)
  deriving Repr, DecidableEq

structure State where
  now : Nat
  store : Nat → Nat → Option Data
  events : List Event

def init (now : Nat) : State := ⟨now, fun _ _ => none, []⟩

/-- i128 arithmetic with `overflow-checks = true` -/
def chk (x : Int) : Except Err Int := if in128 x then .ok x else .error .overflowPanic

/-- `get_spending_limit_data` -/
def getData (s : State) (rid acct : Nat) : Except Err Data := ofOpt .notInstalled (s.store acct rid)

/-- the loop of `can_enforce` over the history: sums the amounts of the leading entries with
`ledger_sequence <= cutoff_ledger`; at the first younger entry it answers `none`
("return false") when `len - index >= MAX_HISTORY_ENTRIES`, else stops -/
def scanExpired (cutoff : Nat) : List Entry → Int → Except Err (Option Int)
  | [], acc => .ok (some acc)
  | e :: rest, acc =>
    if e.ledger ≤ cutoff then do
      let acc' ← chk (acc + e.amount)
      scanExpired cutoff rest acc'
    else if MAX_HISTORY_ENTRIES ≤ (e :: rest).length then .ok none
    else .ok (some acc)

/-- tail of `can_enforce` for a transfer: `cached - expired + amount <= limit` -/
def canTail (d : Data) (amount : Int) (r : Option Int) : Except Err Bool :=
  match r with
  | none => .ok false
  | some expired => do
    let total ← chk (d.cached - expired)
    let sum ← chk (total + amount)
    pure (decide (sum ≤ d.limit))

def canCtx (now : Nat) (d : Data) : Ctx → Except Err Bool
  | .transfer amount => do
    let r ← scanExpired (now - d.period) d.history 0     -- `saturating_sub`
    canTail d amount r
  | _ => .ok false

/-- `can_enforce` -/
def canEnforce (s : State) (ctx : Ctx) (signers : List Nat) (rule : Rule) (acct : Nat) : Except Err Bool :=
  if signers.isEmpty then .ok false
  else match s.store acct rule.id with
    | none => .ok false
    | some d => canCtx s.now d ctx

/-- `cleanup_old_entries`: pops the leading entries with `ledger_sequence <= cutoff_ledger`,
returns what is left and the removed total -/
def cleanup (cutoff : Nat) : List Entry → Int → Except Err (List Entry × Int)
  | [], acc => .ok ([], acc)
  | e :: rest, acc =>
    if e.ledger ≤ cutoff then do
      let acc' ← chk (acc + e.amount)
      cleanup cutoff rest acc'
    else .ok (e :: rest, acc)

/-- limit test, capacity test, `push_back`, new cached total, store, event -/
def commit (s : State) (d : Data) (amount : Int) (rule : Rule) (acct : Nat) (h : List Entry) (sum : Int) :
    Except Err State :=
  if sum > d.limit then .error .limitExceeded
  else if MAX_HISTORY_ENTRIES ≤ h.length then .error .historyCapacity
  else .ok { s with
    store := upd2 s.store acct rule.id (some { d with history := h ++ [⟨amount, s.now⟩], cached := sum }),
    events := s.events ++ [.enforced acct rule.id amount sum] }

/-- the part of `enforce` after cleanup (`cached_total_spent -= removed`, then
`cached_total_spent + amount`, computed twice in the source with the same result) -/
def enforceTail (s : State) (d : Data) (amount : Int) (rule : Rule) (acct : Nat)
    (c : List Entry × Int) : Except Err State := do
  let cached ← chk (d.cached - c.2)
  let sum ← chk (cached + amount)
  commit s d amount rule acct c.1 sum

def enforceCtx (s : State) (d : Data) (rule : Rule) (acct : Nat) : Ctx → Except Err State
  | .transfer amount => do
    let c ← cleanup (s.now - d.period) d.history 0
    enforceTail s d amount rule acct c
  | _ => .error .notAllowed

/-- `enforce` -/
def enforce (s : State) (auth : List Nat) (ctx : Ctx) (signers : List Nat) (rule : Rule) (acct : Nat) :
    Except Err State := do
  requireAuth auth acct
  if signers.isEmpty then .error .notAllowed
  else do
    let d ← getData s rule.id acct
    enforceCtx s d rule acct ctx

/-- `set_spending_limit` -/
def setSpendingLimit (s : State) (auth : List Nat) (limit : Int) (rule : Rule) (acct : Nat) :
    Except Err State := do
  requireAuth auth acct
  if limit ≤ 0 then .error .invalidLimitOrPeriod
  else do
    let d ← getData s rule.id acct
    .ok { s with store := upd2 s.store acct rule.id (some { d with limit := limit }) }

/-- `install` -/
def install (s : State) (auth : List Nat) (limit : Int) (period : Nat) (rule : Rule) (acct : Nat) :
    Except Err State := do
  requireAuth auth acct
  if limit ≤ 0 ∨ period = 0 then .error .invalidLimitOrPeriod
  else if (s.store acct rule.id).isSome then .error .alreadyInstalled
  else .ok { s with store := upd2 s.store acct rule.id (some ⟨limit, period, [], 0⟩) }

/-- `uninstall` -/
def uninstall (s : State) (auth : List Nat) (rule : Rule) (acct : Nat) : Except Err State := do
  requireAuth auth acct
  .ok { s with store := upd2 s.store acct rule.id none }

inductive Op
  | install (acct : Nat) (rule : Rule) (limit : Int) (period : Nat)
  | setLimit (acct : Nat) (rule : Rule) (limit : Int)
  | uninstall (acct : Nat) (rule : Rule)
  | enforce (acct : Nat) (rule : Rule) (ctx : Ctx) (signers : List Nat)
  | advance (n : Nat)
  deriving Repr

def apply (s : State) (auth : List Nat) : Op → Except Err State
  | .install a r l p => install s auth l p r a
  | .setLimit a r l => setSpendingLimit s auth l r a
  | .uninstall a r => uninstall s auth r a
  | .enforce a r c sg => enforce s auth c sg r a
  | .advance n => .ok { s with now := s.now + n }

def step (s : State) (x : List Nat × Op) : State :=
  match apply s x.1 x.2 with
  | .ok s' => s'
  | .error _ => s

def run (s : State) (ops : List (List Nat × Op)) : State := ops.foldl step s

end Spend

end OZ.Policies
