import OZ.Model.Base64Url
/-
Keccak-256 (the pre-NIST padding 0x01 … 0x80 used by Ethereum and by the Soroban host's
`keccak256`), rate 136 bytes, executable, import-free. Used by the C17 driver; validated
against the host (and the sha3 crate) on every pair / leaf hash issued in a correspondence
run. No theorem unfolds it. The 25 lanes are structure fields (unboxed 64-bit words) and the
round function is written out lane by lane (generated text) so that the driver is fast.
-/
namespace OZ.Keccak
open OZ.B64

def RC : Array UInt64 := #[
  0x0000000000000001, 0x0000000000008082, 0x800000000000808A, 0x8000000080008000,
  0x000000000000808B, 0x0000000080000001, 0x8000000080008081, 0x8000000000008009,
  0x000000000000008A, 0x0000000000000088, 0x0000000080008009, 0x000000008000000A,
  0x000000008000808B, 0x800000000000008B, 0x8000000000008089, 0x8000000000008003,
  0x8000000000008002, 0x8000000000000080, 0x000000000000800A, 0x800000008000000A,
  0x8000000080008081, 0x8000000000008080, 0x0000000080000001, 0x8000000080008008]

@[inline] def rotl (x : UInt64) (n : UInt64) : UInt64 := (x <<< n) ||| (x >>> (64 - n))

/-- the state: lane `a(x + 5*y)` -/
structure S where
  (a0 a1 a2 a3 a4 a5 a6 a7 a8 a9 a10 a11 a12 a13 a14 a15 a16 a17 a18 a19 a20 a21 a22 a23 a24 : UInt64)

def S.zero : S := ⟨0, 0, 0, 0, 0, 0, 0, 0, 0, 0, 0, 0, 0, 0, 0, 0, 0, 0, 0, 0, 0, 0, 0, 0, 0⟩

/-- one round: θ, ρ, π, χ, ι -/
def round (s : S) (rc : UInt64) : S :=
  let c0 := s.a0 ^^^ s.a5 ^^^ s.a10 ^^^ s.a15 ^^^ s.a20
  let c1 := s.a1 ^^^ s.a6 ^^^ s.a11 ^^^ s.a16 ^^^ s.a21
  let c2 := s.a2 ^^^ s.a7 ^^^ s.a12 ^^^ s.a17 ^^^ s.a22
  let c3 := s.a3 ^^^ s.a8 ^^^ s.a13 ^^^ s.a18 ^^^ s.a23
  let c4 := s.a4 ^^^ s.a9 ^^^ s.a14 ^^^ s.a19 ^^^ s.a24
  let d0 := c4 ^^^ rotl c1 1
  let d1 := c0 ^^^ rotl c2 1
  let d2 := c1 ^^^ rotl c3 1
  let d3 := c2 ^^^ rotl c4 1
  let d4 := c3 ^^^ rotl c0 1
  let b0 := (s.a0 ^^^ d0)
  let b1 := rotl (s.a6 ^^^ d1) 44
  let b2 := rotl (s.a12 ^^^ d2) 43
  let b3 := rotl (s.a18 ^^^ d3) 21
  let b4 := rotl (s.a24 ^^^ d4) 14
  let b5 := rotl (s.a3 ^^^ d3) 28
  let b6 := rotl (s.a9 ^^^ d4) 20
  let b7 := rotl (s.a10 ^^^ d0) 3
  let b8 := rotl (s.a16 ^^^ d1) 45
  let b9 := rotl (s.a22 ^^^ d2) 61
  let b10 := rotl (s.a1 ^^^ d1) 1
  let b11 := rotl (s.a7 ^^^ d2) 6
  let b12 := rotl (s.a13 ^^^ d3) 25
  let b13 := rotl (s.a19 ^^^ d4) 8
  let b14 := rotl (s.a20 ^^^ d0) 18
  let b15 := rotl (s.a4 ^^^ d4) 27
  let b16 := rotl (s.a5 ^^^ d0) 36
  let b17 := rotl (s.a11 ^^^ d1) 10
  let b18 := rotl (s.a17 ^^^ d2) 15
  let b19 := rotl (s.a23 ^^^ d3) 56
  let b20 := rotl (s.a2 ^^^ d2) 62
  let b21 := rotl (s.a8 ^^^ d3) 55
  let b22 := rotl (s.a14 ^^^ d4) 39
  let b23 := rotl (s.a15 ^^^ d0) 41
  let b24 := rotl (s.a21 ^^^ d1) 2
  ⟨(b0 ^^^ ((~~~ b1) &&& b2)) ^^^ rc,
   b1 ^^^ ((~~~ b2) &&& b3),
   b2 ^^^ ((~~~ b3) &&& b4),
   b3 ^^^ ((~~~ b4) &&& b0),
   b4 ^^^ ((~~~ b0) &&& b1),
   b5 ^^^ ((~~~ b6) &&& b7),
   b6 ^^^ ((~~~ b7) &&& b8),
   b7 ^^^ ((~~~ b8) &&& b9),
   b8 ^^^ ((~~~ b9) &&& b5),
   b9 ^^^ ((~~~ b5) &&& b6),
   b10 ^^^ ((~~~ b11) &&& b12),
   b11 ^^^ ((~~~ b12) &&& b13),
   b12 ^^^ ((~~~ b13) &&& b14),
   b13 ^^^ ((~~~ b14) &&& b10),
   b14 ^^^ ((~~~ b10) &&& b11),
   b15 ^^^ ((~~~ b16) &&& b17),
   b16 ^^^ ((~~~ b17) &&& b18),
   b17 ^^^ ((~~~ b18) &&& b19),
   b18 ^^^ ((~~~ b19) &&& b15),
   b19 ^^^ ((~~~ b15) &&& b16),
   b20 ^^^ ((~~~ b21) &&& b22),
   b21 ^^^ ((~~~ b22) &&& b23),
   b22 ^^^ ((~~~ b23) &&& b24),
   b23 ^^^ ((~~~ b24) &&& b20),
   b24 ^^^ ((~~~ b20) &&& b21)⟩

def permute (s : S) : S := Id.run do
  let mut t := s
  for i in [0:24] do
    t := round t RC[i]!
  return t

def lane (b : Array UInt8) (off : Nat) : UInt64 :=
  b[off]!.toUInt64 ||| (b[off+1]!.toUInt64 <<< 8) ||| (b[off+2]!.toUInt64 <<< 16) ||| (b[off+3]!.toUInt64 <<< 24) |||
  (b[off+4]!.toUInt64 <<< 32) ||| (b[off+5]!.toUInt64 <<< 40) ||| (b[off+6]!.toUInt64 <<< 48) ||| (b[off+7]!.toUInt64 <<< 56)

/-- xor one 136-byte block (17 lanes) into the state -/
def absorb (s : S) (b : Array UInt8) (o : Nat) : S :=
  { s with a0 := s.a0 ^^^ lane b (o + 0), a1 := s.a1 ^^^ lane b (o + 8), a2 := s.a2 ^^^ lane b (o + 16), a3 := s.a3 ^^^ lane b (o + 24), a4 := s.a4 ^^^ lane b (o + 32), a5 := s.a5 ^^^ lane b (o + 40), a6 := s.a6 ^^^ lane b (o + 48), a7 := s.a7 ^^^ lane b (o + 56), a8 := s.a8 ^^^ lane b (o + 64), a9 := s.a9 ^^^ lane b (o + 72), a10 := s.a10 ^^^ lane b (o + 80), a11 := s.a11 ^^^ lane b (o + 88), a12 := s.a12 ^^^ lane b (o + 96), a13 := s.a13 ^^^ lane b (o + 104), a14 := s.a14 ^^^ lane b (o + 112), a15 := s.a15 ^^^ lane b (o + 120), a16 := s.a16 ^^^ lane b (o + 128) }

def pad (msg : Bytes) : Array UInt8 :=
  let r := 136
  let q := r - msg.length % r
  let p : List UInt8 := if q = 1 then [0x81] else [0x01] ++ List.replicate (q - 2) 0 ++ [0x80]
  (msg ++ p).toArray

def laneBytes (v : UInt64) : List UInt8 :=
  [v.toUInt8, (v >>> 8).toUInt8, (v >>> 16).toUInt8, (v >>> 24).toUInt8,
   (v >>> 32).toUInt8, (v >>> 40).toUInt8, (v >>> 48).toUInt8, (v >>> 56).toUInt8]

def keccak256 (msg : Bytes) : Bytes := Id.run do
  let b := pad msg
  let mut s := S.zero
  for blk in [0:b.size / 136] do
    s := permute (absorb s b (136 * blk))
  return laneBytes s.a0 ++ laneBytes s.a1 ++ laneBytes s.a2 ++ laneBytes s.a3

end OZ.Keccak
