import OZ.Model.Access
/-
C06, machine `stk` ("stacked role guards") — entry points that stack TWO role guards of `stellar_macros`.

Line-by-line model of the harness contract `stk::Stacked2` (harness/src/bin/c06.rs), which is compiled with
the working tree's macros:
  packages/macros/src/access_control.rs
    `#[has_role(p, "r")]`            = `ensure_role(e, "r", &p);`                          then the body
    `#[only_role(p, "r")]`           = `ensure_role(e, "r", &p); p.require_auth();`       then the body
    `#[has_any_role(p, ["r", ..])]`  = `if ![..].iter().any(|r| has_role(e, &p, r).is_some()) { panic!(..) }`
    `#[only_any_role(p, ["r", ..])]` = the same check, then `p.require_auth();`            then the body
  packages/access/src/access_control/storage.rs   `ensure_role`, `has_role`, `enforce_admin_auth`,
                                                   `grant_role_no_auth`, `revoke_role_no_auth`
Every one of these attribute macros re-emits the attributes still attached to the function
(`#(#fn_attrs)*`), so the guard written BELOW is injected too — and, attribute macros expanding outermost
first, the guard written below ends up as the FIRST statements:

    #[has_role(a, "minter")] #[only_role(b, "burner")] fn hr_or(e, a, b)
      ==>  { ensure_role(e, "burner", &b); b.require_auth(); { ensure_role(e, "minter", &a); { body } } }

The sixteen entry points are the ordered pairs (outer, inner) of the four macros: `<outer>_<inner>` writes
`<outer>` above `<inner>` (`hr` has_role, `or` only_role, `ha` has_any_role, `oa` only_any_role). The outer
guard is on the parameter `a` with the role "minter" (any-role macros: ["minter", "r2"]); the inner guard is on
the parameter `b` — for `oa_hr`, `hr_oa`, `or_oa`, `ha_ha` on `a` again — with the role "burner" (any-role
macros: ["burner", "r2"]). An entry point = ALL of its guards (`Fn.guards`, in the order of the expansion),
then the body (counter + 1, returned); a failed call changes nothing (`St.step`).

Roles are numbers as in the rest of C06: 0 "minter", 1 "burner", 2 "r2". `auth` is the set of accounts
that authorize the call (as often as it asks: the harness signs two entries per signer, because the host
lets one authorization entry satisfy one `require_auth` of its address per frame).
-/
namespace OZ.Access.Stk
open OZ.Access

/-- the four role-guard macros that take a caller argument -/
inductive Mac where
  | has | only | hasAny | onlyAny
  deriving DecidableEq, Repr

def Mac.tag : Mac → String
  | .has => "hr" | .only => "or" | .hasAny => "ha" | .onlyAny => "oa"

/-- one guard attribute as written: the macro, the parameter it names (`onB = false`: `a`, `true`: `b`)
and its role / its list of roles -/
inductive Guard where
  | has (onB : Bool) (role : Nat)
  | only (onB : Bool) (role : Nat)
  | hasAny (onB : Bool) (roles : List Nat)
  | onlyAny (onB : Bool) (roles : List Nat)
  deriving DecidableEq, Repr

/-- the argument a guard names -/
def pick (onB : Bool) (a b : Nat) : Nat := if onB then b else a

/-- the parameter a guard names -/
def Guard.onB : Guard → Bool
  | .has p _ | .only p _ | .hasAny p _ | .onlyAny p _ => p

/-- the roles one of which the named account must hold -/
def Guard.roles : Guard → List Nat
  | .has _ r | .only _ r => [r]
  | .hasAny _ rs | .onlyAny _ rs => rs

/-- `only_role` / `only_any_role` also demand the named account's authorization -/
def Guard.needsAuth : Guard → Bool
  | .only _ _ | .onlyAny _ _ => true
  | _ => false

/-- the account a guard speaks about, for the arguments (a, b) -/
def Guard.who (g : Guard) (a b : Nat) : Nat := pick g.onB a b

/-- a stacked entry point: the attribute written on top and the one written below it -/
structure Fn where
  outer : Mac
  inner : Mac
  deriving DecidableEq, Repr

def Fn.name (f : Fn) : String := f.outer.tag ++ "_" ++ f.inner.tag

def MINTER : Nat := 0
def BURNER : Nat := 1
def R2 : Nat := 2

/-- the attribute `m` on parameter `onB`, with `role` (single-role macros) resp. `[role, "r2"]` -/
def mkGuard (m : Mac) (onB : Bool) (role : Nat) : Guard :=
  match m with
  | .has => .has onB role
  | .only => .only onB role
  | .hasAny => .hasAny onB [role, R2]
  | .onlyAny => .onlyAny onB [role, R2]

/-- the four entry points whose inner guard names the parameter `a` again -/
def sameParam : Mac → Mac → Bool
  | .onlyAny, .has => true
  | .has, .onlyAny => true
  | .only, .onlyAny => true
  | .hasAny, .hasAny => true
  | _, _ => false

/-- the attribute written on top -/
def Fn.outerGuard (f : Fn) : Guard := mkGuard f.outer false MINTER

/-- the attribute written below it -/
def Fn.innerGuard (f : Fn) : Guard := mkGuard f.inner (!sameParam f.outer f.inner) BURNER

/-- BOTH guards, in the order in which the expansion runs them: the attribute written below is the outer
block, so it runs first -/
def Fn.guards (f : Fn) : List Guard := [f.innerGuard, f.outerGuard]

/-- storage of the contract: `AccessControlStorageKey::Admin`, who holds which role (`HasRole(account, role)`
present), the counter -/
structure St where
  admin : Option Nat
  holds : Nat → Nat → Bool      -- account → role
  counter : Int

def I32_MAX : Int := 2147483647

/-- `access_control::ensure_role(e, role, caller)` -/
def ensureRole (s : St) (role caller : Nat) : Except Err Unit :=
  require (s.holds caller role) .unauthorized

/-- the check of the any-role macros: `[roles].iter().any(|r| has_role(e, caller, r).is_some())`, `panic!` if not -/
def ensureAnyRole (s : St) (roles : List Nat) (caller : Nat) : Except Err Unit :=
  require (roles.any fun r => s.holds caller r) .noRole

/-- the statements one guard attribute injects -/
def Guard.run (s : St) (auth : List Nat) (a b : Nat) : Guard → Except Err Unit
  | .has p r => ensureRole s r (pick p a b)
  | .only p r => do
    ensureRole s r (pick p a b)
    requireAuth auth (pick p a b)
  | .hasAny p rs => ensureAnyRole s rs (pick p a b)
  | .onlyAny p rs => do
    ensureAnyRole s rs (pick p a b)
    requireAuth auth (pick p a b)

/-- the injected statements of a list of guards, first to last -/
def runGuards (s : St) (auth : List Nat) (a b : Nat) : List Guard → Except Err Unit
  | [] => .ok ()
  | g :: gs => do
    g.run s auth a b
    runGuards s auth a b gs

/-- `bump`: `counter.checked_add(1).expect(..)` on an `i32` -/
def St.bump (s : St) : Except Err St :=
  if s.counter + 1 > I32_MAX then .error .overflowPanic
  else .ok { s with counter := s.counter + 1 }

/-- a function with the guards `gs` (in the order they run) around the body -/
def St.callWith (s : St) (auth : List Nat) (gs : List Guard) (a b : Nat) : Except Err St := do
  runGuards s auth a b gs
  s.bump

/-- a stacked entry point: all of its guards, then the body -/
def St.call (s : St) (auth : List Nat) (f : Fn) (a b : Nat) : Except Err St :=
  s.callWith auth f.guards a b

/-- `access_control::enforce_admin_auth(e)` -/
def enforceAdminAuth (s : St) (auth : List Nat) : Except Err Nat :=
  match s.admin with
  | none => .error .adminNotSet
  | some ad => do
    requireAuth auth ad
    pure ad

/-- `known_role` of the contract: "minter", "burner" or "r2" -/
def knownRole (role : Nat) : Except Err Unit := require (decide (role < 3)) .badOp

def setHolds (h : Nat → Nat → Bool) (account role : Nat) (v : Bool) : Nat → Nat → Bool :=
  fun a r => if a = account ∧ r = role then v else h a r

/-- `grant`: `enforce_admin_auth`, `known_role`, `grant_role_no_auth` (returns early if already held) -/
def St.grant (s : St) (auth : List Nat) (account role : Nat) : Except Err St := do
  let _ ← enforceAdminAuth s auth
  knownRole role
  if s.holds account role then pure s
  else pure { s with holds := setHolds s.holds account role true }

/-- `revoke`: `enforce_admin_auth`, `known_role`, `revoke_role_no_auth` (`RoleNotHeld` if not held) -/
def St.revoke (s : St) (auth : List Nat) (account role : Nat) : Except Err St := do
  let _ ← enforceAdminAuth s auth
  knownRole role
  require (s.holds account role) .roleNotHeld
  pure { s with holds := setHolds s.holds account role false }

inductive Op where
  | call (f : Fn) (a b : Nat)
  | grant (account role : Nat)
  | revoke (account role : Nat)

def St.apply (s : St) (auth : List Nat) : Op → Except Err St
  | .call f a b => s.call auth f a b
  | .grant account role => s.grant auth account role
  | .revoke account role => s.revoke auth account role

/-- a failed invocation is rolled back by the host: it changes nothing -/
def St.step (s : St) (x : List Nat × Op) : St :=
  match s.apply x.1 x.2 with
  | .ok s' => s'
  | .error _ => s

def St.run (s : St) (ops : List (List Nat × Op)) : St := ops.foldl St.step s

/-- `__constructor(admin)`: `set_admin`, counter 0; nobody holds a role -/
def St.construct (admin : Nat) : St :=
  { admin := some admin, holds := fun _ _ => false, counter := 0 }

end OZ.Access.Stk
