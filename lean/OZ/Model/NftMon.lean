import OZ.Model.Nft
import OZ.Model.NftEnumerable
import OZ.Model.NftConsecutive
/-
The C10 and C11 MONITORS on parsed values, and the structured observation of the three NFT models.

The drivers OZ/Drv/C10.lean and OZ/Drv/C11.lean only parse the trace lines (`NftIO.parseLine`,
`NftIO.parseObs`) and call `Own.checkCore` (C10) resp. `Auth.checkCore` (C11); neither monitor ever
calls a model's transition function. They are kept apart from the drivers so that
OZ/Props/C10Mon.lean and OZ/Props/C11Mon.lean can prove them SOUND: on the observations of the
models themselves (`stepObs`, which is exactly what the model side of the drivers prints, see
`NftIO.stepLine` = `showObs ∘ stepObs`) no monitor ever reports a failure.
Import-free apart from the models; no string parsing here (message strings only).
-/
namespace OZ.NftMon
open OZ.Host OZ.Nft

/-- size of the observed account universe (balances, operator pairs, owner lists) -/
def N : Nat := 6
def MAX_TTL : Nat := 200000

/-! ### the three models behind one interface (model side of the drivers) -/

inductive MState where
  | base (s : Nft.State)
  | enum (s : NftEnum.State)
  | cons (s : NftCons.BState)

/-- the model a sequence label selects: `flavour=enum`, `flavour=cons`, anything else (`seq`, `exp`)
is the base flavour -/
def initState (fl : String) (start : Nat) : MState :=
  if fl = "enum" then .enum (NftEnum.init start)
  else if fl = "cons" then .cons (NftCons.init NftCons.noBuckets start)
  else .base (Nft.init start)

def MState.core : MState → Core
  | .base s => s.toCore
  | .enum s => s.toCore
  | .cons s => s.toCore

def MState.ownerOf : MState → Nat → Option Nat
  | .base s, id => (Nft.ownerOf s id).toOption
  | .enum s, id => (Nft.ownerOf s.toState id).toOption
  | .cons s, id => (NftCons.ownerOf NftCons.bitOps s id).toOption

def MState.uri : MState → Nat → Bool
  | .base s, id => Nft.tokenUriExists s id
  | .enum s, id => Nft.tokenUriExists s.toState id
  | .cons s, id => NftCons.tokenUriExists s id

def MState.apply (cfg : Cfg) (auth : List Nat) (op : Op) : MState → Except Err (MState × Option Nat)
  | .base s => (Nft.apply cfg s auth op).map (fun (s', r) => (.base s', r))
  | .enum s => (NftEnum.apply cfg s auth op).map (fun (s', r) => (.enum s', r))
  | .cons s => (NftCons.apply NftCons.bitOps cfg s auth op).map (fun (s', r) => (.cons s', r))

/-! ### the op line, parsed

`nft <kind> a=<addr,..> id=<u32> n=<u32> lu=<u32> auth=<addr,..> q=<lo-hi,..> qa=<id,..>` -/

inductive Kind where
  | mint | mintId | batchMint | transfer | transferFrom | approve | approveForAll | burn | burnFrom
  | advance | other
  deriving DecidableEq, Repr

structure Line where
  kind : Kind
  a : List Nat              -- `a=`: the addresses of the call in the order of the entry point
  id : Nat
  n : Nat
  lu : Nat
  auth : List Nat           -- `auth=`: the exact signer set the call ran with
  q : List (Nat × Nat)      -- `q=`: the windows of ids over which `owner_of` is read after the call
  qa : List Nat             -- `qa=`: the ids read one by one (owner_of, token_uri, get_approved)

/-- the operation a line denotes for the models (`none`: the model side answers `bad-op`) -/
def Line.op (l : Line) : Option Op :=
  match l.kind, l.a with
  | .mint, [t] => some (.mintSeq t)
  | .mintId, [t] => some (.mint t l.id)
  | .batchMint, [t] => some (.batchMint t l.n)
  | .transfer, [f, t] => some (.transfer f t l.id)
  | .transferFrom, [sp, f, t] => some (.transferFrom sp f t l.id)
  | .approve, [ap, a] => some (.approve ap a l.id l.lu)
  | .approveForAll, [ow, p] => some (.approveForAll ow p l.lu)
  | .burn, [f] => some (.burn f l.id)
  | .burnFrom, [sp, f] => some (.burnFrom sp f l.id)
  | .advance, _ => some (.advance l.n)
  | _, _ => none

/-- the i-th address of the line (0 when absent), as both monitors read it -/
def Line.arg (l : Line) (i : Nat) : Nat := l.a.getD i 0

/-! ### the observation line, parsed

`ok|err ret=<id|-> own=<lo-hi:owner|x,..> oq=<id:owner|x,..> bal=<b0,..> uri=<ids> appr=<id:addr,..>
 opr=<owner:operator,..> ts=<n|-> gl=<..> ol=<..> now=<ledger> dem=<addr,..>` -/

abbrev Run := Nat × Nat × Option Nat        -- lo, hi, owner of every id in lo..=hi

structure Obs where
  ok : Bool
  ret : Option Nat
  own : List Run
  oq : List (Nat × Option Nat)
  bal : List Nat
  uri : List Nat
  appr : List (Nat × Nat)
  opr : List (Nat × Nat)
  ts : Option Nat
  gl : List (Option Nat)
  ol : List (List (Option Nat))
  now : Nat
  dem : List Nat

def showOpt (x : Option Nat) : String := match x with | some v => toString v | none => "x"

/-! ### the models' observation (what `NftIO.stepLine` prints for the model) -/

/-- run-length encoding of `f` over one window: `start..id` is the current run with value `cur`,
`fuel = hi - id` ids are left; finished runs are pushed on `acc` (most recent first) -/
def rleGo (f : Nat → Option Nat) (hi : Nat) : Nat → Nat → Option Nat → Nat → List Run → List Run
  | 0, start, cur, _, acc => (start, hi, cur) :: acc
  | fuel + 1, start, cur, id, acc =>
    if f (id + 1) != cur then rleGo f hi fuel (id + 1) (f (id + 1)) (id + 1) ((start, id, cur) :: acc)
    else rleGo f hi fuel start cur (id + 1) acc

/-- run-length encoding of `f` over the windows `q`, as runs `(lo, hi, v)` in trace order -/
def rleRuns (f : Nat → Option Nat) (q : List (Nat × Nat)) : List Run :=
  (q.foldl (fun acc w => rleGo f w.2 (w.2 - w.1) w.1 (f w.1) w.1 acc) []).reverse

def enumTs : MState → Option Nat
  | .enum e => some e.total
  | _ => none

/-- `get_token_id(i)` for `i = 0 ..= total_supply` (one past the end included) -/
def enumGl : MState → List (Option Nat)
  | .enum e => (List.range (e.total + 1)).map (fun i => (NftEnum.getTokenId e i).toOption)
  | _ => []

/-- `get_owner_token_id(a, i)` for every account `a` of the universe and `i < balance(a)`, one past
the end included for the accounts the op names (`probe`) -/
def enumOl (probe : List Nat) : MState → List (List (Option Nat))
  | .enum e => (List.range N).map (fun a =>
      (List.range (if probe.contains a then e.bal a + 1 else e.bal a)).map
        (fun i => (NftEnum.getOwnerTokenId e a i).toOption))
  | _ => []

def probeOf (op : Op) (a : List Nat) : List Nat :=
  match op with
  | .advance _ => []
  | _ => a

def demOf (op : Op) : List Nat :=
  match op with
  | .advance _ => []
  | _ => (op.required).mergeSort (· ≤ ·)

def oprList (c : Core) : List (Nat × Nat) :=
  (List.range N).flatMap (fun o => (List.range N).filterMap (fun p =>
    if isApprovedForAll c o p then some (o, p) else none))

def apprList (c : Core) (qa : List Nat) : List (Nat × Nat) :=
  qa.filterMap (fun id => (getApproved c id).map (fun a => (id, a)))

/-- every getter of the subsystem over the windows of the line, for a model state -/
def obsOf (ok : Bool) (ret : Option Nat) (s : MState) (l : Line) (probe dem : List Nat) : Obs :=
  { ok, ret, own := rleRuns s.ownerOf l.q, oq := l.qa.map (fun id => (id, s.ownerOf id)),
    bal := (List.range N).map s.core.bal, uri := l.qa.filter s.uri,
    appr := apprList s.core l.qa, opr := oprList s.core,
    ts := enumTs s, gl := enumGl s, ol := enumOl probe s, now := s.core.now, dem }

/-- one op line through the model: the new state (unchanged when the call is rejected: the host
rolls back) and the observation -/
def stepObs (cfg : Cfg) (s : MState) (l : Line) (op : Op) : MState × Obs :=
  match s.apply cfg l.auth op with
  | .ok (s', ret) => (s', obsOf true ret s' l (probeOf op l.a) (demOf op))
  | .error _ => (s, obsOf false none s l (probeOf op l.a) [])

/-! ### the plain ownership map both monitors keep (from the accepted operations alone) -/

/-- batches `(first, last, owner)` most recent first, shadowed by point overrides `(id, owner?)` -/
def plainOwner (batches : List (Nat × Nat × Nat)) (over : List (Nat × Option Nat)) (id : Nat) : Option Nat :=
  match over.find? (fun p => p.1 = id) with
  | some (_, o) => o
  | none =>
    match batches.find? (fun (f, l, _) => f ≤ id ∧ id ≤ l) with
    | some (_, _, o) => some o
    | none => none

def setOver (over : List (Nat × Option Nat)) (id : Nat) (o : Option Nat) : List (Nat × Option Nat) :=
  (id, o) :: over.filter (fun p => p.1 ≠ id)

/-! ## C10: every NFT has exactly one owner; enumerations mirror ownership

The monitor recomputes a PLAIN ownership map from the accepted operations alone (mint ↦ the
returned / named id gets the recipient, batch ↦ the interval, transfer ↦ the named id moves, burn ↦
the named id disappears) and checks the property's conclusion on every observation:
  * every reported `owner_of` (windows and direct calls) equals the plain map, for every id;
  * an accepted transfer / burn names the token's current owner as `from`;
  * sequential / batch ids are never reused (each issue lies above everything issued before) and a
    batch of n issues exactly n consecutive ids;
  * balance(a) = number of tokens the plain map gives to a; token_uri exists iff owned;
  * enumerable: total_supply = number of existing tokens, the global list and each owner's list
    contain exactly those tokens once, and one index past the end fails;
  * a rejected call changes nothing; idle time changes nothing (`nft.idle.*`).
Mints are judged under the fresh-id hypothesis of the property: when a mint hits an id that
currently has an owner the monitor stops judging that sequence. -/
namespace Own

structure Mon where
  flavour : String
  batches : List (Nat × Nat × Nat)       -- first, last, owner
  over : List (Nat × Option Nat)         -- point overrides, most recent first
  next : Nat                             -- every id issued by a counter so far is < next
  bal : List Nat
  live : Nat                             -- number of existing tokens
  disabled : Bool
  gap : Bool                             -- an idle gap of at least a day has passed
  prev : Option Obs

def ghostOwner (m : Mon) (id : Nat) : Option Nat := plainOwner m.batches m.over id

def setOwner (m : Mon) (id : Nat) (o : Option Nat) : Mon := { m with over := setOver m.over id o }

def addBal (l : List Nat) (i : Nat) (d : Int) : List Nat :=
  l.mapIdx (fun j x => if j = i then (Int.ofNat x + d).toNat else x)

def nodup (l : List Nat) : Bool :=
  match l with
  | [] => true
  | x :: xs => !xs.contains x && nodup xs

/-- first id of one run whose reported owner differs from the plain map -/
def badInRun (m : Mon) (r : Run) : Option String :=
  ((List.range (r.2.1 + 1 - r.1)).find? (fun k => ghostOwner m (r.1 + k) != r.2.2)).map (fun k =>
    s!"site=nft.owner_of id={r.1 + k} reported={showOpt r.2.2} plain-map={showOpt (ghostOwner m (r.1 + k))}")

/-- first id of a run / direct query whose reported owner differs from the plain map -/
def firstBadRun (m : Mon) (runs : List Run) : Option String := runs.findSome? (badInRun m)

def checkList (what : String) (entries : List (Option Nat)) (count : Nat) (probe : Bool)
    (okTok : Nat → Bool) : Option String :=
  if (entries.take count).length ≠ count ∨ ((entries.take count).filterMap id).length ≠ count then
    some s!"site=nft.enum.{what} the list has fewer than {count} readable entries"
  else if !nodup ((entries.take count).filterMap id) then
    some s!"site=nft.enum.{what} a token occurs twice: {(entries.take count).filterMap id}"
  else if !((entries.take count).filterMap id).all okTok then
    some s!"site=nft.enum.{what} lists a token that does not belong there: {(entries.take count).filterMap id}"
  else if probe ∧ entries.drop count ≠ [none] then
    some s!"site=nft.enum.{what} index {count} (one past the end) is readable"
  else none

/-! #### 1. the plain map follows the accepted operation -/

def trackMint (m : Mon) (l : Line) (o : Obs) : Mon × Option String :=
  match o.ret with
  | none => (m, some "site=nft.mint.ret a sequential mint returned no id")
  | some id =>
    if id < m.next then (m, some s!"site={if m.gap then "nft.idle.id_reused" else "nft.mint.reused"} sequential mint issued {id}, already issued before (counter was {m.next})")
    else if (ghostOwner m id).isSome then
      -- at or above everything a counter issued and yet owned: the id collides with an EXPLICIT id
      -- (only an accepted `mint_id` puts an owner there, `explicit_ids_only_above_counter`), i.e. the
      -- fresh-id hypothesis of the property fails; the monitor stops judging the sequence
      ({ m with disabled := true }, none)
    else ({ setOwner m id (some (l.arg 0)) with next := id + 1, bal := addBal m.bal (l.arg 0) 1, live := m.live + 1 }, none)

def trackMintId (m : Mon) (l : Line) : Mon × Option String :=
  if (ghostOwner m l.id).isSome then ({ m with disabled := true }, none)
  else ({ setOwner m l.id (some (l.arg 0)) with bal := addBal m.bal (l.arg 0) 1, live := m.live + 1 }, none)

def trackBatch (m : Mon) (l : Line) (o : Obs) : Mon × Option String :=
  match o.ret with
  | none => (m, some "site=nft.batch.ret a batch mint returned no id")
  | some last =>
    if last + 1 < l.n ∨ l.n = 0 then (m, some s!"site=nft.batch.range batch of {l.n} ends at {last}")
    else if last + 1 - l.n < m.next then
      (m, some s!"site={if m.gap then "nft.idle.id_reused" else "nft.batch.reused"} batch [{last + 1 - l.n},{last}] overlaps ids issued before (counter was {m.next})")
    else ({ m with batches := (last + 1 - l.n, last, l.arg 0) :: m.batches, next := last + 1,
                   bal := addBal m.bal (l.arg 0) l.n, live := m.live + l.n }, none)

def trackMove (m : Mon) (l : Line) (f t : Nat) : Mon × Option String :=
  if ghostOwner m l.id ≠ some f then
    (m, some s!"site=nft.transfer.not-owner token {l.id} moved from {f} but its owner is {showOpt (ghostOwner m l.id)}")
  else ({ setOwner m l.id (some t) with bal := addBal (addBal m.bal f (-1)) t 1 }, none)

def trackBurn (m : Mon) (l : Line) (f : Nat) : Mon × Option String :=
  if ghostOwner m l.id ≠ some f then
    (m, some s!"site=nft.burn.not-owner token {l.id} burned from {f} but its owner is {showOpt (ghostOwner m l.id)}")
  else ({ setOwner m l.id none with bal := addBal m.bal f (-1), live := m.live - 1 }, none)

def trackAccepted (m : Mon) (l : Line) (o : Obs) : Mon × Option String :=
  match l.kind with
  | .mint => trackMint m l o
  | .mintId => trackMintId m l
  | .batchMint => trackBatch m l o
  | .transfer => trackMove m l (l.arg 0) (l.arg 1)
  | .transferFrom => trackMove m l (l.arg 1) (l.arg 2)
  | .burn => trackBurn m l (l.arg 0)
  | .burnFrom => trackBurn m l (l.arg 1)
  | .advance => ({ m with gap := m.gap || decide (l.n ≥ 17280) }, none)
  | _ => (m, none)

def track (m : Mon) (l : Line) (o : Obs) : Mon × Option String :=
  if ¬ o.ok then (m, none) else trackAccepted m l o

/-! #### 2. the implementation's answers against the plain map -/

def vBalance (m : Mon) (o : Obs) : Option String :=
  if o.bal ≠ m.bal then some s!"site=nft.balance reported {o.bal} but the plain map counts {m.bal}" else none

def vUri (m : Mon) (l : Line) (o : Obs) : Option String :=
  if l.qa.any (fun id => o.uri.contains id != (ghostOwner m id).isSome) then
    some s!"site=nft.token_uri existence differs from ownership on {l.qa}: {o.uri}"
  else none

def vOwnerList (m : Mon) (l : Line) (o : Obs) (acc : Nat) : Option String :=
  checkList s!"owner{acc}" (o.ol.getD acc []) (m.bal.getD acc 0)
    (l.kind ≠ .advance ∧ l.a.contains acc) (fun t => ghostOwner m t = some acc)

def vEnum (m : Mon) (l : Line) (o : Obs) : Option String :=
  if o.ts ≠ some m.live then some s!"site=nft.enum.total_supply reported {o.ts} but {m.live} tokens exist"
  else
    match checkList "global" o.gl m.live true (fun t => (ghostOwner m t).isSome) with
    | some f => some f
    | none => (List.range N).findSome? (vOwnerList m l o)

def orElse (a : Option String) (b : Unit → Option String) : Option String :=
  match a with
  | some m => some m
  | none => b ()

def answers (m : Mon) (l : Line) (o : Obs) : Option String :=
  orElse (firstBadRun m o.own) fun _ =>
  orElse (firstBadRun m (o.oq.map (fun (id, ow) => (id, id, ow)))) fun _ =>
  orElse (vBalance m o) fun _ =>
  orElse (vUri m l o) fun _ =>
  if m.flavour = "enum" then vEnum m l o else none

/-- an idle gap (no call at all) must leave every answer as the plain map has it -/
def idleWrap (l : Line) (fail : Option String) : Option String :=
  if l.kind = .advance then
    fail.map (fun f => s!"site=nft.idle.changed after {l.n} idle ledgers the contract answers differently: {f.replace "site=" "was-site="}")
  else fail

/-- the verdict once the plain map is updated: the tracking failure, else the answers -/
def verdict (t : Mon × Option String) (l : Line) (o : Obs) : Option String :=
  if t.1.disabled then none
  else match t.2 with
    | some f => some f
    | none => idleWrap l (answers t.1 l o)

/-- the monitor's step on parsed values -/
def checkCore (m : Mon) (l : Line) (o : Obs) : Mon × Option String :=
  if m.disabled then ({ m with prev := some o }, none)
  else ({ (track m l o).1 with prev := some o }, verdict (track m l o) l o)

def init (flavour : String) : Mon :=
  { flavour, batches := [], over := [], next := 0, bal := List.replicate N 0, live := 0,
    disabled := false, gap := false, prev := none }

end Own

/-! ## C11: an NFT moves only by its owner, its approved account or a live operator

From the ACCEPTED operations alone the monitor keeps
  * the plain ownership map (who owns which token now),
  * ghost approvals  id ↦ (approved, live_until)  — set by an accepted `approve`, dropped by a
    revocation (`live_until = 0`) and by every accepted transfer / burn of that token,
  * ghost operators  (owner, operator) ↦ live_until — set / dropped by accepted `approve_for_all`,
and checks the property's conclusion on the implementation's observations:
  * an accepted `transfer` / `burn` has `from` = current owner ∈ auth;
  * an accepted `transfer_from` / `burn_from` has spender ∈ auth, `from` = current owner, and the
    spender is the owner, or the ghost-approved account of that token with live_until ≥ ledger,
    or a ghost operator of the CURRENT owner with live_until ≥ ledger;
  * an accepted `approve` comes from the current owner or a live ghost operator of it, in auth;
    an accepted `approve_for_all` from the owner in auth;
  * after an accepted transfer / burn `get_approved(token)` is none;
  * every approval / operator the implementation reports is a live ghost one (nothing stale:
    expired, revoked, cleared or a previous owner's). -/
namespace Auth

structure Mon where
  batches : List (Nat × Nat × Nat)          -- first, last, owner
  over : List (Nat × Option Nat)            -- point overrides, most recent first
  appr : List (Nat × Nat × Nat)             -- id, approved, live_until
  oper : List (Nat × Nat × Nat)             -- owner, operator, live_until
  next : Nat

def ghostOwner (m : Mon) (id : Nat) : Option Nat := plainOwner m.batches m.over id

/-- a mint: the id gets an owner. The ghost approvals are left alone, exactly as the code leaves
the approval entries alone: a mint of an id WITHOUT owner (the fresh-id hypothesis of `Base::mint`)
finds no ghost approval for it anyway (`mint_of_unowned_id_finds_no_ghost_approval`), and for a mint
over an owned id the property says nothing about the entry the code keeps. -/
def setOwnerMint (m : Mon) (id : Nat) (o : Nat) : Mon := { m with over := setOver m.over id (some o) }

/-- a transfer / burn: the owner changes and the token's ghost approval is dropped -/
def setOwner (m : Mon) (id : Nat) (o : Option Nat) : Mon :=
  { m with over := setOver m.over id o, appr := m.appr.filter (fun p => p.1 ≠ id) }

def liveAppr (m : Mon) (now id : Nat) : Option Nat :=
  match m.appr.find? (fun p => p.1 = id) with
  | some (_, a, lu) => if now ≤ lu then some a else none
  | none => none

def liveOper (m : Mon) (now o p : Nat) : Bool :=
  match m.oper.find? (fun x => x.1 = o ∧ x.2.1 = p) with
  | some (_, _, lu) => decide (now ≤ lu)
  | none => false

def inAuth (l : Line) (x : Nat) : Bool := l.auth.contains x

def trackMint (m : Mon) (l : Line) (o : Obs) : Mon × Option String :=
  match o.ret with
  | some id => ({ setOwnerMint m id (l.arg 0) with next := id + 1 }, none)
  | none => (m, none)

def trackBatch (m : Mon) (l : Line) (o : Obs) : Mon × Option String :=
  match o.ret with
  | some last => ({ m with batches := (last + 1 - l.n, last, l.arg 0) :: m.batches, next := last + 1 }, none)
  | none => (m, none)

/-- transfer / burn by the owner `f`; `to` = the new owner (none: burned) -/
def trackDirect (m : Mon) (l : Line) (f : Nat) (to : Option Nat) : Mon × Option String :=
  if ghostOwner m l.id ≠ some f then
    (setOwner m l.id to, some s!"site=nft.auth.not-owner token {l.id} taken from {f}, owner is {showOpt (ghostOwner m l.id)}")
  else if ¬ inAuth l f then
    (setOwner m l.id to, some s!"site=nft.auth.transfer-unauthorized token {l.id} left its owner {f} without {f} authorizing (auth={l.auth})")
  else (setOwner m l.id to, none)

/-- transfer_from / burn_from by spender `sp` out of the hands of `f` at ledger `now` -/
def trackSpend (m : Mon) (l : Line) (now sp f : Nat) (to : Option Nat) : Mon × Option String :=
  if ghostOwner m l.id ≠ some f then
    (setOwner m l.id to, some s!"site=nft.auth.not-owner token {l.id} taken from {f}, owner is {showOpt (ghostOwner m l.id)}")
  else if ¬ inAuth l sp then
    (setOwner m l.id to, some s!"site=nft.auth.spender-not-authorizing spender {sp} moved token {l.id} without authorizing (auth={l.auth})")
  else if ¬ (sp = f ∨ liveAppr m now l.id = some sp ∨ liveOper m now f sp) then
    (setOwner m l.id to, some s!"site=nft.auth.spender-unjustified spender {sp} moved token {l.id} of {f} at ledger {now}: not owner, no live approval, no live operator")
  else (setOwner m l.id to, none)

def apprStep (m : Mon) (l : Line) : Mon :=
  if l.lu = 0 then { m with appr := m.appr.filter (fun p => p.1 ≠ l.id) }
  else { m with appr := (l.id, l.arg 1, l.lu) :: m.appr.filter (fun p => p.1 ≠ l.id) }

def trackApprove (m : Mon) (l : Line) (now : Nat) : Mon × Option String :=
  match ghostOwner m l.id with
  | none => (apprStep m l, some s!"site=nft.auth.approve-nonexistent approval accepted for token {l.id} without owner")
  | some ow =>
    if ¬ inAuth l (l.arg 0) then
      (apprStep m l, some s!"site=nft.auth.approve-unauthorized approver {l.arg 0} did not authorize (auth={l.auth})")
    else if ¬ (l.arg 0 = ow ∨ liveOper m now ow (l.arg 0)) then
      (apprStep m l, some s!"site=nft.auth.approve-unauthorized approver {l.arg 0} is neither the owner {ow} of token {l.id} nor its live operator")
    else (apprStep m l, none)

def operStep (m : Mon) (l : Line) : Mon :=
  if l.lu = 0 then { m with oper := m.oper.filter (fun x => ¬ (x.1 = l.arg 0 ∧ x.2.1 = l.arg 1)) }
  else { m with oper := (l.arg 0, l.arg 1, l.lu) :: m.oper.filter (fun x => ¬ (x.1 = l.arg 0 ∧ x.2.1 = l.arg 1)) }

def trackApproveForAll (m : Mon) (l : Line) : Mon × Option String :=
  if ¬ inAuth l (l.arg 0) then
    (operStep m l, some s!"site=nft.auth.operator-grant-unauthorized owner {l.arg 0} did not authorize (auth={l.auth})")
  else (operStep m l, none)

def trackAccepted (m : Mon) (l : Line) (o : Obs) : Mon × Option String :=
  match l.kind with
  | .mint => trackMint m l o
  | .mintId => (setOwnerMint m l.id (l.arg 0), none)
  | .batchMint => trackBatch m l o
  | .transfer => trackDirect m l (l.arg 0) (some (l.arg 1))
  | .burn => trackDirect m l (l.arg 0) none
  | .transferFrom => trackSpend m l o.now (l.arg 0) (l.arg 1) (some (l.arg 2))
  | .burnFrom => trackSpend m l o.now (l.arg 0) (l.arg 1) none
  | .approve => trackApprove m l o.now
  | .approveForAll => trackApproveForAll m l
  | _ => (m, none)

def track (m : Mon) (l : Line) (o : Obs) : Mon × Option String :=
  if ¬ o.ok then (m, none) else trackAccepted m l o

/-- an accepted transfer / transfer_from / burn / burn_from -/
def moved (l : Line) (o : Obs) : Bool :=
  o.ok && (l.kind = .transfer || l.kind = .transferFrom || l.kind = .burn || l.kind = .burnFrom)

def vStaleAppr (m : Mon) (o : Obs) : Option String :=
  match o.appr.find? (fun (id, ap) => liveAppr m o.now id ≠ some ap) with
  | some (id, ap) =>
    some s!"site=nft.auth.stale-approval get_approved({id}) = {ap} at ledger {o.now} but the live approval is {showOpt (liveAppr m o.now id)}"
  | none => none

def vStaleOper (m : Mon) (o : Obs) : Option String :=
  match o.opr.find? (fun (ow, p) => ¬ liveOper m o.now ow p) with
  | some (ow, p) =>
    some s!"site=nft.auth.stale-operator is_approved_for_all({ow},{p}) at ledger {o.now} without a live grant"
  | none => none

/-- the reported approvals / operators against the ghost ones -/
def answers (m : Mon) (l : Line) (o : Obs) : Option String :=
  if moved l o ∧ ¬ l.qa.contains l.id then some "site=nft.auth.unobserved the moved token is not in the observed set"
  else if moved l o ∧ o.appr.any (fun p => p.1 = l.id) then
    some s!"site=nft.auth.approval-not-cleared get_approved({l.id}) is still set after the token moved"
  else
    match vStaleAppr m o with
    | some f => some f
    | none => vStaleOper m o

def verdict (t : Mon × Option String) (l : Line) (o : Obs) : Option String :=
  match t.2 with
  | some f => some f
  | none => answers t.1 l o

/-- the monitor's step on parsed values -/
def checkCore (m : Mon) (l : Line) (o : Obs) : Mon × Option String :=
  ((track m l o).1, verdict (track m l o) l o)

def init : Mon := { batches := [], over := [], appr := [], oper := [], next := 0 }

end Auth

end OZ.NftMon
