/-
Small shared vocabulary of the C20 registry models. Import-free.

Conventions shared by all `OZ.Model.Reg*` files:
* addresses, public keys, document names, hashes ... are natural numbers (the harness keeps the
  bijection to the real values);
* a persistent storage map `Key -> Vec<T>` whose code never stores an empty vector (it removes
  the entry instead) and reads it with `unwrap_or_else(Vec::new)` is a total function into
  `List T` with `[]` = "no entry"; where the code distinguishes "no entry" from "empty"
  the map goes into `Option (List T)`;
* an operation returns `Except RErr State`; on `.error` the caller keeps the old state (the
  host rolls a failed invocation back);
* `Vec::remove(position(x))` / `first_index_of + remove_unchecked` = `List.erase` (first
  occurrence); `rposition + remove` = `eraseLast`; `push_back` = `++ [x]`; `pop_back` =
  `dropLast`; `set(i, x)` = `List.set`.
-/
namespace OZ.Reg

inductive RErr where
  | dup          -- "already exists / already bound / duplicate"
  | absent       -- "not found / does not exist"
  | limit        -- a documented capacity limit
  | empty        -- an argument that must not be empty is empty
  | invalid      -- any other argument validation
  | notAllowed   -- refused by a collaborator contract
  | panic        -- an `expect`/`unwrap` the code believes unreachable
  deriving DecidableEq, Repr

/-- pointwise update of a total map with decidable keys -/
def updD {κ β : Type} [DecidableEq κ] (f : κ → β) (a : κ) (v : β) : κ → β :=
  fun x => if x = a then v else f x

/-- `rposition(|x| x == a)` followed by `remove(pos)`: erase the LAST occurrence -/
def eraseLast {α : Type} [BEq α] (l : List α) (a : α) : List α := (l.reverse.erase a).reverse

/-- `Option<T> -> Result<T, E>` -/
def ofOpt {α : Type} (e : RErr) : Option α → Except RErr α
  | some a => .ok a
  | none => .error e

/-- order-dependent digest of a list of numbers (printed for long registries) -/
def digest (l : List Nat) : Nat := l.foldl (fun h x => (h * 1000003 + x + 1) % 2305843009213693951) 7

/-- order-independent digests -/
def sum1 (l : List Nat) : Nat := l.foldl (fun h x => h + (x + 1)) 0
def sumSq (l : List Nat) : Nat := l.foldl (fun h x => h + (x + 1) * (x + 1)) 0

end OZ.Reg
