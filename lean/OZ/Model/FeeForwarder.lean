import OZ.Model.Host
import OZ.Model.Fungible
/-
Model of packages/fee-abstraction/src/storage.rs (allow-list, `collect_fee`,
`collect_fee_and_invoke`, `sweep_token`, validation helpers) and of the `forward` /
`enable_fee_token` / `disable_fee_token` / `sweep_tokens` entry points of
examples/fee-forwarder-permissionless and examples/fee-forwarder-permissioned, line by line.
Import-free apart from the host model and the fungible model (the fee token is a library
`Base` token = `OZ.Fungible.State`, reused unchanged).

Authorization. `plain` = the addresses that authorize the top-level invocation itself
(`relayer.require_auth()`, `operator.require_auth()`). The user's authorization is a tree:
its root carries the `require_auth_for_args` tuple
`(fee_token, max_fee_amount, expiration_ledger, target_contract, target_fn, target_args)`,
its children are the nested invocations the user signs (`fee_token.approve(user, forwarder,
max, expiration)` and, if the target demands it, `target.fn(args)`). Nested invocations of
a tree may remain unused (probed on the real host). The forwarder calling the token is
authorized as the invoking contract (`[self]`).

The target contract is an oracle: it succeeds (its call log grows by exactly this call),
fails, or demands the user's authorization of the nested call.
-/
namespace OZ.FeeForwarder
open OZ.Host

/-- the argument values that occur in authorized invocations -/
inductive Val where
  | addr (a : Nat)
  | i128 (v : Int)
  | u32 (n : Nat)
  deriving DecidableEq, Repr

/-- an invocation `contract.fn(args)` -/
structure Inv where
  contract : Nat
  fn : Nat
  args : List Val
  deriving DecidableEq, Repr

/-- what `user.require_auth_for_args` is called with in `collect_fee_and_invoke` -/
structure AuthTuple where
  token : Nat
  maxFee : Int
  expiration : Nat
  target : Nat
  fn : Nat
  args : List Val
  deriving DecidableEq, Repr

/-- the authorization tree a user signed for the forwarder's entry point -/
structure UserAuth where
  signer : Nat
  tuple : AuthTuple
  subs : List Inv
  deriving Repr

structure Auth where
  plain : List Nat
  user : Option UserAuth
  deriving Repr

inductive Err where
  | feeTokenNotAllowed | feeTokenAlreadyAllowed | tokenCountOverflow | invalidFeeBounds
  | noTokensToSweep | invalidUser | invalidExpirationLedger
  | auth | role | target | panic
  | token (e : OZ.Fungible.Err)
  deriving DecidableEq, Repr

/-! ### fee-token allow-list: `Count`, `Token(i)`, `TokenIndex(token)` -/

structure AllowList where
  count : Nat
  tokenAt : Nat → Option Nat
  indexOf : Nat → Option Nat

def AllowList.empty : AllowList := ⟨0, fun _ => none, fun _ => none⟩

/-- `set_allowed_fee_token(token, true)` -/
def allowToken (al : AllowList) (t : Nat) : Except Err AllowList :=
  if (al.indexOf t).isSome then .error .feeTokenAlreadyAllowed
  else if al.count + 1 ≤ U32_MAX then
    .ok { count := al.count + 1
          tokenAt := upd al.tokenAt al.count (some t)
          indexOf := upd al.indexOf t (some al.count) }
  else .error .tokenCountOverflow

/-- "Move last token into the removed slot" + "Update moved token's index mapping";
`.expect("last token to be present")` is a panic -/
def moveLast (al : AllowList) (ri last : Nat) : Except Err AllowList :=
  if ri = last then .ok al
  else
    match al.tokenAt last with
    | none => .error .panic
    | some lt =>
      .ok { al with tokenAt := upd al.tokenAt ri (some lt), indexOf := upd al.indexOf lt (some ri) }

/-- "Remove last index entry", "Remove mapping for the removed token", `count -= 1` -/
def popLast (al : AllowList) (t last : Nat) : AllowList :=
  { count := last, tokenAt := upd al.tokenAt last none, indexOf := upd al.indexOf t none }

/-- the swap-and-pop branch; `count - 1` on `u32` panics for `count = 0`
(`overflow-checks = true`; unreachable, see `disallow_never_panics`) -/
def removeAt (al : AllowList) (t ri : Nat) : Except Err AllowList :=
  if al.count = 0 then .error .panic
  else
    match moveLast al ri (al.count - 1) with
    | .error e => .error e
    | .ok al1 => .ok (popLast al1 t (al.count - 1))

/-- `set_allowed_fee_token(token, false)` -/
def disallowToken (al : AllowList) (t : Nat) : Except Err AllowList :=
  match al.indexOf t with
  | none => .error .feeTokenNotAllowed
  | some ri => removeAt al t ri

def setAllowed (al : AllowList) (t : Nat) (allowed : Bool) : Except Err AllowList :=
  if allowed then allowToken al t else disallowToken al t

/-- `is_fee_token_allowlist_enabled` -/
def allowlistEnabled (al : AllowList) : Bool := decide (al.count > 0)

/-- `is_allowed_fee_token` (TTL extension is not modelled) -/
def isAllowedFeeToken (al : AllowList) (t : Nat) : Bool :=
  if al.count > 0 then (al.indexOf t).isSome else true

/-- the enumeration `Token(0), …, Token(count-1)` -/
def enumerate (al : AllowList) : List Nat := (List.range al.count).filterMap al.tokenAt

/-! ### state of the forwarder's world -/

inductive Event where
  | feeCollected (user recipient token : Nat) (amount : Int)
  | forwardExecuted (user target fn : Nat) (args : List Val)
  | allowlistUpdated (token : Nat) (allowed : Bool)
  | tokensSwept (token recipient : Nat) (amount : Int)
  deriving DecidableEq, Repr

structure State where
  al : AllowList
  toks : Nat → OZ.Fungible.State      -- the fee tokens, by contract address
  now : Nat                            -- current ledger
  calls : List Inv                     -- call log of the target contract(s), oldest first
  events : List Event                  -- the forwarder's own events, oldest first

def init (now : Nat) : State :=
  { al := AllowList.empty, toks := fun _ => OZ.Fungible.init now, now := now, calls := [], events := [] }

/-- configuration: host ledger parameters, the forwarder's own address, role members
(fixed by the permissioned example's constructor) -/
structure Params where
  cfg : Cfg
  self : Nat
  managers : List Nat
  executors : List Nat

structure Call where
  token : Nat
  fee : Int
  maxFee : Int
  expiration : Nat
  target : Nat
  fn : Nat
  args : List Val
  deriving Repr

inductive Approval where
  | lazy | eager
  deriving DecidableEq, Repr

/-- behaviour of the forwarded-to contract for this call (oracle) -/
inductive Target where
  | ok | fail | needsUser
  deriving DecidableEq, Repr

def emit (s : State) (ev : Event) : State := { s with events := s.events ++ [ev] }

/-- the token contract `t` as seen at the current ledger -/
def tokAt (s : State) (t : Nat) : OZ.Fungible.State := { s.toks t with now := s.now }

/-- result of a cross-contract call into token `t`: its new state, or the failure -/
def liftTok (s : State) (t : Nat) (r : Except OZ.Fungible.Err OZ.Fungible.State) : Except Err State :=
  match r with
  | .ok ts => .ok { s with toks := upd s.toks t ts }
  | .error e => .error (.token e)

/-! ### authorization -/

def ensure (b : Bool) (e : Err) : Except Err Unit := if b then .ok () else .error e

/-- `a.require_auth()` at the top level of the forwarder's entry point -/
def requireAuth (au : Auth) (a : Nat) : Except Err Unit := ensure (decide (a ∈ au.plain)) .auth

/-- the user signed a tree whose root carries exactly `tp` -/
def userSigned (au : Auth) (user : Nat) (tp : AuthTuple) : Bool :=
  match au.user with
  | some ua => decide (ua.signer = user ∧ ua.tuple = tp)
  | none => false

/-- `user.require_auth_for_args(tp)` -/
def requireAuthForArgs (au : Auth) (user : Nat) (tp : AuthTuple) : Except Err Unit :=
  ensure (userSigned au user tp) .auth

/-- the user's tree contains the nested invocation `i` -/
def subSigned (au : Auth) (user : Nat) (i : Inv) : Bool :=
  match au.user with
  | some ua => decide (ua.signer = user ∧ i ∈ ua.subs)
  | none => false

def ensureRole (members : List Nat) (a : Nat) : Except Err Unit := ensure (decide (a ∈ members)) .role

def FN_APPROVE : Nat := 100

def tupleOf (c : Call) : AuthTuple := ⟨c.token, c.maxFee, c.expiration, c.target, c.fn, c.args⟩
def targetInv (c : Call) : Inv := ⟨c.target, c.fn, c.args⟩

/-- `fee_token.approve(user, forwarder, max_fee_amount, expiration_ledger)` as an invocation -/
def approveInv (p : Params) (tok user : Nat) (max : Int) (exp : Nat) : Inv :=
  ⟨tok, FN_APPROVE, [.addr user, .addr p.self, .i128 max, .u32 exp]⟩

/-! ### `collect_fee` -/

/-- `validate_fee_bounds` -/
def validateFeeBounds (fee max : Int) : Except Err Unit :=
  if fee ≤ 0 ∨ fee > max then .error .invalidFeeBounds else .ok ()

/-- `validate_expiration_ledger` -/
def validateExpirationLedger (now exp : Nat) : Except Err Unit :=
  if exp < now then .error .invalidExpirationLedger else .ok ()

/-- `token_client.approve(user, current_contract, max, expiration)`: the token demands the
user's authorization of this nested invocation -/
def tokenApprove (p : Params) (s : State) (au : Auth) (tok user : Nat) (max : Int) (exp : Nat) :
    Except Err State :=
  liftTok s tok (OZ.Fungible.approve p.cfg (tokAt s tok)
    (if subSigned au user (approveInv p tok user max exp) then [user] else []) user p.self max exp)

/-- the `match approval { Eager => …, Lazy => … }` of `collect_fee` -/
def approveStep (p : Params) (s : State) (au : Auth) (tok user : Nat) (max : Int) (exp : Nat) :
    Approval → Except Err State
  | .eager => tokenApprove p s au tok user max exp
  | .lazy =>
    if OZ.Fungible.allowance (tokAt s tok) user p.self < max then tokenApprove p s au tok user max exp
    else
      match validateExpirationLedger s.now exp with
      | .error e => .error e
      | .ok _ => .ok s

/-- `token_client.transfer_from(current_contract, user, fee_recipient, fee_amount)`: the
spender is the invoking contract -/
def tokenTransferFrom (p : Params) (s : State) (tok user rcp : Nat) (fee : Int) : Except Err State :=
  liftTok s tok (OZ.Fungible.transferFrom p.cfg (tokAt s tok) [p.self] p.self user rcp fee)

/-- `collect_fee` -/
def collectFee (p : Params) (s : State) (au : Auth) (tok : Nat) (fee max : Int) (exp : Nat)
    (user rcp : Nat) (ap : Approval) : Except Err State := do
  ensure (isAllowedFeeToken s.al tok) .feeTokenNotAllowed
  ensure (decide (p.self ≠ user)) .invalidUser
  validateFeeBounds fee max
  let s1 ← approveStep p s au tok user max exp ap
  let s2 ← tokenTransferFrom p s1 tok user rcp fee
  pure (emit s2 (.feeCollected user rcp tok fee))

/-! ### `collect_fee_and_invoke` -/

def logCall (s : State) (i : Inv) : State := { s with calls := s.calls ++ [i] }

/-- `e.invoke_contract(target_contract, target_fn, target_args)` -/
def invokeTarget (s : State) (au : Auth) (user : Nat) (i : Inv) : Target → Except Err State
  | .ok => .ok (logCall s i)
  | .fail => .error .target
  | .needsUser => if subSigned au user i then .ok (logCall s i) else .error .auth

/-- `collect_fee_and_invoke` -/
def collectFeeAndInvoke (p : Params) (s : State) (au : Auth) (c : Call) (user rcp : Nat)
    (ap : Approval) (tgt : Target) : Except Err State := do
  requireAuthForArgs au user (tupleOf c)
  let s1 ← collectFee p s au c.token c.fee c.maxFee c.expiration user rcp ap
  let s2 ← invokeTarget s1 au user (targetInv c) tgt
  pure (emit s2 (.forwardExecuted user c.target c.fn c.args))

/-! ### `sweep_token` -/

def sweepToken (p : Params) (s : State) (tok rcp : Nat) : Except Err State :=
  if (tokAt s tok).bal p.self = 0 then .error .noTokensToSweep
  else
    match liftTok s tok (OZ.Fungible.transfer (tokAt s tok) [p.self] p.self rcp ((tokAt s tok).bal p.self)) with
    | .error e => .error e
    | .ok s1 => .ok (emit s1 (.tokensSwept tok rcp ((tokAt s tok).bal p.self)))

def setAllowedFeeToken (s : State) (tok : Nat) (allowed : Bool) : Except Err State :=
  match setAllowed s.al tok allowed with
  | .error e => .error e
  | .ok al => .ok (emit { s with al := al } (.allowlistUpdated tok allowed))

/-! ### the examples' entry points -/

/-- examples/fee-forwarder-permissionless `forward`: relayer auth, eager, relayer collects -/
def forwardPermissionless (p : Params) (s : State) (au : Auth) (c : Call) (user relayer : Nat)
    (tgt : Target) : Except Err State := do
  requireAuth au relayer
  collectFeeAndInvoke p s au c user relayer .eager tgt

/-- examples/fee-forwarder-permissioned `forward`: `#[only_role(relayer, "executor")]` =
`ensure_role` then `relayer.require_auth()`; lazy, the contract itself collects -/
def forwardPermissioned (p : Params) (s : State) (au : Auth) (c : Call) (user relayer : Nat)
    (tgt : Target) : Except Err State := do
  ensureRole p.executors relayer
  requireAuth au relayer
  collectFeeAndInvoke p s au c user p.self .lazy tgt

/-- `enable_fee_token` / `disable_fee_token`: `#[only_role(operator, "manager")]` -/
def managerSetAllowed (p : Params) (s : State) (au : Auth) (tok operator : Nat) (allowed : Bool) :
    Except Err State := do
  ensureRole p.managers operator
  requireAuth au operator
  setAllowedFeeToken s tok allowed

/-- `sweep_tokens`: `#[only_role(operator, "manager")]` -/
def managerSweep (p : Params) (s : State) (au : Auth) (tok rcp operator : Nat) : Except Err State := do
  ensureRole p.managers operator
  requireAuth au operator
  sweepToken p s tok rcp

/-! ### the world as a state machine -/

inductive Op where
  | mint (tok to : Nat) (amt : Int)                         -- set-up: token mint (un-gated harness token)
  | approve (tok owner sp : Nat) (amt : Int) (lu : Nat)     -- a user's direct `approve` on a token
  | advance (n : Nat)
  | forwardPL (c : Call) (user relayer : Nat) (tgt : Target)
  | forwardPD (c : Call) (user relayer : Nat) (tgt : Target)
  | forwardLib (c : Call) (user rcp : Nat) (ap : Approval) (tgt : Target)  -- the bare library function
  | setAllowedPD (tok operator : Nat) (allowed : Bool)
  | sweepPD (tok rcp operator : Nat)
  | setAllowedLib (tok : Nat) (allowed : Bool)
  | sweepLib (tok rcp : Nat)
  deriving Repr

def apply (p : Params) (s : State) (au : Auth) : Op → Except Err State
  | .mint tok to amt => liftTok s tok (OZ.Fungible.mint (tokAt s tok) to amt)
  | .approve tok o sp amt lu => liftTok s tok (OZ.Fungible.approve p.cfg (tokAt s tok) au.plain o sp amt lu)
  | .advance n => .ok { s with now := s.now + n }
  | .forwardPL c u r tgt => forwardPermissionless p s au c u r tgt
  | .forwardPD c u r tgt => forwardPermissioned p s au c u r tgt
  | .forwardLib c u r ap tgt => collectFeeAndInvoke p s au c u r ap tgt
  | .setAllowedPD tok o a => managerSetAllowed p s au tok o a
  | .sweepPD tok r o => managerSweep p s au tok r o
  | .setAllowedLib tok a => setAllowedFeeToken s tok a
  | .sweepLib tok r => sweepToken p s tok r

/-- a failed invocation is rolled back by the host -/
def step (p : Params) (s : State) (x : Auth × Op) : State :=
  match apply p s x.1 x.2 with
  | .ok s' => s'
  | .error _ => s

def run (p : Params) (s : State) (ops : List (Auth × Op)) : State := ops.foldl (step p) s

/-! ### what a successful forward demands (compared with `env.auths()` of the real host) -/

/-- nested invocations of the user's tree that a successful forward consumes, in order -/
def usedSubs (p : Params) (s : State) (c : Call) (user : Nat) (ap : Approval) (tgt : Target) : List Inv :=
  (if ap = .eager ∨ OZ.Fungible.allowance (tokAt s c.token) user p.self < c.maxFee
    then [approveInv p c.token user c.maxFee c.expiration] else [])
  ++ (if tgt = .needsUser then [targetInv c] else [])

/-! ### the allow-list alone as a machine (for the refinement theorems) -/

def alStep (al : AllowList) (x : Nat × Bool) : AllowList :=
  match setAllowed al x.1 x.2 with
  | .ok al' => al'
  | .error _ => al

def alRun (al : AllowList) (ops : List (Nat × Bool)) : AllowList := ops.foldl alStep al

/-- the plain set the allow-list stands for: tokens allowed and not since removed -/
def specStep (S : Nat → Bool) (x : Nat × Bool) : Nat → Bool := fun t => if t = x.1 then x.2 else S t
def specRun (S : Nat → Bool) (ops : List (Nat × Bool)) : Nat → Bool := ops.foldl specStep S

end OZ.FeeForwarder
