import OZ.Model.RegClaims
import OZ.Model.RegMonUtil
/-
The `claims` MONITOR of C20 on parsed values (the sub-driver OZ/Drv/C20Claims.lean parses the trace
lines and calls `checkCore`; it never calls a model transition function). The ghost is the plain map
(issuer, topic) -> printed claim built from the accepted operations. Kept apart from the driver so
that OZ/Props/C20gMon.lean can prove it SOUND (`monitor_accepts_every_model_trace`).
Import-free apart from the model.
-/
namespace OZ.RegClaims.Mon
open OZ.RegMon OZ.RegClaims

def NI : Nat := 3
def NT : Nat := 4
/-- the mock claim issuers reject exactly the claims with empty data -/
def valid (_i _t _sc _sg d : Nat) : Bool := d ≠ 0

def showId (id : Id) : String := s!"{id.1}.{id.2}"
def showClaim (c : Claim) : String := s!"{c.topic}.{c.scheme}.{c.issuer}.{c.sig}.{c.data}.{c.uri}"
def ids : List Id := (List.range NI).flatMap (fun i => (List.range NT).map (fun t => (i, t)))

inductive Cmd where
  | op (o : Op)
  | removeRaw                -- an id that was never produced

/-- the observation line `ok|err ret=<id|-> C=<id:claim,..> BT=<topic:id+id..,..>` -/
structure Obs where
  ok : Bool
  /-- the word after `ret=` -/
  ret : String
  /-- the word after `C=`: `get_claim` over the universe of ids -/
  C : String
  /-- the entries of `BT=`: topic, printed ids of `get_claim_ids_by_topic` -/
  BT : List (Nat × List String)
  /-- the word after `BT=` as printed (for the message only) -/
  BTraw : String

structure Mon where
  map : List (Id × String)      -- id -> printed claim

/-- the plain map -/
def plain (g : Mon) : Cmd → Except String Mon
  | .removeRaw => .error "absent"
  | .op (.add t sc i sg d u) =>
    if d = 0 then .error "invalid_claim"
    else .ok { map := g.map.filter (fun e => e.1 ≠ (i, t)) ++ [((i, t), showClaim ⟨t, sc, i, sg, d, u⟩)] }
  | .op (.remove id) =>
    if (g.map.find? (fun e => e.1 == id)).isSome then .ok { map := g.map.filter (fun e => e.1 ≠ id) } else .error "absent"

/-- the id an accepted `add_claim` returns -/
def retWant (c : Cmd) (ok : Bool) : String :=
  match c, ok with
  | .op (.add t _ i _ _ _), true => showId (i, t)
  | _, _ => "-"

def cWant (g : Mon) : List String :=
  ids.filterMap (fun id => (g.map.find? (fun e => e.1 == id)).map (fun e => s!"{showId id}:{e.2}"))

/-- the printed ids of the stored claims with topic `t` -/
def want (g : Mon) (t : Nat) : List String := (g.map.filter (fun e => e.1.2 == t)).map (fun e => showId e.1)

/-- by-topic index: each topic lists exactly the ids of the stored claims with that topic, once -/
def topicOk (g : Mon) (bt : List (Nat × List String)) (t : Nat) : Bool :=
  match bt.find? (fun x => x.1 == t) with
  | some (_, l) => nodupB l && sameSet l (want g t)
  | none => false

/-- the monitor's step on parsed values: the accept / refuse decision against the plain map, then
every getter of the observation against the new plain map -/
def checkCore (g : Mon) (c : Cmd) (o : Obs) : Mon × Option String :=
  ((decide2 "claims" g (plain g c) o.ok "valid").1,
   firstFail [(decide2 "claims" g (plain g c) o.ok "valid").2,
     chk (o.ret = retWant c o.ok) s!"site=claims.id add_claim returned {o.ret}, expected the id of {retWant c o.ok}",
     chk (o.C = sepBy "," (cWant (decide2 "claims" g (plain g c) o.ok "valid").1))
       s!"site=claims.map get_claim = {o.C} but the plain map gives {sepBy "," (cWant (decide2 "claims" g (plain g c) o.ok "valid").1)}",
     chk ((List.range NT).all (topicOk (decide2 "claims" g (plain g c) o.ok "valid").1 o.BT))
       s!"site=claims.enumerates_once get_claim_ids_by_topic = {o.BTraw} does not list the stored claims of each topic once"])

end OZ.RegClaims.Mon
