import OZ.Model.Gates
import OZ.Model.FungibleMon
/-
The C16 MONITOR on parsed values, and the structured observation of the gates model.

The driver OZ/Drv/C16.lean only parses the trace lines (`parseLine`, `parseObs`, `minitM`) and calls
`checkCore`; the monitor never calls the model's transition functions. It is kept apart from the
driver so that OZ/Props/C16Mon.lean can prove it SOUND: on the observations of the model itself
(`stepM` / `modelObs`, which is exactly the data the model side of the driver prints, see
`OZ.Drv.C16.stepLine` / `obsLine`) the monitor never reports a failure. Import-free apart from the
models.

First part: the model side of the driver (the eight machines behind `kind=` of a sequence label,
one parsed op through the model, the structured observation). Second part: the monitor.
(The ninth machine, `kind=stk`, stacked guards, has its own model side and monitor core:
OZ/Model/GatesStkMon.lean.)
-/
namespace OZ.Gates.Mon
open OZ.Host OZ.Fungible OZ.Gates
open OZ.FungibleMon (Kind balList allowList orElse)

/-- size of the observed account universe (balances, list status) -/
def NU : Nat := 5

/-! ## model side: the machines of the driver -/

inductive St where
  | ptok (s : PTok)
  | pcnt (s : PCnt)
  | alib (s : LTok)
  | blib (s : LTok)
  | aex (s : LEx)
  | bex (s : LEx)
  | cap (s : CTok)
  | mig (s : Mig) (ver : Nat)     -- ver: 0 harness contract, 1 v1 example, 2 prebuilt v2 wasm
  | bad

inductive GOp where
  | tok (o : Fungible.Op)
  | pause (c : Nat) | unpause (c : Nat) | increment | reset
  | setList (u : Nat) (on : Bool) (operator : Option Nat)
  | enable | ensure | complete
  | migrate (d : Nat × Nat) (operator : Nat)
  | upgrade (operator : Nat)
  | setCap (c : Int)          -- `capped::set_cap` called again by the contract (the library allows lowering the cap below the supply)

def ofExcept {α} (f : α → St) : Except Err α → St
  | .ok a => f a
  | .error _ => .bad

/-- `none` = rejected -/
def okSt {α : Type} (f : α → St) : Except Err α → Option St
  | .ok a => some (f a)
  | .error _ => none

def applyPTok (cfg : Cfg) (s : PTok) (auth : List Nat) : GOp → Option St
  | .tok o => okSt .ptok (PTok.apply cfg s auth (.tok o))
  | .pause c => okSt .ptok (PTok.apply cfg s auth (.pause c))
  | .unpause c => okSt .ptok (PTok.apply cfg s auth (.unpause c))
  | _ => none

def applyPCnt (s : PCnt) (auth : List Nat) : GOp → Option St
  | .tok (.advance _) => some (.pcnt s)
  | .increment => okSt .pcnt (PCnt.apply s auth .increment)
  | .reset => okSt .pcnt (PCnt.apply s auth .emergencyReset)
  | .pause c => okSt .pcnt (PCnt.apply s auth (.pause c))
  | .unpause c => okSt .pcnt (PCnt.apply s auth (.unpause c))
  | _ => none

def applyALib (cfg : Cfg) (s : LTok) (auth : List Nat) : GOp → Option St
  | .tok o => okSt .alib (ALib.apply cfg s auth (.tok o))
  | .setList u on _ => okSt .alib (ALib.apply cfg s auth (.setList u on 0))
  | _ => none

def applyBLib (cfg : Cfg) (s : LTok) (auth : List Nat) : GOp → Option St
  | .tok o => okSt .blib (BLib.apply cfg s auth (.tok o))
  | .setList u on _ => okSt .blib (BLib.apply cfg s auth (.setList u on 0))
  | _ => none

def applyAEx (cfg : Cfg) (s : LEx) (auth : List Nat) : GOp → Option St
  | .tok o => okSt .aex (AEx.apply cfg s auth (.tok o))
  | .setList u on (some o) => okSt .aex (AEx.apply cfg s auth (.setList u on o))
  | _ => none

def applyBEx (cfg : Cfg) (s : LEx) (auth : List Nat) : GOp → Option St
  | .tok o => okSt .bex (BEx.apply cfg s auth (.tok o))
  | .setList u on (some o) => okSt .bex (BEx.apply cfg s auth (.setList u on o))
  | _ => none

def applyCap (cfg : Cfg) (s : CTok) (auth : List Nat) : GOp → Option St
  | .tok o => okSt .cap (CTok.apply cfg s auth o)
  | .setCap c => okSt .cap (setCap s c)
  | _ => none

/-- migration: which entry points the installed executable exposes (`v` = 0 harness contract with
the storage functions as pass-throughs, 1 v1 example without `migrate`, 2 prebuilt v2 wasm) -/
def applyMig (s : Mig) (v : Nat) (auth : List Nat) : GOp → Option St
  | .tok (.advance _) => some (.mig s v)
  | .enable => if v = 0 then okSt (St.mig · 0) (Mig.apply s auth .enable) else none
  | .ensure => if v = 0 then okSt (St.mig · 0) (Mig.apply s auth .ensure) else none
  | .complete => if v = 0 then okSt (St.mig · 0) (Mig.apply s auth .complete) else none
  | .migrate d o => if v = 1 then none else okSt (St.mig · v) (Mig.apply s auth (.migrate d o))
  | .upgrade o => okSt (St.mig · 2) (Mig.apply s auth (.upgrade 1 o))
  | _ => none

/-- the model's transition for one parsed op; `none` = rejected -/
def applyModel (cfg : Cfg) (st : St) (auth : List Nat) (op : GOp) : Option St :=
  match st with
  | .ptok s => applyPTok cfg s auth op
  | .pcnt s => applyPCnt s auth op
  | .alib s => applyALib cfg s auth op
  | .blib s => applyBLib cfg s auth op
  | .aex s => applyAEx cfg s auth op
  | .bex s => applyBEx cfg s auth op
  | .cap s => applyCap cfg s auth op
  | .mig s v => applyMig s v auth op
  | .bad => none

def tokOf : St → Option Fungible.State
  | .ptok s => some s.tok
  | .alib s => some s.tok
  | .blib s => some s.tok
  | .aex s => some s.t.tok
  | .bex s => some s.t.tok
  | .cap s => some s.tok
  | _ => none

def logOf : St → List GEvent
  | .ptok s => s.p.log
  | .pcnt s => s.p.log
  | .alib s => s.log
  | .blib s => s.log
  | .aex s => s.t.log
  | .bex s => s.t.log
  | _ => []

/-- who must authorize an accepted call -/
def demandedBy (st : St) : GOp → List Nat
  | .tok (.mint _ _) => match st with | .ptok s => [s.owner] | _ => []
  | .tok o => o.required
  | .pause c => [c]
  | .unpause c => [c]
  | .setList _ _ (some o) => [o]
  | .migrate _ o => [o]
  | .upgrade o => [o]
  | _ => []

def retOf (st : St) (op : GOp) : String :=
  match st, op with
  | .pcnt s, .increment => toString s.counter
  | _, _ => "-"

/-- the model state of a sequence: the machine and the ledger as the driver tracks it (machines
with a token carry their own ledger in the token state) -/
structure MSt where
  st : St
  now : Nat

def nowStep (now : Nat) : GOp → Nat
  | .tok (.advance n) => now + n
  | _ => now

/-- one op through the model: the new state (unchanged when the call is rejected: the host rolls
back) and whether the call was accepted -/
def stepM (cfg : Cfg) (x : MSt) (auth : List Nat) (op : GOp) : MSt × Bool :=
  match applyModel cfg x.st auth op with
  | some st' => (⟨st', nowStep x.now op⟩, true)
  | none => (x, false)

/-! ### the sequence label, parsed -/

inductive MKind where
  | ptok | pcnt | alib | blib | aex | bex | cap | mig
  | other (s : String)
  deriving DecidableEq

def MKind.name : MKind → String
  | .ptok => "ptok" | .pcnt => "pcnt" | .alib => "alib" | .blib => "blib"
  | .aex => "aex" | .bex => "bex" | .cap => "cap" | .mig => "mig"
  | .other s => s

structure Params where
  kind : MKind
  owner : Nat
  mgr : Nat
  init : Int
  cap : Int
  ver : Nat
  start : Nat

/-- the machine a sequence starts with (the constructors of the contracts) -/
def initSt (p : Params) : St :=
  match p.kind with
  | .ptok => ofExcept .ptok (PTok.construct p.start p.owner p.init)
  | .pcnt => .pcnt (PCnt.construct p.owner)
  | .alib => .alib (LTok.empty p.start)
  | .blib => .blib (LTok.empty p.start)
  | .aex => ofExcept .aex (AEx.construct p.start p.owner p.mgr p.init)
  | .bex => ofExcept .bex (BEx.construct p.start p.owner p.mgr p.init)
  | .cap => ofExcept .cap (CTok.construct p.start p.cap)
  | .mig => .mig (Mig.init p.owner) p.ver
  | .other _ => .bad

def initM (p : Params) : MSt := ⟨initSt p, p.start⟩

/-! ### the observation line, parsed

`ok|err [sup=<i> bal=<b0,..,b4> allow=<o:sp:a;..|->] [ret=..] now=<ledger> ev=.. dem=..` followed by
the getters of the machine: `paused=<0|1>` / `counter=<i> paused=<0|1>` / `list=<5 bits>` /
`cap=<i|?>` / `migrating=<0|1> data=<a:b|-> wasm=<0|1>`. `Stable` holds everything a rejected call
must leave unchanged (all words but the tag, `ev=`, `dem=`, `ret=`); a field the line does not carry
reads as its default. -/

structure Stable where
  sup : Int
  bal : List Int
  allow : List (Nat × Nat × Int)
  now : Nat
  paused : Bool
  counter : Int
  list : List Bool
  cap : Option Int
  migrating : Bool
  data : Option (Nat × Nat)
  wasm : Bool
  deriving DecidableEq

structure Obs where
  ok : Bool
  st : Stable
  lev : List GEvent      -- the list-change events among `ev=` (allowed / disallowed / blocked / unblocked)

def supOf (st : St) : Int := match tokOf st with | some t => t.supply | none => 0
def balOf (st : St) : List Int := match tokOf st with | some t => balList NU t | none => []
def allowOf (st : St) : List (Nat × Nat × Int) := match tokOf st with | some t => allowList NU t | none => []
def nowOf (x : MSt) : Nat := match tokOf x.st with | some t => t.now | none => x.now

def pausedOf : St → Bool
  | .ptok s => s.p.paused
  | .pcnt s => s.p.paused
  | _ => false

def counterOf : St → Int
  | .pcnt s => s.counter
  | _ => 0

def statusList (f : Nat → Bool) : List Bool := (List.range NU).map f

def listOf : St → List Bool
  | .alib s => statusList s.listed
  | .blib s => statusList s.listed
  | .aex s => statusList s.t.listed
  | .bex s => statusList s.t.listed
  | _ => []

def capOf : St → Option Int
  | .cap s => s.cap
  | _ => none

def migratingOf : St → Bool
  | .mig s _ => s.migrating
  | _ => false

def dataOf : St → Option (Nat × Nat)
  | .mig s _ => s.data
  | _ => none

def wasmOf : St → Bool
  | .mig _ ver => ver == 2
  | _ => false

/-- every getter the model driver prints for a state (see `OZ.Drv.C16.obsLine`, which prints
exactly these fields) -/
def stableOf (x : MSt) : Stable :=
  { sup := supOf x.st, bal := balOf x.st, allow := allowOf x.st, now := nowOf x,
    paused := pausedOf x.st, counter := counterOf x.st, list := listOf x.st, cap := capOf x.st,
    migrating := migratingOf x.st, data := dataOf x.st, wasm := wasmOf x.st }

/-- the events a call added to the module's log: what the model driver prints under `ev=` besides the
token's own events (`OZ.Drv.C16.stepLine`; empty for a rejected call, whose state is the old one) -/
def newEvents (st st' : St) : List GEvent := (logOf st').drop (logOf st).length

/-- the list-change events among them (the pause events are judged through `paused()`) -/
def isListEv : GEvent → Bool
  | .paused => false
  | .unpaused => false
  | _ => true

/-- the model's observation of a call: the tag, the getters of the state after it, and the list-change
events the call emitted -/
def modelObs (x : MSt) (ok : Bool) (ev : List GEvent) : Obs := ⟨ok, stableOf x, ev.filter isListEv⟩

/-! ## the monitor -/

/-! ### the op line, parsed

`fungible <kind> a=.. amt=.. lu=.. auth=..` / `fungible advance n=<k>` / `gate <name> a=.. d=.. auth=..` -/

inductive GName where
  | pause | unpause | increment | reset | allow | block | disallow | unblock
  | enable | ensure | complete | migrate | upgrade | setcap
  | other (s : String)
  deriving DecidableEq

def GName.name : GName → String
  | .pause => "pause" | .unpause => "unpause" | .increment => "increment" | .reset => "reset"
  | .allow => "allow" | .block => "block" | .disallow => "disallow" | .unblock => "unblock"
  | .enable => "enable" | .ensure => "ensure" | .complete => "complete" | .migrate => "migrate"
  | .upgrade => "upgrade"
  | .setcap => "setcap"
  | .other s => s

/-- first two words of an op line -/
inductive Call where
  | fungible (k : Kind)
  | gate (g : GName)
  | other
  deriving DecidableEq

def Call.name : Call → String
  | .fungible k => k.name
  | .gate g => g.name
  | .other => ""

def Call.isGate : Call → Bool
  | .gate _ => true
  | _ => false

structure Line where
  call : Call
  a : List Nat          -- `a=`: the addresses of the call in the order of the entry point
  auth : List Nat       -- `auth=`: the exact signer set the call ran with
  n : Nat               -- `n=` of an advance (0 when absent); only printed

/-- only the ledger moves -/
def Line.idle (l : Line) : Bool := decide (l.call = .fungible .advance)

/-! ### monitor state -/

structure Mon where
  kind : MKind
  owner : Nat
  mgr : Nat
  cap : Int                   -- the cap in force: the constructor's, then that of the last accepted `set_cap`
  sup : Int                   -- total supply observed after the previous call (0 at deployment)
  paused : Bool               -- ghost flag: moved only by accepted pause / unpause calls
  ghost : Nat → Bool          -- list status per party, from accepted list changes only
  credit : Bool               -- an enable / upgrade happened since the last completed migration
  prev : Option Stable        -- getters of the previous observation

def MKind.hasPause : MKind → Bool
  | .ptok => true | .pcnt => true | _ => false

def MKind.isList : MKind → Bool
  | .alib => true | .aex => true | .blib => true | .bex => true | _ => false

def MKind.allowKind : MKind → Bool
  | .alib => true | .aex => true | _ => false

def MKind.isEx : MKind → Bool
  | .aex => true | .bex => true | _ => false

/-- the monitor's initial state for a sequence -/
def monInit (p : Params) : Mon :=
  { kind := p.kind, owner := p.owner, mgr := p.mgr, cap := p.cap, sup := 0, paused := false,
    ghost := fun i => decide (p.kind = .aex ∧ i = p.owner), credit := false, prev := none }

/-! ### ghost updates (from the op line and the IMPLEMENTATION's verdict only) -/

/-- the list status after an accepted list change -/
def listStep (g : Nat → Bool) (l : Line) : Nat → Bool :=
  match l.call, l.a.head? with
  | .gate .allow, some u => upd g u true
  | .gate .block, some u => upd g u true
  | .gate .disallow, some u => upd g u false
  | .gate .unblock, some u => upd g u false
  | _, _ => g

def ghostStep (m : Mon) (l : Line) (ok : Bool) : Nat → Bool :=
  if ok ∧ m.kind.isList then listStep m.ghost l else m.ghost

/-- the migration credit after an accepted call -/
def creditF (c : Bool) (l : Line) : Bool :=
  if l.call = .gate .enable ∨ l.call = .gate .upgrade then true
  else if l.call = .gate .migrate ∨ l.call = .gate .complete then false
  else c

def creditStep (m : Mon) (l : Line) (ok : Bool) : Bool :=
  if ok then creditF m.credit l else m.credit

/-- the pause flag after an accepted call -/
def pausedF (p : Bool) (l : Line) : Bool :=
  if l.call = .gate .pause then true
  else if l.call = .gate .unpause then false
  else p

def pausedStep (m : Mon) (l : Line) (ok : Bool) : Bool :=
  if ok ∧ m.kind.hasPause then pausedF m.paused l else m.paused

/-! ### the checks -/

/-- a rejected call has no observable effect -/
def vRollback (m : Mon) (o : Obs) : Option String :=
  if ¬ o.ok ∧ m.prev.isSome ∧ m.prev ≠ some o.st then
    some s!"site=gates.rollback.{m.kind.name} a rejected call changed the observed state"
  else none

/-- the entry points declared pausable in the two examples -/
def isPausable : Call → Bool
  | .fungible .mint => true
  | .fungible .transfer => true
  | .fungible .transferFrom => true
  | .fungible .burn => true
  | .fungible .burnFrom => true
  | .gate .increment => true
  | _ => false

def vPause (m : Mon) (l : Line) (o : Obs) : Option String :=
  if ¬ m.kind.hasPause then none
  else if o.ok ∧ m.paused ∧ isPausable l.call then
    some s!"site=pausable.bypass.{m.kind.name}.{l.call.name} a pausable entry point was accepted while paused"
  else if o.ok ∧ ¬ m.paused ∧ l.call = .gate .reset then
    some "site=pausable.when_paused.reset emergency_reset accepted while not paused"
  else if o.ok ∧ l.call = .gate .pause ∧ m.paused then
    some s!"site=pausable.alternate.{m.kind.name}.pause pause accepted while paused"
  else if o.ok ∧ l.call = .gate .unpause ∧ ¬ m.paused then
    some s!"site=pausable.alternate.{m.kind.name}.unpause unpause accepted while not paused"
  else if o.ok ∧ (l.call = .gate .pause ∨ l.call = .gate .unpause)
      ∧ (l.a.head? ≠ some m.owner ∨ ¬ l.auth.contains m.owner) then
    some s!"site=pausable.owner.{m.kind.name}.{l.call.name} accepted without the owner's authorization"
  else if l.idle ∧ o.st.paused ≠ pausedStep m l o.ok then
    some s!"site=pause.idle.changed.{m.kind.name} paused() went from {m.paused} to {o.st.paused} while nothing was called (ledger moved by {l.n})"
  else if o.st.paused ≠ pausedStep m l o.ok then
    some s!"site=pausable.flag.{m.kind.name} paused() does not follow the accepted pause / unpause calls"
  else none

/-- the vetted parties of a fungible op line: from/to of transfers, owner of approve, from of burns -/
def vettedOf (k : Kind) (a : List Nat) : List Nat :=
  match k, a with
  | .transfer, [f, t] => [f, t]
  | .transferFrom, [_, f, t] => [f, t]
  | .approve, [o, _] => [o]
  | .burn, [f] => [f]
  | .burnFrom, [_, f] => [f]
  | _, _ => []

def vettedOfCall : Call → List Nat → List Nat
  | .fungible k, a => vettedOf k a
  | _, _ => []

def vList (m : Mon) (l : Line) (o : Obs) : Option String :=
  if ¬ m.kind.isList then none
  else if l.idle ∧ o.st.list ≠ statusList (ghostStep m l o.ok) then
    some s!"site=list.idle.changed.{m.kind.name} allowed()/blocked() went from {statusList m.ghost} to {o.st.list} while nothing was called (ledger moved by {l.n})"
  else if o.st.list ≠ statusList (ghostStep m l o.ok) then
    some s!"site=list.getter.{m.kind.name} allowed()/blocked() = {o.st.list} but accepted list changes give {statusList (ghostStep m l o.ok)}"
  else if o.ok ∧ (vettedOfCall l.call l.a).any (fun p => m.ghost p ≠ m.kind.allowKind) then
    some s!"site=list.bypass.{m.kind.name}.{l.call.name} accepted although a vetted party is {if m.kind.allowKind then "not allowed" else "blocked"}"
  else if o.ok ∧ l.call.isGate ∧ m.kind.isEx ∧ (l.a.getD 1 99 ≠ m.mgr ∨ ¬ l.auth.contains m.mgr) then
    some s!"site=list.role.{m.kind.name}.{l.call.name} list changed without the manager's authorization"
  else none

/-! list changes are idempotent, events included: an accepted allow / disallow / block / unblock that does not
flip the status of the account emits NO list event and changes nothing; one that does flip it emits
exactly the matching event; nothing else emits a list event (`ak`: allow list, `g`: the ghost list) -/

/-- the status a list-change line asks for (`allow` / `block`: listed, `disallow` / `unblock`: not listed) -/
def setOf : Call → Option Bool
  | .gate .allow => some true
  | .gate .block => some true
  | .gate .disallow => some false
  | .gate .unblock => some false
  | _ => none

/-- the event a real change emits -/
def evOf (ak on : Bool) (u : Nat) : GEvent :=
  match ak, on with
  | true, true => .userAllowed u
  | true, false => .userDisallowed u
  | false, true => .userBlocked u
  | false, false => .userUnblocked u

/-- the line asks for the status the account already has -/
def noopF (g : Nat → Bool) (l : Line) : Bool :=
  match setOf l.call, l.a.head? with
  | some on, some u => g u == on
  | _, _ => false

def expectedEvF (ak : Bool) (g : Nat → Bool) (l : Line) : List GEvent :=
  match setOf l.call, l.a.head? with
  | some on, some u => if g u = on then [] else [evOf ak on u]
  | _, _ => []

def evName : GEvent → String
  | .paused => "paused"
  | .unpaused => "unpaused"
  | .userAllowed u => s!"allowed:{u}"
  | .userDisallowed u => s!"disallowed:{u}"
  | .userBlocked u => s!"blocked:{u}"
  | .userUnblocked u => s!"unblocked:{u}"

def evNames (l : List GEvent) : String := if l.isEmpty then "-" else ";".intercalate (l.map evName)

def vListEv (m : Mon) (l : Line) (o : Obs) : Option String :=
  if ¬ m.kind.isList then none
  else if o.ok ∧ noopF m.ghost l ∧ (o.lev ≠ [] ∨ (m.prev.isSome ∧ m.prev ≠ some o.st)) then
    some s!"site=list.idempotent.{m.kind.name} {l.call.name} of an account that already has that status emitted {evNames o.lev} or changed the observed state"
  else if o.ok ∧ o.lev ≠ expectedEvF m.kind.allowKind m.ghost l then
    some s!"site=list.event.{m.kind.name} {l.call.name} emitted {evNames o.lev} but the change of status demands {evNames (expectedEvF m.kind.allowKind m.ghost l)}"
  else none

def showCap (c : Option Int) : String := match c with | some c => toString c | none => "?"

/-- the cap in force after the call: an accepted `set_cap` installs the cap the contract now reports -/
def capStep (m : Mon) (l : Line) (o : Obs) : Int :=
  if o.ok ∧ l.call = .gate .setcap then o.st.cap.getD m.cap else m.cap

def vCap (m : Mon) (l : Line) (o : Obs) : Option String :=
  if m.kind ≠ .cap then none
  else if o.ok ∧ l.call = .gate .setcap ∧ o.st.cap.getD (-1) < 0 then
    some s!"site=capped.setcap an accepted set_cap left the cap {showCap o.st.cap} (negative or unset)"
  else if o.ok ∧ l.call = .gate .setcap then none
  else if l.idle ∧ o.st.cap ≠ some m.cap then
    some s!"site=cap.idle.changed the cap went from {m.cap} to {showCap o.st.cap} while nothing was called (ledger moved by {l.n})"
  else if o.st.cap ≠ some m.cap then
    some s!"site=capped.cap the cap moved from {m.cap} to {showCap o.st.cap}"
  else if m.sup < o.st.sup ∧ o.st.sup > m.cap then
    some s!"site=capped.exceeded a call lifted total_supply from {m.sup} to {o.st.sup} > cap {m.cap}"
  else none

def vMig (m : Mon) (l : Line) (o : Obs) : Option String :=
  if m.kind ≠ .mig then none
  else if o.ok ∧ (l.call = .gate .migrate ∨ l.call = .gate .ensure) ∧ ¬ m.credit then
    some s!"site=migration.without_upgrade.{l.call.name} accepted with no enable / upgrade since the last completion"
  else if l.idle ∧ o.st.migrating ≠ creditStep m l o.ok then
    some s!"site=migration.idle.changed Migrating went from {m.credit} to {o.st.migrating} while nothing was called (ledger moved by {l.n})"
  else if o.st.migrating ≠ creditStep m l o.ok then
    some s!"site=migration.flag Migrating = {o.st.migrating} but the accepted calls give {creditStep m l o.ok}"
  else if o.ok ∧ (l.call = .gate .migrate ∨ l.call = .gate .upgrade)
      ∧ (l.a.head? ≠ some m.owner ∨ ¬ l.auth.contains m.owner) then
    some s!"site=migration.owner.{l.call.name} accepted without the owner's authorization"
  else none

/-- "works again after unpausing": the owner's authorized `unpause` of a paused contract is never refused -/
def vUnpause (m : Mon) (l : Line) (o : Obs) : Option String :=
  if m.kind.hasPause ∧ ¬ o.ok ∧ l.call = .gate .unpause ∧ m.paused ∧ l.a.head? = some m.owner ∧ l.auth.contains m.owner then
    some s!"site=pausable.unpause.refused.{m.kind.name} the owner's authorized unpause of a paused contract was refused: the contract cannot be unpaused"
  else none

/-- the property's conclusion for one call, on observed values only (first failing check) -/
def verdict (m : Mon) (l : Line) (o : Obs) : Option String :=
  orElse (vRollback m o) fun _ =>
  orElse (vPause m l o) fun _ =>
  orElse (vList m l o) fun _ =>
  orElse (vListEv m l o) fun _ =>
  orElse (vCap m l o) fun _ =>
  orElse (vMig m l o) fun _ =>
  vUnpause m l o

/-- the monitor's step on parsed values -/
def checkCore (m : Mon) (l : Line) (o : Obs) : Mon × Option String :=
  ({ m with cap := capStep m l o, sup := o.st.sup, paused := pausedStep m l o.ok, ghost := ghostStep m l o.ok,
            credit := creditStep m l o.ok, prev := some o.st },
   verdict m l o)

end OZ.Gates.Mon
