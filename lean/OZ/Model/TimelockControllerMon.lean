import OZ.Model.TimelockController
/-
The C09 MONITOR on parsed values (the driver OZ/Drv/C09.lean parses the trace lines and calls
`checkCore`; it never calls the model's transition function). Kept apart from the driver so that
OZ/Props/C09Mon.lean can prove it SOUND: on the observations of the model itself the monitor never
reports a failure (`monitor_accepts_every_model_trace`), hence an implementation whose observations
agree with the model's cannot raise a monitor alarm. Import-free apart from the model.

The monitor keeps its own ghost log of the accepted schedule / cancel / execute calls and of the
operations consumed by accepted admin calls and `__check_auth` runs seen on the IMPLEMENTATION trace,
keyed by the operation tuple (`Key`: the model's term `Id`; `none` = an unresolvable reference, `?`),
and checks on every implementation observation
  * every reported operation state and ready ledger against that log (`site=controller.state`;
    the state letter `X` = the boolean views disagree with get_operation_state: `site=controller.views`),
  * an accepted admin-only call on a self-administered controller, an accepted grant / revoke /
    renounce_role called by the controller and every context of an accepted `__check_auth`: a
    descriptor, the operation (controller, fn, args, predecessor, salt) of exactly that call defined,
    pending with its delay elapsed in the log, reported Ready before and Done after, executors as
    configured (`site=controller.admin.unconsumed`, `controller.checkauth.*`),
  * role / authorization conditions of schedule / cancel / execute / accept / grant / revoke /
    renounce_role / admin calls by an external admin, the exact membership effect of role calls,
  * effects need a cause (`controller.effect.*`), Done stays Done (`controller.done`), a rejected call
    changes nothing (`controller.rollback`), nothing stored changes over an idle gap except
    Waiting → Ready by time (`controller.idle.lost`), id-equality ⇔ tuple-equality (`controller.id`).

Conditions that differ from the monitor as it was before the soundness proof (it raised FALSE ALARMS
on model traces that leave the harness's small universe: accounts 0..NACC, roles 0..NROLES-1, contexts
the model driver can read; see `legacy…` at the end of this file and `legacy_monitor_false_alarm_*`
in OZ/Props/C09Mon.lean). On traces within that universe the verdicts are identical:
  * role membership is displayed for accounts 0..NACC and roles 0..NROLES-1 only, so "does not hold
    the role" is claimed only for a displayed account and role (`inU`, `inR`, `cannotTell`): sites
    controller.schedule.role, controller.cancel.role, controller.execute.role, the executor clause of
    `consumed`, controller.role.renounce, controller.role.permission; a grant to an account that is
    not displayed leaves the displayed membership as it was (controller.role.effect); set_role_admin
    of a role that is not displayed cannot be read back (controller.role.effect);
  * the contexts of a `check` line are read as the model driver reads them: an unreadable context
    token, or `k<n>` for an undefined n, is dropped (`liveCtxs`).
All `site=` tokens and messages are unchanged.
-/
namespace OZ.TimelockController.Mon
open OZ.Host OZ.Timelock OZ.TimelockController

def NACC : Nat := 5        -- accounts 0..NACC are displayed
def NROLES : Nat := 4      -- roles 0..NROLES-1 are displayed

def inU (a : Nat) : Bool := decide (a ≤ NACC)
def inR (r : Nat) : Bool := decide (r < NROLES)

/-! ### what the model driver prints (shared with the driver's `showState`) -/

def sortNat (l : List Nat) : List Nat := l.mergeSort (· ≤ ·)

def showDots (l : List Nat) : String :=
  if l.isEmpty then "-" else ".".intercalate ((sortNat l).map toString)

def showOptNat (o : Option Nat) : String := match o with | some a => toString a | none => "-"

def codeOf : OpState → String
  | .unset => "U" | .waiting => "W" | .ready => "R" | .done => "D"

def showSt (s : Timelock.State) (id : Id) : String :=
  s!"{codeOf (getOperationState s id)}:{getOperationLedger s id}"

/-- the displayed accounts that hold role `r` -/
def heldBy (c : CState) (r : Nat) : List Nat := (List.range (NACC + 1)).filter (fun a => c.hasRole r a)

def showRoles (c : CState) : String :=
  "/".intercalate ((List.range NROLES).map (fun r => showDots (heldBy c r)))

def showRadm (c : CState) : String :=
  "/".intercalate ((List.range NROLES).map (fun r => showOptNat (OZ.Access.getRoleAdmin c.ac r)))

def showStates (c : CState) (defs : List Operation) : String :=
  if defs.isEmpty then "-" else ",".intercalate (defs.map (fun d => showSt c.tl d.id))

/-- the call counter of the external target (address 9): how many, function and first argument of the last -/
def showCalls (s : Timelock.State) : String :=
  let cs := s.calls.filter (fun x => x.1 = 9)
  match cs with
  | [] => "0:-:-"
  | (_, f, a) :: _ => s!"{cs.length}:{f}:{(a.headD 0) / 3}"

/-- everything of an observation line after `now=…` -/
def showRaw (c : CState) (defs : List Operation) : String :=
  s!"min={showOptNat c.tl.minDelay} admin={showOptNat c.admin} roles={showRoles c} radm={showRadm c} st={showStates c defs} calls={showCalls c.tl}"

/-! ### parsed trace lines -/

/-- a reference to an id on the wire: `z`, `r<n>`, `o<k>` (the k-th definition), anything else -/
inductive Ref where
  | z
  | raw (n : Nat)
  | op (k : Nat)
  | bad
  deriving DecidableEq, Repr

/-- an operation descriptor on the wire `p:s:e` -/
structure MetaM where
  p : Ref
  s : Nat
  e : Option Nat
  deriving DecidableEq, Repr

/-- a context on the wire: `create`, `k<n>` (the call of the n-th definition), `c:t:f:a`, anything else -/
inductive CtxM where
  | create
  | defk (k : Nat)
  | call (t f : Nat) (args : List Nat)
  | bad
  deriving DecidableEq, Repr

/-- an authorization token on the wire: `c<i>`, `x<i>@<j>` -/
inductive AuthM where
  | call (i : Nat)
  | exec (i j : Nat)
  deriving DecidableEq, Repr

inductive Call where
  | sched (k d by_ : Nat)
  | cancel (r : Ref) (by_ : Nat)
  | exec (k : Nat) (ex : Option Nat) (callok : Nat)
  | update (d : Nat)
  | grant (a r k : Nat)
  | revoke (a r k : Nat)
  | renrole (r k : Nat)
  | setradm (r ar : Nat)
  | transfer (a lu : Nat)
  | renounce
  | accept
  | check (metas : List MetaM) (ctxs : List CtxM)
  | advance (n : Nat)
  /-- any other kind, or a known kind whose arguments cannot be read -/
  | other (kind : String)
  deriving Repr

/-- a call line `tc <kind> …` other than `def` -/
structure CallLine where
  call : Call
  sig : Option (List MetaM)      -- `sig=`: `none` | `e` | descriptors
  auth : List AuthM              -- `auth=`
  deriving Repr

inductive Line where
  | defn (t f : Nat) (args : List Nat) (p : Ref) (s : Nat)
  | badDef
  | call (c : CallLine)
  deriving Repr

def Call.kind : Call → String
  | .sched _ _ _ => "sched"
  | .cancel _ _ => "cancel"
  | .exec _ _ _ => "exec"
  | .update _ => "update"
  | .grant _ _ _ => "grant"
  | .revoke _ _ _ => "revoke"
  | .renrole _ _ => "renrole"
  | .setradm _ _ => "setradm"
  | .transfer _ _ => "transfer"
  | .renounce => "renounce"
  | .accept => "accept"
  | .check _ _ => "check"
  | .advance _ => "advance"
  | .other k => k

/-- a key of the monitor's ghost log: the operation tuple / 32-byte literal; `none` = `?` -/
abbrev Key := Option Id

/-- what a wire reference denotes, given the definitions so far -/
def refKey (defs : List Operation) : Ref → Key
  | .z => some Id.zero
  | .raw n => some (Id.raw n)
  | .op k => (defs[k]?).map Operation.id
  | .bad => none

/-- typed argument token of a coded `Val` -/
def showTyped (v : Nat) : String :=
  if v % 3 = 0 then s!"u{v / 3}" else if v % 3 = 1 then s!"a{v / 3}" else s!"s{v / 3}"

def showArgsT (a : List Nat) : String := if a.isEmpty then "-" else ".".intercalate (a.map showTyped)

/-- canonical text of a tuple (messages only) -/
def idText : Id → String
  | .raw n => s!"raw{n}"
  | .op t f a p s => s!"op({t},{f},{showArgsT a},{idText p},{s})"

def keyText : Key → String
  | some i => idText i
  | none => "?"

/-! ### parsed observations -/

structure Obs where
  ok : Bool
  eq : Option (List Nat)
  now : Nat
  min : Option Nat
  admin : Option Nat
  roles : List (List Nat)
  radm : List (Option Nat)
  st : List (String × Nat)
  raw : String                -- everything after `now=…`, for "nothing changed"
  calls : String

/-- the displayed members of the displayed roles, as parsed back from `roles=` -/
def modelRoles (c : CState) : List (List Nat) := (List.range NROLES).map (fun r => sortNat (heldBy c r))

def modelRadm (c : CState) : List (Option Nat) := (List.range NROLES).map (OZ.Access.getRoleAdmin c.ac)

def modelSt (c : CState) (defs : List Operation) : List (String × Nat) :=
  defs.map (fun d => (codeOf (getOperationState c.tl d.id), getOperationLedger c.tl d.id))

/-- the observation the model driver prints for controller state `c` with the definitions `defs`
(`stepLine` / `showState` of OZ/Drv/C09.lean), as the parsed values the driver's `parseObs` extracts
from that line -/
def modelObs (c : CState) (defs : List Operation) (ok : Bool) (eq : Option (List Nat)) : Obs :=
  { ok := ok, eq := eq, now := c.tl.now, min := c.tl.minDelay, admin := c.admin, roles := modelRoles c,
    radm := modelRadm c, st := modelSt c defs, raw := showRaw c defs, calls := showCalls c.tl }

/-! ### monitor state -/

/-- what the accepted calls seen so far say about an operation (the monitor's own ghost log) -/
inductive G where
  | unset
  | pending (l d : Nat)      -- accepted schedule at ledger `l` with delay `d`, nothing since
  | done
  deriving DecidableEq

structure Mon where
  defs : List Operation        -- the operations defined so far (parsed tuples)
  prev : Option Obs
  ghost : List (Key × G)       -- newest binding first

def Mon.get (m : Mon) (k : Key) : G :=
  match m.ghost.find? (fun p => p.1 = k) with
  | some (_, g) => g
  | none => .unset

def Mon.set (m : Mon) (k : Key) (g : G) : Mon := { m with ghost := (k, g) :: m.ghost }

/-- "the scheduled delay has fully elapsed": `l + d ≤ now`, or the saturated corner -/
def elapsedM (l d now : Nat) : Bool :=
  decide (l + d ≤ now) || (decide (l + d > 4294967295) && decide (now = 4294967295))

def satU32 (a b : Nat) : Nat := if a + b > 4294967295 then 4294967295 else a + b

/-- state and ledger value the accepted history prescribes at ledger `now` -/
def expectedSt (g : G) (now : Nat) : String × Nat :=
  match g with
  | .unset => ("U", 0)
  | .done => ("D", 1)
  | .pending l d => if elapsedM l d now then ("R", satU32 l d) else ("W", satU32 l d)

def firstSome (a b : Option String) : Option String :=
  match a with
  | some x => some x
  | none => b

def stCode (o : Obs) (k : Nat) : String := match o.st[k]? with | some (c, _) => c | none => "?"

/-! ### every reported operation state and ledger value against the ghost log -/

def stateBad (m : Mon) (o : Obs) (k : Nat) : Option String :=
  match m.defs[k]?, o.st[k]? with
  | some d, some (c, l) =>
    if c = "X" then
      some s!"site=controller.views operation {k} {idText d.id}: the controller's operation_exists / is_operation_pending / is_operation_ready / is_operation_done views disagree with get_operation_state"
    else if expectedSt (m.get (some d.id)) o.now ≠ (c, l) then
      some s!"site=controller.state operation {k} {idText d.id}: reported {c}:{l} but the accepted history prescribes {(expectedSt (m.get (some d.id)) o.now).1}:{(expectedSt (m.get (some d.id)) o.now).2} at ledger {o.now}"
    else none
  | _, _ => none

def checkStates (m : Mon) (o : Obs) : Option String :=
  ((List.range o.st.length).filterMap (stateBad m o)).head?

/-! ### the operations an accepted call consumed -/

/-- index of a defined operation with this tuple -/
def findDef (defs : List Operation) (key : Key) : Option Nat :=
  match key with
  | none => none
  | some id => (List.range defs.length).find? (fun k => decide ((defs[k]?).map Operation.id = some id))

/-- the tuple (controller, f, args, predecessor, salt) -/
def opKey (f : Nat) (args : List Nat) (pk : Key) (s : Nat) : Key := pk.map (fun p => Id.op 0 f args p s)

/-- the defined operation a call `(f, args)` on the controller and a descriptor denote, if any -/
def keyOf (defs : List Operation) (f : Nat) (args : List Nat) (md : MetaM) : Option Id :=
  (findDef defs (opKey f args (refKey defs md.p) md.s)).bind (fun k => (defs[k]?).map Operation.id)

def ctxCall (defs : List Operation) : CtxM → Option (Nat × Nat × List Nat)
  | .create => none
  | .defk k => (defs[k]?).map (fun d => (d.target, d.fn, d.args))
  | .call t f a => some (t, f, a)
  | .bad => none

/-- the contexts of a `check` line the model driver can read -/
def liveCtx (defs : List Operation) : CtxM → Bool
  | .bad => false
  | .defk k => decide (k < defs.length)
  | _ => true

def liveCtxs (defs : List Operation) (ctxs : List CtxM) : List CtxM := ctxs.filter (liveCtx defs)

def checkKey (defs : List Operation) (metas : List MetaM) (ctxs : List CtxM) (j : Nat) : Option Id :=
  match (ctxs[j]?).bind (ctxCall defs), metas[j]? with
  | some (0, f, a), some md => keyOf defs f a md
  | _, _ => none

def checkKeys (defs : List Operation) (metas : List MetaM) (ctxs : List CtxM) : List Id :=
  (List.range ctxs.length).filterMap (checkKey defs metas ctxs)

/-- function symbol of the entry point -/
def fnOf : Call → Nat
  | .update _ => 0
  | .grant _ _ _ => 1
  | .revoke _ _ _ => 2
  | .transfer _ _ => 3
  | .setradm _ _ => 5
  | .renrole _ _ => 6
  | _ => 4

/-- coded arguments of the entry point -/
def argsOf : Call → List Nat
  | .update d => [vU32 d]
  | .grant a r k => [vAddr a, vSym r, vAddr k]
  | .revoke a r k => [vAddr a, vSym r, vAddr k]
  | .renrole r k => [vSym r, vAddr k]
  | .setradm r ar => [vSym r, vSym ar]
  | .transfer a lu => [vAddr a, vU32 lu]
  | _ => []

def sigKeys (defs : List Operation) (c : Call) (sig : Option (List MetaM)) : List Id :=
  match sig with
  | some (md :: _) => (keyOf defs (fnOf c) (argsOf c) md).toList
  | _ => []

/-- the operations the accepted call consumed, as far as the op line identifies them -/
def consumedKeys (m : Mon) (cl : CallLine) : List Id :=
  match cl.call with
  | .check metas ctxs => checkKeys m.defs metas (liveCtxs m.defs ctxs)
  | c => sigKeys m.defs c cl.sig

/-- admin-only entry points (`enforce_admin_auth`): the admin authorizes -/
def isAdminKind : Call → Bool
  | .update _ | .transfer _ _ | .renounce | .setradm _ _ => true
  | _ => false

/-- entry points authorized by a caller named in the arguments -/
def isCallerKind : Call → Bool
  | .grant _ _ _ | .revoke _ _ _ | .renrole _ _ => true
  | _ => false

def isCheck : Call → Bool
  | .check _ _ => true
  | _ => false

/-- the caller argument of grant / revoke / renrole -/
def callerOf : Call → Option Nat
  | .grant _ _ k => some k
  | .revoke _ _ k => some k
  | .renrole _ k => some k
  | _ => none

/-- does the accepted call pass the controller's own `require_auth`? -/
def consumes (c : Call) (prevAdmin : Option Nat) : Bool :=
  isCheck c || (isAdminKind c && prevAdmin == some 0) || (isCallerKind c && callerOf c == some 0)

def markDone (m : Mon) (ids : List Id) : Mon := ids.foldl (fun acc id => acc.set (some id) .done) m

/-- the monitor's ghost log after an ACCEPTED call at ledger `now` -/
def ghostStep (m : Mon) (cl : CallLine) (now : Nat) (prevAdmin : Option Nat) : Mon :=
  match cl.call with
  | .sched k d _ =>
    match m.defs[k]? with
    | some op => m.set (some op.id) (.pending now d)
    | none => m
  | .cancel r _ => m.set (refKey m.defs r) .unset
  | .exec k _ _ =>
    match m.defs[k]? with
    | some op => m.set (some op.id) .done
    | none => m
  | c => if consumes c prevAdmin then markDone m (consumedKeys m cl) else m

/-- remember the observation; the verdict on the line, else the state check of every operation -/
def finDef (o : Obs) (m' : Mon) (f : Option String) : Mon × Option String :=
  ({ m' with prev := some o }, firstSome f (checkStates m' o))

def ghostAfter (m : Mon) (cl : CallLine) (o : Obs) (prevAdmin : Option Nat) : Mon :=
  if o.ok then ghostStep m cl o.now prevAdmin else m

def fin (cl : CallLine) (prevAdmin : Option Nat) (o : Obs) (m : Mon) (f : Option String) : Mon × Option String :=
  ({ ghostAfter m cl o prevAdmin with prev := some o }, firstSome f (checkStates (ghostAfter m cl o prevAdmin) o))

/-! ### consumption of a ready operation -/

def early (g : G) (k now : Nat) : Option String :=
  match g with
  | .pending l d =>
    if elapsedM l d now then none
    else some s!"operation {k} for this call was scheduled at ledger {l} with delay {d}: that delay has not elapsed at ledger {now}"
  | .unset => some s!"operation {k} for this call is not scheduled (or was cancelled) according to the accepted history"
  | .done => some s!"operation {k} for this call was already executed according to the accepted history"

def members (prev : Obs) (r : Nat) : List Nat := prev.roles[r]?.getD []

/-- executors as configured before the call -/
def execCheck (prev : Obs) (e : Option Nat) (j : Nat) (auth : List AuthM) : Option String :=
  if (members prev 1).isEmpty then none
  else match e with
    | none => some "executors are configured but no executor was named"
    | some x =>
      if inU x ∧ ¬ (members prev 1).contains x then some s!"named executor {x} does not hold the executor role"
      else if ¬ auth.contains (.exec x j) then some s!"executor {x} did not authorize the execute tuple"
      else none

def keyAt (defs : List Operation) (k : Nat) : Key := (defs[k]?).map Operation.id

/-- the operation names a predecessor which the accepted history does not hold executed -/
def predPending (m : Mon) (k : Nat) : Bool :=
  match m.defs[k]? with
  | some d => decide (d.pred ≠ Id.zero) && decide (m.get (some d.pred) ≠ G.done)
  | none => false

/-- `chk`: also demand the predecessor (a payload with ONE context: no earlier context of the same payload can
have executed it) -/
def consumedAt (m : Mon) (prev o : Obs) (k : Nat) (e : Option Nat) (j : Nat) (auth : List AuthM) (chk : Bool) : Option String :=
  match early (m.get (keyAt m.defs k)) k prev.now with
  | some w => some w
  | none =>
    if chk = true ∧ predPending m k = true then
      some s!"operation {k} for this call names a predecessor that has not been executed according to the accepted history"
    else if stCode prev k ≠ "R" then some s!"operation {k} for this call was {stCode prev k}, not Ready, before the call"
    else if stCode o k ≠ "D" then some s!"operation {k} for this call is {stCode o k}, not Done, after the call"
    else execCheck prev e j auth

/-- the consumption the property demands for one authorized call `(f, args)` on the controller with
descriptor `md` (index `j` in the payload): a defined operation with exactly this tuple, pending
with its delay elapsed in the accepted history, reported Ready before and Done after; executors as
configured before the call -/
def consumed (m : Mon) (prev o : Obs) (f : Nat) (args : List Nat) (md : MetaM) (j : Nat) (auth : List AuthM) (chk : Bool) :
    Option String :=
  match findDef m.defs (opKey f args (refKey m.defs md.p) md.s) with
  | none => some s!"no operation (controller, fn {f}, {showArgsT args}, {keyText (refKey m.defs md.p)}, salt {md.s}) was ever scheduled"
  | some k => consumedAt m prev o k md.e j auth chk

/-! ### verdicts -/

def idleAt (prev o : Obs) (n k : Nat) : Option String :=
  match prev.st[k]?, o.st[k]? with
  | some (a, la), some (b, lb) =>
    if a = b ∧ la = lb then none
    else if a = "W" ∧ b = "R" ∧ la = lb ∧ lb ≤ o.now then none
    else some s!"site=controller.idle.lost operation {k}: {a}:{la} before an idle gap of {n} ledgers, {b}:{lb} after it"
  | _, _ => none

/-- across an idle gap nothing stored may change: only Waiting → Ready, by time -/
def idleCheck (prev o : Obs) (n : Nat) : Option String :=
  if o.min ≠ prev.min then some s!"site=controller.idle.lost the minimum delay changed over an idle gap of {n} ledgers"
  else if o.admin ≠ prev.admin then some s!"site=controller.idle.lost the admin changed over an idle gap of {n} ledgers"
  else if o.roles ≠ prev.roles then some s!"site=controller.idle.lost role membership changed over an idle gap of {n} ledgers"
  else if o.radm ≠ prev.radm then some s!"site=controller.idle.lost a role admin changed over an idle gap of {n} ledgers"
  else if o.calls ≠ prev.calls then some s!"site=controller.idle.lost the target was called during an idle gap"
  else ((List.range prev.st.length).filterMap (idleAt prev o n)).head?

def idle (c : Call) (prev o : Obs) : Option String :=
  match c with
  | .advance n => idleCheck prev o n
  | _ => none

/-- Done stays Done, whatever happens -/
def undoneCheck (prev o : Obs) : Option String :=
  match (List.range prev.st.length).find? (fun k => decide (stCode prev k = "D" ∧ stCode o k ≠ "D")) with
  | some k => some s!"site=controller.done operation {k} was Done and is {stCode o k}"
  | none => none

def rollback (prev o : Obs) : Option String :=
  if o.raw ≠ prev.raw ∨ o.now ≠ prev.now then some "site=controller.rollback a rejected call changed the observable state"
  else none

def isUpdateK : Call → Bool
  | .update _ => true
  | .other k => k == "update"
  | _ => false
def isSetradmK : Call → Bool
  | .setradm _ _ => true
  | .other k => k == "setradm"
  | _ => false
def isAcceptK : Call → Bool
  | .accept => true
  | .other k => k == "accept"
  | _ => false
def isRenounceK : Call → Bool
  | .renounce => true
  | .other k => k == "renounce"
  | _ => false
def isCallerK : Call → Bool
  | .other k => k == "grant" || k == "revoke" || k == "renrole"
  | c => isCallerKind c
def isAdminK : Call → Bool
  | .other k => k == "update" || k == "transfer" || k == "renounce" || k == "setradm"
  | c => isAdminKind c
def isCheckK : Call → Bool
  | .other k => k == "check"
  | c => isCheck c
def isExecK : Call → Bool
  | .exec _ _ _ => true
  | .other k => k == "exec"
  | _ => false

def newlyDone (prev o : Obs) : Bool :=
  ((List.range o.st.length).find? (fun k => decide (stCode prev k ≠ "D" ∧ stCode o k = "D"))).isSome

/-- effects need a cause; operations are consumed (→ Done) only by admin calls, `__check_auth` and execute_op -/
def effect (c : Call) (prev o : Obs) : Option String :=
  if o.min ≠ prev.min ∧ ¬ isUpdateK c then some s!"site=controller.effect.min minimum delay changed by `{c.kind}`"
  else if o.roles ≠ prev.roles ∧ ¬ isCallerK c then some s!"site=controller.effect.roles role membership changed by `{c.kind}`"
  else if o.radm ≠ prev.radm ∧ ¬ isSetradmK c then some s!"site=controller.effect.radm a role admin changed by `{c.kind}`"
  else if o.admin ≠ prev.admin ∧ ¬ isAcceptK c ∧ ¬ isRenounceK c then some s!"site=controller.effect.admin admin changed by `{c.kind}`"
  else if newlyDone prev o ∧ ¬ isAdminK c ∧ ¬ isCallerK c ∧ ¬ isCheckK c ∧ ¬ isExecK c then
    some s!"site=controller.effect.done an operation became Done by `{c.kind}`"
  else none

/-- the controller's own authorization of a role call: a descriptor whose operation for exactly this call was consumed -/
def selfAuth (m : Mon) (prev o : Obs) (cl : CallLine) : Option String :=
  match cl.sig with
  | none => some s!"site=controller.admin.unconsumed `{cl.call.kind} {showArgsT (argsOf cl.call)}` accepted on the controller's own authority without any payload for the controller"
  | some (md :: _) =>
    (consumed m prev o (fnOf cl.call) (argsOf cl.call) md 0 cl.auth true).map (fun why =>
      s!"site=controller.admin.unconsumed `{cl.call.kind} {showArgsT (argsOf cl.call)}` accepted on the controller's own authority but {why}")
  | some [] => some s!"site=controller.admin.unconsumed `{cl.call.kind} {showArgsT (argsOf cl.call)}` accepted on the controller's own authority with 0 operation descriptors for 1 authorized call: no ready operation for exactly that call was consumed"

/-- (account, role, caller) of grant / revoke / renrole -/
def callerParts : Call → Nat × Nat × Nat
  | .grant a r k => (a, r, k)
  | .revoke a r k => (a, r, k)
  | .renrole r k => (k, r, k)
  | _ => (99, 99, 99)

/-- who authorized -/
def callerAuth (m : Mon) (prev o : Obs) (cl : CallLine) (caller : Nat) : Option String :=
  if caller = 0 then selfAuth m prev o cl
  else if ¬ cl.auth.contains (.call caller) then
    some s!"site=controller.role.auth `{cl.call.kind} {showArgsT (argsOf cl.call)}` accepted without {caller}'s authorization"
  else none

def viaRole (prev : Obs) (role caller : Nat) : Bool :=
  match (prev.radm[role]?).join with
  | some ar => (members prev ar).contains caller
  | none => false

/-- the displayed part of the state does not decide whether `caller` holds the admin role of `role` -/
def cannotTell (prev : Obs) (role caller : Nat) : Bool :=
  !inU caller || !inR role ||
  (match (prev.radm[role]?).join with
   | some ar => !inR ar
   | none => false)

/-- who may -/
def callerPerm (prev : Obs) (cl : CallLine) (role caller : Nat) : Option String :=
  match cl.call with
  | .renrole _ _ =>
    if inU caller ∧ inR role ∧ ¬ (members prev role).contains caller then
      some s!"site=controller.role.renounce {caller} renounced role {role} which it did not hold"
    else none
  | _ =>
    if !decide (prev.admin = some caller) && !viaRole prev role caller && !cannotTell prev role caller then
      some s!"site=controller.role.permission `{cl.call.kind} {showArgsT (argsOf cl.call)}`: {caller} is neither the admin nor a holder of the admin role of role {role}"
    else none

def expdMembers (prev : Obs) (c : Call) (acct r : Nat) : List Nat :=
  match c with
  | .grant _ _ _ =>
    if (members prev r).contains acct || !inU acct then members prev r else sortNat (acct :: members prev r)
  | _ => (members prev r).erase acct

/-- what changed: exactly that membership -/
def expdRoles (prev : Obs) (c : Call) (acct role : Nat) : List (List Nat) :=
  (List.range prev.roles.length).map (fun r => if r ≠ role then members prev r else expdMembers prev c acct r)

def callerEffect (prev o : Obs) (cl : CallLine) (acct role : Nat) : Option String :=
  if o.roles ≠ expdRoles prev cl.call acct role then
    some s!"site=controller.role.effect `{cl.call.kind} {showArgsT (argsOf cl.call)}`: membership is {o.roles}, expected {expdRoles prev cl.call acct role}"
  else none

def verdictCaller (m : Mon) (prev o : Obs) (cl : CallLine) : Option String :=
  firstSome (callerAuth m prev o cl (callerParts cl.call).2.2)
    (firstSome (callerPerm prev cl (callerParts cl.call).2.1 (callerParts cl.call).2.2)
      (callerEffect prev o cl (callerParts cl.call).1 (callerParts cl.call).2.1))

def setradmEffect (c : Call) (o : Obs) : Option String :=
  match c with
  | .setradm r ar =>
    if inR r ∧ (o.radm[r]?).join ≠ some ar then
      some s!"site=controller.role.effect `setradm {showArgsT (argsOf c)}` did not store the admin role"
    else none
  | _ => none

/-- self-administered: exactly this call must have consumed a ready operation -/
def adminSelf (m : Mon) (prev o : Obs) (cl : CallLine) : Option String :=
  match cl.sig with
  | none => some s!"site=controller.admin.unconsumed `{cl.call.kind} {showArgsT (argsOf cl.call)}` accepted on a self-administered controller without any payload for the controller"
  | some (md :: _) =>
    -- the descriptor matched with the (single) authorized call is the first one
    (consumed m prev o (fnOf cl.call) (argsOf cl.call) md 0 cl.auth true).map (fun why =>
      s!"site=controller.admin.unconsumed `{cl.call.kind} {showArgsT (argsOf cl.call)}` accepted on a self-administered controller but {why}")
  | some [] => some s!"site=controller.admin.unconsumed `{cl.call.kind} {showArgsT (argsOf cl.call)}` accepted on a self-administered controller with 0 operation descriptors for 1 authorized call: no ready operation for exactly that call was consumed"

def adminAuth (m : Mon) (prev o : Obs) (cl : CallLine) : Option String :=
  match prev.admin with
  | none => some s!"site=controller.admin.noadmin `{cl.call.kind}` accepted although no admin is set"
  | some ad =>
    if ad = 0 then adminSelf m prev o cl
    else if ¬ cl.auth.contains (.call ad) then
      some s!"site=controller.admin.auth `{cl.call.kind}` accepted without the admin {ad}'s authorization"
    else none

def verdictAdmin (m : Mon) (prev o : Obs) (cl : CallLine) : Option String :=
  firstSome (setradmEffect cl.call o) (adminAuth m prev o cl)

def checkCtx (m : Mon) (prev o : Obs) (metas : List MetaM) (ctxs : List CtxM) (auth : List AuthM) (j : Nat) :
    Option String :=
  match (ctxs[j]?).bind (ctxCall m.defs), metas[j]? with
  | some (t, f, a), some md =>
    if t ≠ 0 then some s!"context {j} is a call on another contract ({t})"
    else (consumed m prev o f a md j auth (decide (ctxs.length = 1))).map (fun w => s!"context {j}: {w}")
  | _, _ => some s!"context {j} is not a contract call"

/-- an accepted `__check_auth`: at least as many descriptors as contexts, every context a call on the
controller whose operation went Ready → Done -/
def verdictCheck (m : Mon) (prev o : Obs) (metas : List MetaM) (ctxs : List CtxM) (auth : List AuthM) :
    Option String :=
  if metas.length < ctxs.length then
    some s!"site=controller.checkauth.length __check_auth returned Ok for {ctxs.length} contexts with only {metas.length} operation descriptors"
  else
    match (List.range ctxs.length).filterMap (checkCtx m prev o metas ctxs auth) with
    | [] => none
    | w :: _ => some s!"site=controller.checkauth.unconsumed __check_auth returned Ok but {w}"

def belowMin (min : Option Nat) (d : Nat) : Bool :=
  match min with
  | some mn => decide (d < mn)
  | none => true

def verdictSched (prev : Obs) (d byy : Nat) (auth : List AuthM) : Option String :=
  if belowMin prev.min d then some s!"site=controller.schedule.delay scheduled with delay {d} below the minimum delay in force"
  else if inU byy ∧ ¬ (members prev 0).contains byy then some s!"site=controller.schedule.role {byy} scheduled without the proposer role"
  else if ¬ auth.contains (.call byy) then some s!"site=controller.schedule.auth scheduled without {byy}'s authorization"
  else none

def verdictCancel (prev : Obs) (byy : Nat) (auth : List AuthM) : Option String :=
  if inU byy ∧ ¬ (members prev 2).contains byy then some s!"site=controller.cancel.role {byy} cancelled without the canceller role"
  else if ¬ auth.contains (.call byy) then some s!"site=controller.cancel.auth cancelled without {byy}'s authorization"
  else none

def execState (prev o : Obs) (k : Nat) : Option String :=
  if stCode prev k ≠ "R" ∨ stCode o k ≠ "D" then
    some s!"site=controller.execute.state executed operation {k} was {stCode prev k} and is {stCode o k}"
  else none

/-- an executed operation that names a predecessor: the accepted history must hold that predecessor's
execution (a predecessor nobody scheduled, a cancelled or a still pending one blocks) -/
def predBad (m : Mon) (k : Nat) : Option String :=
  match m.defs[k]? with
  | some d =>
    if d.pred ≠ Id.zero ∧ m.get (some d.pred) ≠ G.done then
      some s!"site=controller.execute.predecessor executed operation {k} {idText d.id} although its predecessor has not been executed"
    else none
  | none => none

def verdictExec (m : Mon) (prev o : Obs) (k : Nat) (ex : Option Nat) (auth : List AuthM) : Option String :=
  if (members prev 1).isEmpty then firstSome (predBad m k) (execState prev o k)
  else match ex with
    | none => some "site=controller.execute.role executed without naming an executor although executors are configured"
    | some x =>
      if inU x ∧ ¬ (members prev 1).contains x then some s!"site=controller.execute.role {x} executed without the executor role"
      else if ¬ auth.contains (.call x) then some s!"site=controller.execute.auth executed without {x}'s authorization"
      else firstSome (predBad m k) (execState prev o k)

def verdictAccept (o : Obs) (auth : List AuthM) : Option String :=
  match o.admin with
  | some a =>
    if ¬ auth.contains (.call a) then some s!"site=controller.accept.auth {a} became admin without its authorization" else none
  | none => some "site=controller.accept.admin accept left no admin"

/-- the conditions of an accepted call of each kind -/
def verdictAccepted (m : Mon) (prev o : Obs) (cl : CallLine) : Option String :=
  match cl.call with
  | .grant _ _ _ => verdictCaller m prev o cl
  | .revoke _ _ _ => verdictCaller m prev o cl
  | .renrole _ _ => verdictCaller m prev o cl
  | .update _ => verdictAdmin m prev o cl
  | .transfer _ _ => verdictAdmin m prev o cl
  | .renounce => verdictAdmin m prev o cl
  | .setradm _ _ => verdictAdmin m prev o cl
  | .check metas ctxs => verdictCheck m prev o metas (liveCtxs m.defs ctxs) cl.auth
  | .sched _ d byy => verdictSched prev d byy cl.auth
  | .cancel _ byy => verdictCancel prev byy cl.auth
  | .exec k ex _ => verdictExec m prev o k ex cl.auth
  | .accept => verdictAccept o cl.auth
  | .advance _ => none
  | .other _ => none

def verdictOk (m : Mon) (prev o : Obs) (cl : CallLine) : Option String :=
  if ¬ o.ok then rollback prev o
  else firstSome (effect cl.call prev o) (verdictAccepted m prev o cl)

/-- the verdict on a call line, given the previous observation -/
def verdictCall (m : Mon) (prev o : Obs) (cl : CallLine) : Option String :=
  firstSome (idle cl.call prev o) (firstSome (undoneCheck prev o) (verdictOk m prev o cl))

def checkCall (m : Mon) (cl : CallLine) (o : Obs) : Mon × Option String :=
  match m.prev with
  | none => fin cl none o m none
  | some prev => fin cl prev.admin o m (verdictCall m prev o cl)

/-- id-equality ⇔ tuple-equality: the earlier definitions with the same tuple -/
def sameTuples (defs : List Operation) (op : Operation) : List Nat :=
  (List.range defs.length).filter (fun j => (defs[j]?).map Operation.id = some op.id)

def verdictDef (m : Mon) (op : Operation) (o : Obs) : Option String :=
  if o.eq ≠ some (sameTuples m.defs op) then
    some s!"site=controller.id operation {idText op.id}: ids equal to those of definitions {o.eq.getD []}, tuples equal to {sameTuples m.defs op}"
  else none

/-- `site=controller.init.radm`: the very first observation of a history (taken on a definition line, before
any call) shows the controller as its constructor left it. No role of a fresh controller has an admin ROLE:
who may grant and revoke the timelock's roles is the admin alone - the controller itself - until an accepted
`set_role_admin` (itself an admin-only call that consumes a ready operation) says otherwise. -/
def initBad (m : Mon) (o : Obs) : Option String :=
  if m.prev.isNone ∧ o.radm.any Option.isSome then
    some s!"site=controller.init.radm the freshly constructed controller shows role admins {o.radm.map showOptNat}: holders of such a role can grant and revoke a timelock role without any scheduled operation"
  else none

def checkDef (m : Mon) (t f : Nat) (args : List Nat) (p : Ref) (s : Nat) (o : Obs) : Mon × Option String :=
  match refKey m.defs p with
  | none => finDef o m (some "site=controller.parse bad def line")
  | some pid =>
    finDef o { m with defs := m.defs ++ [⟨t, f, args, pid, s⟩] }
      (firstSome (initBad m o) (verdictDef m ⟨t, f, args, pid, s⟩ o))

/-- the monitor's step on parsed values -/
def checkCore (m : Mon) (ln : Line) (o : Obs) : Mon × Option String :=
  match ln with
  | .badDef => finDef o m (some "site=controller.parse bad def line")
  | .defn t f args p s => checkDef m t f args p s o
  | .call cl => checkCall m cl o

def monInit : Mon := { defs := [], prev := none, ghost := [] }

/-! ### the conditions as they were before the soundness proof (kept for the record:
`legacy_monitor_false_alarm_*` in OZ/Props/C09Mon.lean show that each fires on a model trace) -/

/-- `site=controller.schedule.role`: an account that is not displayed was taken not to hold the role -/
def legacyVerdictSched (prev : Obs) (d byy : Nat) (auth : List AuthM) : Option String :=
  if belowMin prev.min d then some s!"site=controller.schedule.delay scheduled with delay {d} below the minimum delay in force"
  else if ¬ (members prev 0).contains byy then some s!"site=controller.schedule.role {byy} scheduled without the proposer role"
  else if ¬ auth.contains (.call byy) then some s!"site=controller.schedule.auth scheduled without {byy}'s authorization"
  else none

/-- `site=controller.role.effect`: a grant to an account that is not displayed was expected to show -/
def legacyExpdMembers (prev : Obs) (c : Call) (acct r : Nat) : List Nat :=
  match c with
  | .grant _ _ _ => if (members prev r).contains acct then members prev r else sortNat (acct :: members prev r)
  | _ => (members prev r).erase acct

def legacyExpdRoles (prev : Obs) (c : Call) (acct role : Nat) : List (List Nat) :=
  (List.range prev.roles.length).map (fun r => if r ≠ role then members prev r else legacyExpdMembers prev c acct r)

end OZ.TimelockController.Mon
