import OZ.Model.Host
import OZ.Model.RoleTransfer
/-
Model of packages/access/src/access_control/storage.rs (roles, role admins, enumeration,
guards), line by line, together with the admin / owner hand-over machines of
OZ.Model.RoleTransfer (`transfer_admin_role`, `accept_admin_transfer`, `renounce_admin`,
`enforce_admin_auth`; `Ownable`) and the attribute macros of packages/macros
(`only_admin`, `only_owner`, `only_role`, `has_role`, `only_any_role`, `has_any_role`) as they
expand around a function body.

Storage is modelled key by key, exactly as the code keeps it:
  RoleAccounts(role, index) -> account      `accounts`
  HasRole(account, role)    -> index        `hasRole`
  RoleAccountsCount(role)   -> count        `count`   (absent and 0 are distinct keys states)
  RoleAdmin(role)           -> admin role   `roleAdmin`
  ExistingRoles             -> Vec<Symbol>  `existing`
Accounts and roles (Symbols) are natural numbers. Persistent / instance entries never expire
in the model. Import-free apart from the host and role-transfer models.
-/
namespace OZ.Access
open OZ.Host

abbrev RT := OZ.RoleTransfer.State

def MAX_ROLES : Nat := 256

inductive Err where
  | unauthorized | adminNotSet | indexOutOfBounds | adminRoleNotFound | roleCountIsNotZero
  | roleNotFound | roleNotHeld | roleIsEmpty | maxRolesExceeded
  | auth | expectPanic | overflowPanic | noRole | body | badOp
  | transfer (e : OZ.RoleTransfer.Err)
  deriving DecidableEq, Repr

inductive Event where
  | roleGranted (role account caller : Nat)
  | roleRevoked (role account caller : Nat)
  | roleAdminChanged (role : Nat) (prev : Option Nat) (new : Nat)   -- prev none = Symbol ""
  deriving DecidableEq, Repr

structure State where
  accounts : Nat → Nat → Option Nat     -- role → index → account
  hasRole : Nat → Nat → Option Nat      -- account → role → index
  count : Nat → Option Nat
  roleAdmin : Nat → Option Nat
  existing : List Nat
  adm : RT                               -- Admin / PendingAdmin
  own : RT                               -- Owner / PendingOwner
  events : List Event

def init (admin owner : Option Nat) (now : Nat) : State :=
  { accounts := fun _ _ => none, hasRole := fun _ _ => none, count := fun _ => none,
    roleAdmin := fun _ => none, existing := [],
    adm := OZ.RoleTransfer.init admin now, own := OZ.RoleTransfer.init owner now, events := [] }

def emit (s : State) (ev : Event) : State := { s with events := s.events ++ [ev] }

/-! ### getters -/

/-- `has_role` -/
def hasRoleQ (s : State) (account role : Nat) : Option Nat := s.hasRole account role

/-- `get_admin` -/
def getAdmin (s : State) : Option Nat := s.adm.holder

/-- `get_role_member_count` (an absent key reads 0) -/
def cnt (s : State) (role : Nat) : Nat := (s.count role).getD 0

/-- `get_role_member` -/
def getRoleMember (s : State) (role index : Nat) : Except Err Nat :=
  match s.accounts role index with
  | some a => .ok a
  | none => .error .indexOutOfBounds

/-- `get_role_admin` -/
def getRoleAdmin (s : State) (role : Nat) : Option Nat := s.roleAdmin role

/-- `get_existing_roles` -/
def getExistingRoles (s : State) : List Nat := s.existing

/-! ### low-level helpers -/

def require (b : Bool) (e : Err) : Except Err Unit := if b then .ok () else .error e

def requireAuth (auth : List Nat) (a : Nat) : Except Err Unit := require (auth.contains a) .auth

/-- `caller == admin` part of `ensure_if_admin_or_admin_role` -/
def isAdmin (s : State) (caller : Nat) : Bool :=
  match getAdmin s with
  | some admin => caller == admin
  | none => false

/-- the admin-role part of `ensure_if_admin_or_admin_role` -/
def isAdminRole (s : State) (role caller : Nat) : Bool :=
  match getRoleAdmin s role with
  | some adminRole => (hasRoleQ s caller adminRole).isSome
  | none => false

/-- `ensure_if_admin_or_admin_role` -/
def ensureIfAdminOrAdminRole (s : State) (role caller : Nat) : Except Err Unit :=
  require (isAdmin s caller || isAdminRole s role caller) .unauthorized

/-- `ensure_role` -/
def ensureRole (s : State) (role caller : Nat) : Except Err Unit :=
  require (hasRoleQ s caller role).isSome .unauthorized

/-- `enforce_admin_auth` -/
def enforceAdminAuth (s : State) (auth : List Nat) : Except Err Nat :=
  match OZ.RoleTransfer.enforceHolderAuth s.adm auth with
  | .ok a => .ok a
  | .error e => .error (.transfer e)

/-- `enforce_owner_auth` -/
def enforceOwnerAuth (s : State) (auth : List Nat) : Except Err Nat :=
  match OZ.RoleTransfer.enforceHolderAuth s.own auth with
  | .ok a => .ok a
  | .error e => .error (.transfer e)

/-- `add_to_role_enumeration`, the `if count == 0` block: register the role -/
def pushExisting (s : State) (role : Nat) : Except Err State :=
  if s.existing.length = MAX_ROLES then .error .maxRolesExceeded
  else .ok { s with existing := s.existing ++ [role] }

def noteFirst (s : State) (role n : Nat) : Except Err State :=
  if n = 0 then pushExisting s role else .ok s

/-- `add_to_role_enumeration`, the three `set`s (`count + 1` is u32 arithmetic) -/
def storeMember (s : State) (account role n : Nat) : Except Err State :=
  if n + 1 > U32_MAX then .error .overflowPanic
  else .ok { s with accounts := upd2 s.accounts role n (some account),
                    hasRole := upd2 s.hasRole account role (some n),
                    count := upd s.count role (some (n + 1)) }

/-- `add_to_role_enumeration` -/
def addToRoleEnumeration (s : State) (account role : Nat) : Except Err State := do
  let s1 ← noteFirst s role (cnt s role)
  storeMember s1 account role (cnt s role)

/-- `remove_from_role_enumeration`, the swap (`if to_be_removed_index != last_index`) -/
def swapLast (s : State) (role idx last : Nat) : Except Err State :=
  if idx ≠ last then
    match s.accounts role last with
    | none => .error .expectPanic
    | some lastAccount =>
      .ok { s with accounts := upd2 s.accounts role idx (some lastAccount),
                   hasRole := upd2 s.hasRole lastAccount role (some idx) }
  else .ok s

/-- `remove_from_role_enumeration`: remove the last slot and the account's index, store the count -/
def dropLast (s : State) (account role last : Nat) : State :=
  { s with accounts := upd2 s.accounts role last none,
           hasRole := upd2 s.hasRole account role none,
           count := upd s.count role (some last) }

/-- `remove_from_role_enumeration`, the `if last_index == 0` block (`position` + `remove`
= erase the first occurrence) -/
def forgetIfEmpty (s : State) (role last : Nat) : State :=
  if last = 0 then { s with existing := s.existing.erase role } else s

def removeAt (s : State) (account role idx last : Nat) : Except Err State := do
  let s1 ← swapLast s role idx last
  pure (forgetIfEmpty (dropLast s1 account role last) role last)

def removeIdx (s : State) (account role : Nat) (i : Option Nat) : Except Err State :=
  match i with
  | none => .error .roleNotHeld
  | some idx => removeAt s account role idx (cnt s role - 1)

/-- `remove_from_role_enumeration` -/
def removeFromRoleEnumeration (s : State) (account role : Nat) : Except Err State :=
  if cnt s role = 0 then .error .roleIsEmpty
  else removeIdx s account role (s.hasRole account role)

/-! ### state-changing entry points -/

/-- `grant_role_no_auth` -/
def grantRoleNoAuth (s : State) (account role caller : Nat) : Except Err State :=
  if (hasRoleQ s account role).isSome then .ok s
  else do
    let s1 ← addToRoleEnumeration s account role
    pure (emit s1 (.roleGranted role account caller))

/-- `grant_role` -/
def grantRole (s : State) (auth : List Nat) (account role caller : Nat) : Except Err State := do
  requireAuth auth caller
  ensureIfAdminOrAdminRole s role caller
  grantRoleNoAuth s account role caller

/-- tail of `revoke_role_no_auth` / `renounce_role`: the (second) removal of the `HasRole` key -/
def clearHasRole (s : State) (account role : Nat) : State :=
  { s with hasRole := upd2 s.hasRole account role none }

/-- `revoke_role_no_auth` -/
def revokeRoleNoAuth (s : State) (account role caller : Nat) : Except Err State :=
  if (hasRoleQ s account role).isNone then .error .roleNotHeld
  else do
    let s1 ← removeFromRoleEnumeration s account role
    pure (emit (clearHasRole s1 account role) (.roleRevoked role account caller))

/-- `revoke_role` -/
def revokeRole (s : State) (auth : List Nat) (account role caller : Nat) : Except Err State := do
  requireAuth auth caller
  ensureIfAdminOrAdminRole s role caller
  revokeRoleNoAuth s account role caller

/-- `renounce_role` -/
def renounceRole (s : State) (auth : List Nat) (role caller : Nat) : Except Err State := do
  requireAuth auth caller
  revokeRoleNoAuth s caller role caller

/-- `set_role_admin_no_auth` -/
def setRoleAdminNoAuth (s : State) (role adminRole : Nat) : State :=
  emit { s with roleAdmin := upd s.roleAdmin role (some adminRole) }
    (.roleAdminChanged role (s.roleAdmin role) adminRole)

/-- `set_role_admin` -/
def setRoleAdmin (s : State) (auth : List Nat) (role adminRole : Nat) : Except Err State := do
  let _ ← enforceAdminAuth s auth
  pure (setRoleAdminNoAuth s role adminRole)

/-- `remove_role_admin_no_auth` -/
def removeRoleAdminNoAuth (s : State) (role : Nat) : Except Err State :=
  if (s.roleAdmin role).isSome then .ok { s with roleAdmin := upd s.roleAdmin role none }
  else .error .adminRoleNotFound

/-- `remove_role_accounts_count_no_auth` -/
def removeRoleAccountsCountNoAuth (s : State) (role : Nat) : Except Err State :=
  match s.count role with
  | some c => if c = 0 then .ok { s with count := upd s.count role none } else .error .roleCountIsNotZero
  | none => .error .roleNotFound

/-! ### macro-guarded entry points: guard, optional `require_auth`, body -/

/-- what the function body itself needs: the caller's authorization (`bodyAuth`) and an
unrelated precondition supplied as an oracle (`bodyOk`, e.g. "the token is owned by `from`") -/
def body (auth : List Nat) (caller : Nat) (bodyAuth bodyOk : Bool) : Except Err Unit := do
  require (!bodyAuth || auth.contains caller) .auth
  require bodyOk .body

/-- `#[only_role(caller, role)]`: `ensure_role`, then `caller.require_auth()`, then the body -/
def onlyRole (s : State) (auth : List Nat) (caller role : Nat) (bodyOk : Bool) : Except Err Unit := do
  ensureRole s role caller
  requireAuth auth caller
  require bodyOk .body

/-- `#[has_role(caller, role)]`: `ensure_role`, then the body (no `require_auth` of its own) -/
def hasRoleGuard (s : State) (auth : List Nat) (caller role : Nat) (bodyAuth bodyOk : Bool) :
    Except Err Unit := do
  ensureRole s role caller
  body auth caller bodyAuth bodyOk

/-- the `any` of `has_any_role` / `only_any_role` -/
def anyRole (s : State) (caller : Nat) (roles : List Nat) : Bool :=
  roles.any (fun role => (hasRoleQ s caller role).isSome)

/-- `#[has_any_role(caller, [..])]` -/
def hasAnyRoleGuard (s : State) (auth : List Nat) (caller : Nat) (roles : List Nat)
    (bodyAuth : Bool) : Except Err Unit := do
  require (anyRole s caller roles) .noRole
  body auth caller bodyAuth true

/-- `#[only_any_role(caller, [..])]` -/
def onlyAnyRoleGuard (s : State) (auth : List Nat) (caller : Nat) (roles : List Nat) :
    Except Err Unit := do
  require (anyRole s caller roles) .noRole
  requireAuth auth caller

/-! ### the machine -/

inductive Op where
  | grant (account role caller : Nat)
  | revoke (account role caller : Nat)
  | renounce (role caller : Nat)
  | grantNoAuth (account role caller : Nat)
  | revokeNoAuth (account role caller : Nat)
  | setRoleAdmin (role adminRole : Nat)
  | setRoleAdminNoAuth (role adminRole : Nat)
  | removeRoleAdminNoAuth (role : Nat)
  | removeCountNoAuth (role : Nat)
  /-- admin machine: `.offer` = transfer_admin_role, `.accept`, `.renounce` = renounce_admin,
  `.guarded` = an `#[only_admin]` function -/
  | adm (op : OZ.RoleTransfer.Op)
  /-- owner machine, `.guarded` = an `#[only_owner]` function -/
  | own (op : OZ.RoleTransfer.Op)
  | onlyRole (caller role : Nat) (bodyOk : Bool)
  | hasRole (caller role : Nat) (bodyAuth bodyOk : Bool)
  | hasAnyRole (caller : Nat) (roles : List Nat) (bodyAuth : Bool)
  | onlyAnyRole (caller : Nat) (roles : List Nat)
  | ensureAdminOrRole (role caller : Nat)
  | advance (n : Nat)
  deriving Repr

def liftRT (r : Except OZ.RoleTransfer.Err RT) (k : RT → State) : Except Err State :=
  match r with
  | .ok t => .ok (k t)
  | .error e => .error (.transfer e)

/-- the sub-machine ops of `.adm` / `.own` (the ledger moves only through `.advance`) -/
def subOp (c : Cfg) (f : OZ.RoleTransfer.Flavor) (t : RT) (auth : List Nat) (op : OZ.RoleTransfer.Op) :
    Except OZ.RoleTransfer.Err RT :=
  match op with
  | .advance _ => .error .hostError
  | op => OZ.RoleTransfer.apply c f t auth op

def keep (s : State) (r : Except Err Unit) : Except Err State :=
  match r with
  | .ok _ => .ok s
  | .error e => .error e

def apply (c : Cfg) (s : State) (auth : List Nat) : Op → Except Err State
  | .grant a r k => grantRole s auth a r k
  | .revoke a r k => revokeRole s auth a r k
  | .renounce r k => renounceRole s auth r k
  | .grantNoAuth a r k => grantRoleNoAuth s a r k
  | .revokeNoAuth a r k => revokeRoleNoAuth s a r k
  | .setRoleAdmin r ar => setRoleAdmin s auth r ar
  | .setRoleAdminNoAuth r ar => .ok (setRoleAdminNoAuth s r ar)
  | .removeRoleAdminNoAuth r => removeRoleAdminNoAuth s r
  | .removeCountNoAuth r => removeRoleAccountsCountNoAuth s r
  | .adm op => liftRT (subOp c .admin s.adm auth op) (fun t => { s with adm := t })
  | .own op => liftRT (subOp c .owner s.own auth op) (fun t => { s with own := t })
  | .onlyRole k r b => keep s (onlyRole s auth k r b)
  | .hasRole k r ba b => keep s (hasRoleGuard s auth k r ba b)
  | .hasAnyRole k rs ba => keep s (hasAnyRoleGuard s auth k rs ba)
  | .onlyAnyRole k rs => keep s (onlyAnyRoleGuard s auth k rs)
  | .ensureAdminOrRole r k => keep s (ensureIfAdminOrAdminRole s r k)
  | .advance n => .ok { s with adm := { s.adm with now := s.adm.now + n },
                               own := { s.own with now := s.own.now + n } }

/-- a failed invocation is rolled back by the host -/
def step (c : Cfg) (s : State) (x : List Nat × Op) : State :=
  match apply c s x.1 x.2 with
  | .ok s' => s'
  | .error _ => s

def run (c : Cfg) (s : State) (ops : List (List Nat × Op)) : State := ops.foldl (step c) s

/-! ### the plain set of (account, role) pairs granted and not since revoked

`setStep` is the bookkeeping of an outside observer: it looks only at the accepted calls.
A grant adds the pair, a revoke / renounce deletes it, nothing else touches the set. The
driver's monitor runs the same function on the implementation's outcomes. -/

abbrev PSet := Nat → Nat → Bool      -- account → role → member?

def setStep (g : PSet) (op : Op) (accepted : Bool) : PSet :=
  if accepted then
    match op with
    | .grant a r _ => upd2 g a r true
    | .grantNoAuth a r _ => upd2 g a r true
    | .revoke a r _ => upd2 g a r false
    | .revokeNoAuth a r _ => upd2 g a r false
    | .renounce r k => upd2 g k r false
    | _ => g
  else g

structure GS where
  s : State
  g : PSet

def initG (admin owner : Option Nat) (now : Nat) : GS := ⟨init admin owner now, fun _ _ => false⟩

def stepG (c : Cfg) (x : GS) (a : List Nat × Op) : GS :=
  match apply c x.s a.1 a.2 with
  | .ok s' => ⟨s', setStep x.g a.2 true⟩
  | .error _ => ⟨x.s, setStep x.g a.2 false⟩

def runG (c : Cfg) (x : GS) (ops : List (List Nat × Op)) : GS := ops.foldl (stepG c) x

/-- the enumeration `get_role_member(role, 0 .. count-1)` as a list (a failing getter shows
as `none`) -/
def members (s : State) (role : Nat) : List (Option Nat) :=
  (List.range (cnt s role)).map (fun i => (getRoleMember s role i).toOption)

end OZ.Access
