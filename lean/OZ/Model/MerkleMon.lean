import OZ.Model.Merkle
import OZ.Model.Sha256
import OZ.Model.Keccak
/-
The C17 MONITOR on parsed values (the driver OZ/Drv/C17.lean parses the trace lines and calls
`verdictVerify` / `distCore` / `airCore`; it never calls the model's verifier or distributor).
Kept apart from the driver so that OZ/Props/C17Mon.lean can prove it SOUND: on the observations of
the model itself the monitor never reports a failure, hence an implementation whose observations
agree with the model's cannot raise a monitor alarm. Import-free apart from the model (and the two
hash functions the driver instantiates `H` with).

Three parts:
  * the VERIFIER part (pure, per line): the verifier's answer must equal the monitor's own fold
    (`monVerify`: big-endian NUMBER comparison for the sorted pair, `testBit` for the positional
    form — deliberately not the model's wording); an `honest` (leaf, proof) must be accepted, a
    `c:<what>` one must be rejected;
  * the DISTRIBUTOR part: ghost {root, claimed flags of the observed universe, far claims};
  * the AIRDROP part: the same plus {pool, receiver balances}.
Not in here (string level, in the driver): the `hash` / `pair` lines (library hash = the `want`
the harness computed with the sha2 / sha3 crates).
-/
namespace OZ.Merkle.Mon
open OZ.Merkle

abbrev Node := List UInt8

/-- the hash function of a sequence (`alg=sha|kec` of the label / the op line) -/
def hashOf (alg : String) : Node → Node :=
  if alg = "kec" then OZ.Keccak.keccak256 else OZ.Sha256.sha256

/-! ### the monitor's own fold -/

/-- a 32-byte string as a big-endian number -/
def beNat (b : Node) : Nat := b.foldl (fun acc x => acc * 256 + x.toNat) 0

def monPairSorted (H : Node → Node) (a b : Node) : Node :=
  if beNat a ≤ beNat b then H (a ++ b) else H (b ++ a)

def monFoldSorted (H : Node → Node) (leaf : Node) (proof : List Node) : Node :=
  proof.foldl (monPairSorted H) leaf

/-- positional: at level k the node is a right child iff bit k of the index is set -/
def monStepIndexed (H : Node → Node) (index : Nat) (acc : Node) (p : Nat × Node) : Node :=
  if index.testBit p.1 then H (p.2 ++ acc) else H (acc ++ p.2)

def monFoldIndexed (H : Node → Node) (leaf : Node) (index : Nat) (proof : List Node) : Node :=
  ((List.range proof.length).zip proof).foldl (monStepIndexed H index) leaf

/-- `some true` / `some false`: the verifier must answer so; `none`: it must fail -/
def monVerify (H : Node → Node) (indexed : Bool) (root leaf : Node) (index : Nat) (proof : List Node) : Option Bool :=
  if indexed then
    if proof.length ≥ 32 ∨ index ≥ 2 ^ proof.length then none
    else some (monFoldIndexed H leaf index proof == root)
  else some (monFoldSorted H leaf proof == root)

/-! ### the verifier part -/

/-- the three answers of a verifier line: `ok true` | `ok false` | `err` -/
inductive Ans where
  | accept
  | reject
  | fail
  deriving DecidableEq, Repr

def Ans.line : Ans → String
  | .accept => "ok true"
  | .reject => "ok false"
  | .fail => "err"

/-- `exp=` of an op line: what the harness did to an honest (leaf, proof):
`honest`, `c:<what was corrupted>`, anything else (exchange | repeat | sweep | free | noroot …) -/
inductive Tag where
  | honest
  | corrupt (what : String)
  | other
  deriving DecidableEq, Repr

/-- a `verify` (index = 0) / `verifyidx` line -/
structure VOp where
  indexed : Bool
  root : Node
  leaf : Node
  index : Nat
  proof : List Node
  tag : Tag

/-- the observation: `ans = none` when the line is none of the three answers; `raw` only feeds
the message -/
structure VObs where
  ans : Option Ans
  raw : String

def wantAns : Option Bool → Ans
  | some true => .accept
  | some false => .reject
  | none => .fail

def siteOf (indexed : Bool) : String := if indexed then "merkle.verify_with_index" else "merkle.verify"

/-- the semantic expectation attached to an op by the harness: an honest (leaf, proof) must be
accepted; a corrupted one must be rejected (false or failure) -/
def tagCheck (what : String) (tag : Tag) (accepted : Bool) : Option String :=
  match tag with
  | .honest => if ¬ accepted then some s!"site={what}.reject.honest an honest (leaf, proof) was rejected" else none
  | .corrupt c => if accepted then some s!"site={what}.accept.{c} a corrupted (leaf, proof, index, root) was accepted" else none
  | .other => none

/-- what the monitor demands as the answer to a verifier line -/
def wantOf (H : Node → Node) (op : VOp) : Ans :=
  wantAns (monVerify H op.indexed op.root op.leaf op.index op.proof)

def verdictVerify (H : Node → Node) (op : VOp) (o : VObs) : Option String :=
  if o.ans ≠ some (wantOf H op) then
    some s!"site={siteOf op.indexed}.fold verifier says {o.raw} but the independent fold says {(wantOf H op).line}"
  else tagCheck (siteOf op.indexed) op.tag (o.ans == some .accept)

/-- a `verifyj` line: the proof vector handed to the verifier holds an element that is NOT a 32-byte
string (a host vector is only type-checked element by element, when read). Such a vector is no proof of
anything: the verifier must not accept — it returns false or fails -/
def verdictJunk (indexed : Bool) (o : VObs) : Option String :=
  if o.ans = some .accept then
    some s!"site={siteOf indexed}.accept.junk a proof vector holding an element that is not a 32-byte string was accepted"
  else if o.ans = none then some s!"site={siteOf indexed}.junk unreadable answer {o.raw}"
  else none

/-! ### the distributor part -/

/-- the observed index universe of a sequence: `0..w` and the two top u32 values -/
def univ (w : Nat) : List Nat := List.range w ++ [4294967294, 4294967295]

def inU (w i : Nat) : Bool := decide (i < w) || i == 4294967294 || i == 4294967295

/-- the flags the model driver prints: `is_claimed` over the whole universe -/
def claimedList (d : Dist Node) (w : Nat) : List Nat := (univ w).filter (fun i => d.claimed i)

/-- monitor state (ghost): the root and the flags observed after the previous operation, the
indices OUTSIDE the observed universe for which an accepted claim was seen (`far`; their flags
are never observed), and for the airdrop the pool and the receivers' balances -/
structure Mon where
  kind : String := ""
  alg : String := "sha"
  w : Nat := 0
  root : Option Node := none
  claimed : List Nat := []
  far : List Nat := []
  pool : Int := 0
  bal : List Int := []

/-- `ok|err root=<hex|none> claimed=<indices>` (for `advance look=0`: `ok now=<n>`, read as
root = none, claimed = []; only `ok` is looked at) -/
structure DObs where
  ok : Bool
  root : Option Node
  claimed : List Nat

/-- an op line of a `dist` sequence -/
inductive DLine where
  /-- `advance d=.. look=0`: the ledger moves, nothing is observed -/
  | blind
  /-- `advance d=.. look=1`: the ledger moves, root and flags are observed afterwards -/
  | look
  | setRoot (r : Node)
  | claim (indexed : Bool) (leaf : Node) (index : Nat) (proof : List Node) (tag : Tag)

def unmarked (old new : List Nat) : Bool := old.any (fun i => ¬ new.contains i)

def unmarkedMsg : String := "site=distributor.unmarked an index that was claimed is not claimed any more"

/-- flags that are newly set although no accepted claim for exactly that index produced them -/
def spurious (old new : List Nat) (accepted : Option Nat) : List Nat :=
  new.filter (fun j => ¬ old.contains j ∧ accepted ≠ some j)

def newFlags (old new : List Nat) : List Nat := new.filter (fun i => ¬ old.contains i)

/-- the flags an accepted claim for `index` newly shows: its own, if it is observed at all -/
def expectNew (w index : Nat) : List Nat := if inU w index then [index] else []

/-- was the index claimed before, as far as the monitor has seen: its flag was observed set, or
(outside the observed universe) a claim for it was accepted earlier -/
def wasClaimed (m : Mon) (index : Nat) : Bool := m.claimed.contains index || m.far.contains index

def validAgainst (H : Node → Node) (root : Option Node) (indexed : Bool) (leaf : Node) (index : Nat)
    (proof : List Node) : Bool :=
  match root with
  | none => false
  | some r => monVerify H indexed r leaf index proof == some true

def corruptAlarm (site : String) (tag : Tag) (tail : String) : Option String :=
  match tag with
  | .corrupt c => some s!"site={site}.accept.{c} {tail}"
  | _ => none

def firstSome (a b : Option String) : Option String :=
  match a with
  | some x => some x
  | none => b

def verdictBlind (ok : Bool) : Option String :=
  if ok then none else some "site=c17.advance advancing the ledger failed"

/-- nothing may change while time passes and nobody touches the contract -/
def verdictLook (m : Mon) (o : DObs) : Option String :=
  if o.claimed ≠ m.claimed then
    some s!"site=distributor.spurious_claimed flags {spurious m.claimed o.claimed none} appeared while time passed"
  else if o.root ≠ m.root then some "site=distributor.root_lost the root changed while time passed"
  else none

def verdictSetRoot (m : Mon) (r : Node) (o : DObs) : Option String :=
  if ¬ o.ok then some "site=distributor.set_root set_root failed"
  else if o.root ≠ some r then some "site=distributor.set_root root not stored"
  else if o.claimed ≠ m.claimed then some "site=distributor.root_change_lost_claims a root change altered the claimed set"
  else none

def claimAcceptedTail (m : Mon) (valid : Bool) (index : Nat) (o : DObs) : Option String :=
  if ¬ valid then some s!"site=distributor.claimed_without_valid_proof claim for index {index} accepted although the proof does not verify against the current root"
  else if newFlags m.claimed o.claimed ≠ expectNew m.w index then some s!"site=distributor.marks accepted claim for {index} marked {newFlags m.claimed o.claimed}"
  else if o.root ≠ m.root then some "site=distributor.claim_changed_root"
  else none

def verdictClaimAccepted (m : Mon) (valid was : Bool) (index : Nat) (tag : Tag) (o : DObs) : Option String :=
  if was then some s!"site=distributor.double_claim index {index} was claimed again"
  else firstSome (corruptAlarm "distributor" tag "a corrupted claim was accepted") (claimAcceptedTail m valid index o)

def verdictClaimRefused (m : Mon) (valid was : Bool) (index : Nat) (o : DObs) : Option String :=
  if newFlags m.claimed o.claimed ≠ [] ∨ o.root ≠ m.root then
    some s!"site=distributor.failed_claim_marked a failed claim changed the state (newly claimed {newFlags m.claimed o.claimed})"
  else if valid ∧ ¬ was then some s!"site=distributor.reject.honest a valid claim for the unclaimed index {index} was refused"
  else none

def verdictClaim (m : Mon) (valid : Bool) (index : Nat) (tag : Tag) (o : DObs) : Option String :=
  if spurious m.claimed o.claimed (if o.ok then some index else none) ≠ [] then
    some s!"site=distributor.spurious_claimed flags {spurious m.claimed o.claimed (if o.ok then some index else none)} are set although no claim for them was accepted (op: claim index {index}, {if o.ok then "accepted" else "refused"})"
  else if o.ok then verdictClaimAccepted m valid (wasClaimed m index) index tag o
  else verdictClaimRefused m valid (wasClaimed m index) index o

/-- the conclusions for an op whose observation shows root and flags -/
def verdictSeen (H : Node → Node) (m : Mon) (op : DLine) (o : DObs) : Option String :=
  match op with
  | .blind => none
  | .look => verdictLook m o
  | .setRoot r => verdictSetRoot m r o
  | .claim indexed leaf index proof tag =>
    verdictClaim m (validAgainst H m.root indexed leaf index proof) index tag o

def distVerdict (H : Node → Node) (m : Mon) (op : DLine) (o : DObs) : Option String :=
  match op with
  | .blind => verdictBlind o.ok
  | _ =>
    -- claimed forever: nothing ever disappears
    if unmarked m.claimed o.claimed then some unmarkedMsg else verdictSeen H m op o

/-- ghost log of accepted claims for indices whose flags are not observed -/
def farStep (m : Mon) (index : Nat) (ok : Bool) : List Nat :=
  if ok ∧ ¬ inU m.w index then index :: m.far else m.far

def distNext (m : Mon) (op : DLine) (o : DObs) : Mon :=
  match op with
  | .blind => m
  | .claim _ _ index _ _ => { m with root := o.root, claimed := o.claimed, far := farStep m index o.ok }
  | _ => { m with root := o.root, claimed := o.claimed }

/-- the monitor's step on a `dist` sequence, on parsed values -/
def distCore (H : Node → Node) (m : Mon) (op : DLine) (o : DObs) : Mon × Option String :=
  (distNext m op o, distVerdict H m op o)

/-! ### the airdrop part -/

/-- `ok|err claimed=<indices> pool=<int> bal=<ints>` (for `advance look=0`: `ok now=<n>`) -/
structure AObs where
  ok : Bool
  claimed : List Nat
  pool : Int
  bal : List Int

/-- an op line of an `airdrop` sequence -/
inductive ALine where
  | blind
  | claim (leaf : Node) (index rcv : Nat) (amount : Int) (proof : List Node) (tag : Tag)

/-- the receivers' balances after `amount` went to receiver `rcv` -/
def paidOut (bal : List Int) (rcv : Nat) (amount : Int) : List Int :=
  (List.range bal.length).map (fun j => bal.getD j 0 + (if j = rcv then amount else 0))

def airAcceptedTail (m : Mon) (valid : Bool) (index rcv : Nat) (amount : Int) (o : AObs) : Option String :=
  if ¬ valid then some s!"site=airdrop.claimed_without_valid_proof claim for index {index} paid although the proof does not verify"
  else if newFlags m.claimed o.claimed ≠ expectNew m.w index then some s!"site=airdrop.marks accepted claim for {index} marked {newFlags m.claimed o.claimed}"
  else if o.pool ≠ m.pool - amount ∨ o.bal ≠ paidOut m.bal rcv amount then
    some s!"site=airdrop.payment accepted claim did not move exactly {amount} to receiver {rcv}"
  else none

def verdictAirAccepted (m : Mon) (valid was : Bool) (index rcv : Nat) (amount : Int) (tag : Tag) (o : AObs) :
    Option String :=
  if was then some s!"site=airdrop.double_claim index {index} was paid again"
  else firstSome (corruptAlarm "airdrop" tag "a corrupted claim was paid") (airAcceptedTail m valid index rcv amount o)

def verdictAirRefused (m : Mon) (valid was : Bool) (index : Nat) (amount : Int) (o : AObs) : Option String :=
  if newFlags m.claimed o.claimed ≠ [] ∨ o.pool ≠ m.pool ∨ o.bal ≠ m.bal then
    some "site=airdrop.failed_claim_changed_state a failed claim changed flags or balances"
  else if valid ∧ ¬ was ∧ 0 ≤ amount ∧ amount ≤ m.pool then
    some s!"site=airdrop.reject.honest a valid, funded claim for the unclaimed index {index} was refused"
  else none

def verdictAirClaim (m : Mon) (valid : Bool) (index rcv : Nat) (amount : Int) (tag : Tag) (o : AObs) : Option String :=
  if spurious m.claimed o.claimed (if o.ok then some index else none) ≠ [] then
    some s!"site=distributor.spurious_claimed flags {spurious m.claimed o.claimed (if o.ok then some index else none)} are set although no claim for them was accepted (airdrop claim index {index})"
  else if o.ok then verdictAirAccepted m valid (wasClaimed m index) index rcv amount tag o
  else verdictAirRefused m valid (wasClaimed m index) index amount o

def airVerdict (H : Node → Node) (m : Mon) (op : ALine) (o : AObs) : Option String :=
  match op with
  | .blind => verdictBlind o.ok
  | .claim leaf index rcv amount proof tag =>
    if unmarked m.claimed o.claimed then some unmarkedMsg
    else verdictAirClaim m (validAgainst H m.root false leaf index proof) index rcv amount tag o

def airNext (m : Mon) (op : ALine) (o : AObs) : Mon :=
  match op with
  | .blind => m
  | .claim _ index _ _ _ _ =>
    { m with claimed := o.claimed, pool := o.pool, bal := o.bal, far := farStep m index o.ok }

/-- the monitor's step on an `airdrop` sequence, on parsed values -/
def airCore (H : Node → Node) (m : Mon) (op : ALine) (o : AObs) : Mon × Option String :=
  (airNext m op o, airVerdict H m op o)

end OZ.Merkle.Mon
