import OZ.Model.RegUtil
/-
Model of the module registry of packages/tokens/src/rwa/compliance/storage.rs
(`add_module_to`, `remove_module_from`, `get_modules_for_hook`, `is_module_registered`),
line by line. Storage: `HookModules(hook) -> Vec<Address>`, read with a default of the empty
vector and never removed (`[]` = "no entry"). Hooks are numbered 0..4
(Transferred, Created, Destroyed, CanTransfer, CanCreate).
-/
namespace OZ.RegHooks
open OZ.Reg

def MAX_MODULES : Nat := 20

structure State where
  modules : Nat → List Nat

def init : State := { modules := fun _ => [] }

def getModulesForHook (s : State) (h : Nat) : List Nat := s.modules h
def isModuleRegistered (s : State) (h m : Nat) : Bool := (s.modules h).any (· == m)

def addModuleTo (s : State) (h m : Nat) : Except RErr State :=
  if (s.modules h).any (· == m) then .error .dup
  else if (s.modules h).length ≥ MAX_MODULES then .error .limit
  else .ok { modules := updD s.modules h (s.modules h ++ [m]) }

def removeModuleFrom (s : State) (h m : Nat) : Except RErr State :=
  if !(s.modules h).any (· == m) then .error .absent
  else .ok { modules := updD s.modules h ((s.modules h).erase m) }

inductive Op where
  | add (h m : Nat)
  | remove (h m : Nat)
  deriving DecidableEq, Repr

def step (s : State) : Op → Except RErr State
  | .add h m => addModuleTo s h m
  | .remove h m => removeModuleFrom s h m

def next (s : State) (o : Op) : State :=
  match step s o with
  | .ok s' => s'
  | .error _ => s

def run (s : State) (ops : List Op) : State := ops.foldl next s

end OZ.RegHooks
