import OZ.Model.Fungible
/-
The C01 and C02 MONITORS on parsed values, and the structured observation of the fungible model.

The drivers OZ/Drv/C01.lean and OZ/Drv/C02.lean only parse the trace lines (`FungibleIO.parseLine`,
`FungibleIO.parseObs`) and call `Supply.checkCore` (C01) resp. `Auth.checkCore` (C02); neither
monitor ever calls the model's transition function. They are kept apart from the drivers so that
OZ/Props/C01Mon.lean and OZ/Props/C02Mon.lean can prove them SOUND: on the observations of the
model itself (`stepObs`, which is exactly what the model side of the drivers prints, see
`FungibleIO.stepLine`) no monitor ever reports a failure. Import-free apart from the model.
-/
namespace OZ.FungibleMon
open OZ.Host OZ.Fungible

/-! ### the observation line, parsed

`ok|err sup=<i> bal=<b0,..,b(n-1)> allow=<o:sp:a;..|-> now=<ledger> ev=<events|-> dem=<addrs|->` -/

structure Obs where
  ok : Bool
  sup : Int
  bal : List Int
  allow : List (Nat × Nat × Int)      -- the non-zero allowances of the observed universe
  now : Nat
  evs : List Event                    -- events of this call, oldest first
  dem : List Nat

def Obs.allowOf (o : Obs) (ow sp : Nat) : Int :=
  match o.allow.find? (fun x => x.1 = ow ∧ x.2.1 = sp) with
  | some x => x.2.2
  | none => 0

/-! ### the op line, parsed

`fungible <kind> a=<addresses> amt=<i> lu=<ledger> auth=<signers>` / `fungible advance n=<k>` -/

inductive Kind where
  | mint | transfer | transferFrom | approve | burn | burnFrom | advance
  | other (name : String)
  deriving DecidableEq

def Kind.name : Kind → String
  | .mint => "mint"
  | .transfer => "transfer"
  | .transferFrom => "transfer_from"
  | .approve => "approve"
  | .burn => "burn"
  | .burnFrom => "burn_from"
  | .advance => "advance"
  | .other s => s

structure Line where
  kind : Kind
  a : List Nat          -- `a=`: the addresses of the call in the order of the entry point
  auth : List Nat       -- `auth=`: the exact signer set the call ran with
  amt : Int             -- `amt=` (0 when absent)
  lu : Nat              -- `lu=` (0 when absent)

/-! ### the model's observation (what `FungibleIO.stepLine` prints for the model) -/

def balList (n : Nat) (s : State) : List Int := (List.range n).map s.bal

def allowList (n : Nat) (s : State) : List (Nat × Nat × Int) :=
  (List.range n).flatMap (fun o => (List.range n).filterMap (fun sp =>
    if allowance s o sp = 0 then none else some (o, sp, allowance s o sp)))

/-- `mauth=<i>` on a MINT line: the contract wraps `Base::mint` in an owner-only guard (wiring of
the example contracts, not of the library); ignored on every other op -/
def effMauth (op : Op) (mauth : Option Nat) : Option Nat :=
  match op with
  | .mint _ _ => mauth
  | _ => none

def guarded (c : Cfg) (s : State) (auth : List Nat) (op : Op) (g : Option Nat) : Except Err State :=
  match g with
  | some g => if g ∈ auth then apply c s auth op else .error .auth
  | none => apply c s auth op

/-- one invocation as the driver runs it -/
def applyG (c : Cfg) (s : State) (auth : List Nat) (op : Op) (mauth : Option Nat) : Except Err State :=
  guarded c s auth op (effMauth op mauth)

def newEvents (s s' : State) : List Event := s'.events.drop s.events.length

def demOf (op : Op) (mauth : Option Nat) : List Nat :=
  match op with
  | .advance _ => []
  | _ => (op.required ++ (effMauth op mauth).toList).mergeSort (· ≤ ·)

def obsOk (n : Nat) (s s' : State) (op : Op) (mauth : Option Nat) : Obs :=
  { ok := true, sup := s'.supply, bal := balList n s', allow := allowList n s', now := s'.now,
    evs := newEvents s s', dem := demOf op mauth }

def obsErr (n : Nat) (s : State) : Obs :=
  { ok := false, sup := s.supply, bal := balList n s, allow := allowList n s, now := s.now, evs := [], dem := [] }

/-- one op line through the model: the new state (unchanged when the call is rejected: the host
rolls back) and the observation over the universe `0 .. n-1` -/
def stepObs (c : Cfg) (n : Nat) (s : State) (auth : List Nat) (op : Op) (mauth : Option Nat) : State × Obs :=
  match applyG c s auth op mauth with
  | .ok s' => (s', obsOk n s s' op mauth)
  | .error _ => (s, obsErr n s)

def orElse (a : Option String) (b : Unit → Option String) : Option String :=
  match a with
  | some m => some m
  | none => b ()

def firstSome {α} (l : List α) (f : α → Option String) : Option String :=
  l.foldl (fun acc x => match acc with | some m => some m | none => f x) none

/-! ## C01: supply conservation

  Σ balances = total_supply, balances ≥ 0, supply moves by exactly ±amount on mint/burn and
  not at all otherwise, a failed call changes nothing, and the replay of the emitted
  mint/burn/transfer events from genesis reproduces every balance. -/
namespace Supply

structure Mon where
  prev : Option Obs
  replay : List Int            -- balances reconstructed from events
  n : Nat                      -- size of the observed universe (`n=` of the sequence label)

def zeroObs (n : Nat) : Obs :=
  { ok := true, sup := 0, bal := List.replicate n 0, allow := [], now := 0, evs := [], dem := [] }

def addAt (l : List Int) (i : Nat) (d : Int) : List Int := l.mapIdx (fun j x => if j = i then x + d else x)

def replayEv (b : List Int) : Event → List Int
  | .mint t a => addAt b t a
  | .burn f a => addAt b f (-a)
  | .transfer f t a => addAt (addAt b f (-a)) t a
  | .approve _ _ _ _ => b

def vSum (o : Obs) : Option String :=
  if o.bal.sum ≠ o.sup then some s!"site=fungible.sum total_supply={o.sup} but balances sum to {o.bal.sum}" else none

def vNegative (o : Obs) : Option String :=
  if o.bal.any (· < 0) then some "site=fungible.negative a balance is negative" else none

def vRollback (prev o : Obs) : Option String :=
  if ¬ o.ok ∧ (o.sup ≠ prev.sup ∨ o.bal ≠ prev.bal ∨ o.allow ≠ prev.allow) then
    some "site=fungible.rollback a failed call changed supply, a balance or an allowance"
  else none

def vMint (k : Kind) (amt : Int) (prev o : Obs) : Option String :=
  if o.ok ∧ k = .mint ∧ o.sup ≠ prev.sup + amt then some "site=fungible.mint supply not +amount" else none

def vBurn (k : Kind) (amt : Int) (prev o : Obs) : Option String :=
  if o.ok ∧ (k = .burn ∨ k = .burnFrom) ∧ o.sup ≠ prev.sup - amt then
    some "site=fungible.burn supply not -amount"
  else none

def vSame (k : Kind) (prev o : Obs) : Option String :=
  if o.ok ∧ (k = .transfer ∨ k = .transferFrom ∨ k = .approve ∨ k = .advance) ∧ o.sup ≠ prev.sup then
    some s!"site=fungible.{k.name} supply changed"
  else none

def vReplay (replay' : List Int) (o : Obs) : Option String :=
  if replay' ≠ o.bal then some s!"site=fungible.replay event replay gives {replay'} but balances are {o.bal}" else none

/-- the property's conclusion for one call, on observed values only (first failing check) -/
def verdict (prev : Obs) (l : Line) (replay' : List Int) (o : Obs) : Option String :=
  orElse (vSum o) fun _ =>
  orElse (vNegative o) fun _ =>
  orElse (vRollback prev o) fun _ =>
  orElse (vMint l.kind l.amt prev o) fun _ =>
  orElse (vBurn l.kind l.amt prev o) fun _ =>
  orElse (vSame l.kind prev o) fun _ =>
  vReplay replay' o

/-- the monitor's step on parsed values -/
def checkCore (m : Mon) (l : Line) (o : Obs) : Mon × Option String :=
  ({ m with prev := some o, replay := o.evs.foldl replayEv m.replay },
   verdict (m.prev.getD (zeroObs m.n)) l (o.evs.foldl replayEv m.replay) o)

end Supply

/-! ## C02: tokens move only with the holder's authorization or a live allowance

Ghost state per (owner, spender): (last approved amount − spent since, live_until of that
approval), fed with the op lines and the IMPLEMENTATION's verdicts only.

 (0) a rejected call changes no balance and no allowance;
 (1) an accepted call lowers holder h's balance only if it is transfer/burn with h = from and
     h ∈ auth, or transfer_from/burn_from with from = h, spender ∈ auth, the last approval
     unexpired, previous allowance(from, spender) ≥ amount and new allowance = previous − amount;
 (2) an allowance rises only by an accepted approve(owner, spender, amount, …) with
     owner ∈ auth, to exactly `amount`; it never exceeds approved − spent, is never negative;
 (3) once now > live_until of the last approval the allowance reads 0; until then it reads
     exactly approved − spent;
 (4) approve is rejected iff owner ∉ auth, or amount < 0, or live_until > now + maxTtl − 1,
     or (amount > 0 and live_until < now);
 (5) no balance goes down while only the ledger moves (`advance`). -/
namespace Auth

structure G where
  rem : Int
  lu : Nat

structure Mon where
  prev : Option Obs
  g : List (Nat × Nat × G)
  n : Nat               -- size of the observed universe (`n=` of the sequence label)
  maxTtl : Nat          -- `max_ttl=` of the sequence label

def gOf (g : List (Nat × Nat × G)) (o sp : Nat) : G :=
  match g.find? (fun x => x.1 = o ∧ x.2.1 = sp) with
  | some x => x.2.2
  | none => ⟨0, 0⟩

def gSet (g : List (Nat × Nat × G)) (o sp : Nat) (v : G) : List (Nat × Nat × G) :=
  (o, sp, v) :: g.filter (fun x => ¬ (x.1 = o ∧ x.2.1 = sp))

def pairs (n : Nat) : List (Nat × Nat) := (List.range n).flatMap (fun o => (List.range n).map (fun sp => (o, sp)))

def balAt (l : List Int) (i : Nat) : Int := (l[i]?).getD 0

/-- the observation before the first call of a sequence: the empty token -/
def prevOf (m : Mon) (now : Nat) : Obs :=
  m.prev.getD { ok := true, sup := 0, bal := List.replicate m.n 0, allow := [], now := now, evs := [], dem := [] }

/-- (1) `h`'s balance went down in a transfer / burn -/
def vDebitDirect (k : Kind) (h : Nat) (a auth : List Nat) : Option String :=
  if a.head? ≠ some h then
    some s!"site=fungible.auth.debit_wrong_holder {k.name} lowered the balance of {h}, who is not its from"
  else if h ∉ auth then
    some s!"site=fungible.auth.debit_unauthorized {k.name} lowered the balance of {h} without {h}'s authorization (auth={auth})"
  else none

/-- (1) `h`'s balance went down in a transfer_from / burn_from -/
def vDebitSpend (prev o : Obs) (g : List (Nat × Nat × G)) (k : Kind) (h : Nat) (a auth : List Nat)
    (amt : Int) : Option String :=
  match a with
  | sp :: f :: _ =>
    if f ≠ h then
      some s!"site=fungible.auth.debit_wrong_holder {k.name} lowered the balance of {h}, who is not its from"
    else if sp ∉ auth then
      some s!"site=fungible.auth.spender_unauthorized {k.name} moved {h}'s tokens without the spender {sp}'s authorization (auth={auth})"
    else if (gOf g f sp).lu < o.now then
      some s!"site=fungible.auth.spend_expired {k.name} spent an allowance whose live_until {(gOf g f sp).lu} passed (now {o.now})"
    else if prev.allowOf f sp < amt then
      some s!"site=fungible.auth.spend_uncovered {k.name} of {amt} with allowance {prev.allowOf f sp}"
    else if o.allowOf f sp ≠ prev.allowOf f sp - amt then
      some s!"site=fungible.auth.spend_not_exact allowance {prev.allowOf f sp} became {o.allowOf f sp} after spending {amt}"
    else none
  | _ => some "site=fungible.auth.parse malformed spend op"

/-- (1)+(5): holder `h` in an accepted call -/
def vDebit (prev o : Obs) (g : List (Nat × Nat × G)) (k : Kind) (a auth : List Nat) (amt : Int)
    (h : Nat) : Option String :=
  if balAt o.bal h < balAt prev.bal h then
    if k = .transfer ∨ k = .burn then vDebitDirect k h a auth
    else if k = .transferFrom ∨ k = .burnFrom then vDebitSpend prev o g k h a auth amt
    else if k = .advance then
      some s!"site=fungible.auth.idle_debit the balance of {h} fell from {balAt prev.bal h} to {balAt o.bal h} while only the ledger moved (to {o.now}): nobody authorized a debit"
    else
      some s!"site=fungible.auth.debit_by_{k.name} the balance of {h} went down in a {k.name}"
  else none

/-- (1): every balance that went down in an accepted call -/
def checkDebits (n : Nat) (prev o : Obs) (g : List (Nat × Nat × G)) (k : Kind) (a auth : List Nat)
    (amt : Int) : Option String :=
  firstSome (List.range n) (vDebit prev o g k a auth amt)

/-- (2): the allowance of one pair went up -/
def vRaise (prev o : Obs) (k : Kind) (a auth : List Nat) (amt : Int) (p : Nat × Nat) : Option String :=
  if o.allowOf p.1 p.2 > prev.allowOf p.1 p.2 then
    if ¬ o.ok then some s!"site=fungible.auth.allowance_raise allowance({p.1},{p.2}) rose in a rejected call"
    else if k ≠ .approve ∨ a ≠ [p.1, p.2] then
      some s!"site=fungible.auth.allowance_raise allowance({p.1},{p.2}) rose from {prev.allowOf p.1 p.2} to {o.allowOf p.1 p.2} in {k.name} a={a}"
    else if p.1 ∉ auth then
      some s!"site=fungible.auth.approve_unauthorized allowance({p.1},{p.2}) raised without the owner's authorization (auth={auth})"
    else if o.allowOf p.1 p.2 ≠ amt then
      some s!"site=fungible.auth.approve_value allowance({p.1},{p.2}) is {o.allowOf p.1 p.2} after approving {amt}"
    else none
  else none

/-- (2): every allowance that went up -/
def checkRaises (n : Nat) (prev o : Obs) (k : Kind) (a auth : List Nat) (amt : Int) : Option String :=
  firstSome (pairs n) (vRaise prev o k a auth amt)

/-- (2)+(3): the allowance of one pair against the ghost counters -/
def vGhost (o : Obs) (g : List (Nat × Nat × G)) (p : Nat × Nat) : Option String :=
  if o.allowOf p.1 p.2 < 0 then some s!"site=fungible.auth.allowance_negative allowance({p.1},{p.2}) = {o.allowOf p.1 p.2}"
  else if o.allowOf p.1 p.2 > (gOf g p.1 p.2).rem then
    some s!"site=fungible.auth.allowance_bound allowance({p.1},{p.2}) = {o.allowOf p.1 p.2} exceeds approved - spent = {(gOf g p.1 p.2).rem}"
  else if o.now > (gOf g p.1 p.2).lu ∧ o.allowOf p.1 p.2 ≠ 0 then
    some s!"site=fungible.auth.expired_nonzero allowance({p.1},{p.2}) = {o.allowOf p.1 p.2} at ledger {o.now} although live_until {(gOf g p.1 p.2).lu} passed"
  else if o.now ≤ (gOf g p.1 p.2).lu ∧ o.allowOf p.1 p.2 ≠ (gOf g p.1 p.2).rem then
    some s!"site=fungible.auth.live_allowance allowance({p.1},{p.2}) = {o.allowOf p.1 p.2} at ledger {o.now} but approved - spent = {(gOf g p.1 p.2).rem} is live until {(gOf g p.1 p.2).lu}"
  else none

/-- (2)+(3): allowances against the ghost counters -/
def checkGhost (n : Nat) (o : Obs) (g : List (Nat × Nat × G)) : Option String :=
  firstSome (pairs n) (vGhost o g)

/-- ghost update from the op line and the implementation's verdict only -/
def ghostStep (g : List (Nat × Nat × G)) (ok : Bool) (l : Line) : List (Nat × Nat × G) :=
  if ¬ ok then g
  else match l.kind, l.a with
    | .approve, [ow, sp] => gSet g ow sp ⟨l.amt, l.lu⟩
    | .transferFrom, sp :: f :: _ => gSet g f sp ⟨(gOf g f sp).rem - l.amt, (gOf g f sp).lu⟩
    | .burnFrom, sp :: f :: _ => gSet g f sp ⟨(gOf g f sp).rem - l.amt, (gOf g f sp).lu⟩
    | _, _ => g

/-- (0) -/
def vRollback (prev o : Obs) : Option String :=
  if ¬ o.ok ∧ (o.bal ≠ prev.bal ∨ o.allow ≠ prev.allow) then
    some "site=fungible.auth.rollback a rejected call changed a balance or an allowance"
  else none

def mustReject (maxTtl : Nat) (auth : List Nat) (owner : Nat) (amt : Int) (lu now : Nat) : Bool :=
  decide (owner ∉ auth) || decide (amt < 0) || decide (lu > now + maxTtl - 1)
    || (decide (amt > 0) && decide (lu < now))

/-- (4) for an approve of `owner` -/
def vApprove (maxTtl : Nat) (auth : List Nat) (owner : Nat) (amt : Int) (lu : Nat) (o : Obs) : Option String :=
  if o.ok ∧ owner ∉ auth then
    some s!"site=fungible.auth.approve_unauthorized approve accepted without the owner {owner}'s authorization (auth={auth})"
  else if o.ok ∧ mustReject maxTtl auth owner amt lu o.now then
    some s!"site=fungible.auth.approve_bounds approve amt={amt} lu={lu} accepted at ledger {o.now} (max live_until {o.now + maxTtl - 1})"
  else if ¬ o.ok ∧ ¬ mustReject maxTtl auth owner amt lu o.now then
    some s!"site=fungible.auth.approve_bounds approve amt={amt} lu={lu} rejected at ledger {o.now} although owner authorized, amt >= 0 and now <= lu <= {o.now + maxTtl - 1}"
  else none

/-- (4) -/
def vBounds (maxTtl : Nat) (l : Line) (o : Obs) : Option String :=
  if l.kind = .approve then vApprove maxTtl l.auth (l.a.head?.getD 0) l.amt l.lu o else none

/-- the property's conclusion for one call, on observed values only (first failing check) -/
def verdict (m : Mon) (l : Line) (o : Obs) : Option String :=
  orElse (vRollback (prevOf m o.now) o) fun _ =>
  orElse (vBounds m.maxTtl l o) fun _ =>
  orElse (if o.ok then checkDebits m.n (prevOf m o.now) o m.g l.kind l.a l.auth l.amt else none) fun _ =>
  orElse (checkRaises m.n (prevOf m o.now) o l.kind l.a l.auth l.amt) fun _ =>
  checkGhost m.n o (ghostStep m.g o.ok l)

/-- the monitor's step on parsed values -/
def checkCore (m : Mon) (l : Line) (o : Obs) : Mon × Option String :=
  ({ m with prev := some o, g := ghostStep m.g o.ok l }, verdict m l o)

end Auth

end OZ.FungibleMon
