/-
Model of packages/contract-utils/src/math/{i128_fixed_point,i256_fixed_point,wad}.rs

Import-free (core Lean only) so that the driver links natively.
Integers are unbounded `Int` with explicit range checks; every Rust / host operation
that can overflow is modelled as checked, with three outcomes:
  ok v   – a value,
  none   – the checked variant's `None`,
  panic  – a Rust panic / host error (`panic_with_error!`, `overflow-checks`, host I256 trap).
-/
namespace OZ.MulDiv

inductive Res where
  | ok (v : Int)
  | none
  | panic
  deriving DecidableEq, Repr

def Res.toString : Res → String
  | .ok v => s!"ok {v}"
  | .none => "none"
  | .panic => "panic"

def I128_MIN : Int := -170141183460469231731687303715884105728
def I128_MAX : Int := 170141183460469231731687303715884105727
def I256_MIN : Int := -57896044618658097711785492504343953926634992332820282019728792003956564819968
def I256_MAX : Int := 57896044618658097711785492504343953926634992332820282019728792003956564819967

@[reducible] def in128 (x : Int) : Prop := I128_MIN ≤ x ∧ x ≤ I128_MAX
@[reducible] def in256 (x : Int) : Prop := I256_MIN ≤ x ∧ x ≤ I256_MAX

/-- narrowing to i128: `checked_*` results, `I256::to_i128` -/
def chk128 (x : Int) : Option Int := if in128 x then some x else Option.none
/-- host I256 arithmetic traps (panics) when the result leaves the 256-bit range -/
def chk256 (x : Int) : Option Int := if in256 x then some x else Option.none

def ofOpt : Option Int → Res
  | some v => .ok v
  | Option.none => .none

/-- a host operation that traps instead of returning: no value ⇒ panic -/
def trap : Option Int → Res
  | some v => .ok v
  | Option.none => .panic

/-- `.unwrap_or_else(|| panic_with_error!(..))` -/
def Res.orPanic : Res → Res
  | .ok v => .ok v
  | _ => .panic

/-! ### i128 primitives -/

def checkedMul128 (x y : Int) : Option Int := chk128 (x * y)
/-- `i128::checked_div` -/
def checkedDiv128 (r z : Int) : Option Int := if z = 0 then Option.none else chk128 (Int.tdiv r z)
/-- `i128::checked_rem_euclid`: `None` if `z == 0` or (`r == MIN` and `z == -1`) -/
def checkedRemEuclid128 (r z : Int) : Option Int :=
  if z = 0 then Option.none else if r = I128_MIN ∧ z = -1 then Option.none else some (r % z)

/-- private `div_floor(r, z)` of i128_fixed_point.rs. The plain `r / z` panics on `z == 0`
or overflow (Rust semantics, overflow-checks on), which is kept visible as `.panic`. -/
def divFloor128 (r z : Int) : Res :=
  if (r < 0 ∧ z > 0) ∨ (r > 0 ∧ z < 0) then
    match checkedRemEuclid128 r z with
    | Option.none => .none
    | some rem =>
      match checkedDiv128 r z with
      | Option.none => .panic
      | some q => ofOpt (chk128 (q - (if rem > 0 then 1 else 0)))
  else ofOpt (checkedDiv128 r z)

/-- private `div_ceil(r, z)` of i128_fixed_point.rs -/
def divCeil128 (r z : Int) : Res :=
  if (r ≤ 0 ∧ z > 0) ∨ (r ≥ 0 ∧ z < 0) then ofOpt (checkedDiv128 r z)
  else
    match checkedRemEuclid128 r z with
    | Option.none => .none
    | some rem =>
      match checkedDiv128 r z with
      | Option.none => .panic
      | some q => ofOpt (chk128 (q + (if rem > 0 then 1 else 0)))

/-! ### host I256 primitives (each traps on overflow / zero divisor) -/

def mul256 (x y : Int) : Option Int := chk256 (x * y)
def div256 (r z : Int) : Option Int := if z = 0 then Option.none else chk256 (Int.tdiv r z)
def remEuclid256 (r z : Int) : Option Int :=
  if z = 0 then Option.none else if r = I256_MIN ∧ z = -1 then Option.none else some (r % z)

/-- private `div_floor(&r, &z)` of i256_fixed_point.rs: always `Some(..)` unless a host op traps -/
def divFloor256 (r z : Int) : Res :=
  if (r < 0 ∧ z > 0) ∨ (r > 0 ∧ z < 0) then
    match remEuclid256 r z with
    | Option.none => .panic
    | some rem =>
      match div256 r z with
      | Option.none => .panic
      | some q =>
        match chk256 (q - (if rem > 0 then 1 else 0)) with
        | Option.none => .panic
        | some v => .ok v
  else trap (div256 r z)

def divCeil256 (r z : Int) : Res :=
  if (r ≤ 0 ∧ z > 0) ∨ (r ≥ 0 ∧ z < 0) then trap (div256 r z)
  else
    match remEuclid256 r z with
    | Option.none => .panic
    | some rem =>
      match div256 r z with
      | Option.none => .panic
      | some q =>
        match chk256 (q + (if rem > 0 then 1 else 0)) with
        | Option.none => .panic
        | some v => .ok v

inductive Rounding where | floor | ceil | trunc deriving DecidableEq, Repr

/-! ### `impl SorobanMulDiv for I256` -/

/-- plain variants: `mul_div_floor`, `mul_div_ceil`, `mul_div` -/
def mulDiv256 (rd : Rounding) (x y d : Int) : Res :=
  if d = 0 then .panic else
  match mul256 x y with
  | Option.none => .panic
  | some r =>
    match rd with
    | .floor => (divFloor256 r d).orPanic
    | .ceil => (divCeil256 r d).orPanic
    | .trunc => trap (div256 r d)

/-- checked variants: `None` only for a zero denominator; host traps still panic -/
def checkedMulDiv256 (rd : Rounding) (x y d : Int) : Res :=
  if d = 0 then .none else
  match mul256 x y with
  | Option.none => .panic
  | some r =>
    match rd with
    | .floor => divFloor256 r d
    | .ceil => divCeil256 r d
    | .trunc => trap (div256 r d)

/-! ### `impl SorobanMulDiv for i128` -/

/-- `res.to_i128().unwrap_or_else(panic)` on a plain I256 result -/
def narrowPlain : Res → Res
  | .ok v => (ofOpt (chk128 v)).orPanic
  | _ => .panic

/-- `res.map(|r| r.to_i128())?` on a checked I256 result -/
def narrowChecked : Res → Res
  | .ok v => ofOpt (chk128 v)
  | .none => .none
  | .panic => .panic

def mulDiv128 (rd : Rounding) (x y d : Int) : Res :=
  if d = 0 then .panic else
  match checkedMul128 x y with
  | some r =>
    match rd with
    | .floor => (divFloor128 r d).orPanic
    | .ceil => (divCeil128 r d).orPanic
    | .trunc => (ofOpt (checkedDiv128 r d)).orPanic   -- `r / *denominator`
  | Option.none => narrowPlain (mulDiv256 rd x y d)

def checkedMulDiv128 (rd : Rounding) (x y d : Int) : Res :=
  match checkedMul128 x y with
  | some r =>
    match rd with
    | .floor => divFloor128 r d
    | .ceil => divCeil128 r d
    | .trunc => ofOpt (checkedDiv128 r d)
  | Option.none => narrowChecked (checkedMulDiv256 rd x y d)

/-! ### exact specification -/

def Int.cdiv (a b : Int) : Int := -(Int.fdiv (-a) b)

def exactQ (rd : Rounding) (x y d : Int) : Int :=
  match rd with
  | .floor => Int.fdiv (x * y) d
  | .ceil => Int.cdiv (x * y) d
  | .trunc => Int.tdiv (x * y) d

/-- what the property demands of the i128 operations: the exactly rounded quotient when
`d ≠ 0` and it fits in i128, otherwise the error outcome `err`. -/
def spec128 (err : Res) (rd : Rounding) (x y d : Int) : Res :=
  if d = 0 then err else
  if in128 (exactQ rd x y d) then .ok (exactQ rd x y d) else err

/-! ### Wad (18 decimals) -/

def WAD : Int := 1000000000000000000

def wadCheckedMul (a b : Int) : Res := checkedMulDiv128 .trunc a b WAD
def wadCheckedDiv (a b : Int) : Res := if b = 0 then .none else checkedMulDiv128 .trunc a WAD b
def wadFromRatio (num den : Int) : Res :=
  if den = 0 then .panic else (checkedMulDiv128 .trunc num WAD den).orPanic
def wadFromInteger (n : Int) : Res := (ofOpt (checkedMul128 n WAD)).orPanic
def wadCheckedMulInt (a n : Int) : Res := ofOpt (checkedMul128 a n)
def wadCheckedDivInt (a n : Int) : Res :=
  if n = 0 then .none else
  -- plain `self.0 / n`: panics on MIN / -1
  match chk128 (Int.tdiv a n) with | some q => .ok q | Option.none => .panic
def wadCheckedAdd (a b : Int) : Res := ofOpt (chk128 (a + b))
def wadCheckedSub (a b : Int) : Res := ofOpt (chk128 (a - b))

/-- the `while exponent > 0` loop of `checked_pow`; `fuel` bounds the iterations
(33 suffices for a u32 exponent; each iteration halves it). -/
def powLoop : Nat → Nat → Int → Int → Res
  | 0, _, _, result => .ok result
  | fuel + 1, exponent, base, result =>
    if exponent = 0 then .ok result else
    let step1 : Res := if exponent % 2 = 1 then checkedMulDiv128 .trunc result base WAD else .ok result
    match step1 with
    | .ok result' =>
      let exponent' := exponent / 2
      if exponent' > 0 then
        match checkedMulDiv128 .trunc base base WAD with
        | .ok base' => powLoop fuel exponent' base' result'
        | r => r
      else powLoop fuel exponent' base result'
    | r => r

def wadCheckedPow (a : Int) (exponent : Nat) : Res :=
  if exponent = 0 then .ok WAD
  else if exponent = 1 then .ok a
  else if a = 0 then .ok 0
  else if a = WAD then .ok a
  else powLoop 33 exponent a WAD

def wadPow (a : Int) (exponent : Nat) : Res := (wadCheckedPow a exponent).orPanic

end OZ.MulDiv
