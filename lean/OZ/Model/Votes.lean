import OZ.Model.Host
import OZ.Model.Fungible
/-
Model of packages/governance/src/votes/storage.rs (the vote-tracking library), line by
line, and of the two token wrappers that feed it:
packages/tokens/src/fungible/extensions/votes/storage.rs (`FungibleVotes`, on top of
`OZ.Fungible`) and packages/tokens/src/non_fungible/extensions/votes/storage.rs
(`NonFungibleVotes`, on top of a model of the non-fungible `Base`), plus the owner gate of
examples/fungible-votes/src/contract.rs. Imports only other `OZ.Model` files.

Storage, as coded: a checkpoint timeline is a counter (`NumCheckpoints(a)` /
`NumTotalSupplyCheckpoints`) and one entry per index (`DelegateCheckpoint(a, i)` /
`TotalSupplyCheckpoint(i)`): `Timeline = { num, cp : index ↦ Option Checkpoint }`.
`Timeline.toList` is the same thing as a list (oldest first).
`VotingUnits(a)` absent = 0 (`set_voting_units` removes the entry at 0), `Delegatee(a)` is
an `Option`. All entries are persistent / instance storage; their TTL extensions have no
functional effect inside the archival horizon and are not modelled.
`u128` values are `Nat` with explicit `≤ U128_MAX` checks (`checked_add`, `checked_sub`);
`u32` counters are `Nat` with an explicit check where the code can overflow (`num + 1`;
the workspace builds with `overflow-checks = true`).
-/
namespace OZ.Votes
open OZ.Host

def U128_MAX : Nat := 340282366920938463463374607431768211455

inductive Err where
  | futureLookup | mathOverflow | insufficientVotingUnits | sameDelegate | checkpointNotFound
  | auth | overflowPanic
  | token (e : OZ.Fungible.Err)
  | nonExistentToken | incorrectOwner | insufficientApproval | invalidApprover
  | invalidLiveUntil | nftMathOverflow | tokenIdsDepleted | hostError
  deriving DecidableEq, Repr

/-- `Checkpoint { ledger: u32, votes: u128 }` -/
structure Checkpoint where
  ledger : Nat
  votes : Nat
  deriving DecidableEq, Repr

/-- `CheckpointOp` -/
inductive CheckpointOp where
  | add | sub
  deriving DecidableEq, Repr

/-- one checkpoint timeline: the counter and the indexed entries -/
structure Timeline where
  num : Nat
  cp : Nat → Option Checkpoint

def Timeline.empty : Timeline := ⟨0, fun _ => none⟩

/-- the entries `0 .. n-1` as a list, oldest first -/
def entries (cp : Nat → Option Checkpoint) : Nat → List Checkpoint
  | 0 => []
  | n + 1 => entries cp n ++ (cp n).toList

def Timeline.toList (t : Timeline) : List Checkpoint := entries t.cp t.num

structure State where
  units : Nat → Nat                 -- VotingUnits(a)
  delegatee : Nat → Option Nat      -- Delegatee(a)
  tl : Nat → Timeline               -- NumCheckpoints(a), DelegateCheckpoint(a, i)
  total : Timeline                  -- NumTotalSupplyCheckpoints, TotalSupplyCheckpoint(i)
  now : Nat                         -- e.ledger().sequence()

def init (now : Nat) : State :=
  { units := fun _ => 0, delegatee := fun _ => none, tl := fun _ => Timeline.empty,
    total := Timeline.empty, now := now }

/-! ### queries -/

/-- `get_checkpoint` -/
def getCheckpoint (t : Timeline) (i : Nat) : Except Err Checkpoint :=
  match t.cp i with
  | some c => .ok c
  | none => .error .checkpointNotFound

/-- `get_votes` / `get_total_supply` on one timeline: votes of entry `num - 1`, 0 if there is none.
(The code panics with `CheckpointNotFound` if the entry is missing; `latest_present` in
Lemmas/Votes shows it never is.) -/
def latest (t : Timeline) : Except Err Nat :=
  if t.num = 0 then .ok 0
  else
    match t.cp (t.num - 1) with
    | some c => .ok c.votes
    | none => .error .checkpointNotFound

/-- the same as a total function, for stating theorems -/
def latestVotes (t : Timeline) : Nat :=
  if t.num = 0 then 0
  else
    match t.cp (t.num - 1) with
    | some c => c.votes
    | none => 0

/-- `u32::div_ceil(2)` -/
def divCeil2 (x : Nat) : Nat := x / 2 + (if x % 2 > 0 then 1 else 0)

/-- `let mid = low + (high - low).div_ceil(2);` -/
def mid (low high : Nat) : Nat := low + divCeil2 (high - low)

/-- the `while low < high` loop of `lookup_checkpoint_at` as a recursion: returns the final
`low`. `mid - 1` is a `u32` subtraction in the code; `mid_pos` (Lemmas/Votes) shows
`mid ≥ 1` whenever the loop body runs, so it never wraps. -/
def bsearch (cp : Nat → Option Checkpoint) (ledger : Nat) (low high : Nat) : Except Err Nat :=
  if low < high then
    match cp (mid low high) with
    | none => .error .checkpointNotFound
    | some c =>
      if c.ledger ≤ ledger then bsearch cp ledger (mid low high) high
      else bsearch cp ledger low (mid low high - 1)
  else .ok low
termination_by high - low
decreasing_by
  all_goals simp only [mid, divCeil2]
  all_goals split <;> omega

/-- tail of `lookup_checkpoint_at`: the binary search and the final read -/
def lookupSearch (t : Timeline) (ledger : Nat) : Except Err Nat :=
  match bsearch t.cp ledger 0 (t.num - 1) with
  | .error e => .error e
  | .ok low =>
    match t.cp low with
    | some c => .ok c.votes
    | none => .error .checkpointNotFound

/-- middle of `lookup_checkpoint_at`: "ledger is before the first checkpoint" -/
def lookupFirst (t : Timeline) (ledger : Nat) : Except Err Nat :=
  match t.cp 0 with
  | none => .error .checkpointNotFound
  | some first => if first.ledger > ledger then .ok 0 else lookupSearch t ledger

/-- `lookup_checkpoint_at(e, ledger, num, checkpoint_type)` -/
def lookupCheckpointAt (t : Timeline) (ledger : Nat) : Except Err Nat :=
  if t.num = 0 then .ok 0
  else
    match t.cp (t.num - 1) with
    | none => .error .checkpointNotFound
    | some last => if last.ledger ≤ ledger then .ok last.votes else lookupFirst t ledger

/-- `get_votes` -/
def getVotes (s : State) (a : Nat) : Except Err Nat := latest (s.tl a)
/-- `get_total_supply` -/
def getTotalSupply (s : State) : Except Err Nat := latest s.total

/-- `get_votes_at_checkpoint`: the current and every future ledger is refused -/
def getVotesAtCheckpoint (s : State) (a : Nat) (ledger : Nat) : Except Err Nat :=
  if ledger ≥ s.now then .error .futureLookup else lookupCheckpointAt (s.tl a) ledger

/-- `get_total_supply_at_checkpoint` -/
def getTotalSupplyAtCheckpoint (s : State) (ledger : Nat) : Except Err Nat :=
  if ledger ≥ s.now then .error .futureLookup else lookupCheckpointAt s.total ledger

/-- `get_delegate`, `get_voting_units`, `num_checkpoints` -/
def getDelegate (s : State) (a : Nat) : Option Nat := s.delegatee a
def getVotingUnits (s : State) (a : Nat) : Nat := s.units a
def numCheckpoints (s : State) (a : Nat) : Nat := (s.tl a).num

/-! ### state changes -/

/-- `apply_checkpoint_op` -/
def applyOp (previous : Nat) (op : CheckpointOp) (delta : Nat) : Except Err Nat :=
  match op with
  | .add => if previous + delta ≤ U128_MAX then .ok (previous + delta) else .error .mathOverflow
  | .sub => if delta ≤ previous then .ok (previous - delta) else .error .mathOverflow

/-- the writing half of `push_checkpoint`: overwrite the last entry when it carries the
current ledger, otherwise write entry `num` and bump the counter (`num + 1` is an
unchecked `u32` addition) -/
def store (t : Timeline) (now votes : Nat) : Except Err Timeline :=
  if t.num = 0 then .ok ⟨1, upd t.cp 0 (some ⟨now, votes⟩)⟩
  else
    match t.cp (t.num - 1) with
    | none => .error .checkpointNotFound
    | some c =>
      if c.ledger = now then .ok ⟨t.num, upd t.cp (t.num - 1) (some ⟨now, votes⟩)⟩
      else if t.num + 1 ≤ U32_MAX then .ok ⟨t.num + 1, upd t.cp t.num (some ⟨now, votes⟩)⟩
      else .error .overflowPanic

/-- `push_checkpoint`: read the previous value (0 without checkpoints), apply the delta with
checked arithmetic, store -/
def pushCheckpoint (t : Timeline) (now : Nat) (op : CheckpointOp) (delta : Nat) :
    Except Err Timeline :=
  match latest t with
  | .error e => .error e
  | .ok previous =>
    match applyOp previous op delta with
    | .error e => .error e
    | .ok votes => store t now votes

/-- `push_checkpoint(e, &CheckpointType::Account(a), op, amount)` when there is an `a` -/
def pushAccount (s : State) (who : Option Nat) (op : CheckpointOp) (amount : Nat) :
    Except Err State :=
  match who with
  | none => .ok s
  | some a =>
    match pushCheckpoint (s.tl a) s.now op amount with
    | .error e => .error e
    | .ok t => .ok { s with tl := upd s.tl a t }

/-- `move_delegate_votes` -/
def moveDelegateVotes (s : State) (frm to : Option Nat) (amount : Nat) : Except Err State :=
  if amount = 0 then .ok s
  else if frm = to then .ok s
  else
    match pushAccount s frm .sub amount with
    | .error e => .error e
    | .ok s1 => pushAccount s1 to .add amount

def pushTotal (s : State) (op : CheckpointOp) (amount : Nat) : Except Err State :=
  match pushCheckpoint s.total s.now op amount with
  | .error e => .error e
  | .ok t => .ok { s with total := t }

/-- first half of `transfer_voting_units`: lower `from`'s units (`checked_sub`), or (mint)
raise the total supply timeline -/
def debitUnits (s : State) (frm : Option Nat) (amount : Nat) : Except Err State :=
  match frm with
  | some a =>
    if amount ≤ s.units a then .ok { s with units := upd s.units a (s.units a - amount) }
    else .error .insufficientVotingUnits
  | none => pushTotal s .add amount

/-- second half: raise `to`'s units (`checked_add`), or (burn) lower the total supply -/
def creditUnits (s : State) (to : Option Nat) (amount : Nat) : Except Err State :=
  match to with
  | some b =>
    if s.units b + amount ≤ U128_MAX then .ok { s with units := upd s.units b (s.units b + amount) }
    else .error .mathOverflow
  | none => pushTotal s .sub amount

/-- `transfer_voting_units`: the delegates are looked up first, then units move, then the
votes move between the two delegates -/
def transferVotingUnits (s : State) (frm to : Option Nat) (amount : Nat) : Except Err State :=
  if amount = 0 then .ok s
  else
    match debitUnits s frm amount with
    | .error e => .error e
    | .ok s1 =>
      match creditUnits s1 to amount with
      | .error e => .error e
      | .ok s2 => moveDelegateVotes s2 (frm.bind s.delegatee) (to.bind s.delegatee) amount

def requireAuth (auth : List Nat) (a : Nat) : Except Err Unit :=
  if a ∈ auth then .ok () else .error .auth

/-- `delegate` -/
def delegate (s : State) (auth : List Nat) (account delegatee : Nat) : Except Err State :=
  match requireAuth auth account with
  | .error e => .error e
  | .ok _ =>
    if s.delegatee account = some delegatee then .error .sameDelegate
    else
      moveDelegateVotes { s with delegatee := upd s.delegatee account (some delegatee) }
        (s.delegatee account) (some delegatee) (s.units account)

/-! ### the library as a state machine -/

inductive Op where
  | transferUnits (frm to : Option Nat) (amount : Nat)
  | delegate (account delegatee : Nat)
  | advance (n : Nat)
  deriving Repr

def apply (s : State) (auth : List Nat) : Op → Except Err State
  | .transferUnits f t a => transferVotingUnits s f t a
  | .delegate a d => delegate s auth a d
  | .advance n => .ok { s with now := s.now + n }

/-- a failed invocation is rolled back by the host -/
def step (s : State) (x : List Nat × Op) : State :=
  match apply s x.1 x.2 with
  | .ok s' => s'
  | .error _ => s

def run (s : State) (ops : List (List Nat × Op)) : State := ops.foldl step s

def Op.addrs : Op → List Nat
  | .transferUnits f t _ => f.toList ++ t.toList
  | .delegate a d => [a, d]
  | .advance _ => []

/-! ### ghost history: what `get_votes a` / `get_total_supply` were at the end of each ledger -/

structure Ghost where
  votes : Nat → Nat → Nat      -- ledger ↦ account ↦ votes at the end of that ledger
  total : Nat → Nat            -- ledger ↦ total supply at the end of that ledger

def Ghost.empty : Ghost := ⟨fun _ _ => 0, fun _ => 0⟩

/-- when the ledger moves from `s.now` to `s.now + n`, the ledgers `s.now .. s.now + n - 1`
end with the current values -/
def Ghost.close (g : Ghost) (s : State) (n : Nat) : Ghost :=
  { votes := fun l a => if s.now ≤ l ∧ l < s.now + n then latestVotes (s.tl a) else g.votes l a,
    total := fun l => if s.now ≤ l ∧ l < s.now + n then latestVotes s.total else g.total l }

def gstep (x : State × Ghost) (o : List Nat × Op) : State × Ghost :=
  match o.2 with
  | .advance n => (step x.1 o, x.2.close x.1 n)
  | _ => (step x.1 o, x.2)

def grun (x : State × Ghost) (ops : List (List Nat × Op)) : State × Ghost := ops.foldl gstep x

/-! ### specification of a past lookup: the last checkpoint at or before `q` -/

/-- votes of the highest-index entry among the first `n` whose ledger is `≤ q`; 0 if none -/
def scan (cp : Nat → Option Checkpoint) (q : Nat) : Nat → Nat
  | 0 => 0
  | n + 1 =>
    match cp n with
    | some c => if c.ledger ≤ q then c.votes else scan cp q n
    | none => scan cp q n

def valueAt (t : Timeline) (q : Nat) : Nat := scan t.cp q t.num

/-- sum of a `Nat`-valued map over a (duplicate-free) universe of accounts -/
def sumN (U : List Nat) (f : Nat → Nat) : Nat := (U.map f).sum

/-- current voting power as a total function -/
def votesOf (s : State) (a : Nat) : Nat := latestVotes (s.tl a)

/-- Σ of the voting units of the accounts in `U` that currently delegate to `a` -/
def delegatedTo (U : List Nat) (s : State) (a : Nat) : Nat :=
  sumN U (fun d => if s.delegatee d = some a then s.units d else 0)

/-! ### what a token wrapper asks of the library after its own bookkeeping -/

inductive Act where
  | nothing
  | move (frm to : Option Nat) (amount : Nat)     -- `transfer_voting_units(e, from, to, amount)`
  | delegate (account delegatee : Nat)            -- `Votes::delegate`
  | advance (n : Nat)                             -- the ledger moves
  deriving Repr

def act (v : State) (auth : List Nat) : Act → Except Err State
  | .nothing => .ok v
  | .move f t a => transferVotingUnits v f t a
  | .delegate a d => delegate v auth a d
  | .advance n => .ok { v with now := v.now + n }

/-- the same as library-level operations -/
def Act.ops (auth : List Nat) : Act → List (List Nat × Op)
  | .nothing => []
  | .move f t a => [([], .transferUnits f t a)]
  | .delegate a d => [(auth, .delegate a d)]
  | .advance n => [([], .advance n)]

end OZ.Votes

/-! ## `FungibleVotes`: the fungible wrapper
(packages/tokens/src/fungible/extensions/votes/storage.rs) -/
namespace OZ.FungibleVotes
open OZ.Host OZ.Votes

structure State where
  tok : OZ.Fungible.State
  v : OZ.Votes.State

def init (now : Nat) : State := ⟨OZ.Fungible.init now, OZ.Votes.init now⟩

inductive Op where
  | mint (to : Nat) (amount : Int)
  | transfer (frm to : Nat) (amount : Int)
  | transferFrom (spender frm to : Nat) (amount : Int)
  | approve (owner spender : Nat) (amount : Int) (lu : Nat)
  | burn (frm : Nat) (amount : Int)
  | burnFrom (spender frm : Nat) (amount : Int)
  | delegate (account delegatee : Nat)
  | advance (n : Nat)
  deriving Repr

/-- `if amount > 0 { transfer_voting_units(e, from, to, amount as u128); }` -/
def moveAct (frm to : Option Nat) (amount : Int) : Act :=
  if amount > 0 then .move frm to amount.toNat else .nothing

/-- the `Base::…` call every `FungibleVotes::…` entry point starts with, paired with the
voting-unit movement that follows it (`approve` is not overridden; `delegate` does not touch
the token) -/
def base (c : Cfg) (tok : OZ.Fungible.State) (auth : List Nat) :
    Op → Except OZ.Fungible.Err (OZ.Fungible.State × Act)
  | .mint t a => (OZ.Fungible.mint tok t a).map (·, moveAct none (some t) a)
  | .transfer f t a => (OZ.Fungible.transfer tok auth f t a).map (·, moveAct (some f) (some t) a)
  | .transferFrom sp f t a =>
    (OZ.Fungible.transferFrom c tok auth sp f t a).map (·, moveAct (some f) (some t) a)
  | .approve o sp a lu => (OZ.Fungible.approve c tok auth o sp a lu).map (·, .nothing)
  | .burn f a => (OZ.Fungible.burn tok auth f a).map (·, moveAct (some f) none a)
  | .burnFrom sp f a => (OZ.Fungible.burnFrom c tok auth sp f a).map (·, moveAct (some f) none a)
  | .delegate a d => .ok (tok, .delegate a d)
  | .advance n => .ok ({ tok with now := tok.now + n }, .advance n)

/-- one entry point: `FungibleVotes::{mint, transfer, transfer_from, burn, burn_from}`,
`Base::approve`, `Votes::delegate` -/
def apply (c : Cfg) (s : State) (auth : List Nat) (op : Op) : Except Err State :=
  match base c s.tok auth op with
  | .error e => .error (.token e)
  | .ok (tok, a) =>
    match act s.v auth a with
    | .error e => .error e
    | .ok v => .ok ⟨tok, v⟩

/-- examples/fungible-votes: `mint` is `#[only_owner]`, there are no burn entry points;
everything else is the trait default with `ContractType = FungibleVotes` -/
def exampleApply (c : Cfg) (owner : Nat) (s : State) (auth : List Nat) (op : Op) : Except Err State :=
  match op with
  | .mint t a =>
    match OZ.Votes.requireAuth auth owner with
    | .error e => .error e
    | .ok _ => apply c s auth (.mint t a)
  | .burn _ _ => .error .hostError
  | .burnFrom _ _ _ => .error .hostError
  | op => apply c s auth op

def step (c : Cfg) (s : State) (x : List Nat × Op) : State :=
  match apply c s x.1 x.2 with
  | .ok s' => s'
  | .error _ => s

def run (c : Cfg) (s : State) (ops : List (List Nat × Op)) : State := ops.foldl (step c) s

def Op.addrs : Op → List Nat
  | .mint t _ => [t]
  | .transfer f t _ => [f, t]
  | .transferFrom sp f t _ => [sp, f, t]
  | .approve o sp _ _ => [o, sp]
  | .burn f _ => [f]
  | .burnFrom sp f _ => [sp, f]
  | .delegate a d => [a, d]
  | .advance _ => []

/-- the token-level operation of an entry point (for reuse of the C01 invariant) -/
def Op.tokOp : Op → Option OZ.Fungible.Op
  | .mint t a => some (.mint t a)
  | .transfer f t a => some (.transfer f t a)
  | .transferFrom sp f t a => some (.transferFrom sp f t a)
  | .approve o sp a lu => some (.approve o sp a lu)
  | .burn f a => some (.burn f a)
  | .burnFrom sp f a => some (.burnFrom sp f a)
  | .delegate _ _ => none
  | .advance n => some (.advance n)

/-- the library-level operations one wrapper invocation performs (none when it fails) -/
def vops (c : Cfg) (s : State) (x : List Nat × Op) : List (List Nat × OZ.Votes.Op) :=
  match apply c s x.1 x.2 with
  | .error _ => []
  | .ok _ =>
    match base c s.tok x.1 x.2 with
    | .error _ => []
    | .ok (_, a) => a.ops x.1

/-- all library-level operations of a wrapper history -/
def vtrace (c : Cfg) (s : State) : List (List Nat × Op) → List (List Nat × OZ.Votes.Op)
  | [] => []
  | x :: xs => vops c s x ++ vtrace c (step c s x) xs

end OZ.FungibleVotes

/-! ## `NonFungibleVotes`: the non-fungible wrapper
(packages/tokens/src/non_fungible/extensions/votes/storage.rs) over a model of the
non-fungible `Base` (packages/tokens/src/non_fungible/storage.rs,
extensions/burnable/storage.rs, utils/sequential/storage.rs) -/
namespace OZ.NonFungibleVotes
open OZ.Host OZ.Votes

/-- `ApprovalData` -/
structure ApprovalData where
  approved : Nat
  liveUntilLedger : Nat
  deriving DecidableEq, Repr

structure Nft where
  owner : Nat → Option Nat                         -- Owner(token_id)
  bal : Nat → Nat                                  -- Balance(account), u32
  approval : Nat → Option (Temp ApprovalData)      -- Approval(token_id), temporary
  forAll : Nat → Nat → Option (Temp Nat)           -- ApprovalForAll(owner, operator), temporary
  counter : Nat                                    -- TokenIdCounter
  now : Nat

structure State where
  nft : Nft
  v : OZ.Votes.State

def init (now : Nat) : State :=
  ⟨{ owner := fun _ => none, bal := fun _ => 0, approval := fun _ => none,
     forAll := fun _ _ => none, counter := 0, now := now }, OZ.Votes.init now⟩

/-- `Base::owner_of` -/
def ownerOf (n : Nft) (id : Nat) : Except Err Nat :=
  match n.owner id with
  | some o => .ok o
  | none => .error .nonExistentToken

/-- `Base::get_approved` -/
def getApproved (n : Nft) (id : Nat) : Option Nat :=
  match Temp.get? (n.approval id) n.now with
  | some d => if d.liveUntilLedger < n.now then none else some d.approved
  | none => none

/-- `Base::is_approved_for_all` -/
def isApprovedForAll (n : Nft) (owner operator : Nat) : Bool :=
  match Temp.get? (n.forAll owner operator) n.now with
  | some lu => decide (lu ≥ n.now)
  | none => false

/-- `Base::check_spender_approval` -/
def checkSpenderApproval (n : Nft) (spender owner id : Nat) : Except Err Unit :=
  if spender ≠ owner ∧ getApproved n id ≠ some spender ∧ isApprovedForAll n owner spender = false
  then .error .insufficientApproval else .ok ()

/-- first half of `Base::update`: check the owner, `decrease_balance`, clear the approval -/
def updateFrom (n : Nft) (frm : Option Nat) (id : Nat) : Except Err Nft :=
  match frm with
  | none => .ok n
  | some f =>
    match ownerOf n id with
    | .error e => .error e
    | .ok o =>
      if o ≠ f then .error .incorrectOwner
      else if n.bal f < 1 then .error .nftMathOverflow
      else .ok { n with bal := upd n.bal f (n.bal f - 1), approval := upd n.approval id none }

/-- second half of `Base::update`: `increase_balance` and set the owner, or remove the owner -/
def updateTo (n : Nft) (to : Option Nat) (id : Nat) : Except Err Nft :=
  match to with
  | some t =>
    if n.bal t + 1 ≤ U32_MAX then
      .ok { n with bal := upd n.bal t (n.bal t + 1), owner := upd n.owner id (some t) }
    else .error .nftMathOverflow
  | none => .ok { n with owner := upd n.owner id none }

/-- `Base::update` -/
def update (n : Nft) (frm to : Option Nat) (id : Nat) : Except Err Nft :=
  match updateFrom n frm id with
  | .error e => .error e
  | .ok n1 => updateTo n1 to id

/-- `spender.require_auth(); Base::check_spender_approval(..)` -/
def spenderGate (n : Nft) (auth : List Nat) (spender frm id : Nat) : Except Err Unit :=
  match OZ.Votes.requireAuth auth spender with
  | .error e => .error e
  | .ok _ => checkSpenderApproval n spender frm id

/-- `Base::transfer` / `Base::burn` (`to = none`): `from.require_auth()` then `update` -/
def baseMove (n : Nft) (auth : List Nat) (frm : Nat) (to : Option Nat) (id : Nat) : Except Err Nft :=
  match OZ.Votes.requireAuth auth frm with
  | .error e => .error e
  | .ok _ => update n (some frm) to id

/-- `Base::transfer_from` / `Base::burn_from` (`to = none`) -/
def baseMoveFrom (n : Nft) (auth : List Nat) (spender frm : Nat) (to : Option Nat) (id : Nat) :
    Except Err Nft :=
  match spenderGate n auth spender frm id with
  | .error e => .error e
  | .ok _ => update n (some frm) to id

/-- `Base::mint` (does not check that the id is unused) -/
def baseMint (n : Nft) (to id : Nat) : Except Err Nft := update n none (some to) id

/-- `Base::sequential_mint`: `increment_token_id(e, 1)` (`checked_add`) then `update` -/
def baseSequentialMint (n : Nft) (to : Nat) : Except Err Nft :=
  if n.counter + 1 ≤ U32_MAX then update { n with counter := n.counter + 1 } none (some to) n.counter
  else .error .tokenIdsDepleted

/-- temporary-entry write + `extend_ttl(live_for, live_for)` shared by both approvals -/
def tempStore {α : Type} (c : Cfg) (old : Option (Temp α)) (now : Nat) (val : α) (lu : Nat) :
    Except Err (Temp α) :=
  match Temp.extend c (Temp.set c old now val) now (lu - now) (lu - now) with
  | none => .error .hostError
  | some e => .ok e

/-- `Base::approve` = `owner_of` + `approve_for_owner` -/
def baseApprove (c : Cfg) (n : Nft) (auth : List Nat) (approver approved id lu : Nat) : Except Err Nft :=
  match OZ.Votes.requireAuth auth approver with
  | .error e => .error e
  | .ok _ =>
    match ownerOf n id with
    | .error e => .error e
    | .ok owner =>
      if approver ≠ owner ∧ isApprovedForAll n owner approver = false then .error .invalidApprover
      else if lu = 0 then .ok { n with approval := upd n.approval id none }
      else if lu < n.now then .error .invalidLiveUntil
      else
        match tempStore c (n.approval id) n.now ⟨approved, lu⟩ lu with
        | .error e => .error e
        | .ok t => .ok { n with approval := upd n.approval id (some t) }

/-- `Base::approve_for_all` -/
def baseApproveForAll (c : Cfg) (n : Nft) (auth : List Nat) (owner operator lu : Nat) : Except Err Nft :=
  match OZ.Votes.requireAuth auth owner with
  | .error e => .error e
  | .ok _ =>
    if lu = 0 then .ok { n with forAll := upd2 n.forAll owner operator none }
    else if lu < n.now then .error .invalidLiveUntil
    else
      match tempStore c (n.forAll owner operator) n.now lu lu with
      | .error e => .error e
      | .ok t => .ok { n with forAll := upd2 n.forAll owner operator (some t) }

inductive Op where
  | mint (to id : Nat)
  | sequentialMint (to : Nat)
  | transfer (frm to id : Nat)
  | transferFrom (spender frm to id : Nat)
  | burn (frm id : Nat)
  | burnFrom (spender frm id : Nat)
  | approve (approver approved id lu : Nat)
  | approveForAll (owner operator lu : Nat)
  | delegate (account delegatee : Nat)
  | advance (n : Nat)
  deriving Repr

/-- the `Base::…` call every `NonFungibleVotes::…` entry point starts with, paired with the
`transfer_voting_units(e, from, to, 1)` that follows it (approvals are not overridden) -/
def base (c : Cfg) (n : Nft) (auth : List Nat) : Op → Except Err (Nft × Act)
  | .mint t id => (baseMint n t id).map (·, .move none (some t) 1)
  | .sequentialMint t => (baseSequentialMint n t).map (·, .move none (some t) 1)
  | .transfer f t id => (baseMove n auth f (some t) id).map (·, .move (some f) (some t) 1)
  | .transferFrom sp f t id => (baseMoveFrom n auth sp f (some t) id).map (·, .move (some f) (some t) 1)
  | .burn f id => (baseMove n auth f none id).map (·, .move (some f) none 1)
  | .burnFrom sp f id => (baseMoveFrom n auth sp f none id).map (·, .move (some f) none 1)
  | .approve a b id lu => (baseApprove c n auth a b id lu).map (·, .nothing)
  | .approveForAll o p lu => (baseApproveForAll c n auth o p lu).map (·, .nothing)
  | .delegate a d => .ok (n, .delegate a d)
  | .advance k => .ok ({ n with now := n.now + k }, .advance k)

/-- one entry point -/
def apply (c : Cfg) (s : State) (auth : List Nat) (op : Op) : Except Err State :=
  match base c s.nft auth op with
  | .error e => .error e
  | .ok (n, a) =>
    match act s.v auth a with
    | .error e => .error e
    | .ok v => .ok ⟨n, v⟩

def step (c : Cfg) (s : State) (x : List Nat × Op) : State :=
  match apply c s x.1 x.2 with
  | .ok s' => s'
  | .error _ => s

def run (c : Cfg) (s : State) (ops : List (List Nat × Op)) : State := ops.foldl (step c) s

def Op.addrs : Op → List Nat
  | .mint t _ => [t]
  | .sequentialMint t => [t]
  | .transfer f t _ => [f, t]
  | .transferFrom sp f t _ => [sp, f, t]
  | .burn f _ => [f]
  | .burnFrom sp f _ => [sp, f]
  | .approve a b _ _ => [a, b]
  | .approveForAll o p _ => [o, p]
  | .delegate a d => [a, d]
  | .advance _ => []

def vops (c : Cfg) (s : State) (x : List Nat × Op) : List (List Nat × OZ.Votes.Op) :=
  match apply c s x.1 x.2 with
  | .error _ => []
  | .ok _ =>
    match base c s.nft x.1 x.2 with
    | .error _ => []
    | .ok (_, a) => a.ops x.1

def vtrace (c : Cfg) (s : State) : List (List Nat × Op) → List (List Nat × OZ.Votes.Op)
  | [] => []
  | x :: xs => vops c s x ++ vtrace c (step c s x) xs

end OZ.NonFungibleVotes
