import OZ.Model.RegTopics
import OZ.Model.RegMonUtil
/-
The `topics` MONITOR of C20 on parsed values (the sub-driver OZ/Drv/C20Topics.lean parses the trace
lines and calls `checkCore`; it never calls a model transition function). The ghost is the plain
set of claim topics, the plain set of trusted issuers and the plain relation (issuer, topic) built
from the accepted operations. Kept apart from the driver so that OZ/Props/C20bMon.lean can prove it
SOUND (`monitor_accepts_every_model_trace`). Import-free apart from the model.
-/
namespace OZ.RegTopics.Mon
open OZ.RegMon OZ.RegTopics

/-- ascending order (as `OZ.Drv.C20.sortN`) -/
def sortN (l : List Nat) : List Nat := l.mergeSort (fun a b => decide (a ≤ b))

/-- one printed entry `key:list` of `TI=`, `IT=`, `M=` -/
def entry (k : Nat) (l : List Nat) : String := s!"{k}:{nats l}"

/-- the observation line
`ok|err T=<topics> I=<issuers> TI=<t:issuers;..> IT=<i:topics;..> M=<t:issuers;..|x> tr=<bits> h=<0|1|x ..>` -/
structure Obs where
  ok : Bool
  /-- `get_claim_topics` -/
  T : List Nat
  /-- `get_trusted_issuers` -/
  I : List Nat
  /-- the entries of `TI=`: topic, `get_claim_topic_issuers` (only the topics for which it succeeds) -/
  TI : List (Nat × List Nat)
  /-- the entries of `IT=`: issuer, `get_trusted_issuer_claim_topics` (only where it succeeds) -/
  IT : List (Nat × List Nat)
  /-- the word after `M=` as printed (`x` = `get_claim_topics_and_issuers` failed) -/
  Mraw : String
  /-- the entries of `M=`, in the printed order (ascending topic) -/
  M : List (Nat × List Nat)
  /-- the word after `tr=`: `is_trusted_issuer` over issuers 0..ni-1 -/
  tr : String
  /-- the word after `h=`: `has_claim_topic` over issuers 0..ni-1 x topics 0..ht-1 -/
  h : String

structure Mon where
  topics : List Nat
  issuers : List Nat
  rel : List (Nat × Nat)     -- (issuer, topic)
  nt : Nat
  ni : Nat
  ht : Nat

/-- the argument validation shared by `add_trusted_issuer` and `update_issuer_claim_topics` -/
def validTs (g : Mon) (entry : String) (ts : List Nat) : Except String Unit :=
  if ts = [] then .error "empty" else if ts.length > 15 then .error s!"limit.{entry}.topics_arg"
  else if !nodupB ts then .error "dup_arg" else if !ts.all g.topics.contains then .error "absent_topic" else .ok ()

/-- the plain-set transition: `.error` = refused, with the reason -/
def plain (g : Mon) : Op → Except String Mon
  | .addTopic t =>
    if g.topics.contains t then .error "dup"
    else if g.topics.length ≥ 15 then .error "limit.add_claim_topic.topics"
    else .ok { g with topics := g.topics ++ [t] }
  | .removeTopic t =>
    if !g.topics.contains t then .error "absent"
    else .ok { g with topics := g.topics.erase t, rel := g.rel.filter (fun p => p.2 ≠ t) }
  | .addIssuer i ts =>
    (validTs g "add_trusted_issuer" ts).bind fun _ =>
    if g.issuers.contains i then .error "dup"
    else if g.issuers.length ≥ 50 then .error "limit.add_trusted_issuer.issuers"
    else .ok { g with issuers := g.issuers ++ [i], rel := g.rel ++ ts.map (fun t => (i, t)) }
  | .removeIssuer i =>
    if !g.issuers.contains i then .error "absent"
    else .ok { g with issuers := g.issuers.erase i, rel := g.rel.filter (fun p => p.1 ≠ i) }
  | .update i ts =>
    (validTs g "update_issuer_claim_topics" ts).bind fun _ =>
    if !g.issuers.contains i then .error "absent"
    else .ok { g with rel := g.rel.filter (fun p => p.1 ≠ i) ++ ts.map (fun t => (i, t)) }

/-- the site of a refusal of an operation the plain structure accepts -/
def near (g : Mon) : Op → String
  | .addTopic _ => if g.topics.length = 14 then "limit.add_claim_topic.topics" else "valid"
  | .addIssuer _ ts => if g.issuers.length = 49 then "limit.add_trusted_issuer.issuers"
                       else if ts.length = 15 then "limit.add_trusted_issuer.topics_arg" else "valid"
  | .update _ ts => if ts.length = 15 then "limit.update_issuer_claim_topics.topics_arg" else "valid"
  | _ => "valid"

/-- the issuers the plain relation gives topic `t` -/
def wantT (g : Mon) (t : Nat) : List Nat := (g.rel.filter (fun p => p.2 == t)).map (·.1)
/-- the topics the plain relation gives issuer `i` -/
def wantI (g : Mon) (i : Nat) : List Nat := (g.rel.filter (fun p => p.1 == i)).map (·.2)

/-- `get_claim_topic_issuers(t)`: succeeds exactly for a listed topic and then lists the issuers of
the plain relation once each -/
def tiCheck (g : Mon) (TI : List (Nat × List Nat)) (t : Nat) : Option String :=
  match TI.find? (fun x => x.1 == t) with
  | some (_, l) => chk (g.topics.contains t ∧ nodupB l ∧ sameSet l (wantT g t))
      s!"site=topics.two_way get_claim_topic_issuers({t}) = {l} but the plain relation gives {wantT g t} (topic listed: {g.topics.contains t})"
  | none => chk (!g.topics.contains t) s!"site=topics.two_way get_claim_topic_issuers({t}) fails for a listed topic"

/-- `get_trusted_issuer_claim_topics(i)`: succeeds exactly for a listed issuer and then lists the
topics of the plain relation once each -/
def itCheck (g : Mon) (IT : List (Nat × List Nat)) (i : Nat) : Option String :=
  match IT.find? (fun x => x.1 == i) with
  | some (_, l) => chk (g.issuers.contains i ∧ nodupB l ∧ sameSet l (wantI g i))
      s!"site=topics.two_way get_trusted_issuer_claim_topics({i}) = {l} but the plain relation gives {wantI g i} (issuer listed: {g.issuers.contains i})"
  | none => chk (!g.issuers.contains i) s!"site=topics.two_way get_trusted_issuer_claim_topics({i}) fails for a listed issuer"

/-- the plain map topic -> issuers, ascending -/
def mWant (g : Mon) : List (Nat × List Nat) := (sortN g.topics).map (fun t => (t, wantT g t))

/-- `get_claim_topics_and_issuers` succeeds, has exactly the listed topics as keys and gives each the
issuers of the plain relation once each -/
def mOk (g : Mon) (Mraw : String) (M : List (Nat × List Nat)) : Bool :=
  decide (Mraw ≠ "x") && (decide (M.map (·.1) = (mWant g).map (·.1)) &&
    (List.zip M (mWant g)).all (fun p => sameSet p.1.2 p.2.2 && nodupB p.1.2))

def trWant (g : Mon) : List Bool := (List.range g.ni).map g.issuers.contains

def hWant (g : Mon) : List String :=
  (List.range g.ni).flatMap (fun i => (List.range g.ht).map (fun t =>
    if g.issuers.contains i then bit (g.rel.contains (i, t)) else "x"))

/-- every getter of the observation against the plain structure `g` -/
def getters (g : Mon) (o : Obs) : List (Option String) :=
  [chk (nodupB o.T ∧ sameSet o.T g.topics) s!"site=topics.set get_claim_topics = {o.T} but the plain set is {g.topics}",
   chk (nodupB o.I ∧ sameSet o.I g.issuers) s!"site=topics.set get_trusted_issuers = {o.I} but the plain set is {g.issuers}"]
  ++ (List.range g.nt).map (tiCheck g o.TI) ++ (List.range g.ni).map (itCheck g o.IT) ++
  [chk (mOk g o.Mraw o.M) s!"site=topics.map get_claim_topics_and_issuers = {o.Mraw} differs from the plain map",
   chk (o.tr = bits (trWant g)) "site=topics.set is_trusted_issuer differs from membership in the plain set",
   chk (o.h = (if (hWant g).isEmpty then "-" else "".intercalate (hWant g))) "site=topics.two_way has_claim_topic differs from the plain relation"]

/-- the monitor's step on parsed values: the accept / refuse decision against the plain structure,
then every getter of the observation against the new plain structure -/
def checkCore (g : Mon) (op : Op) (o : Obs) : Mon × Option String :=
  ((decide2 "topics" g (plain g op) o.ok (near g op)).1,
   firstFail ((decide2 "topics" g (plain g op) o.ok (near g op)).2 ::
     getters (decide2 "topics" g (plain g op) o.ok (near g op)).1 o))

end OZ.RegTopics.Mon
