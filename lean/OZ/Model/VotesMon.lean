import OZ.Model.Votes
/-
The C13 MONITOR on parsed values, and the model side of the C13 driver on parsed values.

The driver OZ/Drv/C13.lean parses the trace lines (`parse`, `parseObs`) and calls `mstep` (the
model: which of the three contracts, which entry point) and `checkCore` (the monitor; it never
calls the model's transition function). Both live here, apart from the driver, so that
OZ/Props/C13Mon.lean can prove the monitor SOUND: fed with the observations of the model itself
the monitor never reports a failure (`monitor_accepts_every_model_trace`), hence an
implementation whose observations agree with the model's cannot raise a monitor alarm.
Imports the model only. No string parsing in here: the strings that remain are the cells of a
history row / the `fut` flag exactly as printed (they are only compared), the name of the entry
point of an op line (only compared with literals) and message texts.
-/
namespace OZ.Votes.Mon
open OZ.Host

def N : Nat := 5
def OWNER : Nat := 5

inductive Kind where
  | ex | fvb | nft
  deriving DecidableEq

/-- the model side of a sequence: which contract (`kind=`), host limits, the two wrapper states
(only the one selected by `kind` ever moves) -/
structure M where
  kind : Kind
  cfg : Cfg
  fv : OZ.FungibleVotes.State
  nf : OZ.NonFungibleVotes.State

/-- what the driver's `init` builds from the label `kind=.. min_temp=.. max_ttl=.. start=..` -/
def M.init (kind : Kind) (cfg : Cfg) (start : Nat) : M :=
  { kind, cfg, fv := OZ.FungibleVotes.init start, nf := OZ.NonFungibleVotes.init start }

/-- an op line `votes <op> a=.. amt=.. id=.. lu=.. n=.. auth=.. q=..` with its fields parsed -/
structure Parsed where
  op : String
  a : List Nat
  amt : Int
  id : Nat
  lu : Nat
  n : Nat
  auth : List Nat
  q : List Nat

def fvOp (p : Parsed) : Option OZ.FungibleVotes.Op :=
  match p.op, p.a with
  | "mint", [t] => some (.mint t p.amt)
  | "transfer", [f, t] => some (.transfer f t p.amt)
  | "transfer_from", [sp, f, t] => some (.transferFrom sp f t p.amt)
  | "approve", [o, sp] => some (.approve o sp p.amt p.lu)
  | "burn", [f] => some (.burn f p.amt)
  | "burn_from", [sp, f] => some (.burnFrom sp f p.amt)
  | "delegate", [a, d] => some (.delegate a d)
  | "advance", _ => some (.advance p.n)
  | _, _ => none

def nftOp (p : Parsed) : Option OZ.NonFungibleVotes.Op :=
  match p.op, p.a with
  | "mint", [t] => some (.mint t p.id)
  | "seq_mint", [t] => some (.sequentialMint t)
  | "transfer", [f, t] => some (.transfer f t p.id)
  | "transfer_from", [sp, f, t] => some (.transferFrom sp f t p.id)
  | "burn", [f] => some (.burn f p.id)
  | "burn_from", [sp, f] => some (.burnFrom sp f p.id)
  | "approve", [a, b] => some (.approve a b p.id p.lu)
  | "approve_all", [o, x] => some (.approveForAll o x p.lu)
  | "delegate", [a, d] => some (.delegate a d)
  | "advance", _ => some (.advance p.n)
  | _, _ => none

def okM {α} (m : M) (f : α → M) (r : Except OZ.Votes.Err α) : M × Bool :=
  match r with
  | .ok s' => (f s', true)
  | .error _ => (m, false)

/-- one op line on the model: `none` = not an entry point of this contract (`bad-op`), otherwise
the new state and whether the call was accepted (a rejected call is rolled back) -/
def mstep (m : M) (p : Parsed) : Option (M × Bool) :=
  match m.kind with
  | .nft =>
    match nftOp p with
    | none => none
    | some op => some (okM m (fun s' => { m with nf := s' }) (OZ.NonFungibleVotes.apply m.cfg m.nf p.auth op))
  | k =>
    match fvOp p with
    | none => none
    | some op =>
      some (okM m (fun s' => { m with fv := s' })
        (if k = .ex then OZ.FungibleVotes.exampleApply m.cfg OWNER m.fv p.auth op
         else OZ.FungibleVotes.apply m.cfg m.fv p.auth op))

/-! ### the model's observation, piecewise (the driver's `showState` prints these) -/

def showRes (x : Except OZ.Votes.Err Nat) : String :=
  match x with
  | .ok v => toString v
  | .error _ => "E"

def showOpt (x : Option Nat) : String :=
  match x with
  | some v => toString v
  | none => "x"

def isOk (x : Except OZ.Votes.Err Nat) : Bool :=
  match x with
  | .ok _ => true
  | .error _ => false

/-- the votes state of the contract under test -/
def vOf (m : M) : OZ.Votes.State := if m.kind = .nft then m.nf.v else m.fv.v

/-- is any of the probes "current ledger, next ledger, u32::MAX" answered? -/
def futOk (v : OZ.Votes.State) : Bool :=
  [v.now, v.now + 1, U32_MAX].zipIdx.any (fun (l, k) =>
    isOk (OZ.Votes.getVotesAtCheckpoint v ((v.now + k) % N) l) ||
    isOk (OZ.Votes.getTotalSupplyAtCheckpoint v l))

/-- one row of `hist=`: the past query at ledger `l` for every account, then the total -/
def histRow (v : OZ.Votes.State) (l : Nat) : List String :=
  (List.range N).map (fun i => showRes (OZ.Votes.getVotesAtCheckpoint v i l)) ++
    [showRes (OZ.Votes.getTotalSupplyAtCheckpoint v l)]

/-! ### the monitor -/

/-- one observation line, parsed -/
structure Obs where
  ok : Bool
  now : Nat
  bal : List Int
  units : Option (List Nat)
  del : List (Option Nat)
  votes : List Int
  ncp : Option (List Nat)
  ts : Int
  fut : String
  hist : List (Nat × List String)
  failed : Bool          -- some current getter failed (printed `E` by the harness)

structure Mon where
  start : Nat
  prev : Obs
  del : List (Option Nat)                 -- ghost: delegate per account
  table : List (Nat × Nat × List String)  -- ghost: ledgers lo ≤ l < hi ended with this row
  lastCp : List (Option Nat)              -- ledger at which the counter of an account last grew

def zeroObs (start : Nat) : Obs :=
  { ok := true, now := start, bal := List.replicate N 0, units := none, del := List.replicate N none,
    votes := List.replicate N 0, ncp := none, ts := 0, fut := "rej", hist := [], failed := false }

/-- what the driver's `minit` builds from the label (`start=`) -/
def monInit (start : Nat) : Mon :=
  { start := start, prev := zeroObs start, del := List.replicate N none, table := [],
    lastCp := List.replicate N none }

def rowOf (o : Obs) : List String := o.votes.map toString ++ [toString o.ts]

/-- ghost value of a past ledger: zeros before the start, else the recorded row -/
def expected (start : Nat) (table : List (Nat × Nat × List String)) (q : Nat) : Option (List String) :=
  if q < start then some (List.replicate (N + 1) "0")
  else (table.find? (fun (lo, hi, _) => lo ≤ q ∧ q < hi)).map (fun (_, _, r) => r)

/-- Σ of the balances of the accounts whose (ghost) delegate is `a` -/
def delegatedSum (del : List (Option Nat)) (bal : List Int) (a : Nat) : Int :=
  ((del.zip bal).filterMap (fun (d, b) => if d = some a then some b else none)).sum

/-- the account and the delegatee of a `delegate` op line -/
def delTarget (p : Parsed) : Option (Nat × Nat) :=
  match p.op, p.a with
  | "delegate", [a, d] => some (a, d)
  | _, _ => none

/-- ghost delegates: updated from the ACCEPTED `delegate` operations only -/
def delStep (del : List (Option Nat)) (p : Parsed) (ok : Bool) : List (Option Nat) :=
  match delTarget p with
  | some (a, d) => if ok then del.set a (some d) else del
  | none => del

/-- ghost table: when the ledger moves, the ledgers that end carry the values seen last -/
def tableStep (m : Mon) (p : Parsed) (o : Obs) : List (Nat × Nat × List String) :=
  if p.op = "advance" ∧ o.ok ∧ p.n > 0 then (m.prev.now, m.prev.now + p.n, rowOf m.prev) :: m.table
  else m.table

/-- checkpoint counter `c` of account `a` now, `c0` before the call: at most one new checkpoint
per account and ledger -/
def cpCheck (m : Mon) (o : Obs) (a c c0 : Nat) : Option String :=
  if c < c0 then some s!"site=votes.coalesce checkpoint counter of {a} decreased"
  else if c > c0 + 1 then some s!"site=votes.coalesce {c - c0} checkpoints for {a} in one call"
  else if c = c0 + 1 ∧ (m.lastCp.getD a none) = some o.now then
    some s!"site=votes.coalesce second checkpoint for {a} in ledger {o.now}"
  else if c = c0 ∧ o.votes.getD a 0 ≠ m.prev.votes.getD a 0 ∧ (m.lastCp.getD a none) ≠ some o.now then
    some s!"site=votes.coalesce votes of {a} changed in a new ledger without a new checkpoint"
  else none

def cpFail (m : Mon) (o : Obs) : Option String :=
  match o.ncp, m.prev.ncp with
  | some nc, some pc => (List.range N).findSome? (fun a => cpCheck m o a (nc.getD a 0) (pc.getD a 0))
  | _, _ => none

def lastCpStep (m : Mon) (o : Obs) : List (Option Nat) :=
  match o.ncp with
  | some nc =>
    (List.range N).map (fun a =>
      if nc.getD a 0 > (m.prev.ncp.getD (List.replicate N 0)).getD a 0 then some o.now else m.lastCp.getD a none)
  | none => m.lastCp

/-- a getter of the current state panicked: an entry the library relies on is gone -/
def failedMsg (p : Parsed) (raw : String) : String :=
  if p.op = "advance"
  then s!"site=votes.idle.changed after moving the ledger by {p.n} a getter fails: {raw.take 300}"
  else s!"site=votes.getter_failed a getter fails after {p.op}: {raw.take 300}"

/-- moving the ledger (no call in between) changes no current value -/
def chkIdle (m : Mon) (p : Parsed) (o : Obs) : Option String :=
  if p.op = "advance" ∧ (o.now ≠ m.prev.now + p.n ∨ o.votes ≠ m.prev.votes ∨ o.ts ≠ m.prev.ts ∨ o.bal ≠ m.prev.bal ∨
      o.del ≠ m.prev.del ∨ (m.prev.units.isSome ∧ o.units ≠ m.prev.units) ∨ (m.prev.ncp.isSome ∧ o.ncp ≠ m.prev.ncp)) then
    some s!"site=votes.idle.changed moving the ledger by {p.n} (no call in between) changed a current value: votes {m.prev.votes}->{o.votes} total {m.prev.ts}->{o.ts} delegates {m.prev.del.map showOpt}->{o.del.map showOpt} units {m.prev.units}->{o.units} checkpoints {m.prev.ncp}->{o.ncp}"
  else none

/-- the probes of the current ledger, the next ledger and u32::MAX are refused. (`fut` lumps the
three probes together; u32::MAX is a current / future ledger only while `now ≤ u32::MAX`, which
the host guarantees. Beyond that bound — reachable by the model, whose ledger is a `Nat`, never
by the host — the property itself demands that the third probe IS answered, so the flag says
nothing: see `old_monitor_false_alarm` in OZ/Props/C13Mon.lean.) -/
def chkFuture (o : Obs) : Option String :=
  if o.fut ≠ "rej" ∧ o.now ≤ U32_MAX then
    some s!"site=votes.future a query for the current or a future ledger was answered: {o.fut}"
  else none

def badVotes (del' : List (Option Nat)) (o : Obs) : Option Nat :=
  (List.range N).find? (fun a => o.votes.getD a 0 ≠ delegatedSum del' o.bal a)

/-- get_votes(a) = Σ balances of the accounts whose ghost delegate is a -/
def chkVotes (del' : List (Option Nat)) (o : Obs) : Option String :=
  match badVotes del' o with
  | some a =>
    some s!"site=votes.delegated_sum get_votes({a})={o.votes.getD a 0} but the balances delegated to {a} sum to {delegatedSum del' o.bal a}"
  | none => none

def chkTotal (o : Obs) : Option String :=
  if o.ts ≠ o.bal.sum then some s!"site=votes.total get_total_supply={o.ts} but balances sum to {o.bal.sum}"
  else none

def chkUnits (o : Obs) : Option String :=
  if o.units.isSome ∧ (o.units.getD []).map Int.ofNat ≠ o.bal then
    some s!"site=votes.units_balance voting units {o.units.getD []} differ from balances {o.bal}"
  else none

def chkDelegate (del' : List (Option Nat)) (o : Obs) : Option String :=
  if o.del ≠ del' then some s!"site=votes.delegate get_delegate differs from the accepted delegations"
  else none

/-- is this row of `hist=` wrong? the current / future ledgers are refused (`E` in every cell),
a past ledger carries the ghost row (0 before the start) -/
def histBad (start : Nat) (table' : List (Nat × Nat × List String)) (o : Obs) (x : Nat × List String) : Bool :=
  if x.1 ≥ o.now then x.2.any (· ≠ "E")
  else match expected start table' x.1 with
    | some r => r ≠ x.2
    | none => false

def chkHistory (start : Nat) (table' : List (Nat × Nat × List String)) (o : Obs) : Option String :=
  match o.hist.find? (histBad start table' o) with
  | some (q, row) =>
    some s!"site=votes.history query at ledger {q} (now={o.now}) returned {row} but the values at the end of that ledger were {(expected start table' q).getD []}"
  | none => none

def chkRollback (m : Mon) (o : Obs) : Option String :=
  if ¬ o.ok ∧ (o.bal ≠ m.prev.bal ∨ o.votes ≠ m.prev.votes ∨ o.del ≠ m.prev.del ∨ o.ts ≠ m.prev.ts ∨
      (m.prev.ncp.isSome ∧ o.ncp ≠ m.prev.ncp) ∨ o.now ≠ m.prev.now) then
    some "site=votes.rollback a failed call changed balances, votes, delegates or checkpoints"
  else none

def chkNegative (o : Obs) : Option String :=
  if (o.bal.any (· < 0)) then some "site=votes.negative a balance is negative" else none

def firstSome (a b : Option String) : Option String :=
  match a with
  | some x => some x
  | none => b

/-- the property's conclusions on one observation, in the order of the original monitor -/
def verdict (m : Mon) (p : Parsed) (o : Obs) : Option String :=
  firstSome (chkIdle m p o) <|
  firstSome (chkFuture o) <|
  firstSome (chkVotes (delStep m.del p o.ok) o) <|
  firstSome (chkTotal o) <|
  firstSome (chkUnits o) <|
  firstSome (chkDelegate (delStep m.del p o.ok) o) <|
  firstSome (chkHistory m.start (tableStep m p o) o) <|
  firstSome (chkRollback m o) <|
  firstSome (chkNegative o) (cpFail m o)

/-- the monitor's step on parsed values (`raw`: the observation line, quoted in one message) -/
def checkCore (m : Mon) (p : Parsed) (o : Obs) (raw : String) : Mon × Option String :=
  if o.failed then (m, some (failedMsg p raw))
  else
    ({ m with prev := o, del := delStep m.del p o.ok, table := tableStep m p o, lastCp := lastCpStep m o },
     verdict m p o)

end OZ.Votes.Mon
