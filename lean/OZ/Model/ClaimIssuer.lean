import OZ.Model.IdentityRegistry
/-
Model of packages/tokens/src/rwa/claim_issuer/storage.rs, line by line, and of a claim issuer
contract whose `is_claim_valid` is composed from those helpers exactly as the documentation of
packages/tokens/src/rwa/claim_issuer/mod.rs prescribes (extract signature data → key allowed for
the topic → not expired → build message → not revoked → verify the signature), for the three
library verifiers (scheme numbers 101 / 111 = Ed25519, 102 / 112 = Secp256r1, 103 / 113 = Secp256k1;
the numbers are the harness contract's choice, as the trait leaves them to the implementor — two
numbers per verifier, so that ONE public key can be a signing key under TWO schemes).

Cryptography is an oracle:
* a public key is a natural number naming its byte string (0 = the empty byte string);
* the message `network_id ‖ issuer ‖ identity ‖ topic ‖ nonce ‖ data` is the TUPLE `Msg` (the
  encoding is injective: fixed-width network id, self-delimiting XDR addresses, two big-endian
  u32, and the data last);
* `Verifier σ` decides whether signature bytes `σ` verify under (scheme, public key) for a message;
* the keccak digest of `network ‖ issuer ‖ identity ‖ topic ‖ data` keying `RevokedClaim` is the
  triple (identity, topic, data) inside the issuer's own storage (network and issuer are fixed there).
-/
namespace OZ.ClaimIssuer
open OZ.Host OZ.Identity

def MAX_KEYS_PER_TOPIC : Nat := 50
def MAX_REGISTRIES_PER_KEY : Nat := 20

def ED25519 : Nat := 101
def SECP256R1 : Nat := 102
def SECP256K1 : Nat := 103
def ED25519_B : Nat := 111
def SECP256R1_B : Nat := 112
def SECP256K1_B : Nat := 113

/-- ledger facts an issuer reads -/
structure Env where
  network : Nat
  timestamp : Nat
  deriving Repr

/-- what is signed -/
structure Msg where
  network : Nat
  issuer : Nat
  identity : Nat
  topic : Nat
  nonce : Nat
  data : List Nat
  deriving DecidableEq, Repr

/-- `sig_data` as submitted: its byte length, the public key it embeds (bytes `0..32` / `0..65`)
and the remaining signature bytes (incl. the recovery id for Secp256k1) -/
structure SigData (σ : Type) where
  len : Nat
  pk : Nat
  sig : σ

/-- signature oracle: scheme → public key → message → signature bytes → verifies? -/
abbrev Verifier (σ : Type) := Nat → Nat → Msg → σ → Bool

/-- storage of one claim issuer contract -/
structure Issuer where
  topicKeys : Nat → Option (List (Nat × Nat))          -- Topics(topic) ↦ Vec<SigningKey (pk, scheme)>
  pairs : Nat → Nat → Option (List (Nat × Nat))        -- Pairs(pk, scheme) ↦ Vec<(topic, registry)>
  nonce : Nat → Nat → Option Nat                       -- ClaimNonce(identity, topic)
  revoked : Nat → Nat → List Nat → Option Bool         -- RevokedClaim(digest(identity, topic, data))

def Issuer.empty : Issuer := ⟨fun _ => none, fun _ _ => none, fun _ _ => none, fun _ _ _ => none⟩

/-- `is_key_allowed_for_topic` -/
def isKeyAllowedForTopic (s : Issuer) (pk scheme topic : Nat) : Bool :=
  match s.topicKeys topic with
  | some ks => ks.contains (pk, scheme)
  | none => false

/-- the Topics-branch part of `allow_key` -/
def allowTopicKey (s : Issuer) (pk scheme topic : Nat) : Except Err Issuer :=
  if isKeyAllowedForTopic s pk scheme topic then .ok s
  else if ((s.topicKeys topic).getD []).length ≥ MAX_KEYS_PER_TOPIC then .error .fail
  else .ok { s with topicKeys := upd s.topicKeys topic (some (((s.topicKeys topic).getD []) ++ [(pk, scheme)])) }

/-- the Pairs-branch part of `allow_key`. The capacity test follows the tree (after the C20 `fix:`
commit a57d03d): made after the push, `pairs.len() > MAX_REGISTRIES_PER_KEY`; property C20 is about
that bound, this slice never comes near it (at most 6 pairs per key in the correspondence universe). -/
def allowPair (s : Issuer) (pk scheme topic registry : Nat) : Except Err Issuer :=
  if ((s.pairs pk scheme).getD []).contains (topic, registry) then .error .fail
  else if (((s.pairs pk scheme).getD []) ++ [(topic, registry)]).length > MAX_REGISTRIES_PER_KEY then .error .fail
  else .ok { s with pairs := upd2 s.pairs pk scheme (some (((s.pairs pk scheme).getD []) ++ [(topic, registry)])) }

/-- `allow_key`; `reg` is the storage of the contract at `registry` (`none`: no such contract, the
cross-contract call fails), `self` the issuer's own address -/
def allowKey (s : Issuer) (reg : Option Reg) (self pk registry scheme topic : Nat) : Except Err Issuer :=
  if pk = 0 then .error .fail
  else
    match reg with
    | none => .error .fail
    | some r =>
      match hasClaimTopic r self topic with
      | .error e => .error e
      | .ok false => .error .fail
      | .ok true =>
        match allowTopicKey s pk scheme topic with
        | .error e => .error e
        | .ok s1 => allowPair s1 pk scheme topic registry

/-- the Topics-branch part of `remove_key`, run when no `(topic, *)` pair is left -/
def dropTopicKey (s : Issuer) (pk scheme topic : Nat) : Except Err Issuer :=
  match s.topicKeys topic with
  | none => .error .fail
  | some ks =>
    if ks.contains (pk, scheme) then
      .ok { s with topicKeys := upd s.topicKeys topic (if (ks.erase (pk, scheme)).isEmpty then none else some (ks.erase (pk, scheme))) }
    else .error .fail

/-- `remove_key` -/
def removeKey (s : Issuer) (pk registry scheme topic : Nat) : Except Err Issuer :=
  match s.pairs pk scheme with
  | none => .error .fail
  | some ps =>
    if ps.contains (topic, registry) then
      if (ps.erase (topic, registry)).any (fun p => p.1 == topic) then
        .ok { s with pairs := upd2 s.pairs pk scheme (if (ps.erase (topic, registry)).isEmpty then none else some (ps.erase (topic, registry))) }
      else
        dropTopicKey { s with pairs := upd2 s.pairs pk scheme (if (ps.erase (topic, registry)).isEmpty then none else some (ps.erase (topic, registry))) } pk scheme topic
    else .error .fail

/-- `get_current_nonce_for` -/
def currentNonce (s : Issuer) (identity topic : Nat) : Nat := (s.nonce identity topic).getD 0

/-- `invalidate_claim_signatures` -/
def invalidateClaimSignatures (s : Issuer) (identity topic : Nat) : Except Err Issuer :=
  if currentNonce s identity topic + 1 > U32_MAX then .error .fail
  else .ok { s with nonce := upd2 s.nonce identity topic (some (currentNonce s identity topic + 1)) }

/-- `set_claim_revoked` -/
def setClaimRevoked (s : Issuer) (identity topic : Nat) (data : List Nat) (revoked : Bool) : Issuer :=
  { s with revoked := fun d t x => if d = identity ∧ t = topic ∧ x = data then some revoked else s.revoked d t x }

/-- `is_claim_revoked` (digest WITHOUT the nonce) -/
def isClaimRevoked (s : Issuer) (identity topic : Nat) (data : List Nat) : Bool :=
  (s.revoked identity topic data).getD false

/-- big-endian value of a byte string -/
def beNat (bs : List Nat) : Nat := bs.foldl (fun acc b => acc * 256 + b) 0

/-- `decode_claim_data_expiration`: `valid_until` = bytes 8..16, panics below 16 bytes -/
def validUntil (data : List Nat) : Except Err Nat :=
  if data.length < 16 then .error .fail else .ok (beNat ((data.drop 8).take 8))

/-- `is_claim_expired`: `timestamp >= valid_until` -/
def isClaimExpired (env : Env) (data : List Nat) : Except Err Bool :=
  match validUntil data with
  | .ok vu => .ok (decide (env.timestamp ≥ vu))
  | .error e => .error e

/-- `build_claim_message` (the nonce read is the CURRENT one) -/
def buildClaimMessage (env : Env) (s : Issuer) (self identity topic : Nat) (data : List Nat) : Msg :=
  { network := env.network, issuer := self, identity := identity, topic := topic,
    nonce := currentNonce s identity topic, data := data }

/-- `expected_sig_data_len` of the verifier selected by the scheme number -/
def expectedLen (scheme : Nat) : Option Nat :=
  if scheme = ED25519 ∨ scheme = ED25519_B then some 96
  else if scheme = SECP256R1 ∨ scheme = SECP256R1_B then some 129
  else if scheme = SECP256K1 ∨ scheme = SECP256K1_B then some 133
  else none

/-- `extract_signature_data`: only the length is checked -/
def extractOk {σ : Type} (scheme : Nat) (sd : SigData σ) : Bool :=
  match expectedLen scheme with
  | some n => sd.len == n
  | none => false

/-- the issuer contract's `is_claim_valid`; `true` = returns, `false` = panics -/
def isClaimValid {σ : Type} (V : Verifier σ) (env : Env) (s : Issuer) (self identity topic scheme : Nat)
    (sd : SigData σ) (data : List Nat) : Bool :=
  if !extractOk scheme sd then false
  else if !isKeyAllowedForTopic s sd.pk scheme topic then false
  else
    match isClaimExpired env data with
    | .error _ => false
    | .ok true => false
    | .ok false =>
      if isClaimRevoked s identity topic data then false
      else V scheme sd.pk (buildClaimMessage env s self identity topic data) sd.sig

end OZ.ClaimIssuer
