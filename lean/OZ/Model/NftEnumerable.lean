import OZ.Model.Nft
/-
Model of packages/tokens/src/non_fungible/extensions/enumerable/storage.rs (`impl Enumerable`),
line by line. The two enumerations are storage maps exactly as coded:
  GlobalTokens(index) ↦ token_id      GlobalTokensIndex(token_id) ↦ index      TotalSupply
  OwnerTokens{owner,index} ↦ token_id OwnerTokensIndex(token_id) ↦ index       (length = Balance)
-/
namespace OZ.NftEnum
open OZ.Host OZ.Nft

structure State extends Nft.State where
  total : Nat                          -- TotalSupply (instance)
  gTok : Nat → Option Nat              -- GlobalTokens(index)
  gIdx : Nat → Option Nat              -- GlobalTokensIndex(token_id)
  oTok : Nat → Nat → Option Nat        -- OwnerTokens{owner, index}
  oIdx : Nat → Option Nat              -- OwnerTokensIndex(token_id)

def init (now : Nat) : State :=
  { Nft.init now with total := 0, gTok := fun _ => none, gIdx := fun _ => none,
                      oTok := fun _ _ => none, oIdx := fun _ => none }

/-- `Enumerable::total_supply` -/
def totalSupply (s : State) : Nat := s.total

/-- `Enumerable::get_owner_token_id` -/
def getOwnerTokenId (s : State) (owner index : Nat) : Except Err Nat :=
  match s.oTok owner index with
  | some t => .ok t
  | none => .error .notFoundInOwnerList

/-- `Enumerable::get_token_id` -/
def getTokenId (s : State) (index : Nat) : Except Err Nat :=
  match s.gTok index with
  | some t => .ok t
  | none => .error .notFoundInGlobalList

/-- `Enumerable::increment_total_supply`: returns the OLD total supply -/
def incrementTotalSupply (s : State) : Except Err (State × Nat) :=
  if s.total + 1 > U32_MAX then .error .idsDepleted
  else .ok ({ s with total := s.total + 1 }, s.total)

/-- `Enumerable::decrement_total_supply`: returns the NEW total supply -/
def decrementTotalSupply (s : State) : Except Err (State × Nat) :=
  if s.total < 1 then .error .mathOverflow
  else .ok ({ s with total := s.total - 1 }, s.total - 1)

/-- `Enumerable::add_to_owner_enumeration` (the balance is already incremented) -/
def addToOwnerEnumeration (s : State) (owner id : Nat) : Except Err State :=
  if s.bal owner < 1 then .error .mathOverflow
  else .ok { s with oTok := upd2 s.oTok owner (s.bal owner - 1) (some id),
                    oIdx := upd s.oIdx id (some (s.bal owner - 1)) }

/-- the swap of swap-and-pop in the owner list: the last token moves to `idx` -/
def ownerSwap (s : State) (owner idx lastId : Nat) : State :=
  { s with oTok := upd2 s.oTok owner idx (some lastId), oIdx := upd s.oIdx lastId (some idx) }

/-- the pop: delete the last slot and the removed token's index -/
def ownerPop (s : State) (owner lastIndex id : Nat) : State :=
  { s with oTok := upd2 s.oTok owner lastIndex none, oIdx := upd s.oIdx id none }

/-- `Enumerable::remove_from_owner_enumeration` (the balance is already decremented, so it is
the index of the last token) -/
def removeFromOwnerEnumeration (s : State) (owner id : Nat) : Except Err State :=
  match s.oIdx id with
  | none => .error .notFoundInOwnerList
  | some idx =>
    if idx ≠ s.bal owner then
      match s.oTok owner (s.bal owner) with
      | none => .error .notFoundInOwnerList
      | some lastId => .ok (ownerPop (ownerSwap s owner idx lastId) owner (s.bal owner) id)
    else .ok (ownerPop s owner (s.bal owner) id)

/-- `Enumerable::add_to_global_enumeration` -/
def addToGlobalEnumeration (s : State) (id totalSupply : Nat) : State :=
  { s with gTok := upd s.gTok totalSupply (some id), gIdx := upd s.gIdx id (some totalSupply) }

/-- `Enumerable::remove_from_global_enumeration`: the swap is unconditional, as coded -/
def removeFromGlobalEnumeration (s : State) (id lastIndex : Nat) : Except Err State :=
  match s.gIdx id with
  | none => .error .notFoundInGlobalList
  | some idx =>
    match s.gTok lastIndex with
    | none => .error .notFoundInGlobalList
    | some lastId =>
      .ok { s with gTok := upd (upd s.gTok idx (some lastId)) lastIndex none,
                   gIdx := upd (upd s.gIdx lastId (some idx)) id none }

/-- `Enumerable::add_to_enumerations` -/
def addToEnumerations (s : State) (owner id : Nat) : Except Err State := do
  let s ← addToOwnerEnumeration s owner id
  let (s, ts) ← incrementTotalSupply s
  pure (addToGlobalEnumeration s id ts)

/-- `Enumerable::remove_from_enumerations` -/
def removeFromEnumerations (s : State) (owner id : Nat) : Except Err State := do
  let s ← removeFromOwnerEnumeration s owner id
  let (s, ts) ← decrementTotalSupply s
  removeFromGlobalEnumeration s id ts

/-- `Enumerable::sequential_mint` -/
def sequentialMint (s : State) (to : Nat) : Except Err (State × Nat) := do
  let (b, id) ← Nft.sequentialMint s.toState to
  let s ← addToEnumerations { s with toState := b } to id
  pure (s, id)

/-- `Enumerable::non_sequential_mint` -/
def nonSequentialMint (s : State) (to id : Nat) : Except Err State := do
  let b ← Nft.update s.toState none (some to) id
  addToEnumerations { s with toState := b } to id

/-- the owner-list part of `Enumerable::transfer` / `transfer_from` -/
def moveInOwnerEnumerations (s : State) (frm to id : Nat) : Except Err State :=
  if frm ≠ to then do
    let s ← removeFromOwnerEnumeration s frm id
    addToOwnerEnumeration s to id
  else .ok s

/-- `Enumerable::transfer` -/
def transfer (s : State) (auth : List Nat) (frm to id : Nat) : Except Err State := do
  let b ← Nft.transfer s.toState auth frm to id
  moveInOwnerEnumerations { s with toState := b } frm to id

/-- `Enumerable::transfer_from` -/
def transferFrom (s : State) (auth : List Nat) (spender frm to id : Nat) : Except Err State := do
  let b ← Nft.transferFrom s.toState auth spender frm to id
  moveInOwnerEnumerations { s with toState := b } frm to id

/-- `Enumerable::burn` -/
def burn (s : State) (auth : List Nat) (frm id : Nat) : Except Err State := do
  let b ← Nft.burn s.toState auth frm id
  removeFromEnumerations { s with toState := b } frm id

/-- `Enumerable::burn_from` -/
def burnFrom (s : State) (auth : List Nat) (spender frm id : Nat) : Except Err State := do
  let b ← Nft.burnFrom s.toState auth spender frm id
  removeFromEnumerations { s with toState := b } frm id

/-- one invocation on the enumerable flavour (`approve`, `approve_for_all` are `Base`'s) -/
def apply (cfg : Cfg) (s : State) (auth : List Nat) : Op → Except Err (State × Option Nat)
  | .mintSeq to => do let (s, id) ← sequentialMint s to; pure (s, some id)
  | .mint to id => do let s ← nonSequentialMint s to id; pure (s, none)
  | .batchMint _ _ => .error .unsupported
  | .transfer f t id => do let s ← transfer s auth f t id; pure (s, none)
  | .transferFrom sp f t id => do let s ← transferFrom s auth sp f t id; pure (s, none)
  | .approve ap a id lu => do
    let b ← Nft.approve cfg s.toState auth ap a id lu; pure ({ s with toState := b }, none)
  | .approveForAll o p lu => do
    let c ← approveForAll cfg s.toCore auth o p lu; pure ({ s with toCore := c }, none)
  | .burn f id => do let s ← burn s auth f id; pure (s, none)
  | .burnFrom sp f id => do let s ← burnFrom s auth sp f id; pure (s, none)
  | .advance n => .ok ({ s with toCore := s.toCore.advance n }, none)

def step (cfg : Cfg) (s : State) (x : List Nat × Op) : State :=
  match apply cfg s x.1 x.2 with
  | .ok (s', _) => s'
  | .error _ => s

def run (cfg : Cfg) (s : State) (ops : List (List Nat × Op)) : State := ops.foldl (step cfg) s

end OZ.NftEnum
