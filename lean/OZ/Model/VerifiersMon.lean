import OZ.Model.VerifiersOps
/-
The C18 MONITOR on parsed values (the driver OZ/Drv/C18.lean parses the trace lines and calls
`checkCore`; the monitor never calls the model's `verify` / `exampleVerify` / `encode` /
`encodeInto`, nor `modelLine`). Kept apart from the driver so that OZ/Props/C18Mon.lean can prove it
SOUND: on the answers of the model itself the monitor never reports a failure
(`monitor_accepts_every_model_trace`), hence an implementation whose answers agree with the model's
cannot raise a monitor alarm.

C18 is a property of pure functions: every op line is answered independently; the monitor has no state.
What it evaluates, per op line, on the IMPLEMENTATION's answer:
  * `wa`: `waDefect` = the first conjunct of the property the assertion violates, evaluated on the
    fields of the op line with the monitor's own RFC 4648 encoder (`rfc4648`, the specification,
    not the coded table-driven `encode`) and arithmetic flag tests (`/`, `%`, not `&`): accepted
    ⇔ no defect; the verifier never answers `false`;
  * `ed`: accepted ⇔ the signature verifies (`sv`); never `false`;
  * `enc`: the destination buffer, byte for byte, = RFC 4648 §5 unpadded of the source followed by
    the untouched rest of the buffer; `panic` iff the buffer is shorter than the encoding;
  * `encblk`: the text written for 256 three-byte groups = RFC 4648 §5.
Import-free apart from the op-line types and the base64url specification; no string parsing
(an encoder observation is compared as a whole line with the rendering of the expected outcome).
-/
namespace OZ.Verifiers.Mon
open OZ.B64 OZ.Verifiers

/-- an observation line as read by the driver: `ans` for verifier lines, the raw `line` for
encoder lines -/
structure Obs where
  ans : Ans
  line : String

def readObs (line : String) : Obs := ⟨Ans.ofLine line, line⟩

/-- the monitor's own constant for the expected type (the model has `OZ.WebAuthn.WEBAUTHN_GET`) -/
def webauthnGet : Bytes := ofAscii "webauthn.get"

/-- the flags byte of the authenticator data, as a number -/
def flagsOf (ad : Bytes) : Nat := (ad.getD 32 0).toNat

/-- first conjunct of the property that an assertion violates (`none`: it is genuine and
well-formed, so it must be accepted) -/
def waDefect (w : WaOp) : Option String :=
  if w.c = .ex ∧ w.xdr ≠ 1 then some "sig_data_xdr"
  else if w.c = .ex ∧ w.kl < 65 then some "key_data_len"
  else if w.cd.length > 1024 then some "client_data_len"
  else if ¬ w.parseOk then some "parse"
  else if w.ty ≠ webauthnGet then some "type"
  else if w.pl.length ≠ 32 then some "payload_len"
  else if w.ch ≠ rfc4648 w.pl then some "challenge"
  else if w.ad.length < 37 then some "auth_data_len"
  else if flagsOf w.ad % 2 ≠ 1 then some "up"
  else if flagsOf w.ad / 4 % 2 ≠ 1 then some "uv"
  else if flagsOf w.ad / 8 % 2 = 0 ∧ flagsOf w.ad / 16 % 2 = 1 then some "backup_state"
  else if w.sv ≠ 1 then some "signature"
  else none

/-- accepted ⇔ no defect, on the observed answer -/
def verdictWaAgainst (d : Option String) (a : Ans) : Option String :=
  match d with
  | some why =>
    if a = .accept then some s!"site=webauthn.accept.{why} accepted although the {why} condition fails" else none
  | none =>
    if a = .accept then none else some "site=webauthn.reject.genuine a genuine, well-formed assertion was rejected"

def verdictWa (w : WaOp) (a : Ans) : Option String :=
  if a = .retFalse then some "site=webauthn.returns_false the verifier returned false"
  else verdictWaAgainst (waDefect w) a

def verdictEd (d : EdOp) (a : Ans) : Option String :=
  if a = .retFalse then some "site=ed25519.returns_false the verifier returned false"
  else if d.sv = 1 ∧ a ≠ .accept then some "site=ed25519.reject.genuine a valid signature was rejected"
  else if d.sv ≠ 1 ∧ a = .accept then some "site=ed25519.accept.invalid accepted although the signature does not verify"
  else none

/-- the line demanded for `enc` when the RFC 4648 encoding of the source is `want` -/
def encExpectOf (want : Bytes) (n : Nat) : String :=
  if n < want.length then "panic"
  else "ok " ++ toHex (want ++ List.replicate (n - want.length) 0xAA)

def encExpect (src : Bytes) (n : Nat) : String := encExpectOf (rfc4648 src) n

def verdictEnc (src : Bytes) (n : Nat) (line : String) : Option String :=
  if line = encExpect src n then none
  else some s!"site=base64url.rfc4648 encoder output differs from RFC 4648 §5: want {encExpect src n} got {line}"

def encblkExpect (a b : Nat) : String := "ok " ++ toAscii (rfc4648 (blkSrc a b))

def verdictEncblk (a b : Nat) (line : String) : Option String :=
  if line = encblkExpect a b then none
  else some s!"site=base64url.rfc4648 encoder output differs from RFC 4648 §5 on a 3-byte group ({a},{b},*)"

/-- the monitor on parsed values: the failure message for this op line and this answer, if any -/
def checkCore (op : Op) (o : Obs) : Option String :=
  match op with
  | .wa w => verdictWa w o.ans
  | .ed d => verdictEd d o.ans
  | .enc src n => verdictEnc src n o.line
  | .encblk a b => verdictEncblk a b o.line

end OZ.Verifiers.Mon
