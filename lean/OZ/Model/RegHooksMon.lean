import OZ.Model.RegHooks
import OZ.Model.RegMonUtil
/-
The `hooks` MONITOR of C20 on parsed values (the sub-driver OZ/Drv/C20Hooks.lean parses the trace
lines and calls `checkCore`; it never calls a model transition function). The ghost is the plain
relation (hook, module) built from the accepted operations. Kept apart from the driver so that
OZ/Props/C20hMon.lean can prove it SOUND (`monitor_accepts_every_model_trace`).
Import-free apart from the model.
-/
namespace OZ.RegHooks.Mon
open OZ.RegMon OZ.RegHooks

/-- hooks 0..4 are displayed -/
def NH : Nat := 5

/-- the observation line `ok|err H=<h:modules;..> reg=<bits>` -/
structure Obs where
  ok : Bool
  /-- the entries of `H=`: hook, `get_modules_for_hook` -/
  H : List (Nat × List Nat)
  /-- the word after `H=` as printed (for the message only) -/
  Hraw : String
  /-- the word after `reg=`: `is_module_registered` over hooks 0..4 x modules 0..nm-1 -/
  reg : String

structure Mon where
  rel : List (Nat × Nat)      -- (hook, module)
  nm : Nat

def cnt (g : Mon) (h : Nat) : Nat := (g.rel.filter (fun p => p.1 == h)).length

/-- the plain relation with its documented limit -/
def plain (g : Mon) : Op → Except String Mon
  | .add h m => if g.rel.contains (h, m) then .error "dup" else if cnt g h ≥ 20 then .error "limit.add_module_to.modules"
                else .ok { g with rel := g.rel ++ [(h, m)] }
  | .remove h m => if g.rel.contains (h, m) then .ok { g with rel := g.rel.erase (h, m) } else .error "absent"

/-- the site of a refusal of an operation the plain relation accepts -/
def near (g : Mon) : Op → String
  | .add h _ => if cnt g h = 19 then "limit.add_module_to.modules" else "valid"
  | _ => "valid"

/-- the plain set of hook `h` -/
def want (g : Mon) (h : Nat) : List Nat := (g.rel.filter (fun p => p.1 == h)).map (·.2)

/-- `get_modules_for_hook(h)` lists the plain set of `h` once each -/
def hookOk (g : Mon) (H : List (Nat × List Nat)) (h : Nat) : Bool :=
  match H.find? (fun x => x.1 == h) with
  | some (_, l) => nodupB l && sameSet l (want g h)
  | none => false

def regWant (g : Mon) : List Bool :=
  (List.range NH).flatMap (fun h => (List.range g.nm).map (fun x => g.rel.contains (h, x)))

/-- the monitor's step on parsed values: the accept / refuse decision against the plain relation,
then every getter of the observation against the new plain relation -/
def checkCore (g : Mon) (op : Op) (o : Obs) : Mon × Option String :=
  ((decide2 "hooks" g (plain g op) o.ok (near g op)).1,
   firstFail [(decide2 "hooks" g (plain g op) o.ok (near g op)).2,
     chk ((List.range NH).all (hookOk (decide2 "hooks" g (plain g op) o.ok (near g op)).1 o.H))
       s!"site=hooks.enumerates_once get_modules_for_hook = {o.Hraw} does not list the plain sets once each",
     chk (o.reg = bits (regWant (decide2 "hooks" g (plain g op) o.ok (near g op)).1))
       "site=hooks.member is_module_registered differs from membership in the plain set"])

end OZ.RegHooks.Mon
