import OZ.Model.Fungible
/-
Model of packages/tokens/src/rwa/storage.rs (`impl RWA`), line by line, on top of the fungible
model (`Base::update`, `Base::spend_allowance`, `Base::approve` are reused), together with the
wiring of the correspondence harness token (harness/src/bin/c04.rs):

* pause flag = packages/contract-utils/src/pausable/storage.rs (`paused`, `pause`, `unpause`);
* `AddressFrozen(a)` / `FrozenTokens(a)` persistent entries (absent = `false` / `0`);
* the identity verifier is an ORACLE: `idOk`, `recTarget` are arbitrary functions stored in the
  state and replaced by environment operations (`env*`); every call is logged (`idCalls`);
* the compliance contract is the library's MODULAR compliance
  (packages/tokens/src/rwa/compliance/storage.rs): per hook an ordered list of registered modules
  (`mods`), `add_module_to` / `remove_module_from`, `can_transfer` / `can_create` = the loop over
  the registered modules in registration order that stops at the first rejection (`consult`),
  `transferred` / `created` / `destroyed` = `require_auth_from_bound_token` + fan-out to every
  module registered for that hook; the token-binding is one flag (`bound`). The MODULES are
  oracles (`modCanTransfer m`, `modCanCreate m`: arbitrary functions, replaced by `envModule`);
  every call a module receives is logged (`modCalls`), every call the token makes to the
  compliance contract is logged (`compQueries`, notification log `notes`);
* operator policy of the harness token: `operator.require_auth()` and `operator == admin`.

The model follows the code AFTER the `fix:` commit (transfer_from calls validate_transfer);
`legacyTransferFrom` keeps the old transition for the regression theorem in Props/C04.
Import-free apart from the host and fungible models.
-/
namespace OZ.Rwa
open OZ.Host OZ.Fungible

/-- `ComplianceHook` -/
inductive Hook where
  | transferred | created | destroyed | canTransfer | canCreate
  deriving DecidableEq, Repr

/-- a call received by a compliance module (`ComplianceModuleClient`) -/
inductive ModCall where
  | canTransfer (frm to : Nat) (amount : Int)
  | canCreate (to : Nat) (amount : Int)
  | onTransfer (frm to : Nat) (amount : Int)
  | onCreated (to : Nat) (amount : Int)
  | onDestroyed (frm : Nat) (amount : Int)
  deriving DecidableEq, Repr

/-- events of the token (and module registration events of the compliance contract), in emission order -/
inductive Ev where
  | base (e : Fungible.Event)                 -- mint / burn / transfer / approve
  | tokensFrozen (a : Nat) (amount : Int)
  | tokensUnfrozen (a : Nat) (amount : Int)
  | addressFrozen (a : Nat) (frozen : Bool)
  | recoverySuccess (old new : Nat)
  | paused
  | unpaused
  | moduleAdded (h : Hook) (m : Nat)
  | moduleRemoved (h : Hook) (m : Nat)
  deriving DecidableEq, Repr

/-- compliance hooks (`ComplianceClient::{transferred, created, destroyed}`) -/
inductive Note where
  | transferred (frm to : Nat) (amount : Int)
  | created (to : Nat) (amount : Int)
  | destroyed (frm : Nat) (amount : Int)
  deriving DecidableEq, Repr

/-- compliance queries -/
inductive Query where
  | canTransfer (frm to : Nat) (amount : Int)
  | canCreate (to : Nat) (amount : Int)
  deriving DecidableEq, Repr

/-- calls to the identity verifier -/
inductive IdCall where
  | verify (a : Nat)
  | target (a : Nat)
  deriving DecidableEq, Repr

structure State where
  base : Fungible.State
  admin : Nat
  paused : Bool
  addrFrozen : Nat → Bool
  frozen : Nat → Int
  -- oracles
  idOk : Nat → Bool
  recTarget : Nat → Option Nat
  -- the compliance contract: token binding and, per hook, the registered modules in order
  bound : Bool
  mods : Hook → List Nat
  -- the modules' verdicts (oracles): module, from, to, amount / module, to, amount
  modCanTransfer : Nat → Nat → Nat → Int → Bool
  modCanCreate : Nat → Nat → Int → Bool
  -- logs, oldest first
  events : List Ev
  notes : List Note
  compQueries : List Query
  idCalls : List IdCall
  modCalls : List (Nat × ModCall)

def init (now admin : Nat) : State :=
  { base := Fungible.init now, admin := admin, paused := false, addrFrozen := fun _ => false,
    frozen := fun _ => 0, idOk := fun _ => true, recTarget := fun _ => none,
    bound := true, mods := fun _ => [],
    modCanTransfer := fun _ _ _ _ => true, modCanCreate := fun _ _ _ => true,
    events := [], notes := [], compQueries := [], idCalls := [], modCalls := [] }

def emit (s : State) (ev : Ev) : State := { s with events := s.events ++ [ev] }
def notify (s : State) (n : Note) : State := { s with notes := s.notes ++ [n] }
def logQuery (s : State) (q : Query) : State := { s with compQueries := s.compQueries ++ [q] }
def logId (s : State) (c : IdCall) : State := { s with idCalls := s.idCalls ++ [c] }
/-- the call `c` delivered to each module of `ms`, in that order -/
def callsTo (ms : List Nat) (c : ModCall) : List (Nat × ModCall) := ms.map (fun m => (m, c))
/-- the modules `ms` each receive the call `c`, in that order -/
def logMods (s : State) (ms : List Nat) (c : ModCall) : State :=
  { s with modCalls := s.modCalls ++ callsTo ms c }

/-- `if cond { panic_with_error!(..) }` as a guard: passes iff `c` holds -/
def check (c : Prop) [Decidable c] (e : Err) : Except Err Unit := if c then .ok () else .error e

/-- an i128 result of unchecked Rust arithmetic (`overflow-checks = true`: out of range = panic) -/
def chk (x : Int) : Except Err Int := if in128 x then .ok x else .error .overflowPanic

/-- `Base::update` on the embedded fungible state -/
def baseUpdate (s : State) (frm to : Option Nat) (amount : Int) : Except Err State :=
  match Fungible.update s.base frm to amount with
  | .ok b => .ok { s with base := b }
  | .error e => .error e

/-- `Base::spend_allowance` on the embedded fungible state -/
def baseSpend (c : Cfg) (s : State) (owner spender : Nat) (amount : Int) : Except Err State :=
  match Fungible.spendAllowance c s.base owner spender amount with
  | .ok b => .ok { s with base := b }
  | .error e => .error e

/-- `Base::set_allowance` on the embedded fungible state -/
def baseSetAllowance (c : Cfg) (s : State) (owner spender : Nat) (amount : Int) (lu : Nat) :
    Except Err State :=
  match Fungible.setAllowance c s.base owner spender amount lu with
  | .ok b => .ok { s with base := b }
  | .error e => .error e

/-- `Base::balance` -/
def balance (s : State) (a : Nat) : Int := s.base.bal a

/-- `RWA::get_free_tokens`: `total_balance - frozen_tokens` -/
def getFreeTokens (s : State) (a : Nat) : Except Err Int := chk (s.base.bal a - s.frozen a)

/-- `IdentityVerifierClient::verify_identity`: logged, fails unless the oracle accepts -/
def verifyIdentity (s : State) (a : Nat) : Except Err State :=
  if s.idOk a = true then .ok (logId s (.verify a)) else .error .gate

/-- the loop of `compliance::can_transfer` / `can_create` over the registered modules:
`for module in modules { if !module.verdict() { return false } } true`.
Result: the modules that were called (in order) and the verdict. -/
def consult (v : Nat → Bool) : List Nat → List Nat × Bool
  | [] => ([], true)
  | m :: ms => if v m = true then (m :: (consult v ms).1, (consult v ms).2) else ([m], false)

/-- `compliance::can_transfer`: verdict and the modules consulted -/
def compCanTransfer (s : State) (frm to : Nat) (amount : Int) : List Nat × Bool :=
  consult (fun m => s.modCanTransfer m frm to amount) (s.mods .canTransfer)

/-- `compliance::can_create` -/
def compCanCreate (s : State) (to : Nat) (amount : Int) : List Nat × Bool :=
  consult (fun m => s.modCanCreate m to amount) (s.mods .canCreate)

/-- `ComplianceClient::can_transfer` + `if !can_transfer { panic }`: the query is logged, the
consulted modules log their call -/
def queryCanTransfer (s : State) (frm to : Nat) (amount : Int) : Except Err State :=
  if (compCanTransfer s frm to amount).2 = true then
    .ok (logMods (logQuery s (.canTransfer frm to amount)) (compCanTransfer s frm to amount).1
      (.canTransfer frm to amount))
  else .error .gate

/-- `ComplianceClient::can_create` + `if !can_create { panic }` -/
def queryCanCreate (s : State) (to : Nat) (amount : Int) : Except Err State :=
  if (compCanCreate s to amount).2 = true then
    .ok (logMods (logQuery s (.canCreate to amount)) (compCanCreate s to amount).1 (.canCreate to amount))
  else .error .gate

/-- `compliance::{transferred, created, destroyed}`: `require_auth_from_bound_token` (the token is
the invoker; it must be bound), then every module registered for the hook is called once, in
registration order -/
def hook (s : State) (h : Hook) (c : ModCall) : Except Err State :=
  if s.bound = true then .ok (logMods s (s.mods h) c) else .error .gate

/-- the operator policy of the harness token -/
def opAuth (s : State) (auth : List Nat) (operator : Nat) : Except Err Unit := do
  requireAuth auth operator
  check (operator = s.admin) .gate

/-- `RWA::validate_transfer` -/
def validateTransfer (s : State) (frm to : Nat) (amount : Int) : Except Err State := do
  check (s.paused = false) .gate
  check (s.addrFrozen frm = false ∧ s.addrFrozen to = false) .gate
  let free ← getFreeTokens s frm
  check (¬ free < amount) .gate
  let s ← verifyIdentity s frm
  let s ← verifyIdentity s to
  queryCanTransfer s frm to amount

/-- `RWA::transfer`. The contract entry point `FungibleToken::transfer(from, to: MuxedAddress, amount)`
resolves through `type ContractType = RWA` to `<RWA as ContractOverrides>::transfer`, which is
`RWA::transfer(e, from, &to.address(), amount)`: a muxed destination (account + id) is reduced to
its underlying account before anything else happens and the id is dropped (the emitted `transfer`
event carries no `to_muxed_id`). So `to` below is the underlying address; the harness drives the
entry point with plain and with muxed destinations. -/
def transfer (s : State) (auth : List Nat) (frm to : Nat) (amount : Int) : Except Err State := do
  requireAuth auth frm
  let s ← validateTransfer s frm to amount
  let s ← baseUpdate s (some frm) (some to) amount
  let s ← hook s .transferred (.onTransfer frm to amount)
  pure (emit (notify s (.transferred frm to amount)) (.base (.transfer frm to amount)))

/-- `RWA::transfer_from` (after the fix: `validate_transfer` right after `spender.require_auth()`) -/
def transferFrom (c : Cfg) (s : State) (auth : List Nat) (spender frm to : Nat) (amount : Int) :
    Except Err State := do
  requireAuth auth spender
  let s ← validateTransfer s frm to amount
  let s ← baseSpend c s frm spender amount
  let s ← baseUpdate s (some frm) (some to) amount
  let s ← hook s .transferred (.onTransfer frm to amount)
  pure (emit (notify s (.transferred frm to amount)) (.base (.transfer frm to amount)))

/-- `RWA::transfer_from` as it was before the fix: no `validate_transfer` at all -/
def legacyTransferFrom (c : Cfg) (s : State) (auth : List Nat) (spender frm to : Nat) (amount : Int) :
    Except Err State := do
  requireAuth auth spender
  let s ← baseSpend c s frm spender amount
  let s ← baseUpdate s (some frm) (some to) amount
  let s ← hook s .transferred (.onTransfer frm to amount)
  pure (emit (notify s (.transferred frm to amount)) (.base (.transfer frm to amount)))

/-- `Base::approve` (the RWA flavour does not override it) -/
def approve (c : Cfg) (s : State) (auth : List Nat) (owner spender : Nat) (amount : Int) (lu : Nat) :
    Except Err State := do
  requireAuth auth owner
  let s ← baseSetAllowance c s owner spender amount lu
  pure (emit s (.base (.approve owner spender amount lu)))

/-- the block shared by `forced_transfer` and `burn`: "check if we need to unfreeze tokens" -/
def unfreezeFor (s : State) (a : Nat) (amount : Int) : Except Err State := do
  let free ← getFreeTokens s a
  if free < amount then do
    let toUnfreeze ← chk (amount - free)
    let newFrozen ← chk (s.frozen a - toUnfreeze)
    pure (emit { s with frozen := upd s.frozen a newFrozen } (.tokensUnfrozen a toUnfreeze))
  else pure s

/-- `RWA::forced_transfer` -/
def forcedTransfer (s : State) (frm to : Nat) (amount : Int) : Except Err State := do
  check (¬ s.base.bal frm < amount) .insufficientBalance
  let s ← unfreezeFor s frm amount
  let s ← baseUpdate s (some frm) (some to) amount
  let s ← hook s .transferred (.onTransfer frm to amount)
  pure (emit (notify s (.transferred frm to amount)) (.base (.transfer frm to amount)))

/-- `RWA::mint` -/
def mint (s : State) (to : Nat) (amount : Int) : Except Err State := do
  let s ← verifyIdentity s to
  let s ← queryCanCreate s to amount
  let s ← baseUpdate s none (some to) amount
  let s ← hook s .created (.onCreated to amount)
  pure (emit (notify s (.created to amount)) (.base (.mint to amount)))

/-- `RWA::burn` -/
def burn (s : State) (a : Nat) (amount : Int) : Except Err State := do
  check (¬ amount > s.base.bal a) .insufficientBalance
  let s ← unfreezeFor s a amount
  let s ← baseUpdate s (some a) none amount
  let s ← hook s .destroyed (.onDestroyed a amount)
  pure (emit (notify s (.destroyed a amount)) (.base (.burn a amount)))

/-- `RWA::set_address_frozen` -/
def setAddressFrozen (s : State) (a : Nat) (b : Bool) : State :=
  emit { s with addrFrozen := upd s.addrFrozen a b } (.addressFrozen a b)

/-- `RWA::freeze_partial_tokens` -/
def freezePartial (s : State) (a : Nat) (amount : Int) : Except Err State := do
  check (¬ amount < 0) .lessThanZero
  let newFrozen ← chk (s.frozen a + amount)
  check (¬ newFrozen > s.base.bal a) .insufficientBalance
  pure (emit { s with frozen := upd s.frozen a newFrozen } (.tokensFrozen a amount))

/-- `RWA::unfreeze_partial_tokens` -/
def unfreezePartial (s : State) (a : Nat) (amount : Int) : Except Err State := do
  check (¬ amount < 0) .lessThanZero
  check (¬ s.frozen a < amount) .gate
  let newFrozen ← chk (s.frozen a - amount)
  pure (emit { s with frozen := upd s.frozen a newFrozen } (.tokensUnfrozen a amount))

/-- "preserve frozen tokens on the new account if there were any" -/
def refreeze (s : State) (new : Nat) (frozenTokens : Int) : Except Err State :=
  if frozenTokens > 0 then freezePartial s new frozenTokens else .ok s

/-- "preserve address frozen status on the new account if it was frozen" -/
def refreezeAddr (s : State) (new : Nat) (wasFrozen : Bool) : State :=
  if wasFrozen = true then setAddressFrozen s new true else s

/-- second half of `RWA::recover_balance`, entered with a non-zero balance; `s0` is the state in
which `frozen_tokens` and `is_address_frozen` of the old account were read -/
def recoverMove (s0 : State) (old new : Nat) : Except Err State := do
  let s ← forcedTransfer s0 old new (s0.base.bal old)
  let s ← refreeze s new (s0.frozen old)
  pure (emit (refreezeAddr s new (s0.addrFrozen old)) (.recoverySuccess old new))

/-- `recovery_target(old).unwrap_or_else(panic)` and `if recovery_target != new { panic }`
(the call is logged) -/
def checkTarget (s : State) (old new : Nat) : Except Err State :=
  if s.recTarget old = some new then .ok (logId s (.target old)) else .error .gate

/-- `RWA::recover_balance` after the identity checks: "if there is nothing to transfer, return false" -/
def recoverRest (s : State) (old new : Nat) : Except Err (State × Bool) :=
  if s.base.bal old = 0 then .ok (s, false)
  else
    match recoverMove s old new with
    | .ok s' => .ok (s', true)
    | .error e => .error e

/-- `RWA::recover_balance`; the result is the function's return value -/
def recoverBalance (s : State) (old new : Nat) : Except Err (State × Bool) := do
  let s ← verifyIdentity s new
  let s ← checkTarget s old new
  recoverRest s old new

/-- `pausable::pause` -/
def pause (s : State) : Except Err State := do
  check (s.paused = false) .gate
  pure (emit { s with paused := true } .paused)

/-- `pausable::unpause` -/
def unpause (s : State) : Except Err State := do
  check (s.paused = true) .gate
  pure (emit { s with paused := false } .unpaused)

/-! ### the compliance contract's administration -/

/-- `MAX_MODULES` -/
def MAX_MODULES : Nat := 20

/-- `compliance::add_module_to` -/
def addModule (s : State) (h : Hook) (m : Nat) : Except Err State := do
  check (m ∉ s.mods h) .gate
  check (¬ (s.mods h).length ≥ MAX_MODULES) .gate
  pure (emit { s with mods := fun k => if k = h then s.mods h ++ [m] else s.mods k } (.moduleAdded h m))

/-- `compliance::remove_module_from` -/
def removeModule (s : State) (h : Hook) (m : Nat) : Except Err State := do
  check (m ∈ s.mods h) .gate
  pure (emit { s with mods := fun k => if k = h then (s.mods h).erase m else s.mods k } (.moduleRemoved h m))

/-- `token_binder::bind_token` for the one token of the harness -/
def bindToken (s : State) : Except Err State := do
  check (s.bound = false) .gate
  pure { s with bound := true }

/-- `token_binder::unbind_token` -/
def unbindToken (s : State) : Except Err State := do
  check (s.bound = true) .gate
  pure { s with bound := false }

/-! ### the harness token (and its compliance contract) as a state machine -/

inductive Op where
  -- holder-initiated
  | transfer (frm to : Nat) (amount : Int)
  | transferFrom (spender frm to : Nat) (amount : Int)
  | approve (owner spender : Nat) (amount : Int) (lu : Nat)
  -- supervisory (`RWAToken` entry points of the harness token: `opAuth`, then the library function)
  | mint (to : Nat) (amount : Int) (operator : Nat)
  | burn (a : Nat) (amount : Int) (operator : Nat)
  | forcedTransfer (frm to : Nat) (amount : Int) (operator : Nat)
  | recover (old new : Nat) (operator : Nat)
  | freezePartial (a : Nat) (amount : Int) (operator : Nat)
  | unfreezePartial (a : Nat) (amount : Int) (operator : Nat)
  | setAddressFrozen (a : Nat) (b : Bool) (operator : Nat)
  | pause (caller : Nat)
  | unpause (caller : Nat)
  -- environment: ledger movement and arbitrary changes of the external contracts' answers
  | advance (n : Nat)
  | envIdOk (a : Nat) (ok : Bool)
  | envRecTarget (a : Nat) (t : Option Nat)
  | envModule (m : Nat) (canTransfer : Nat → Nat → Int → Bool) (canCreate : Nat → Int → Bool)
  -- administration of the compliance contract (`Compliance` / `TokenBinder` entry points of the
  -- harness compliance contract: `opAuth`, then the library function)
  | addModule (h : Hook) (m : Nat) (operator : Nat)
  | removeModule (h : Hook) (m : Nat) (operator : Nat)
  | bindToken (operator : Nat)
  | unbindToken (operator : Nat)

/-- one invocation with the authorizing addresses `auth`; the Bool is `recover_balance`'s
return value (`true` for every other operation) -/
def applyRet (c : Cfg) (s : State) (auth : List Nat) : Op → Except Err (State × Bool)
  | .transfer f t a => do let s ← transfer s auth f t a; pure (s, true)
  | .transferFrom sp f t a => do let s ← transferFrom c s auth sp f t a; pure (s, true)
  | .approve o sp a lu => do let s ← approve c s auth o sp a lu; pure (s, true)
  | .mint to a op => do opAuth s auth op; let s ← mint s to a; pure (s, true)
  | .burn x a op => do opAuth s auth op; let s ← burn s x a; pure (s, true)
  | .forcedTransfer f t a op => do opAuth s auth op; let s ← forcedTransfer s f t a; pure (s, true)
  | .recover old new op => do opAuth s auth op; recoverBalance s old new
  | .freezePartial x a op => do opAuth s auth op; let s ← freezePartial s x a; pure (s, true)
  | .unfreezePartial x a op => do opAuth s auth op; let s ← unfreezePartial s x a; pure (s, true)
  | .setAddressFrozen x b op => do opAuth s auth op; pure (setAddressFrozen s x b, true)
  | .pause op => do opAuth s auth op; let s ← pause s; pure (s, true)
  | .unpause op => do opAuth s auth op; let s ← unpause s; pure (s, true)
  | .advance n => pure ({ s with base := { s.base with now := s.base.now + n } }, true)
  | .envIdOk a ok => pure ({ s with idOk := upd s.idOk a ok }, true)
  | .envRecTarget a t => pure ({ s with recTarget := upd s.recTarget a t }, true)
  | .envModule m ct cc =>
    pure ({ s with modCanTransfer := upd s.modCanTransfer m ct, modCanCreate := upd s.modCanCreate m cc }, true)
  | .addModule h m op => do opAuth s auth op; let s ← addModule s h m; pure (s, true)
  | .removeModule h m op => do opAuth s auth op; let s ← removeModule s h m; pure (s, true)
  | .bindToken op => do opAuth s auth op; let s ← bindToken s; pure (s, true)
  | .unbindToken op => do opAuth s auth op; let s ← unbindToken s; pure (s, true)

def apply (c : Cfg) (s : State) (auth : List Nat) (op : Op) : Except Err State :=
  match applyRet c s auth op with
  | .ok r => .ok r.1
  | .error e => .error e

/-- a failed invocation is rolled back by the host (including the mocks' logs) -/
def step (c : Cfg) (s : State) (x : List Nat × Op) : State :=
  match apply c s x.1 x.2 with
  | .ok s' => s'
  | .error _ => s

def run (c : Cfg) (s : State) (ops : List (List Nat × Op)) : State := ops.foldl (step c) s

/-- the history of the unfixed token: `transfer_from` without validation -/
def legacyApply (c : Cfg) (s : State) (auth : List Nat) : Op → Except Err State
  | .transferFrom sp f t a => legacyTransferFrom c s auth sp f t a
  | op => apply c s auth op

def legacyStep (c : Cfg) (s : State) (x : List Nat × Op) : State :=
  match legacyApply c s x.1 x.2 with
  | .ok s' => s'
  | .error _ => s

def legacyRun (c : Cfg) (s : State) (ops : List (List Nat × Op)) : State := ops.foldl (legacyStep c) s

/-- token accounts mentioned by an operation (balances it may touch) -/
def Op.addrs : Op → List Nat
  | .transfer f t _ => [f, t]
  | .transferFrom _ f t _ => [f, t]
  | .mint to _ _ => [to]
  | .burn a _ _ => [a]
  | .forcedTransfer f t _ _ => [f, t]
  | .recover old new _ => [old, new]
  | _ => []

/-- who must authorize an operation for it to get past `require_auth` -/
def Op.required : Op → List Nat
  | .transfer f _ _ => [f]
  | .transferFrom sp _ _ _ => [sp]
  | .approve o _ _ _ => [o]
  | .mint _ _ op => [op]
  | .burn _ _ op => [op]
  | .forcedTransfer _ _ _ op => [op]
  | .recover _ _ op => [op]
  | .freezePartial _ _ op => [op]
  | .unfreezePartial _ _ op => [op]
  | .setAddressFrozen _ _ op => [op]
  | .pause op => [op]
  | .unpause op => [op]
  | .addModule _ _ op => [op]
  | .removeModule _ _ op => [op]
  | .bindToken op => [op]
  | .unbindToken op => [op]
  | _ => []

/-- the compliance notification an operation owes when it succeeds from state `s` -/
def Op.owedNotes (s : State) : Op → List Note
  | .transfer f t a => [.transferred f t a]
  | .transferFrom _ f t a => [.transferred f t a]
  | .forcedTransfer f t a _ => [.transferred f t a]
  | .mint to a _ => [.created to a]
  | .burn x a _ => [.destroyed x a]
  | .recover old new _ => if s.base.bal old = 0 then [] else [.transferred old new (s.base.bal old)]
  | _ => []

/-- the calls the compliance MODULES receive from an operation that succeeds from state `s`:
the verdict modules consulted (holder moves and mint: all registered ones, since all must
approve), then one hook call to every module registered for the notification hook -/
def Op.owedModCalls (s : State) : Op → List (Nat × ModCall)
  | .transfer f t a =>
    callsTo (compCanTransfer s f t a).1 (.canTransfer f t a) ++ callsTo (s.mods .transferred) (.onTransfer f t a)
  | .transferFrom _ f t a =>
    callsTo (compCanTransfer s f t a).1 (.canTransfer f t a) ++ callsTo (s.mods .transferred) (.onTransfer f t a)
  | .forcedTransfer f t a _ => callsTo (s.mods .transferred) (.onTransfer f t a)
  | .mint to a _ =>
    callsTo (compCanCreate s to a).1 (.canCreate to a) ++ callsTo (s.mods .created) (.onCreated to a)
  | .burn x a _ => callsTo (s.mods .destroyed) (.onDestroyed x a)
  | .recover old new _ =>
    if s.base.bal old = 0 then [] else callsTo (s.mods .transferred) (.onTransfer old new (s.base.bal old))
  | _ => []

/-- replay of the token's mint / burn / transfer events -/
def replayEv (b : Nat → Int) : Ev → (Nat → Int)
  | .base e => Fungible.replayEvent b e
  | _ => b

def replay (evs : List Ev) : Nat → Int := evs.foldl replayEv (fun _ => 0)

end OZ.Rwa
