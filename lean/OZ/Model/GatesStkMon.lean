import OZ.Model.GatesStk
/-
C16, machine `stk` (stacked guards): the model side of the driver and the MONITOR on parsed values.

The driver OZ/Drv/C16.lean dispatches on the sequence label (`kind=stk`, also written `m=stk`): for this
machine it parses the trace lines (`parseStkOp`, `parseStkLine`, `parseStkObs`) and calls `stepM` (model
side) resp. `checkCore` (monitor, fed with the IMPLEMENTATION's observations; it never calls the model's
transition functions and keeps its own ghost flag / ghost counter). OZ/Props/C16StkMon.lean proves the
monitor sound: on the observations of the model itself it never reports anything. Import-free apart
from the models.
-/
namespace OZ.Gates.Stk.Mon
open OZ.Host OZ.Fungible OZ.Gates OZ.Gates.Stk

/-! ## model side -/

/-- an op line, parsed: an entry point of the contract, or only the ledger moves -/
inductive SOp where
  | op (o : Op)
  | advance (n : Nat)

/-- the model state of a sequence: the contract and the ledger as the driver tracks it -/
structure MSt where
  s : Stk
  now : Nat

/-- `none` = rejected -/
def okOpt : Except Err Stk → Option Stk
  | .ok s' => some s'
  | .error _ => none

/-- the model's transition for one parsed op; `none` = rejected -/
def applyModel (s : Stk) (auth : List Nat) : SOp → Option Stk
  | .op o => okOpt (s.apply auth o)
  | .advance _ => some s

def nowStep (now : Nat) : SOp → Nat
  | .advance n => now + n
  | _ => now

/-- one op through the model: the new state (unchanged when the call is rejected: the host rolls back)
and whether the call was accepted -/
def stepM (x : MSt) (auth : List Nat) (op : SOp) : MSt × Bool :=
  match applyModel x.s auth op with
  | some s' => (⟨s', nowStep x.now op⟩, true)
  | none => (x, false)

/-- the parameters of a sequence label: `owner=`, `adm=`, `mgr=` (the holder of the role "op"), `start=` -/
structure Params where
  owner : Nat
  admin : Nat
  opr : Nat
  start : Nat

def initM (p : Params) : MSt := ⟨Stk.construct p.owner p.admin p.opr, p.start⟩

/-! ### the observation line, parsed

`ok|err ret=<i|-> now=<ledger> ev=.. dem=.. counter=<i> paused=<0|1>`. `Stable` holds everything a
rejected call must leave unchanged. -/

structure Stable where
  now : Nat
  counter : Int
  paused : Bool
  deriving DecidableEq

structure Obs where
  ok : Bool
  ret : Option Int
  st : Stable

/-- every getter the model driver prints for a state (`OZ.Drv.C16.stkObsLine` prints exactly these) -/
def stableOf (x : MSt) : Stable := { now := x.now, counter := x.s.counter, paused := x.s.p.paused }

/-- the value an accepted `inc_*` returns: the new counter -/
def retOf (x : MSt) (ok : Bool) : SOp → Option Int
  | .op (.call f _) => if ok ∧ f.isInc then some x.s.counter else none
  | _ => none

/-- the model's observation of a call: the tag, the return value and the getters of the state after it -/
def modelObs (x : MSt) (ok : Bool) (op : SOp) : Obs := ⟨ok, retOf x ok op, stableOf x⟩

/-- who must authorize an accepted call (the `dem=` word of the model's line) -/
def demandedBy (s : Stk) : SOp → List Nat
  | .op (.call f c) =>
    match f.spec.who with
    | .owner => s.owner.toList
    | .admin => s.admin.toList
    | .role => [c]
  | .op (.pause c) => [c]
  | .op (.unpause c) => [c]
  | .advance _ => []

/-! ## the monitor -/

/-- first two words of an op line (`gate <name>` / `fungible advance`) -/
inductive Call where
  | fn (f : Fn)
  | pause | unpause | advance
  | other
  deriving DecidableEq

def Call.name : Call → String
  | .fn f => f.name
  | .pause => "pause"
  | .unpause => "unpause"
  | .advance => "advance"
  | .other => ""

structure Line where
  call : Call
  a : List Nat          -- `a=`: the caller argument (role-guarded entry points, pause, unpause)
  auth : List Nat       -- `auth=`: the exact signer set the call ran with
  n : Nat               -- `n=` of an advance; only printed

/-- monitor state: the principals of the label, a ghost pause flag moved only by accepted pause /
unpause calls, a ghost counter moved only by accepted `inc_*` / `reset_*` calls, the previous getters -/
structure Mon where
  owner : Nat
  admin : Nat
  opr : Nat
  paused : Bool
  counter : Int
  prev : Option Stable

def monInit (p : Params) : Mon :=
  { owner := p.owner, admin := p.admin, opr := p.opr, paused := false, counter := 0, prev := none }

/-- the principal of the authorization guard authorized the call (for a role-guarded entry point: the
caller is the role holder and authorized) -/
def authorized (m : Mon) (l : Line) : Who → Bool
  | .owner => l.auth.contains m.owner
  | .admin => l.auth.contains m.admin
  | .role => l.a.head? == some m.opr && l.auth.contains m.opr

/-- the owner named as caller and authorizing (pause / unpause) -/
def byOwner (m : Mon) (l : Line) : Bool := l.a.head? == some m.owner && l.auth.contains m.owner

def whoName : Who → String
  | .owner => "owner"
  | .admin => "admin"
  | .role => "holder of the role"

def guardName (needPaused : Bool) : String := if needPaused then "when_paused" else "when_not_paused"

/-! ### ghost updates (from the op line and the IMPLEMENTATION's verdict only) -/

def pausedF (p : Bool) : Call → Bool
  | .pause => true
  | .unpause => false
  | _ => p

def pausedStep (m : Mon) (l : Line) (ok : Bool) : Bool := if ok then pausedF m.paused l.call else m.paused

def counterF (c : Int) : Call → Int
  | .fn f => if f.isInc then c + 1 else 0
  | _ => c

def counterStep (m : Mon) (l : Line) (ok : Bool) : Int := if ok then counterF m.counter l.call else m.counter

/-! ### the checks -/

/-- a rejected call has no observable effect -/
def vRollback (m : Mon) (o : Obs) : Option String :=
  if ¬ o.ok ∧ m.prev.isSome ∧ m.prev ≠ some o.st then
    some "site=gates.rollback.stk a rejected call changed the observed state"
  else none

/-- every guard of the entry point holds: the pause state it is declared for, the authorization of its
principal, and (for `inc_*`) room in the `i32` counter -/
def guardsHold (m : Mon) (l : Line) (f : Fn) : Bool :=
  m.paused == f.spec.needPaused && authorized m l f.spec.who && (!f.isInc || decide (m.counter + 1 ≤ I32_MAX))

/-- a guarded entry point: accepted only in the pause state it is declared for AND with its principal's
authorization, whatever the order of the two attributes; refused only if one of the two fails -/
def vFn (m : Mon) (l : Line) (f : Fn) (o : Obs) : Option String :=
  if o.ok ∧ m.paused ≠ f.spec.needPaused then
    some s!"site=stacked.bypass.pause.{f.name} declared {guardName f.spec.needPaused} but accepted while paused={m.paused}"
  else if o.ok ∧ ¬ authorized m l f.spec.who then
    some s!"site=stacked.bypass.auth.{f.name} accepted without the authorization of the {whoName f.spec.who}"
  else if ¬ o.ok ∧ guardsHold m l f then
    some s!"site=stacked.refused.{f.name} refused although paused={m.paused} as declared and the {whoName f.spec.who} authorized"
  else none

/-- pause / unpause alternate, need the owner as authorizing caller, and are accepted then -/
def vToggle (m : Mon) (l : Line) (o : Obs) : Option String :=
  if o.ok ∧ l.call = .pause ∧ m.paused then
    some "site=stacked.alternate.pause pause accepted while paused"
  else if o.ok ∧ l.call = .unpause ∧ ¬ m.paused then
    some "site=stacked.alternate.unpause unpause accepted while not paused"
  else if o.ok ∧ (l.call = .pause ∨ l.call = .unpause) ∧ ¬ byOwner m l then
    some s!"site=stacked.owner.{l.call.name} accepted without the owner's authorization"
  else if ¬ o.ok ∧ l.call = .pause ∧ ¬ m.paused ∧ byOwner m l then
    some "site=stacked.refused.pause the owner's pause refused while not paused"
  else if ¬ o.ok ∧ l.call = .unpause ∧ m.paused ∧ byOwner m l then
    some "site=stacked.refused.unpause the owner's unpause refused while paused"
  else none

def vCall (m : Mon) (l : Line) (o : Obs) : Option String :=
  match l.call with
  | .fn f => vFn m l f o
  | _ => vToggle m l o

def Call.isInc : Call → Bool
  | .fn f => f.isInc
  | _ => false

/-- the getters follow the accepted calls and nothing else (not even the passage of time): the counter is
+1 per accepted `inc_*` and 0 after an accepted `reset_*`, `paused()` moves with accepted pause / unpause
only, an accepted `inc_*` returns the new counter -/
def vEffect (m : Mon) (l : Line) (o : Obs) : Option String :=
  if o.st.counter ≠ counterStep m l o.ok then
    some s!"site=stacked.effect counter = {o.st.counter} but the accepted calls give {counterStep m l o.ok}"
  else if o.st.paused ≠ pausedStep m l o.ok then
    some s!"site=stacked.effect paused() = {o.st.paused} but the accepted pause / unpause calls give {pausedStep m l o.ok}"
  else if o.ok ∧ l.call.isInc ∧ o.ret ≠ some o.st.counter then
    some s!"site=stacked.effect {l.call.name} did not return the new counter {o.st.counter}"
  else none

def orElse (a : Option String) (b : Unit → Option String) : Option String :=
  match a with
  | some x => some x
  | none => b ()

/-- the property's conclusion for one call, on observed values only (first failing check) -/
def verdict (m : Mon) (l : Line) (o : Obs) : Option String :=
  orElse (vRollback m o) fun _ =>
  orElse (vCall m l o) fun _ =>
  vEffect m l o

/-- the monitor's step on parsed values -/
def checkCore (m : Mon) (l : Line) (o : Obs) : Mon × Option String :=
  ({ m with paused := pausedStep m l o.ok, counter := counterStep m l o.ok, prev := some o.st },
   verdict m l o)

end OZ.Gates.Stk.Mon
