/-
Model of the smart-account context-rule store and of its authorization check
(packages/accounts/src/smart_account/storage.rs, used unchanged by
examples/multisig-smart-account/account/src/contract.rs `__check_auth`). Import-free.

* addresses, verifier keys, signatures, wasm hashes, names are natural numbers (the harness
  keeps the bijection to the real values);
* a `Map<K, V>` argument is the list of its entries in the host's key order (the harness
  numbers policy contracts in that order, so `mapKeys` = sort + de-duplicate);
* persistent entries never expire inside a harness sequence, so TTL extension is not modelled;
* external contracts are ORACLES: verifier `verify`, the host's answer to
  `require_auth_for_args` of a delegated signer, policy `can_enforce`, policy `enforce`
  (may refuse, may depend on the enforce calls made earlier in the same check), policy
  `install` (may refuse); `uninstall` failures are ignored by the code (`try_uninstall`);
* a fingerprint (sha256 of the XDR of type, SORTED signers, SORTED policies) is modelled by
  the triple itself compared up to order (assumes sha256 collision freedom).
-/
namespace OZ.SmartAccount

inductive Signer where
  | delegated (a : Nat)
  | external (v k : Nat)
  deriving DecidableEq, Repr

inductive RuleType where
  | default
  | call (a : Nat)
  | create (h : Nat)
  deriving DecidableEq, Repr

/-- `soroban_sdk::auth::Context`; `tag` stands for everything the account ignores
(function name and arguments / salt, constructor arguments, which of the two create variants) -/
inductive Ctx where
  | call (a tag : Nat)
  | create (h tag : Nat)
  deriving DecidableEq, Repr

/-- the `match context` at the top of `get_validated_context` -/
def typeOf : Ctx → RuleType
  | .call a _ => .call a
  | .create h _ => .create h

structure Meta where
  name : Nat
  ctype : RuleType
  validUntil : Option Nat
  deriving DecidableEq, Repr

structure Rule where
  id : Nat
  ctype : RuleType
  name : Nat
  signers : List Signer
  policies : List Nat
  validUntil : Option Nat
  deriving DecidableEq, Repr

structure Fp where
  ctype : RuleType
  signers : List Signer
  policies : List Nat
  deriving DecidableEq, Repr

/-- `SmartAccountStorageKey`: Meta / Signers / Policies per id, Ids per type (absent = empty),
NextId, Count, the set of fingerprints -/
structure Store where
  metas : Nat → Option Meta
  signers : Nat → Option (List Signer)
  policies : Nat → Option (List Nat)
  ids : RuleType → List Nat
  nextId : Nat
  count : Nat
  fps : List Fp

def Store.empty : Store :=
  { metas := fun _ => none, signers := fun _ => none, policies := fun _ => none,
    ids := fun _ => [], nextId := 0, count := 0, fps := [] }

inductive Err where
  | contextRuleNotFound | duplicateContextRule | unvalidatedContext | externalVerificationFailed
  | noSignersAndPolicies | pastValidUntil | signerNotFound | duplicateSigner | policyNotFound
  | duplicatePolicy | tooManySigners | tooManyPolicies | tooManyContextRules
  | authMissing | policyRefused | overflow
  deriving DecidableEq, Repr

def MAX_POLICIES : Nat := 5
def MAX_SIGNERS : Nat := 15
def MAX_CONTEXT_RULES : Nat := 15
def U32_MAX : Nat := 4294967295

def updN {β : Type} (f : Nat → β) (a : Nat) (v : β) : Nat → β := fun x => if x = a then v else f x
def updT {β : Type} (f : RuleType → β) (a : RuleType) (v : β) : RuleType → β :=
  fun x => if x = a then v else f x

/-- one enforce call: `PolicyClient::new(policy).enforce(context, authenticated_signers, rule, account)` -/
structure EnfCall where
  policy : Nat
  ctx : Ctx
  signers : List Signer
  rule : Rule
  deriving DecidableEq, Repr

structure Oracle where
  /-- `VerifierClient::verify(payload, key, sig)` returned `true` (a trap counts as `false`) -/
  verify : Nat → Nat → Nat → Bool
  /-- the host accepts `addr.require_auth_for_args((payload,))` -/
  auth : Nat → Bool
  /-- `PolicyClient::can_enforce(context, authenticated_signers, rule, account)` -/
  can : Nat → Ctx → List Signer → Rule → Bool
  /-- `PolicyClient::enforce` does not trap, given the enforce calls made before it in this check -/
  enf : List EnfCall → EnfCall → Bool

-- ################## QUERY STATE ##################

/-- `get_context_rule` -/
def getContextRule (s : Store) (id : Nat) : Except Err Rule :=
  match s.metas id with
  | none => .error .contextRuleNotFound
  | some m =>
    .ok { id := id, ctype := m.ctype, name := m.name, signers := (s.signers id).getD [],
          policies := (s.policies id).getD [], validUntil := m.validUntil }

/-- `get_context_rules` -/
def getContextRules (s : Store) : List Nat → Except Err (List Rule)
  | [] => .ok []
  | id :: rest =>
    match getContextRule s id with
    | .error e => .error e
    | .ok r =>
      match getContextRules s rest with
      | .error e => .error e
      | .ok rs => .ok (r :: rs)

/-- `Some(seq) if seq < e.ledger().sequence()` -/
def expired (now : Nat) : Option Nat → Bool
  | some v => decide (v < now)
  | none => false

/-- the closure `get_rules` of `get_valid_context_rules`: skip expired rules, `push_front` the others -/
def getRules (s : Store) (now : Nat) : List Nat → List Rule → Except Err (List Rule)
  | [], acc => .ok acc
  | id :: rest, acc =>
    match getContextRule s id with
    | .error e => .error e
    | .ok r => if expired now r.validUntil then getRules s now rest acc else getRules s now rest (r :: acc)

/-- `get_valid_context_rules` -/
def getValidContextRules (s : Store) (now : Nat) (key : RuleType) : Except Err (List Rule) :=
  match getRules s now (s.ids key) [] with
  | .error e => .error e
  | .ok a =>
    match getRules s now (s.ids .default) [] with
    | .error e => .error e
    | .ok b => .ok (a ++ b)

/-- `get_authenticated_signers` -/
def getAuthenticatedSigners (ruleSigners all : List Signer) : List Signer :=
  ruleSigners.filter (fun x => decide (x ∈ all))

/-- `can_enforce_all_policies` -/
def canEnforceAllPolicies (O : Oracle) (ctx : Ctx) (rule : Rule) (matched : List Signer) : Bool :=
  rule.policies.all (fun p => O.can p ctx matched rule)

/-- body of the loop of `get_validated_context`: does the loop return at this rule? -/
def ruleMatches (O : Oracle) (ctx : Ctx) (all : List Signer) (rule : Rule) : Bool :=
  if rule.policies.isEmpty then
    rule.signers.length == (getAuthenticatedSigners rule.signers all).length
  else
    canEnforceAllPolicies O ctx rule (getAuthenticatedSigners rule.signers all)

def pickRule (ctx : Ctx) (all : List Signer) : Option Rule → Except Err (Rule × Ctx × List Signer)
  | some r => .ok (r, ctx, getAuthenticatedSigners r.signers all)
  | none => .error .unvalidatedContext

/-- `get_validated_context` -/
def getValidatedContext (O : Oracle) (s : Store) (now : Nat) (ctx : Ctx) (all : List Signer) :
    Except Err (Rule × Ctx × List Signer) :=
  match getValidContextRules s now (typeOf ctx) with
  | .error e => .error e
  | .ok rules => pickRule ctx all (rules.find? (ruleMatches O ctx all))

def sigOk (O : Oracle) : Signer → Nat → Bool
  | .external v k, g => O.verify v k g
  | .delegated a, _ => O.auth a

/-- `authenticate`: every (signer, signature) pair, in map order, first failure aborts -/
def authenticate (O : Oracle) : List (Signer × Nat) → Except Err Unit
  | [] => .ok ()
  | (x, g) :: rest => if sigOk O x g then authenticate O rest else .error .externalVerificationFailed

/-- `auth_contexts.iter().map(get_validated_context)` collected in order, first failure aborts -/
def validateAll (O : Oracle) (s : Store) (now : Nat) (all : List Signer) :
    List Ctx → Except Err (List (Rule × Ctx × List Signer))
  | [] => .ok []
  | c :: rest =>
    match getValidatedContext O s now c all with
    | .error e => .error e
    | .ok v =>
      match validateAll O s now all rest with
      | .error e => .error e
      | .ok vs => .ok (v :: vs)

def callsOfOne (v : Rule × Ctx × List Signer) : List EnfCall :=
  v.1.policies.map (fun p => { policy := p, ctx := v.2.1, signers := v.2.2, rule := v.1 })

/-- the enforce calls of the final double loop of `do_check_auth`, in order -/
def callsOf (vs : List (Rule × Ctx × List Signer)) : List EnfCall := vs.flatMap callsOfOne

/-- the final double loop: a refusing `enforce` aborts the whole check -/
def enforceLoop (O : Oracle) : List EnfCall → List EnfCall → Except Err Unit
  | _, [] => .ok ()
  | hist, c :: rest => if O.enf hist c then enforceLoop O (hist ++ [c]) rest else .error .policyRefused

def finishCheck (O : Oracle) (vs : List (Rule × Ctx × List Signer)) : Except Err (List EnfCall) :=
  match enforceLoop O [] (callsOf vs) with
  | .error e => .error e
  | .ok () => .ok (callsOf vs)

/-- `do_check_auth`; the result is the list of enforce calls it made -/
def doCheckAuth (O : Oracle) (s : Store) (now : Nat) (sigs : List (Signer × Nat)) (ctxs : List Ctx) :
    Except Err (List EnfCall) :=
  match authenticate O sigs with
  | .error e => .error e
  | .ok () =>
    match validateAll O s now (sigs.map Prod.fst) ctxs with
    | .error e => .error e
    | .ok vs => finishCheck O vs

-- ################## the same function as a TRACE of external calls (correspondence only) ##################

inductive Event where
  | verify (v k g : Nat)
  | can (p : Nat) (rule : Rule) (ctx : Ctx) (signers : List Signer)
  | enforce (p : Nat) (rule : Rule) (ctx : Ctx) (signers : List Signer)
  deriving DecidableEq, Repr

def sigEvent : Signer → Nat → List Event
  | .external v k, g => [.verify v k g]
  | .delegated _, _ => []

def authTrace (O : Oracle) : List (Signer × Nat) → List Event × Bool
  | [] => ([], true)
  | (x, g) :: rest =>
    if sigOk O x g then ((sigEvent x g) ++ (authTrace O rest).1, (authTrace O rest).2)
    else (sigEvent x g, false)

def canTrace (O : Oracle) (ctx : Ctx) (rule : Rule) (matched : List Signer) : List Nat → List Event × Bool
  | [] => ([], true)
  | p :: ps =>
    if O.can p ctx matched rule then
      (Event.can p rule ctx matched :: (canTrace O ctx rule matched ps).1, (canTrace O ctx rule matched ps).2)
    else ([Event.can p rule ctx matched], false)

def ruleTrace (O : Oracle) (ctx : Ctx) (all : List Signer) (rule : Rule) : List Event × Bool :=
  if rule.policies.isEmpty then
    ([], rule.signers.length == (getAuthenticatedSigners rule.signers all).length)
  else canTrace O ctx rule (getAuthenticatedSigners rule.signers all) rule.policies

def rulesTrace (O : Oracle) (ctx : Ctx) (all : List Signer) : List Rule → List Event × Option Rule
  | [] => ([], none)
  | r :: rs =>
    if (ruleTrace O ctx all r).2 then ((ruleTrace O ctx all r).1, some r)
    else ((ruleTrace O ctx all r).1 ++ (rulesTrace O ctx all rs).1, (rulesTrace O ctx all rs).2)

def ctxTrace (O : Oracle) (s : Store) (now : Nat) (all : List Signer) (c : Ctx) :
    List Event × Option (Rule × Ctx × List Signer) :=
  match getValidContextRules s now (typeOf c) with
  | .error _ => ([], none)
  | .ok rules =>
    match (rulesTrace O c all rules).2 with
    | some r => ((rulesTrace O c all rules).1, some (r, c, getAuthenticatedSigners r.signers all))
    | none => ((rulesTrace O c all rules).1, none)

def ctxsTrace (O : Oracle) (s : Store) (now : Nat) (all : List Signer) :
    List Ctx → List Event × Option (List (Rule × Ctx × List Signer))
  | [] => ([], some [])
  | c :: rest =>
    match (ctxTrace O s now all c).2 with
    | none => ((ctxTrace O s now all c).1, none)
    | some v =>
      match (ctxsTrace O s now all rest).2 with
      | none => ((ctxTrace O s now all c).1 ++ (ctxsTrace O s now all rest).1, none)
      | some vs => ((ctxTrace O s now all c).1 ++ (ctxsTrace O s now all rest).1, some (v :: vs))

def enfEvent (c : EnfCall) : Event := .enforce c.policy c.rule c.ctx c.signers

def enforceTrace (O : Oracle) : List EnfCall → List EnfCall → List Event × Bool
  | _, [] => ([], true)
  | hist, c :: rest =>
    if O.enf hist c then (enfEvent c :: (enforceTrace O (hist ++ [c]) rest).1, (enforceTrace O (hist ++ [c]) rest).2)
    else ([enfEvent c], false)

/-- every external call `do_check_auth` makes, in order, up to and including the one that aborts it -/
def checkTrace (O : Oracle) (s : Store) (now : Nat) (sigs : List (Signer × Nat)) (ctxs : List Ctx) :
    List Event × Bool :=
  if (authTrace O sigs).2 then
    match (ctxsTrace O s now (sigs.map Prod.fst) ctxs).2 with
    | none => ((authTrace O sigs).1 ++ (ctxsTrace O s now (sigs.map Prod.fst) ctxs).1, false)
    | some vs =>
      ((authTrace O sigs).1 ++ (ctxsTrace O s now (sigs.map Prod.fst) ctxs).1 ++ (enforceTrace O [] (callsOf vs)).1,
       (enforceTrace O [] (callsOf vs)).2)
  else ((authTrace O sigs).1, false)

-- ################## CHANGE STATE ##################

def hasDup {α : Type} [DecidableEq α] : List α → Bool
  | [] => false
  | x :: xs => decide (x ∈ xs) || hasDup xs

def subsetB {α : Type} [DecidableEq α] (a b : List α) : Bool := a.all (fun x => decide (x ∈ b))

/-- equal fingerprints = same type, same signer set, same policy set -/
def fpEq (a b : Fp) : Bool :=
  decide (a.ctype = b.ctype) && subsetB a.signers b.signers && subsetB b.signers a.signers
    && subsetB a.policies b.policies && subsetB b.policies a.policies

/-- `compute_fingerprint` (traps on duplicates while sorting) -/
def computeFingerprint (t : RuleType) (signers : List Signer) (policies : List Nat) : Except Err Fp :=
  if hasDup signers then .error .duplicateSigner
  else if hasDup policies then .error .duplicatePolicy
  else .ok { ctype := t, signers := signers, policies := policies }

/-- `validate_and_set_fingerprint` -/
def validateAndSetFingerprint (s : Store) (t : RuleType) (signers : List Signer) (policies : List Nat) :
    Except Err Store :=
  match computeFingerprint t signers policies with
  | .error e => .error e
  | .ok fp => if s.fps.any (fpEq fp) then .error .duplicateContextRule else .ok { s with fps := fp :: s.fps }

/-- `remove_fingerprint` -/
def removeFingerprint (s : Store) (t : RuleType) (signers : List Signer) (policies : List Nat) :
    Except Err Store :=
  match computeFingerprint t signers policies with
  | .error e => .error e
  | .ok fp => .ok { s with fps := s.fps.filter (fun x => !(fpEq fp x)) }

/-- `validate_signers_and_policies` -/
def validateSignersAndPolicies (signers : List Signer) (policies : List Nat) : Except Err Unit :=
  if signers.length > MAX_SIGNERS then .error .tooManySigners
  else if policies.length > MAX_POLICIES then .error .tooManyPolicies
  else if signers.isEmpty && policies.isEmpty then .error .noSignersAndPolicies
  else .ok ()

/-- `if let Some(valid_until) = valid_until { if valid_until < sequence { panic } }` -/
def checkValidUntil (now : Nat) (vu : Option Nat) : Except Err Unit :=
  if expired now vu then .error .pastValidUntil else .ok ()

def insertKey (x : Nat) : List Nat → List Nat
  | [] => [x]
  | y :: ys => if x < y then x :: y :: ys else if x = y then y :: ys else y :: insertKey x ys

/-- key list of a `Map<Address, Val>` built from the given entries: sorted, duplicate-free -/
def mapKeys : List Nat → List Nat
  | [] => []
  | x :: xs => insertKey x (mapKeys xs)

/-- remove the LAST occurrence (`iter().rposition(..)` + `remove(pos)`); `none` = not found -/
def eraseLast {α : Type} [DecidableEq α] (x : α) : List α → List α
  | [] => []
  | y :: ys => if x ∈ ys then y :: eraseLast x ys else if y = x then ys else y :: ys

def storeRule (s : Store) (id : Nat) (t : RuleType) (name : Nat) (vu : Option Nat)
    (signers : List Signer) (pv : List Nat) : Store :=
  { s with
    metas := updN s.metas id (some { name := name, ctype := t, validUntil := vu }),
    signers := updN s.signers id (some signers),
    policies := updN s.policies id (some pv),
    ids := updT s.ids t (s.ids t ++ [id]) }

def bumpCounters (s : Store) (id count : Nat) : Except Err Store :=
  if id + 1 > U32_MAX then .error .overflow
  else .ok { s with nextId := id + 1, count := count + 1 }

/-- install hooks in map order; a refusing policy aborts -/
def installAll (installOk : Nat → Bool) (pv : List Nat) : Except Err Unit :=
  if pv.all installOk then .ok () else .error .policyRefused

/-- `add_context_rule`; returns the new store and the created rule -/
def addContextRule (s : Store) (now : Nat) (t : RuleType) (name : Nat) (vu : Option Nat)
    (signers : List Signer) (policyMap : List Nat) (installOk : Nat → Bool) : Except Err (Store × Rule) :=
  if s.count ≥ MAX_CONTEXT_RULES then .error .tooManyContextRules
  else if hasDup signers then .error .duplicateSigner
  else
    match checkValidUntil now vu with
    | .error e => .error e
    | .ok () =>
      match validateSignersAndPolicies signers (mapKeys policyMap) with
      | .error e => .error e
      | .ok () =>
        match validateAndSetFingerprint s t signers (mapKeys policyMap) with
        | .error e => .error e
        | .ok s1 =>
          match installAll installOk (mapKeys policyMap) with
          | .error e => .error e
          | .ok () =>
            match bumpCounters (storeRule s1 s.nextId t name vu signers (mapKeys policyMap)) s.nextId s.count with
            | .error e => .error e
            | .ok s2 =>
              .ok (s2, { id := s.nextId, ctype := t, name := name, signers := signers,
                         policies := mapKeys policyMap, validUntil := vu })

/-- `update_context_rule_name` -/
def updateName (s : Store) (id name : Nat) : Except Err Store :=
  match getContextRule s id with
  | .error e => .error e
  | .ok r =>
    .ok { s with metas := updN s.metas id (some { name := name, ctype := r.ctype, validUntil := r.validUntil }) }

/-- `update_context_rule_valid_until` -/
def updateValidUntil (s : Store) (now id : Nat) (vu : Option Nat) : Except Err Store :=
  match getContextRule s id with
  | .error e => .error e
  | .ok r =>
    match checkValidUntil now vu with
    | .error e => .error e
    | .ok () =>
      .ok { s with metas := updN s.metas id (some { name := r.name, ctype := r.ctype, validUntil := vu }) }

def dropRule (s : Store) (id : Nat) (t : RuleType) : Store :=
  { s with
    metas := updN s.metas id none,
    signers := updN s.signers id none,
    policies := updN s.policies id none,
    ids := updT s.ids t (eraseLast id (s.ids t)) }

def decCount (s : Store) : Except Err Store :=
  if s.count = 0 then .error .overflow else .ok { s with count := s.count - 1 }

/-- `remove_context_rule` (uninstall hooks are `try_` calls: their failure is ignored) -/
def removeContextRule (s : Store) (id : Nat) : Except Err Store :=
  match getContextRule s id with
  | .error e => .error e
  | .ok r =>
    match removeFingerprint s r.ctype r.signers r.policies with
    | .error e => .error e
    | .ok s1 => decCount (dropRule s1 id r.ctype)

def setSigners (s : Store) (id : Nat) (l : List Signer) : Store := { s with signers := updN s.signers id (some l) }
def setPolicies (s : Store) (id : Nat) (l : List Nat) : Store := { s with policies := updN s.policies id (some l) }

/-- validate, set the new fingerprint, remove the old one (shared tail of the four signer / policy ops) -/
def refingerprint (s : Store) (r : Rule) (signers : List Signer) (policies : List Nat) : Except Err Store :=
  match validateSignersAndPolicies signers policies with
  | .error e => .error e
  | .ok () =>
    match validateAndSetFingerprint s r.ctype signers policies with
    | .error e => .error e
    | .ok s1 => removeFingerprint s1 r.ctype r.signers r.policies

def addSignerTo (s : Store) (id : Nat) (r : Rule) (x : Signer) : Except Err Store :=
  if x ∈ r.signers then .error .duplicateSigner
  else
    match refingerprint s r (r.signers ++ [x]) r.policies with
    | .error e => .error e
    | .ok s2 => .ok (setSigners s2 id (r.signers ++ [x]))

/-- `add_signer` -/
def addSigner (s : Store) (id : Nat) (x : Signer) : Except Err Store :=
  match getContextRule s id with
  | .error e => .error e
  | .ok r => addSignerTo s id r x

def removeSignerFrom (s : Store) (id : Nat) (r : Rule) (x : Signer) : Except Err Store :=
  if x ∈ r.signers then
    match refingerprint s r (eraseLast x r.signers) r.policies with
    | .error e => .error e
    | .ok s2 => .ok (setSigners s2 id (eraseLast x r.signers))
  else .error .signerNotFound

/-- `remove_signer` -/
def removeSigner (s : Store) (id : Nat) (x : Signer) : Except Err Store :=
  match getContextRule s id with
  | .error e => .error e
  | .ok r => removeSignerFrom s id r x

def addPolicyTo (s : Store) (id : Nat) (r : Rule) (p : Nat) (installOk : Bool) : Except Err Store :=
  if p ∈ r.policies then .error .duplicatePolicy
  else if !installOk then .error .policyRefused
  else
    match refingerprint s r r.signers (r.policies ++ [p]) with
    | .error e => .error e
    | .ok s2 => .ok (setPolicies s2 id (r.policies ++ [p]))

/-- `add_policy` (the install hook runs before the limits are checked) -/
def addPolicy (s : Store) (id p : Nat) (installOk : Bool) : Except Err Store :=
  match getContextRule s id with
  | .error e => .error e
  | .ok r => addPolicyTo s id r p installOk

def removePolicyFrom (s : Store) (id : Nat) (r : Rule) (p : Nat) : Except Err Store :=
  if p ∈ r.policies then
    match refingerprint s r r.signers (eraseLast p r.policies) with
    | .error e => .error e
    | .ok s2 => .ok (setPolicies s2 id (eraseLast p r.policies))
  else .error .policyNotFound

/-- `remove_policy` -/
def removePolicy (s : Store) (id p : Nat) : Except Err Store :=
  match getContextRule s id with
  | .error e => .error e
  | .ok r => removePolicyFrom s id r p

/-- the rule-management interface of the account -/
inductive Op where
  | add (t : RuleType) (name : Nat) (vu : Option Nat) (signers : List Signer) (policyMap : List Nat)
      (installOk : Nat → Bool)
  | remove (id : Nat)
  | setName (id name : Nat)
  | setValidUntil (id : Nat) (vu : Option Nat)
  | addSigner (id : Nat) (x : Signer)
  | removeSigner (id : Nat) (x : Signer)
  | addPolicy (id p : Nat) (installOk : Bool)
  | removePolicy (id p : Nat)

def applyOp (s : Store) (now : Nat) : Op → Except Err Store
  | .add t name vu signers pm io =>
    match addContextRule s now t name vu signers pm io with
    | .error e => .error e
    | .ok (s', _) => .ok s'
  | .remove id => removeContextRule s id
  | .setName id name => updateName s id name
  | .setValidUntil id vu => updateValidUntil s now id vu
  | .addSigner id x => addSigner s id x
  | .removeSigner id x => removeSigner s id x
  | .addPolicy id p io => addPolicy s id p io
  | .removePolicy id p => removePolicy s id p

/-- a history: operations with the ledger sequence at which each is submitted; a failed
operation is rolled back by the host (the store is unchanged) -/
def run (s : Store) : List (Nat × Op) → Store
  | [] => s
  | (now, op) :: rest =>
    match applyOp s now op with
    | .ok s' => run s' rest
    | .error _ => run s rest

end OZ.SmartAccount
