import OZ.Model.Host
/-
Model of packages/tokens/src/non_fungible/storage.rs (`impl Base`),
extensions/burnable/storage.rs and utils/sequential/storage.rs, line by line.
Import-free apart from the host model.

`Core` is the part of the storage that every flavour (base, enumerable, consecutive) shares
and that the consecutive flavour reaches through `Base::…` helpers: balances, the per-token
approval (temporary entry), the operator approvals (temporary entries), the sequential id
counter and the ledger.
-/
namespace OZ.Nft
open OZ.Host

inductive Err where
  | nonExistentToken | incorrectOwner | insufficientApproval | invalidApprover
  | invalidLiveUntil | mathOverflow | idsDepleted | invalidAmount
  | notFoundInOwnerList | notFoundInGlobalList | auth | hostError | panic | unsupported
  deriving DecidableEq, Repr

/-- `ApprovalData` as stored under `Approval(token_id)` -/
structure ApprovalData where
  approved : Nat
  liveUntilLedger : Nat
  deriving DecidableEq, Repr

structure Core where
  bal : Nat → Nat                                   -- Balance(account), u32
  approval : Nat → Option (Temp ApprovalData)       -- Approval(token_id), temporary
  operator : Nat → Nat → Option (Temp Nat)          -- ApprovalForAll(owner, operator), temporary
  nextId : Nat                                      -- TokenIdCounter (instance)
  now : Nat                                         -- ledger sequence

def Core.init (now : Nat) : Core :=
  { bal := fun _ => 0, approval := fun _ => none, operator := fun _ _ => none, nextId := 0, now := now }

def requireAuth (auth : List Nat) (a : Nat) : Except Err Unit :=
  if a ∈ auth then .ok () else .error .auth

/-- `Base::balance` -/
def balance (c : Core) (a : Nat) : Nat := c.bal a

/-- the explicit expiry comparison of `Base::get_approved` -/
def approvedOf (now : Nat) (d : ApprovalData) : Option Nat :=
  if d.liveUntilLedger < now then none else some d.approved

/-- `Base::get_approved` -/
def getApproved (c : Core) (id : Nat) : Option Nat :=
  (Temp.get? (c.approval id) c.now).bind (approvedOf c.now)

/-- `Base::is_approved_for_all` -/
def isApprovedForAll (c : Core) (owner operator : Nat) : Bool :=
  match Temp.get? (c.operator owner operator) c.now with
  | some lu => decide (lu ≥ c.now)
  | none => false

/-- `Base::increase_balance` (`checked_add` on u32) -/
def increaseBalance (c : Core) (to amount : Nat) : Except Err Core :=
  if c.bal to + amount > U32_MAX then .error .mathOverflow
  else .ok { c with bal := upd c.bal to (c.bal to + amount) }

/-- `Base::decrease_balance` (`checked_sub` on u32) -/
def decreaseBalance (c : Core) (frm amount : Nat) : Except Err Core :=
  if c.bal frm < amount then .error .mathOverflow
  else .ok { c with bal := upd c.bal frm (c.bal frm - amount) }

/-- `e.storage().temporary().remove(&Approval(token_id))` -/
def clearApproval (c : Core) (id : Nat) : Core := { c with approval := upd c.approval id none }

/-- `temporary().set(key, data)` followed by `extend_ttl(key, live_for, live_for)` -/
def storeApproval (cfg : Cfg) (c : Core) (id : Nat) (d : ApprovalData) : Except Err Core :=
  match Temp.extend cfg (Temp.set cfg (c.approval id) c.now d) c.now
      (d.liveUntilLedger - c.now) (d.liveUntilLedger - c.now) with
  | none => .error .hostError
  | some e => .ok { c with approval := upd c.approval id (some e) }

def storeOperator (cfg : Cfg) (c : Core) (owner operator lu : Nat) : Except Err Core :=
  match Temp.extend cfg (Temp.set cfg (c.operator owner operator) c.now lu) c.now
      (lu - c.now) (lu - c.now) with
  | none => .error .hostError
  | some e => .ok { c with operator := upd2 c.operator owner operator (some e) }

/-- `Base::approve_for_all` -/
def approveForAll (cfg : Cfg) (c : Core) (auth : List Nat) (owner operator lu : Nat) :
    Except Err Core := do
  requireAuth auth owner
  if lu = 0 then pure { c with operator := upd2 c.operator owner operator none }
  else if lu < c.now then .error .invalidLiveUntil
  else storeOperator cfg c owner operator lu

/-- `Base::approve_for_owner` -/
def approveForOwner (cfg : Cfg) (c : Core) (owner approver approved id lu : Nat) : Except Err Core :=
  if approver ≠ owner ∧ isApprovedForAll c owner approver = false then .error .invalidApprover
  else if lu = 0 then .ok (clearApproval c id)
  else if lu < c.now then .error .invalidLiveUntil
  else storeApproval cfg c id ⟨approved, lu⟩

/-- `Base::check_spender_approval` -/
def checkSpenderApproval (c : Core) (spender owner id : Nat) : Except Err Unit :=
  if spender ≠ owner ∧ getApproved c id ≠ some spender ∧ isApprovedForAll c owner spender = false
  then .error .insufficientApproval else .ok ()

/-- `sequential::increment_token_id`: returns the id before the increment -/
def incrementTokenId (c : Core) (amount : Nat) : Except Err (Core × Nat) :=
  if c.nextId + amount > U32_MAX then .error .idsDepleted
  else .ok ({ c with nextId := c.nextId + amount }, c.nextId)

/-! ### the base flavour -/

structure State extends Core where
  owner : Nat → Option Nat                          -- Owner(token_id), persistent

def init (now : Nat) : State := { Core.init now with owner := fun _ => none }

/-- `Base::owner_of` -/
def ownerOf (s : State) (id : Nat) : Except Err Nat :=
  match s.owner id with
  | some a => .ok a
  | none => .error .nonExistentToken

/-- `Base::token_uri` succeeds iff `owner_of` does (metadata is set by the constructor) -/
def tokenUriExists (s : State) (id : Nat) : Bool := (s.owner id).isSome

def checkOwner (owner frm : Nat) : Except Err Unit :=
  if owner ≠ frm then .error .incorrectOwner else .ok ()

/-- first half of `Base::update` (the `from` branch) -/
def debit (s : State) (frm : Option Nat) (id : Nat) : Except Err State :=
  match frm with
  | some f => do
    let o ← ownerOf s id
    checkOwner o f
    let c ← decreaseBalance s.toCore f 1
    pure { s with toCore := clearApproval c id }
  | none => .ok s

/-- second half of `Base::update` (the `to` branch) -/
def credit (s : State) (to : Option Nat) (id : Nat) : Except Err State :=
  match to with
  | some t => do
    let c ← increaseBalance s.toCore t 1
    pure { toCore := c, owner := upd s.owner id (some t) }
  | none => .ok { s with owner := upd s.owner id none }

/-- `Base::update` -/
def update (s : State) (frm to : Option Nat) (id : Nat) : Except Err State := do
  let s1 ← debit s frm id
  credit s1 to id

/-- `Base::transfer` -/
def transfer (s : State) (auth : List Nat) (frm to id : Nat) : Except Err State := do
  requireAuth auth frm
  update s (some frm) (some to) id

/-- `Base::transfer_from` -/
def transferFrom (s : State) (auth : List Nat) (spender frm to id : Nat) : Except Err State := do
  requireAuth auth spender
  checkSpenderApproval s.toCore spender frm id
  update s (some frm) (some to) id

/-- `Base::approve` -/
def approve (cfg : Cfg) (s : State) (auth : List Nat) (approver approved id lu : Nat) :
    Except Err State := do
  requireAuth auth approver
  let owner ← ownerOf s id
  let c ← approveForOwner cfg s.toCore owner approver approved id lu
  pure { s with toCore := c }

/-- `Base::burn` -/
def burn (s : State) (auth : List Nat) (frm id : Nat) : Except Err State := do
  requireAuth auth frm
  update s (some frm) none id

/-- `Base::burn_from` -/
def burnFrom (s : State) (auth : List Nat) (spender frm id : Nat) : Except Err State := do
  requireAuth auth spender
  checkSpenderApproval s.toCore spender frm id
  update s (some frm) none id

/-- `Base::sequential_mint` (no authorization of its own: callers guard it) -/
def sequentialMint (s : State) (to : Nat) : Except Err (State × Nat) := do
  let (c, id) ← incrementTokenId s.toCore 1
  let s ← update { s with toCore := c } none (some to) id
  pure (s, id)

/-- `Base::mint` with an explicit id (does NOT check that the id is unused) -/
def mint (s : State) (to id : Nat) : Except Err State := update s none (some to) id

/-! ### operations shared by all flavours -/

inductive Op where
  | mintSeq (to : Nat)                       -- sequential_mint
  | mint (to id : Nat)                       -- explicit-id mint (base flavour, harness contract)
  | batchMint (to amount : Nat)              -- consecutive flavour
  | transfer (frm to id : Nat)
  | transferFrom (spender frm to id : Nat)
  | approve (approver approved id lu : Nat)
  | approveForAll (owner operator lu : Nat)
  | burn (frm id : Nat)
  | burnFrom (spender frm id : Nat)
  | advance (n : Nat)
  deriving Repr, DecidableEq

/-- who must authorize an operation for it to get past `require_auth` (mints are guarded by
the example contracts' admin, outside the library) -/
def Op.required : Op → List Nat
  | .transfer f _ _ => [f]
  | .transferFrom sp _ _ _ => [sp]
  | .approve ap _ _ _ => [ap]
  | .approveForAll o _ _ => [o]
  | .burn f _ => [f]
  | .burnFrom sp _ _ => [sp]
  | _ => []

/-- the token a transfer / burn / approve names -/
def Op.token : Op → Option Nat
  | .mint _ id => some id
  | .transfer _ _ id => some id
  | .transferFrom _ _ _ id => some id
  | .approve _ _ id _ => some id
  | .burn _ id => some id
  | .burnFrom _ _ id => some id
  | _ => none

def Core.advance (c : Core) (n : Nat) : Core := { c with now := c.now + n }

/-- one invocation on the base flavour; the second component is the returned token id -/
def apply (cfg : Cfg) (s : State) (auth : List Nat) : Op → Except Err (State × Option Nat)
  | .mintSeq to => do let (s, id) ← sequentialMint s to; pure (s, some id)
  | .mint to id => do let s ← mint s to id; pure (s, none)
  | .batchMint _ _ => .error .unsupported
  | .transfer f t id => do let s ← transfer s auth f t id; pure (s, none)
  | .transferFrom sp f t id => do let s ← transferFrom s auth sp f t id; pure (s, none)
  | .approve ap a id lu => do let s ← approve cfg s auth ap a id lu; pure (s, none)
  | .approveForAll o p lu => do
    let c ← approveForAll cfg s.toCore auth o p lu; pure ({ s with toCore := c }, none)
  | .burn f id => do let s ← burn s auth f id; pure (s, none)
  | .burnFrom sp f id => do let s ← burnFrom s auth sp f id; pure (s, none)
  | .advance n => .ok ({ s with toCore := s.toCore.advance n }, none)

/-- a failed invocation is rolled back by the host -/
def step (cfg : Cfg) (s : State) (x : List Nat × Op) : State :=
  match apply cfg s x.1 x.2 with
  | .ok (s', _) => s'
  | .error _ => s

def run (cfg : Cfg) (s : State) (ops : List (List Nat × Op)) : State := ops.foldl (step cfg) s

end OZ.Nft
