import OZ.Model.MulDiv
/-
The operation lines of the C12 trace as parsed values, and the model's answer to one of them.

  md128 v=<plain|checked> r=<floor|ceil|trunc> x=.. y=.. d=..      `Op.md128 checked rd x y d`
  md256 v=<plain|checked> r=<..> x=.. y=.. d=..                    `Op.md256 checked rd x y d`
  wad f=<mul|div|ratio|fromint|mulint|divint|add|sub|cpow|pow> a=.. b=..   `Op.wad f a b`

`run` is what the driver's model side (`OZ/Drv/C12.lean`, `evalOp`) prints for an op line. The
monitor (`OZ/Model/MulDivMon.lean`) uses `Op` but never `run`. Import-free apart from the model.
-/
namespace OZ.MulDiv

inductive WadFn where
  | mul | div | ratio | fromint | mulint | divint | add | sub | cpow | pow
  deriving DecidableEq, Repr

inductive Op where
  /-- `mul_div_i128` (`checked = false`) / `checked_mul_div_i128` (`checked = true`) -/
  | md128 (checked : Bool) (rd : Rounding) (x y d : Int)
  /-- `mul_div_i256` / `checked_mul_div_i256` -/
  | md256 (checked : Bool) (rd : Rounding) (x y d : Int)
  /-- a `Wad` operation on the raw values `a`, `b` (`b` is the u32 exponent for `cpow` / `pow`,
  ignored by `fromint`) -/
  | wad (f : WadFn) (a b : Int)
  deriving DecidableEq, Repr

/-- the model's answer to a `wad` line -/
def runWad (f : WadFn) (a b : Int) : Res :=
  match f with
  | .mul => wadCheckedMul a b
  | .div => wadCheckedDiv a b
  | .ratio => wadFromRatio a b
  | .fromint => wadFromInteger a
  | .mulint => wadCheckedMulInt a b
  | .divint => wadCheckedDivInt a b
  | .add => wadCheckedAdd a b
  | .sub => wadCheckedSub a b
  | .cpow => wadCheckedPow a b.toNat
  | .pow => wadPow a b.toNat

/-- the model's answer to an op line -/
def run (op : Op) : Res :=
  match op with
  | .md128 false rd x y d => mulDiv128 rd x y d
  | .md128 true rd x y d => checkedMulDiv128 rd x y d
  | .md256 false rd x y d => mulDiv256 rd x y d
  | .md256 true rd x y d => checkedMulDiv256 rd x y d
  | .wad f a b => runWad f a b

/-- an op line denotes a call of the real function: every operand the Rust signature types as
`i128` lies in the i128 range. Nothing is required of I256 operands nor of the exponent. -/
def Op.valid : Op → Prop
  | .md128 _ _ x y d => in128 x ∧ in128 y ∧ in128 d
  | .md256 _ _ _ _ _ => True
  | .wad _ a b => in128 a ∧ in128 b

instance (op : Op) : Decidable op.valid := by
  cases op <;> unfold Op.valid <;> infer_instance

end OZ.MulDiv
