import OZ.Model.RegDocs
import OZ.Model.RegMonUtil
/-
The `docs` MONITOR of C20 on parsed values (the sub-driver OZ/Drv/C20Docs.lean parses the trace
lines and calls `checkCore`; it never calls a model transition function). The ghost is the plain map
name -> document built from the accepted operations. Kept apart from the driver so that
OZ/Props/C20eMon.lean can prove it SOUND (`monitor_accepts_every_model_trace`).
Import-free apart from the model.
-/
namespace OZ.RegDocs.Mon
open OZ.Reg OZ.RegMon OZ.RegDocs

inductive Cmd where
  | one (op : Op)
  | fill (a b uri hash ts : Nat)
  /-- quick tier's state injection: the state `set_document` leaves for the names 0..n-1 -/
  | preload (n uri hash ts : Nat)

def cmdOps : Cmd → List Op
  | .one op => [op]
  | .fill a b u h ts => (List.range (b - a)).map (fun i => .set (a + i) u h ts)
  | .preload n u h ts => (List.range n).map (fun i => .set i u h ts)

def cmdNames : Cmd → List Nat
  | .one (.set n _ _ _) => [n]
  | .one (.remove n) => [n]
  | .fill a b _ _ _ => [a, b - 1]
  | .preload .. => []

def dedupKeep (l : List Nat) : List Nat := l.foldl (fun acc x => if acc.contains x then acc else acc ++ [x]) []

def probes (u : Nat) (c : Cmd) (n : Nat) : List Nat × List Nat :=
  if u > 0 then (List.range u, List.range (u + 1))
  else (dedupKeep (cmdNames c ++ [0, 1, 49, 50, 51, 4999, 5000]),
        dedupKeep [0, 49, 50, 51, 99, 100, n - 2, n - 1, n])

def nBuckets (n : Nat) : Nat := if n = 0 then 0 else (n - 1) / BUCKET_SIZE + 1

/-- the observation line
`ok|err n= list=<name:doc,..|#digest> sum= sq= g=<name:doc|x,..> at=<i:name|x,..> bk=<lengths>` -/
structure Obs where
  ok : Bool
  /-- `get_document_count` -/
  n : Nat
  sum : Nat
  sq : Nat
  /-- all entries in index order when they are printed in full (at most 16) -/
  full : Option (List (Nat × Option Doc))
  /-- `get_document` over the probe names -/
  gp : List (Nat × Option Doc)
  /-- `get_document_by_index` (its name) over the probe indices -/
  atL : List (Nat × Option Nat)
  /-- lengths of the buckets 0..nBuckets n -/
  bk : List Nat

structure Mon where
  map : List (Nat × Doc)
  u : Nat

def lookup (g : Mon) (n : Nat) : Option Doc := (g.map.find? (fun e => e.1 == n)).map (·.2)

/-- the plain map with its documented limits -/
def plainOne (g : Mon) (op : Op) : Except String Mon :=
  match op with
  | .set n u h ts =>
    if u > 200 then .error "limit.set_document.uri"
    else if (lookup g n).isSome then .ok { g with map := g.map.map (fun e => if e.1 == n then (n, ⟨u, h, ts⟩) else e) }
    else if g.map.length ≥ 5000 then .error "limit.set_document.documents"
    else .ok { g with map := g.map ++ [(n, ⟨u, h, ts⟩)] }
  | .remove n => if (lookup g n).isSome then .ok { g with map := g.map.filter (fun e => e.1 ≠ n) } else .error "absent"

/-- one op of a command: the accepted ones are committed one by one; the accumulator is
(plain map, all accepted so far, reason of the first refusal, the capacity was reached exactly) -/
def foldStep (acc : Mon × Bool × String × Bool) (op : Op) : Mon × Bool × String × Bool :=
  match plainOne acc.1 op with
  | .ok g' => (g', acc.2.1, acc.2.2.1, acc.2.2.2 || (acc.1.map.length = 4999 ∧ g'.map.length = 5000))
  | .error why => (acc.1, false, (if acc.2.1 then why else acc.2.2.1), acc.2.2.2)

def foldPlain (g : Mon) (c : Cmd) : Mon × Bool × String × Bool := (cmdOps c).foldl foldStep (g, true, "", false)

def uriEdge (c : Cmd) : Bool := (cmdOps c).any (fun o => match o with | .set _ u _ _ => u = 200 | _ => false)

/-- the accept / refuse decision of the implementation against the plain map's -/
def acceptFail (ok : Bool) (c : Cmd) (r : Mon × Bool × String × Bool) : Option String :=
  if ok = r.2.1 then none
  else if ok then some (acceptedSite "docs" r.2.2.1)
  else some (refusedSite "docs" (if r.2.2.2 then "limit.set_document.documents"
                                else if uriEdge c then "limit.set_document.uri" else "valid"))

def names (g : Mon) : List Nat := g.map.map (·.1)

def fullOk (g : Mon) (l : List (Nat × Option Doc)) : Bool :=
  nodupB (l.map (·.1)) ∧ sameSet (l.map (·.1)) (names g) ∧ l.all (fun e => e.2 == lookup g e.1)

def gpOk (g : Mon) (p : Nat × Option Doc) : Bool := p.2 == lookup g p.1

def atOk (g : Mon) (n : Nat) (p : Nat × Option Nat) : Bool :=
  (p.2.isSome == decide (p.1 < n)) && (match p.2 with | some nm => (lookup g nm).isSome | none => true)

def bkWant (n : Nat) : List Nat := (List.range (nBuckets n + 1)).map (fun b => min 50 (n - 50 * b))

/-- every getter of the observation against the plain map -/
def getters (g : Mon) (o : Obs) : List (Option String) :=
  [chk (o.n = g.map.length) s!"site=docs.count get_document_count = {o.n} but the plain map has {g.map.length} entries",
   chk (o.sum = sum1 (names g) ∧ o.sq = sumSq (names g)) "site=docs.enumerates_once the buckets do not enumerate the plain map's names once each (sums differ)",
   (match o.full with
     | some l => chk (fullOk g l) s!"site=docs.enumerates_once the enumeration by index differs from the plain map"
     | none => none),
   chk (o.gp.all (gpOk g)) "site=docs.map get_document differs from the plain map",
   chk (o.atL.all (atOk g o.n))
     "site=docs.index get_document_by_index succeeds exactly below the count, and yields a stored name",
   chk (o.bk = bkWant o.n) s!"site=docs.buckets bucket lengths {o.bk} are not {bkWant o.n}"]

/-- the monitor's step on parsed values: the accept / refuse decision against the plain map (a
`fill` commits the accepted ops one by one), then every getter of the observation against the new
plain map -/
def checkCore (g : Mon) (c : Cmd) (o : Obs) : Mon × Option String :=
  ((foldPlain g c).1, firstFail (acceptFail o.ok c (foldPlain g c) :: getters (foldPlain g c).1 o))

end OZ.RegDocs.Mon
