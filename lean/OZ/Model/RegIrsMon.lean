import OZ.Model.RegIrs
import OZ.Model.RegMonUtil
/-
The `irs` MONITOR of C20 on parsed values (the sub-driver OZ/Drv/C20Irs.lean parses the trace lines
and calls `checkCore`; it never calls a model transition function). The ghost is the plain map
account -> (identity, type, countries) and the plain list old -> new of recoveries, built from the
accepted operations. Kept apart from the driver so that OZ/Props/C20fMon.lean can prove it SOUND
(`monitor_accepts_every_model_trace`). Import-free apart from the model.
-/
namespace OZ.RegIrs.Mon
open OZ.RegMon OZ.RegIrs

/-- a country data entry prints as `code/m/len` -/
def showCD (c : CD) : String := s!"{c.code}/{c.metaN}/{c.metaLen}"
def showCDs (l : List CD) : String := sepBy "+" (l.map showCD)

/-- the observation line `ok|err ID=<a:id|x,..> PR=<a:ty:cds|a:x,..> CE=<a:cds,..> RT=<a:new|x,..> CD=<a:cd+..+x,..>`.
The words are kept as printed: the monitor only compares them with a printed expectation (or quotes
them in a message). -/
structure Obs where
  ok : Bool
  /-- the word after `ID=`: `stored_identity` over accounts 0..na-1 -/
  ID : String
  /-- the word after `PR=`: `get_identity_profile` -/
  PR : String
  /-- the word after `CE=`: `get_country_data_entries` -/
  CE : String
  /-- the word after `RT=`: `get_recovered_to` -/
  RT : String
  /-- the word after `CD=`: `get_country_data` by index 0..len (the last one fails: `x`) -/
  CD : String
  /-- the entries of `RT=` split at `,` and `:` -/
  RTe : List (List String)
  /-- the entries of `ID=` split at `,` and `:` -/
  IDe : List (List String)

structure Rec where
  acct : Nat
  ident : Nat
  ty : Nat
  cs : List CD
  deriving BEq

structure Mon where
  recs : List Rec
  recovered : List (Nat × Nat)
  na : Nat

def find (g : Mon) (a : Nat) : Option Rec := g.recs.find? (fun r => r.acct == a)
def put (g : Mon) (r : Rec) : Mon := { g with recs := g.recs.filter (fun x => x.acct ≠ r.acct) ++ [r] }
def del (g : Mon) (a : Nat) : Mon := { g with recs := g.recs.filter (fun x => x.acct ≠ a) }
def okCD (c : CD) : Bool := c.metaN ≤ 10 ∧ (c.metaN = 0 ∨ c.metaLen ≤ 100)
/-- an entry sitting exactly on a metadata limit -/
def edgeCD (c : CD) : Bool := c.metaN = 10 ∨ (c.metaN > 0 ∧ c.metaLen = 100)

/-- the plain maps with their documented limits -/
def plain (g : Mon) (op : Op) : Except String Mon :=
  match op with
  | .add a i ty cs =>
    if (g.recovered.find? (fun p => p.1 == a)).isSome then .error "recovered_registered_again"
    else if cs = [] then .error "empty" else if cs.length > 15 then .error "limit.add_identity.countries"
    else if !cs.all okCD then .error "limit.add_identity.metadata"
    else if (find g a).isSome then .error "dup"
    else .ok (put g ⟨a, i, ty, cs⟩)
  | .modify a i => match find g a with
    | some r => .ok (put g { r with ident := i })
    | none => .error "absent"
  | .remove a => if (find g a).isSome then .ok (del g a) else .error "absent"
  | .recover o n =>
    if (g.recovered.find? (fun p => p.1 == n)).isSome then .error "recovered_registered_again"
    else match find g o with
      | none => .error "absent"
      | some r =>
        if (find g n).isSome then .error "dup"
        else .ok { (put (del g o) { r with acct := n }) with recovered := g.recovered ++ [(o, n)] }
  | .addCountries a cs =>
    if cs = [] then .error "empty" else if !cs.all okCD then .error "limit.add_country_data_entries.metadata"
    else match find g a with
      | none => .error "absent"
      | some r => if (r.cs ++ cs).length > 15 then .error "limit.add_country_data_entries.countries" else .ok (put g { r with cs := r.cs ++ cs })
  | .modifyCountry a i c =>
    if !okCD c then .error "limit.modify_country_data.metadata"
    else match find g a with
      | none => .error "absent"
      | some r => if i ≥ r.cs.length then .error "absent" else .ok (put g { r with cs := r.cs.set i c })
  | .deleteCountry a i => match find g a with
    | none => .error "absent"
    | some r => if r.cs.length = 1 then .error "empty" else if i ≥ r.cs.length then .error "absent"
                else .ok (put g { r with cs := r.cs.eraseIdx i })

/-- the site of a refusal of an operation the plain maps accept -/
def near (g : Mon) (op : Op) : String :=
  match op with
  | .add _ _ _ cs => if cs.length = 15 then "limit.add_identity.countries"
                      else if cs.any edgeCD then "limit.add_identity.metadata" else "valid"
  | .addCountries a cs => (match find g a with
      | some r => if (r.cs ++ cs).length = 15 then "limit.add_country_data_entries.countries"
                  else if cs.any edgeCD then "limit.add_country_data_entries.metadata" else "valid"
      | none => "valid")
  | .modifyCountry _ _ c => if edgeCD c then "limit.modify_country_data.metadata" else "valid"
  | _ => "valid"

/-! the printed expectations of the getters over accounts 0..na-1 -/

def idWant (g : Mon) : List String :=
  (List.range g.na).map (fun a => s!"{a}:{showOpt ((find g a).map (·.ident))}")

def prWant (g : Mon) : List String :=
  (List.range g.na).map (fun a => match find g a with
    | some r => s!"{a}:{r.ty}:{showCDs r.cs}"
    | none => s!"{a}:x")

def ceWant (g : Mon) : List String :=
  (List.range g.na).map (fun a => s!"{a}:{showCDs (((find g a).map (·.cs)).getD [])}")

def rtWant (g : Mon) : List String :=
  (List.range g.na).map (fun a => s!"{a}:{showOpt ((g.recovered.find? (fun p => p.1 == a)).map (·.2))}")

def cdWant (g : Mon) : List String :=
  (List.range g.na).map (fun a => s!"{a}:{sepBy "+" ((((find g a).map (·.cs)).getD []).map showCD ++ ["x"])}")

/-- every account the implementation reports as recovered is reported without identity -/
def recoveredOk (rte ide : List (List String)) : Bool :=
  rte.all (fun e => match e with
    | [a, v] => v = "x" ∨ ide.contains [a, "x"]
    | _ => false)

/-- the monitor's step on parsed values: the accept / refuse decision against the plain maps, then
every getter of the observation against the new plain maps -/
def checkCore (g : Mon) (op : Op) (o : Obs) : Mon × Option String :=
  ((decide2 "irs" g (plain g op) o.ok (near g op)).1,
   firstFail [(decide2 "irs" g (plain g op) o.ok (near g op)).2,
     chk (o.ID = sepBy "," (idWant (decide2 "irs" g (plain g op) o.ok (near g op)).1))
       s!"site=irs.map stored_identity = {o.ID} but the plain map gives {sepBy "," (idWant (decide2 "irs" g (plain g op) o.ok (near g op)).1)}",
     chk (o.PR = sepBy "," (prWant (decide2 "irs" g (plain g op) o.ok (near g op)).1))
       s!"site=irs.map get_identity_profile = {o.PR} but the plain map gives {sepBy "," (prWant (decide2 "irs" g (plain g op) o.ok (near g op)).1)}",
     chk (o.CE = sepBy "," (ceWant (decide2 "irs" g (plain g op) o.ok (near g op)).1))
       s!"site=irs.map get_country_data_entries differs from the plain map",
     chk (o.RT = sepBy "," (rtWant (decide2 "irs" g (plain g op) o.ok (near g op)).1))
       s!"site=irs.recovered get_recovered_to = {o.RT} but the plain map gives {sepBy "," (rtWant (decide2 "irs" g (plain g op) o.ok (near g op)).1)}",
     chk (o.CD = sepBy "," (cdWant (decide2 "irs" g (plain g op) o.ok (near g op)).1))
       s!"site=irs.enumerates_once get_country_data by index differs from the plain list",
     chk (recoveredOk o.RTe o.IDe) "site=irs.recovered_registered_again a recovered account holds an identity"])

end OZ.RegIrs.Mon
