import OZ.Model.Votes
/-
Monitor for the vote-tracking LIBRARY driven directly (harness/src/bin/c13raw.rs: `transfer_voting_units` with
`u128` amounts over the whole range, `delegate`). It never calls the model: on every observation of the
implementation it evaluates, on the observed values alone,
  * `site=votes.raw.supply`     get_total_supply() = Σ voting units of all accounts;
  * `site=votes.raw.delegated`  get_votes(a) = Σ voting units of the accounts whose delegate is a;
  * `site=votes.raw.rollback`   a refused call changed nothing.
OZ/Props/C13RawMon.lean proves that it reports nothing on the observations of the model. Import-free apart from
the model.
-/
namespace OZ.Votes.RawMon
open OZ.Votes

def N : Nat := 5

structure Obs where
  ok : Bool
  units : List Nat
  del : List (Option Nat)
  votes : List Nat
  total : Nat
  now : Nat
  deriving DecidableEq, Repr

def uf (o : Obs) (i : Nat) : Nat := (o.units[i]?).getD 0
def df (o : Obs) (i : Nat) : Option Nat := (o.del[i]?).join
def vf (o : Obs) (i : Nat) : Nat := (o.votes[i]?).getD 0

/-- Σ of the observed units of the accounts observed to delegate to `a` -/
def delegatedObs (o : Obs) (a : Nat) : Nat := sumN (List.range N) (fun d => if df o d = some a then uf o d else 0)

def same (o p : Obs) : Bool :=
  decide (o.units = p.units) && decide (o.del = p.del) && decide (o.votes = p.votes) && decide (o.total = p.total)

def checkCore (prev : Option Obs) (o : Obs) : Option String :=
  if o.total ≠ sumN (List.range N) (uf o) then
    some s!"site=votes.raw.supply get_total_supply()={o.total} but the voting units {o.units} sum to {sumN (List.range N) (uf o)}"
  else
    match (List.range N).find? (fun a => decide (vf o a ≠ delegatedObs o a)) with
    | some a => some s!"site=votes.raw.delegated get_votes({a})={vf o a} but the units delegated to {a} sum to {delegatedObs o a}"
    | none =>
      match prev with
      | some p =>
        if o.ok = false ∧ same o p = false then some "site=votes.raw.rollback a refused call changed units, delegates, votes or the supply"
        else none
      | none => none

/-- the observation the model driver prints for state `s` -/
def modelObs (s : State) (ok : Bool) : Obs :=
  { ok := ok, units := (List.range N).map s.units, del := (List.range N).map s.delegatee,
    votes := (List.range N).map (votesOf s), total := latestVotes s.total, now := s.now }

end OZ.Votes.RawMon
