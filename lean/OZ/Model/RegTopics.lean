import OZ.Model.RegUtil
/-
Model of packages/tokens/src/rwa/claim_topics_and_issuers/storage.rs, line by line.

Storage: `ClaimTopics -> Vec<u32>`, `TrustedIssuers -> Vec<Address>` (both read with a default
of the empty vector), `IssuerClaimTopics(issuer) -> Vec<u32>` and
`ClaimTopicIssuers(topic) -> Vec<Address>` (whose absence is an error for the getters, so they
are `Option`).

The three loops that rewrite one entry per element of a duplicate-free vector
(`for issuer in trusted_issuers`, `for topic in claim_topics`, ...) are written pointwise:
iteration `x` only touches the entry keyed by `x`.
-/
namespace OZ.RegTopics
open OZ.Reg

def MAX_CLAIM_TOPICS : Nat := 15
def MAX_ISSUERS : Nat := 50

structure State where
  topics : List Nat
  issuers : List Nat
  issuerTopics : Nat → Option (List Nat)
  topicIssuers : Nat → Option (List Nat)

def init : State := { topics := [], issuers := [], issuerTopics := fun _ => none, topicIssuers := fun _ => none }

/-! ### getters -/

def getClaimTopics (s : State) : List Nat := s.topics
def getTrustedIssuers (s : State) : List Nat := s.issuers
/-- `none` = `ClaimTopicDoesNotExist` -/
def getClaimTopicIssuers (s : State) (t : Nat) : Option (List Nat) := s.topicIssuers t
/-- `none` = `IssuerDoesNotExist` -/
def getTrustedIssuerClaimTopics (s : State) (i : Nat) : Option (List Nat) := s.issuerTopics i
def isTrustedIssuer (s : State) (i : Nat) : Bool := s.issuers.contains i
/-- `has_claim_topic` (`none` = the error of `get_trusted_issuer_claim_topics`) -/
def hasClaimTopic (s : State) (i t : Nat) : Option Bool := (s.issuerTopics i).map (·.contains t)
/-- `get_claim_topics_and_issuers`: `none` if some listed topic has no issuers entry; the
`Map` is ordered by topic, which is the printer's business -/
def getClaimTopicsAndIssuers (s : State) : Option (List (Nat × List Nat)) :=
  s.topics.mapM (fun t => (s.topicIssuers t).map (fun l => (t, l)))

/-! ### add / remove claim topic -/

def addClaimTopic (s : State) (t : Nat) : Except RErr State :=
  if s.topics.length ≥ MAX_CLAIM_TOPICS then .error .limit
  else if s.topics.contains t then .error .dup
  else .ok { s with topics := s.topics ++ [t], topicIssuers := updD s.topicIssuers t (some []) }

/-- the loop over all trusted issuers in `remove_claim_topic` -/
def dropTopicFromIssuers (s : State) (t : Nat) : Nat → Option (List Nat) :=
  fun i => if i ∈ s.issuers then (s.issuerTopics i).map (·.erase t) else s.issuerTopics i

def removeClaimTopic (s : State) (t : Nat) : Except RErr State :=
  if !s.topics.contains t then .error .absent
  else .ok { s with topics := s.topics.erase t,
                    issuerTopics := dropTopicFromIssuers s t,
                    topicIssuers := updD s.topicIssuers t none }

/-! ### trusted issuers -/

/-- the input validation shared by `add_trusted_issuer` and `update_issuer_claim_topics` -/
def validateTopics (s : State) (ts : List Nat) : Except RErr Unit :=
  if ts = [] then .error .empty
  else if ts.length > MAX_CLAIM_TOPICS then .error .limit
  else if ¬ ts.Nodup then .error .dup
  else if !ts.all (fun t => s.topics.contains t) then .error .absent
  else .ok ()

/-- `for topic in ts { topic_issuers = get_claim_topic_issuers(topic); push_back(issuer) }` -/
def pushIssuer (ti : Nat → Option (List Nat)) (ts : List Nat) (i : Nat) : Nat → Option (List Nat) :=
  fun t => if t ∈ ts then (ti t).map (· ++ [i]) else ti t

/-- `for topic in ts { topic_issuers = get_claim_topic_issuers(topic); remove issuer if present }` -/
def dropIssuer (ti : Nat → Option (List Nat)) (ts : List Nat) (i : Nat) : Nat → Option (List Nat) :=
  fun t => if t ∈ ts then (ti t).map (·.erase i) else ti t

/-- every `get_claim_topic_issuers(topic)` of such a loop succeeds -/
def allPresent (ti : Nat → Option (List Nat)) (ts : List Nat) : Bool := ts.all (fun t => (ti t).isSome)

def addTrustedIssuer (s : State) (i : Nat) (ts : List Nat) : Except RErr State :=
  (validateTopics s ts).bind fun _ =>
  if s.issuers.length ≥ MAX_ISSUERS then .error .limit
  else if s.issuers.contains i then .error .dup
  else if !allPresent s.topicIssuers ts then .error .absent
  else .ok { s with issuers := s.issuers ++ [i],
                    issuerTopics := updD s.issuerTopics i (some ts),
                    topicIssuers := pushIssuer s.topicIssuers ts i }

/-- body of `remove_trusted_issuer` once the issuer's topics are known -/
def removeTrustedIssuerWith (s : State) (i : Nat) (its : List Nat) : Except RErr State :=
  if !allPresent s.topicIssuers its then .error .absent
  else .ok { s with issuers := s.issuers.erase i,
                    issuerTopics := updD s.issuerTopics i none,
                    topicIssuers := dropIssuer s.topicIssuers its i }

def removeTrustedIssuer (s : State) (i : Nat) : Except RErr State :=
  if !s.issuers.contains i then .error .absent
  else (ofOpt .absent (s.issuerTopics i)).bind (removeTrustedIssuerWith s i)

/-- body of `update_issuer_claim_topics` once the old topics are known -/
def updateWith (s : State) (i : Nat) (ts old : List Nat) : Except RErr State :=
  if !allPresent s.topicIssuers (old.filter (fun t => !ts.contains t)) then .error .absent
  else if !allPresent s.topicIssuers (ts.filter (fun t => !old.contains t)) then .error .absent
  else .ok { s with issuerTopics := updD s.issuerTopics i (some ts),
                    topicIssuers :=
                      pushIssuer (dropIssuer s.topicIssuers (old.filter (fun t => !ts.contains t)) i)
                        (ts.filter (fun t => !old.contains t)) i }

def updateIssuerClaimTopics (s : State) (i : Nat) (ts : List Nat) : Except RErr State :=
  (validateTopics s ts).bind fun _ =>
  if !isTrustedIssuer s i then .error .absent
  else (ofOpt .absent (s.issuerTopics i)).bind (updateWith s i ts)

/-! ### operation histories -/

inductive Op where
  | addTopic (t : Nat)
  | removeTopic (t : Nat)
  | addIssuer (i : Nat) (ts : List Nat)
  | removeIssuer (i : Nat)
  | update (i : Nat) (ts : List Nat)
  deriving DecidableEq, Repr

def step (s : State) : Op → Except RErr State
  | .addTopic t => addClaimTopic s t
  | .removeTopic t => removeClaimTopic s t
  | .addIssuer i ts => addTrustedIssuer s i ts
  | .removeIssuer i => removeTrustedIssuer s i
  | .update i ts => updateIssuerClaimTopics s i ts

def next (s : State) (o : Op) : State :=
  match step s o with
  | .ok s' => s'
  | .error _ => s

def run (s : State) (ops : List Op) : State := ops.foldl next s

/-! ### the plain relation: issuer `i` may emit topic `t` -/

def rel (s : State) (i t : Nat) : Prop := ∃ l, s.issuerTopics i = some l ∧ t ∈ l

end OZ.RegTopics
