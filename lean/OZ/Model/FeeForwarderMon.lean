import OZ.Model.FeeForwarder
/-
The C19 MONITOR on parsed values, and the model side of the C19 driver on parsed values.

The driver OZ/Drv/C19.lean parses the trace lines (`parseIn`, `parseObs`) and calls `mstep` (the
model: which of the three contracts, which entry point, with which authorization) and `checkCore`
(the monitor; it never calls the model's transition function). Both live here, apart from the
driver, so that OZ/Props/C19Mon.lean can prove the monitor SOUND: fed with the observations of the
model itself the monitor never reports a failure (`monitor_accepts_every_model_trace`), hence an
implementation whose observations agree with the model's cannot raise a monitor alarm.

Imports the model only. No string parsing in here. The strings that remain are
  * cells the harness prints verbatim and that are only COMPARED (`alRaw`, `alAllowed`, `alEnabled`,
    the name / arguments of the target's last call, the components of a demanded authorization);
    what the monitor compares them with is printed by the same functions (`fnName`, `showVals`,
    `showVec`, `showInvArgs`, …) that the model side of the driver prints its observation with;
  * message texts.
-/
namespace OZ.FeeForwarder.Mon
open OZ.Host OZ.FeeForwarder

/-! ### the address universe (fixed by harness/src/bin/c19.rs): 0..5 accounts (0 admin, 1 manager,
2 and 3 executors), 6 the forwarder, 7 the target contract, 8..11 fee tokens -/

def FWD : Nat := 6
def TGT : Nat := 7
def TOK0 : Nat := 8
def NTOK : Nat := 4
def NHOLD : Nat := 8

/-- the observed fee tokens -/
def toks : List Nat := (List.range NTOK).map (· + TOK0)

/-- what the driver's `init` builds from the label `min_temp=.. max_ttl=..` -/
def params (c : Cfg) : Params := { cfg := c, self := FWD, managers := [1], executors := [2, 3] }

/-! ### printing (shared by the model side of the driver and by the monitor) -/

def fnNames : List String := ["?", "ping", "add", "add2", "boom", "uadd", "nofn", "transfer", "balance"]

def fnName (i : Nat) : String := if i = FN_APPROVE then "approve" else fnNames.getD i "?"

def showVal : Val → String
  | .addr a => s!"a{a}"
  | .i128 v => s!"i{v}"
  | .u32 n => s!"u{n}"

def showVals (sep : String) (l : List Val) : String := if l.isEmpty then "-" else sep.intercalate (l.map showVal)

def showVec (l : List Val) : String := s!"[{showVals "+" l}]"

def showInvArgs (i : Inv) : String := s!"{i.contract}:{fnName i.fn}:{showVals "," i.args}"

def showOptNat : Option Nat → String
  | some n => toString n
  | none => "_"

/-- the allow-list part `al=` of an observation line -/
def showAl (al : AllowList) : String :=
  let n := min (al.count + 2) (NTOK + 2)
  let at_ := (List.range n).map (fun i => showOptNat (al.tokenAt i))
  let idx := toks.map (fun t => showOptNat (al.indexOf t))
  let allowed := toks.map (fun t => if isAllowedFeeToken al t then "1" else "0")
  s!"{al.count}|{",".intercalate at_}|{",".intercalate idx}|{"".intercalate allowed}|{if allowlistEnabled al then 1 else 0}"

/-! ### a parsed op line -/

/-- which contract a sequence drives (`v=` of the label): the permissionless example, the
permissioned example, the pass-through over the library functions; any other value of `v=`
behaves like the library for `forward` and has no allow / sweep entry points -/
inductive Var where
  | pl | pd | lib | other
  deriving DecidableEq, Repr

/-- one op line `ff …` with its fields parsed. `all` = recording mode (`mode=all`: every demanded
authorization is granted), otherwise the authorization is EXACTLY `plain` (the `auth=` list) and
`ua` (the user's signed tree `uas= uat= usub=`). `uasS`, `uatS` are the raw fields, used in one
message text only. -/
inductive In where
  | mint (tok to : Nat) (amt : Int)
  | approve (plain : List Nat) (tok owner sp : Nat) (amt : Int) (lu : Nat)
  | advance (n : Nat)
  | forward (all : Bool) (plain : List Nat) (ua : Option UserAuth) (c : Call) (user rel : Nat)
      (tgt : Target) (eager : Bool) (uasS uatS : String)
  | allow (all : Bool) (plain : List Nat) (tok : Nat) (oper : Option Nat) (allowed : Bool)
  | sweep (all : Bool) (plain : List Nat) (tok to : Nat) (oper : Option Nat)
  | bad

def everyone : List Nat := List.range 12

/-- the authorization of a `forward` line -/
def auFwd (p : Params) (all : Bool) (plain : List Nat) (ua : Option UserAuth) (c : Call) (user : Nat) : Auth :=
  if all then
    -- recording mode: every demanded authorization is granted
    { plain := everyone,
      user := some { signer := user, tuple := tupleOf c,
                     subs := [approveInv p c.token user c.maxFee c.expiration, targetInv c] } }
  else { plain := plain, user := ua }

/-- the authorization of an `allow` / `sweep` line -/
def auPlain (all : Bool) (plain : List Nat) : Auth := ⟨if all then everyone else plain, none⟩

def apOf (eager : Bool) : Approval := if eager then .eager else .lazy

def fwdOp (v : Var) (c : Call) (user rel : Nat) (tgt : Target) (eager : Bool) : Op :=
  match v with
  | .pl => .forwardPL c user rel tgt
  | .pd => .forwardPD c user rel tgt
  | _ => .forwardLib c user rel (apOf eager) tgt

/-- the model invocation an op line stands for (`none`: not an entry point of this contract) -/
def modelOf (p : Params) (v : Var) : In → Option (Auth × Op)
  | .mint tok to amt => some (⟨[], none⟩, .mint tok to amt)
  | .approve plain tok o sp amt lu => some (⟨plain, none⟩, .approve tok o sp amt lu)
  | .advance n => some (⟨[], none⟩, .advance n)
  | .forward all plain ua c user rel tgt eager _ _ =>
    some (auFwd p all plain ua c user, fwdOp v c user rel tgt eager)
  | .allow all plain tok oper allowed =>
    match v with
    | .pd => oper.map (fun o => (auPlain all plain, .setAllowedPD tok o allowed))
    | .lib => some (auPlain all plain, .setAllowedLib tok allowed)
    | _ => none
  | .sweep all plain tok to oper =>
    match v with
    | .pd => oper.map (fun o => (auPlain all plain, .sweepPD tok to o))
    | .lib => some (auPlain all plain, .sweepLib tok to)
    | _ => none
  | .bad => none

def applyOpt (p : Params) (s : State) (x : Option (Auth × Op)) : State × Bool :=
  match x with
  | none => (s, false)
  | some (au, op) =>
    match apply p s au op with
    | .ok s' => (s', true)
    | .error _ => (s, false)

/-- one op line on the model: the new state and whether the call was accepted (a rejected call is
rolled back by the host) -/
def mstep (p : Params) (v : Var) (s : State) (i : In) : State × Bool := applyOpt p s (modelOf p v i)

/-! ### observations -/

/-- one printed cell of `Token(i)` / `TokenIndex(t)`: `_` (absent), a number, or anything else
(the harness prints `?` for an address outside the universe) -/
inductive Cell where
  | empty
  | num (n : Nat)
  | junk (s : String)
  deriving DecidableEq, Repr

def Cell.show : Cell → String
  | .empty => "_"
  | .num n => toString n
  | .junk s => s

def Cell.num? : Cell → Option Nat
  | .num n => some n
  | _ => none

def cellOf : Option Nat → Cell
  | some n => .num n
  | none => .empty

/-- balances of holders 0..7 and their allowances to the forwarder, for one token -/
structure TokObs where
  bal : List Int
  allow : List Int
  deriving DecidableEq, Repr

/-- one entry of `env.auths()`: `who@contract:fn:args{sub|sub}` -/
structure DemEntry where
  who : Option Nat
  contract : String
  fn : String
  args : List String
  subs : List String
  deriving DecidableEq, Repr

def showWho : Option Nat → String
  | some w => toString w
  | none => "?"

def showEntry (e : DemEntry) : String :=
  let root := s!"{showWho e.who}@{e.contract}:{e.fn}:{",".intercalate e.args}"
  if e.subs.isEmpty then root else root ++ "{" ++ "|".intercalate e.subs ++ "}"

/-- the canonical (sorted) order in which both sides print `dem=` -/
def sortEntries (l : List DemEntry) : List DemEntry :=
  l.mergeSort (fun a b => decide (showEntry a ≤ showEntry b))

def showDem (l : List DemEntry) : String :=
  if l.isEmpty then "-" else ";".intercalate ((sortEntries l).map showEntry)

/-- one observation line, parsed -/
structure Obs where
  ok : Bool
  now : Nat
  alCount : Nat
  alAt : List Cell            -- Token(0) … Token(min(count+1, NTOK+1))
  alIdx : List Cell           -- TokenIndex(t) for the four fee tokens
  alAllowed : String          -- is_allowed_fee_token of the four fee tokens, as printed
  alEnabled : String
  alRaw : String              -- the whole `al=` field as printed (only compared)
  toks : List TokObs          -- tokens 8..11
  callsN : Nat
  callsFn : String
  callsArgs : String
  dem : List DemEntry
  demRaw : String             -- the `dem=` field as printed (message texts only)

def tokObs (s : State) (t : Nat) : TokObs :=
  ⟨(List.range NHOLD).map (fun i => (tokAt s t).bal i),
   (List.range NHOLD).map (fun i => OZ.Fungible.allowance (tokAt s t) i FWD)⟩

def toksObs (s : State) : List TokObs := (List.range NTOK).map (fun k => tokObs s (k + TOK0))

def callsFnOf (s : State) : String :=
  match s.calls.getLast? with
  | some i => fnName i.fn
  | none => "-"

def callsArgsOf (s : State) : String :=
  match s.calls.getLast? with
  | some i => showVals "," i.args
  | none => "-"

def alAtOf (al : AllowList) : List Cell :=
  (List.range (min (al.count + 2) (NTOK + 2))).map (fun i => cellOf (al.tokenAt i))

def alIdxOf (al : AllowList) : List Cell := toks.map (fun t => cellOf (al.indexOf t))

def alAllowedOf (al : AllowList) : String :=
  "".intercalate (toks.map (fun t => if isAllowedFeeToken al t then "1" else "0"))

/-- the observation the model side of the driver prints for state `s` (`showState`), as data -/
def obsOf (s : State) (ok : Bool) (dem : List DemEntry) : Obs :=
  { ok := ok, now := s.now, alCount := s.al.count, alAt := alAtOf s.al, alIdx := alIdxOf s.al,
    alAllowed := alAllowedOf s.al, alEnabled := if allowlistEnabled s.al then "1" else "0",
    alRaw := showAl s.al, toks := toksObs s, callsN := s.calls.length, callsFn := callsFnOf s,
    callsArgs := callsArgsOf s, dem := dem, demRaw := showDem dem }

/-! ### the authorizations a successful op demands (`dem=`), as data -/

/-- the six components of the user's `require_auth_for_args` tuple, as printed -/
def tupleL (c : Call) : List String :=
  [s!"a{c.token}", s!"i{c.maxFee}", s!"u{c.expiration}", s!"a{c.target}", s!"s{fnName c.fn}", showVec c.args]

/-- the arguments of the relayer's root invocation `forward(..)`, as printed -/
def callL (c : Call) (user rel : Nat) : List String :=
  [s!"a{c.token}", s!"i{c.fee}", s!"i{c.maxFee}", s!"u{c.expiration}", s!"a{c.target}", s!"s{fnName c.fn}",
   showVec c.args, s!"a{user}", s!"a{rel}"]

def relEntry (c : Call) (user rel : Nat) : DemEntry :=
  { who := some rel, contract := toString FWD, fn := "forward", args := callL c user rel, subs := [] }

def userEntry (user : Nat) (c : Call) (subs : List Inv) : DemEntry :=
  { who := some user, contract := toString FWD, fn := "forward", args := tupleL c, subs := subs.map showInvArgs }

/-- the authorizations a successful op consumed (`env.auths()` of the real host), from the model's
`usedSubs` evaluated in the state BEFORE the op -/
def modelDem (p : Params) (v : Var) (s : State) : In → List DemEntry
  | .approve _ tok o sp a lu =>
    [{ who := some o, contract := toString tok, fn := "approve", args := [s!"a{o}", s!"a{sp}", s!"i{a}", s!"u{lu}"], subs := [] }]
  | .forward _ _ _ c u r tgt eager _ _ =>
    match v with
    | .pl => [relEntry c u r, userEntry u c (usedSubs p s c u .eager tgt)]
    | .pd => [relEntry c u r, userEntry u c (usedSubs p s c u .lazy tgt)]
    | _ => [userEntry u c (usedSubs p s c u (apOf eager) tgt)]
  | .allow _ _ tok oper allowed =>
    match v, oper with
    | .pd, some o =>
      [{ who := some o, contract := toString FWD, fn := if allowed then "enable_fee_token" else "disable_fee_token",
         args := [s!"a{tok}", s!"a{o}"], subs := [] }]
    | _, _ => []
  | .sweep _ _ tok r oper =>
    match v, oper with
    | .pd, some o =>
      [{ who := some o, contract := toString FWD, fn := "sweep_tokens", args := [s!"a{tok}", s!"a{r}", s!"a{o}"], subs := [] }]
    | _, _ => []
  | _ => []

/-- the parsed observation line the model side of the driver prints for op line `i` in state `s` -/
def modelObs (p : Params) (v : Var) (s : State) (i : In) : Obs :=
  obsOf (mstep p v s i).1 (mstep p v s i).2
    (if (mstep p v s i).2 then sortEntries (modelDem p v s i) else [])

/-! ### the monitor -/

structure Mon where
  prev : Obs                 -- the previous observation (`zeroObs` before the first one)
  allowed : List Nat         -- ghost: tokens allowed and not since removed, in order of the accepted ops
  var : Var

def zeroTok : TokObs := ⟨List.replicate NHOLD 0, List.replicate NHOLD 0⟩

def zeroObs : Obs :=
  { ok := true, now := 0, alCount := 0, alAt := [.empty, .empty], alIdx := List.replicate NTOK .empty
    alAllowed := "1111", alEnabled := "0", alRaw := showAl AllowList.empty
    toks := List.replicate NTOK zeroTok, callsN := 0, callsFn := "-", callsArgs := "-", dem := [], demRaw := "-" }

def nth (l : List Int) (i : Nat) : Int := l.getD i 0

def firstSome (a b : Option String) : Option String :=
  match a with
  | some x => some x
  | none => b

/-- ghost allowed set: updated by ACCEPTED allow/disallow ops only -/
def ghostStep (g : List Nat) (i : In) (ok : Bool) : List Nat :=
  match i with
  | .allow _ _ tok _ allowed => if ok then (if allowed then g ++ [tok] else g.filter (· ≠ tok)) else g
  | _ => g

/-! #### the allow-list getters must describe exactly the ghost set, with gap-free indices -/

/-- the tokens printed at indices 0..n-1 -/
def liveNats (n : Nat) (o : Obs) : List Nat := (o.alAt.take n).filterMap Cell.num?

def showCells (l : List Cell) : List String := l.map Cell.show

/-- is the printed `TokenIndex(t)` cell wrong for token `t`? -/
def idxCellBad (ghost : List Nat) (o : Obs) (t : Nat) (ix : Cell) : Bool :=
  if ghost.contains t then
    (match ix with
     | .num i => decide (o.alAt.getD i .empty ≠ .num t)
     | _ => true)
  else decide (ix ≠ .empty)

def expectAllowed (ghost : List Nat) : String :=
  "".intercalate (toks.map (fun t => if ghost.length = 0 ∨ ghost.contains t then "1" else "0"))

def checkAllowlist (ghost : List Nat) (o : Obs) : Option String :=
  if o.alCount ≠ ghost.length then some s!"site=ff.allowlist.count count={o.alCount} but {ghost.length} tokens are allowed"
  else if (liveNats ghost.length o).length ≠ ghost.length ∨ ¬ (liveNats ghost.length o).Nodup
      ∨ (liveNats ghost.length o).any (fun t => ¬ ghost.contains t) then
    some s!"site=ff.allowlist.enumeration entries 0..count-1 are {showCells (o.alAt.take ghost.length)} but the allowed set is {ghost}"
  else if (o.alAt.drop ghost.length).any (· ≠ .empty) then
    some s!"site=ff.allowlist.stale an entry at index >= count exists: {showCells o.alAt}"
  else if (toks.zip o.alIdx).any (fun x => idxCellBad ghost o x.1 x.2) then
    some s!"site=ff.allowlist.index index map {showCells o.alIdx} is not the inverse of the enumeration {showCells o.alAt}"
  else if o.alAllowed ≠ expectAllowed ghost then
    some s!"site=ff.allowlist.accepted is_allowed_fee_token={o.alAllowed} but allowed set is {ghost}"
  else if o.alEnabled ≠ (if ghost.length = 0 then "0" else "1") then some "site=ff.allowlist.enabled wrong enabled flag"
  else none

/-! #### a rejected call changes nothing -/

def verdictRejected (prev : Obs) (ghost' : List Nat) (o : Obs) : Option String :=
  if o.alRaw ≠ prev.alRaw ∨ ¬ (o.toks = prev.toks) ∨ o.callsN ≠ prev.callsN ∨ o.callsFn ≠ prev.callsFn
      ∨ o.callsArgs ≠ prev.callsArgs then
    some "site=ff.rollback a rejected call changed the allow-list, a balance, an allowance or the target's call log"
  else checkAllowlist ghost' o

/-! #### an accepted forward -/

/-- the fee recipient: the contract itself in the permissioned example, else the relayer -/
def rcpOf (v : Var) (rel : Nat) : Nat := if v = .pd then FWD else rel

/-- the observed state of fee token `tok` -/
def tokOf (o : Obs) (tok : Nat) : TokObs := o.toks.getD (tok - TOK0) zeroTok

def expectBal (pt : TokObs) (user rcp : Nat) (fee : Int) : List Int :=
  (List.range NHOLD).map (fun h => nth pt.bal h - (if h = user then fee else 0) + (if h = rcp then fee else 0))

/-- fee and expiry bounds, user ≠ forwarder, the token is a fee token accepted by the allow-list -/
def fwdBounds (allowed : List Nat) (c : Call) (user : Nat) (o : Obs) : Option String :=
  if ¬ (0 < c.fee ∧ c.fee ≤ c.maxFee) then some s!"site=ff.bounds accepted with fee={c.fee} max={c.maxFee}"
  else if c.expiration < o.now then some s!"site=ff.expired accepted with expiration {c.expiration} < ledger {o.now}"
  else if user = FWD then some "site=ff.user-is-forwarder accepted with user = forwarder"
  else if c.token < TOK0 ∨ c.token ≥ TOK0 + NTOK then some "site=ff.token fee token is not a token"
  else if ¬ (allowed.isEmpty ∨ allowed.contains c.token) then
    some s!"site=ff.token-not-allowed token {c.token} accepted but allow-list is {allowed}"
  else none

/-- exactly the fee moved from the user to the recipient; nothing else moved; the allowance
user → forwarder stays within what the user authorized -/
def fwdMoney (prev o : Obs) (c : Call) (user rcp : Nat) : Option String :=
  if (tokOf o c.token).bal ≠ expectBal (tokOf prev c.token) user rcp c.fee then
    some s!"site=ff.charge balances of token {c.token} are {(tokOf o c.token).bal}, expected {expectBal (tokOf prev c.token) user rcp c.fee} (user {user} -{c.fee}, recipient {rcp} +{c.fee})"
  else if (List.range NTOK).any (fun j => j ≠ c.token - TOK0 ∧ ¬ (o.toks.getD j zeroTok = prev.toks.getD j zeroTok)) then
    some "site=ff.other-token another token's balances or allowances moved"
  else if (List.range NHOLD).any (fun h => h ≠ user ∧ nth (tokOf o c.token).allow h ≠ nth (tokOf prev c.token).allow h) then
    some "site=ff.allowance an allowance of somebody else changed"
  else if nth (tokOf o c.token).allow user < 0
      ∨ nth (tokOf o c.token).allow user > max (nth (tokOf prev c.token).allow user) c.maxFee - c.fee then
    some s!"site=ff.allowance-exposure allowance user->forwarder is {nth (tokOf o c.token).allow user}, was {nth (tokOf prev c.token).allow user}, max={c.maxFee} fee={c.fee}"
  else none

/-- the target's call log grew by exactly this call -/
def fwdTarget (prev o : Obs) (c : Call) : Option String :=
  if o.callsN ≠ prev.callsN + 1 ∨ c.target ≠ TGT ∨ o.callsFn ≠ fnName c.fn ∨ o.callsArgs ≠ showVals "," c.args then
    some s!"site=ff.target-call target log {o.callsN}:{o.callsFn}:{o.callsArgs}, before {prev.callsN}; call was {c.target}.{fnName c.fn}({showVals "," c.args})"
  else none

/-- is `e` a demanded authorization of `user` for exactly the tuple of call `c`? -/
def isUserEntry (c : Call) (user : Nat) (e : DemEntry) : Bool :=
  decide (e.who = some user ∧ e.contract = toString FWD ∧ e.fn = "forward" ∧ e.args = tupleL c)

/-- the only nested calls the user's authority may be used for -/
def okSubs (c : Call) (user : Nat) : List String :=
  [showInvArgs ⟨c.token, FN_APPROVE, [.addr user, .addr FWD, .i128 c.maxFee, .u32 c.expiration]⟩,
   showInvArgs ⟨c.target, c.fn, c.args⟩]

def needsRelayer (v : Var) : Bool := decide (v = .pl ∨ v = .pd)

/-- `env.auths()`: exactly one entry of the user, with exactly the call's tuple and only the two
legitimate nested calls; the relayer was demanded with exactly the invocation's arguments -/
def fwdDem (v : Var) (c : Call) (user rel : Nat) (o : Obs) : Option String :=
  if (o.dem.filter (isUserEntry c user)).length ≠ 1 then
    some s!"site=ff.user-auth the user's demanded authorization does not cover exactly ({",".intercalate (tupleL c)}): {o.demRaw}"
  else if (o.dem.filter (isUserEntry c user)).any (fun en => en.subs.any (fun sb => ¬ (okSubs c user).contains sb)) then
    some s!"site=ff.user-auth-sub the user's authority was used for a foreign nested call: {o.demRaw}"
  else if needsRelayer v ∧ ¬ o.dem.contains (relEntry c user rel) then
    some s!"site=ff.relayer-auth the relayer's authorization was not demanded: {o.demRaw}"
  else none

/-- did the user sign exactly this call? -/
def uaMatches (ua : Option UserAuth) (user : Nat) (c : Call) : Bool :=
  match ua with
  | some a => decide (a.signer = user ∧ a.tuple = tupleOf c)
  | none => false

/-- executor role, and — when the authorization was presented exactly — the relayer signed and the
user signed exactly this call -/
def fwdGate (v : Var) (all : Bool) (plain : List Nat) (ua : Option UserAuth) (c : Call) (user rel : Nat)
    (uasS uatS : String) : Option String :=
  if v = .pd ∧ ¬ [2, 3].contains rel then some s!"site=ff.executor-role relayer {rel} is no executor"
  else if ¬ all ∧ needsRelayer v ∧ ¬ plain.contains rel then some "site=ff.relayer-auth accepted without the relayer's authorization"
  else if ¬ all ∧ ¬ uaMatches ua user c then
    some s!"site=ff.accepted-with-wrong-auth user signed uas={uasS} uat={uatS} but the call is user={user} ({",".intercalate (tupleL c)})"
  else none

def verdictForward (m : Mon) (ghost' : List Nat) (all : Bool) (plain : List Nat) (ua : Option UserAuth)
    (c : Call) (user rel : Nat) (uasS uatS : String) (o : Obs) : Option String :=
  firstSome (fwdBounds m.allowed c user o)
    (firstSome (fwdMoney m.prev o c user (rcpOf m.var rel))
      (firstSome (fwdTarget m.prev o c)
        (firstSome (fwdDem m.var c user rel o)
          (firstSome (fwdGate m.var all plain ua c user rel uasS uatS)
            (checkAllowlist ghost' o)))))

/-! #### the other accepted operations -/

def verdictAdvance (prev : Obs) (ghost' : List Nat) (n : Nat) (o : Obs) : Option String :=
  if o.alRaw ≠ prev.alRaw ∨ o.toks.map (·.bal) ≠ prev.toks.map (·.bal) then
    some s!"site=ff.idle.changed the mere passing of {n} ledgers changed the allow-list getters ({prev.alRaw} -> {o.alRaw}) or a balance"
  else checkAllowlist ghost' o

/-- the manager gate of the permissioned example (`op=` defaults to 99 = nobody) -/
def gateBad (v : Var) (all : Bool) (plain : List Nat) (oper : Option Nat) : Bool :=
  decide (v = .pd ∧ (oper.getD 99 ≠ 1 ∨ (¬ all ∧ ¬ plain.contains (oper.getD 99))))

def verdictAllow (m : Mon) (ghost' : List Nat) (all : Bool) (plain : List Nat) (tok : Nat) (oper : Option Nat)
    (allowed : Bool) (o : Obs) : Option String :=
  if allowed ∧ m.allowed.contains tok then some s!"site=ff.allowlist.dup token {tok} allowed twice"
  else if ¬ allowed ∧ ¬ m.allowed.contains tok then some s!"site=ff.allowlist.absent token {tok} removed but was not allowed"
  else if gateBad m.var all plain oper then some "site=ff.allow-gate allow-list changed without the manager's authorization"
  else if ¬ (o.toks = m.prev.toks) then some "site=ff.allow-moved-tokens allow-list update moved tokens"
  else checkAllowlist ghost' o

def verdictSweep (m : Mon) (ghost' : List Nat) (all : Bool) (plain : List Nat) (tok to : Nat) (oper : Option Nat)
    (o : Obs) : Option String :=
  if nth (tokOf m.prev tok).bal FWD = 0 then some "site=ff.sweep nothing to sweep but accepted"
  else if (tokOf o tok).bal ≠ expectBal (tokOf m.prev tok) FWD to (nth (tokOf m.prev tok).bal FWD) then
    some s!"site=ff.sweep balances {(tokOf o tok).bal}, expected {expectBal (tokOf m.prev tok) FWD to (nth (tokOf m.prev tok).bal FWD)}"
  else if gateBad m.var all plain oper then some "site=ff.sweep-gate swept without the manager's authorization"
  else checkAllowlist ghost' o

/-- only a forward may invoke the target -/
def noCall (prev o : Obs) (rest : Option String) : Option String :=
  if o.callsN ≠ prev.callsN then some "site=ff.spurious-call the target was invoked by a non-forward operation"
  else rest

/-- the property's conclusion for one accepted call, on observed values only -/
def verdictAccepted (m : Mon) (ghost' : List Nat) (i : In) (o : Obs) : Option String :=
  match i with
  | .forward all plain ua c user rel _ _ uasS uatS => verdictForward m ghost' all plain ua c user rel uasS uatS o
  | .advance n => noCall m.prev o (verdictAdvance m.prev ghost' n o)
  | .allow all plain tok oper allowed => noCall m.prev o (verdictAllow m ghost' all plain tok oper allowed o)
  | .sweep all plain tok to oper => noCall m.prev o (verdictSweep m ghost' all plain tok to oper o)
  | _ => noCall m.prev o (checkAllowlist ghost' o)

def verdict (m : Mon) (ghost' : List Nat) (i : In) (o : Obs) : Option String :=
  if ¬ o.ok then verdictRejected m.prev ghost' o else verdictAccepted m ghost' i o

/-- the monitor's step on parsed values: the new monitor state and the verdict on this call -/
def checkCore (m : Mon) (i : In) (o : Obs) : Mon × Option String :=
  ({ m with prev := o, allowed := ghostStep m.allowed i o.ok }, verdict m (ghostStep m.allowed i o.ok) i o)

end OZ.FeeForwarder.Mon
