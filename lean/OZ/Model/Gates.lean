import OZ.Model.Fungible
/-
C16 — gates: pause, allow / block lists, supply cap, migration flag.

Line-by-line model of
  packages/contract-utils/src/pausable/storage.rs        (paused, pause, unpause, when_*)
  packages/macros/src/pausable.rs                        (#[when_not_paused] / #[when_paused] =
                                                          the check, then the body)
  packages/tokens/src/fungible/extensions/allowlist/storage.rs   (AllowList)
  packages/tokens/src/fungible/extensions/blocklist/storage.rs   (BlockList)
  packages/tokens/src/fungible/extensions/capped/storage.rs      (set_cap, query_cap, check_cap)
  packages/contract-utils/src/upgradeable/storage.rs     (the `Migrating` flag)
  packages/macros/src/upgradeable.rs                     (derived `upgrade` / `migrate`)
and of the entry points of the example contracts that wire them:
  examples/fungible-pausable, examples/pausable, examples/fungible-allowlist,
  examples/fungible-blocklist, examples/fungible-capped, examples/upgradeable/*.
The token underneath is `OZ.Fungible` (`Base`). A guard macro is `guard >>= body`.
Import-free apart from the host and fungible models.
-/
namespace OZ.Gates
open OZ.Host OZ.Fungible

inductive GEvent where
  | paused | unpaused
  | userAllowed (u : Nat) | userDisallowed (u : Nat)
  | userBlocked (u : Nat) | userUnblocked (u : Nat)
  deriving DecidableEq, Repr

/-- a call to an entry point the contract does not expose fails in the host -/
def notExposed {α : Type} : Except Err α := .error .hostError

/-! ## Pausable -/

/-- instance entry `Paused` (absent = false) and the events of the module -/
structure Pause where
  paused : Bool
  log : List GEvent

/-- `pausable::when_not_paused` -/
def whenNotPaused (p : Pause) : Except Err Unit := if p.paused then .error .gate else .ok ()

/-- `pausable::when_paused` -/
def whenPaused (p : Pause) : Except Err Unit := if p.paused then .ok () else .error .gate

/-- `pausable::pause` -/
def pause (p : Pause) : Except Err Pause := do
  whenNotPaused p
  pure { paused := true, log := p.log ++ [.paused] }

/-- `pausable::unpause` -/
def unpause (p : Pause) : Except Err Pause := do
  whenPaused p
  pure { paused := false, log := p.log ++ [.unpaused] }

/-- the examples' hand-written owner check of `pause` / `unpause`:
`caller.require_auth(); if owner != caller { panic }` -/
def callerIsOwner (auth : List Nat) (owner caller : Nat) : Except Err Unit := do
  requireAuth auth caller
  if owner ≠ caller then .error .auth else .ok ()

/-! ### examples/fungible-pausable -/

structure PTok where
  tok : Fungible.State
  p : Pause
  owner : Nat

inductive PTok.Op where
  | tok (o : Fungible.Op)
  | pause (caller : Nat)
  | unpause (caller : Nat)

/-- the entry points that carry `#[when_not_paused]` in the example -/
def pausableOp : Fungible.Op → Bool
  | .mint _ _ => true
  | .transfer _ _ _ => true
  | .transferFrom _ _ _ _ => true
  | .burn _ _ => true
  | .burnFrom _ _ _ => true
  | .approve _ _ _ _ => false
  | .advance _ => false

/-- the fungible entry points of the example, guards as the macros expand them -/
def PTok.applyTok (c : Cfg) (s : PTok) (auth : List Nat) : Fungible.Op → Except Err Fungible.State
  | .mint to amount => do
    whenNotPaused s.p
    requireAuth auth s.owner
    Fungible.mint s.tok to amount
  | .transfer f t a => do
    whenNotPaused s.p
    Fungible.transfer s.tok auth f t a
  | .transferFrom sp f t a => do
    whenNotPaused s.p
    Fungible.transferFrom c s.tok auth sp f t a
  | .approve o sp a lu => Fungible.approve c s.tok auth o sp a lu
  | .burn f a => do
    whenNotPaused s.p
    Fungible.burn s.tok auth f a
  | .burnFrom sp f a => do
    whenNotPaused s.p
    Fungible.burnFrom c s.tok auth sp f a
  | .advance n => .ok { s.tok with now := s.tok.now + n }

def PTok.apply (c : Cfg) (s : PTok) (auth : List Nat) : PTok.Op → Except Err PTok
  | .tok o => do
    let t ← PTok.applyTok c s auth o
    pure { s with tok := t }
  | .pause caller => do
    callerIsOwner auth s.owner caller
    let p ← pause s.p
    pure { s with p := p }
  | .unpause caller => do
    callerIsOwner auth s.owner caller
    let p ← unpause s.p
    pure { s with p := p }

/-- a failed invocation is rolled back by the host -/
def PTok.step (c : Cfg) (s : PTok) (x : List Nat × PTok.Op) : PTok :=
  match PTok.apply c s x.1 x.2 with
  | .ok s' => s'
  | .error _ => s

def PTok.run (c : Cfg) (s : PTok) (ops : List (List Nat × PTok.Op)) : PTok := ops.foldl (PTok.step c) s

/-- `__constructor`: metadata, `Base::mint(owner, initial_supply)`, owner -/
def PTok.construct (now : Nat) (owner : Nat) (initial : Int) : Except Err PTok := do
  let t ← Fungible.mint (Fungible.init now) owner initial
  pure { tok := t, p := { paused := false, log := [] }, owner := owner }

/-! ### examples/pausable (a counter) -/

def I32_MAX : Int := 2147483647

structure PCnt where
  counter : Int
  p : Pause
  owner : Nat

inductive PCnt.Op where
  | increment
  | emergencyReset
  | pause (caller : Nat)
  | unpause (caller : Nat)

/-- `#[when_not_paused] increment`: `counter += 1` on an `i32` (overflow = panic) -/
def PCnt.increment (s : PCnt) : Except Err PCnt := do
  whenNotPaused s.p
  if s.counter + 1 > I32_MAX then .error .overflowPanic
  else pure { s with counter := s.counter + 1 }

/-- `#[when_paused] emergency_reset` -/
def PCnt.emergencyReset (s : PCnt) : Except Err PCnt := do
  whenPaused s.p
  pure { s with counter := 0 }

def PCnt.apply (s : PCnt) (auth : List Nat) : PCnt.Op → Except Err PCnt
  | .increment => PCnt.increment s
  | .emergencyReset => PCnt.emergencyReset s
  | .pause caller => do
    callerIsOwner auth s.owner caller
    let p ← pause s.p
    pure { s with p := p }
  | .unpause caller => do
    callerIsOwner auth s.owner caller
    let p ← unpause s.p
    pure { s with p := p }

def PCnt.step (s : PCnt) (x : List Nat × PCnt.Op) : PCnt :=
  match PCnt.apply s x.1 x.2 with
  | .ok s' => s'
  | .error _ => s

def PCnt.run (s : PCnt) (ops : List (List Nat × PCnt.Op)) : PCnt := ops.foldl PCnt.step s

def PCnt.construct (owner : Nat) : PCnt := { counter := 0, p := { paused := false, log := [] }, owner := owner }

/-! ## Allow list / block list -/

/-- a token with one membership list (persistent entries `Allowed(a)` resp. `Blocked(a)`) -/
structure LTok where
  tok : Fungible.State
  listed : Nat → Bool
  log : List GEvent

/-- put the token state produced by a `Base` function back -/
def LTok.withTok (s : LTok) : Except Err Fungible.State → Except Err LTok
  | .ok t => .ok { s with tok := t }
  | .error e => .error e

namespace AllowList

/-- `AllowList::allowed` -/
def allowed (s : LTok) (a : Nat) : Bool := s.listed a

/-- `AllowList::allow_user` -/
def allowUser (s : LTok) (u : Nat) : LTok :=
  if !s.listed u then { s with listed := upd s.listed u true, log := s.log ++ [.userAllowed u] } else s

/-- `AllowList::disallow_user` -/
def disallowUser (s : LTok) (u : Nat) : LTok :=
  if s.listed u then { s with listed := upd s.listed u false, log := s.log ++ [.userDisallowed u] } else s

/-- `AllowList::transfer` -/
def transfer (s : LTok) (auth : List Nat) (f t : Nat) (amt : Int) : Except Err LTok :=
  if !allowed s f || !allowed s t then .error .gate
  else s.withTok (Fungible.transfer s.tok auth f t amt)

/-- `AllowList::transfer_from` -/
def transferFrom (c : Cfg) (s : LTok) (auth : List Nat) (sp f t : Nat) (amt : Int) : Except Err LTok :=
  if !allowed s f || !allowed s t then .error .gate
  else s.withTok (Fungible.transferFrom c s.tok auth sp f t amt)

/-- `AllowList::approve` -/
def approve (c : Cfg) (s : LTok) (auth : List Nat) (o sp : Nat) (amt : Int) (lu : Nat) : Except Err LTok :=
  if !allowed s o then .error .gate
  else s.withTok (Fungible.approve c s.tok auth o sp amt lu)

/-- `AllowList::burn` -/
def burn (s : LTok) (auth : List Nat) (f : Nat) (amt : Int) : Except Err LTok :=
  if !allowed s f then .error .gate
  else s.withTok (Fungible.burn s.tok auth f amt)

/-- `AllowList::burn_from` -/
def burnFrom (c : Cfg) (s : LTok) (auth : List Nat) (sp f : Nat) (amt : Int) : Except Err LTok :=
  if !allowed s f then .error .gate
  else s.withTok (Fungible.burnFrom c s.tok auth sp f amt)

end AllowList

namespace BlockList

/-- `BlockList::blocked` -/
def blocked (s : LTok) (a : Nat) : Bool := s.listed a

/-- `BlockList::block_user` -/
def blockUser (s : LTok) (u : Nat) : LTok :=
  if !s.listed u then { s with listed := upd s.listed u true, log := s.log ++ [.userBlocked u] } else s

/-- `BlockList::unblock_user` -/
def unblockUser (s : LTok) (u : Nat) : LTok :=
  if s.listed u then { s with listed := upd s.listed u false, log := s.log ++ [.userUnblocked u] } else s

/-- `BlockList::transfer` -/
def transfer (s : LTok) (auth : List Nat) (f t : Nat) (amt : Int) : Except Err LTok :=
  if blocked s f || blocked s t then .error .gate
  else s.withTok (Fungible.transfer s.tok auth f t amt)

/-- `BlockList::transfer_from` -/
def transferFrom (c : Cfg) (s : LTok) (auth : List Nat) (sp f t : Nat) (amt : Int) : Except Err LTok :=
  if blocked s f || blocked s t then .error .gate
  else s.withTok (Fungible.transferFrom c s.tok auth sp f t amt)

/-- `BlockList::approve` -/
def approve (c : Cfg) (s : LTok) (auth : List Nat) (o sp : Nat) (amt : Int) (lu : Nat) : Except Err LTok :=
  if blocked s o then .error .gate
  else s.withTok (Fungible.approve c s.tok auth o sp amt lu)

/-- `BlockList::burn` -/
def burn (s : LTok) (auth : List Nat) (f : Nat) (amt : Int) : Except Err LTok :=
  if blocked s f then .error .gate
  else s.withTok (Fungible.burn s.tok auth f amt)

/-- `BlockList::burn_from` -/
def burnFrom (c : Cfg) (s : LTok) (auth : List Nat) (sp f : Nat) (amt : Int) : Except Err LTok :=
  if blocked s f then .error .gate
  else s.withTok (Fungible.burnFrom c s.tok auth sp f amt)

end BlockList

/-- operations of a list-gated token: a fungible entry point, or a change of the list
(`on = true`: allow resp. block; `operator` is ignored by the library type) -/
inductive LOp where
  | tok (o : Fungible.Op)
  | setList (u : Nat) (on : Bool) (operator : Nat)

/-- the parties the property wants vetted for each entry point (`from`, `to`, `owner`) -/
def vetted : Fungible.Op → List Nat
  | .transfer f t _ => [f, t]
  | .transferFrom _ f t _ => [f, t]
  | .approve o _ _ _ => [o]
  | .burn f _ => [f]
  | .burnFrom _ f _ => [f]
  | .mint _ _ => []
  | .advance _ => []

/-- the library type `AllowList` with every entry point routed through it (and an open mint) -/
def ALib.apply (c : Cfg) (s : LTok) (auth : List Nat) : LOp → Except Err LTok
  | .tok (.mint to a) => s.withTok (Fungible.mint s.tok to a)
  | .tok (.transfer f t a) => AllowList.transfer s auth f t a
  | .tok (.transferFrom sp f t a) => AllowList.transferFrom c s auth sp f t a
  | .tok (.approve o sp a lu) => AllowList.approve c s auth o sp a lu
  | .tok (.burn f a) => AllowList.burn s auth f a
  | .tok (.burnFrom sp f a) => AllowList.burnFrom c s auth sp f a
  | .tok (.advance n) => .ok { s with tok := { s.tok with now := s.tok.now + n } }
  | .setList u true _ => .ok (AllowList.allowUser s u)
  | .setList u false _ => .ok (AllowList.disallowUser s u)

/-- the library type `BlockList` likewise -/
def BLib.apply (c : Cfg) (s : LTok) (auth : List Nat) : LOp → Except Err LTok
  | .tok (.mint to a) => s.withTok (Fungible.mint s.tok to a)
  | .tok (.transfer f t a) => BlockList.transfer s auth f t a
  | .tok (.transferFrom sp f t a) => BlockList.transferFrom c s auth sp f t a
  | .tok (.approve o sp a lu) => BlockList.approve c s auth o sp a lu
  | .tok (.burn f a) => BlockList.burn s auth f a
  | .tok (.burnFrom sp f a) => BlockList.burnFrom c s auth sp f a
  | .tok (.advance n) => .ok { s with tok := { s.tok with now := s.tok.now + n } }
  | .setList u true _ => .ok (BlockList.blockUser s u)
  | .setList u false _ => .ok (BlockList.unblockUser s u)

/-- the example contracts: the token plus who holds the role "manager"
(the `AccessControl` entry points that change roles belong to C06 and are not modelled) -/
structure LEx where
  t : LTok
  isMgr : Nat → Bool

/-- `access_control::ensure_role(e, "manager", &operator)` -/
def ensureRole (s : LEx) (operator : Nat) : Except Err Unit :=
  if !s.isMgr operator then .error .auth else .ok ()

/-- `#[only_role(operator, "manager")]`: `ensure_role(e, "manager", &operator); operator.require_auth();` -/
def onlyRole (s : LEx) (auth : List Nat) (operator : Nat) : Except Err Unit := do
  ensureRole s operator
  requireAuth auth operator

def LEx.withT (s : LEx) : Except Err LTok → Except Err LEx
  | .ok t => .ok { s with t := t }
  | .error e => .error e

/-- examples/fungible-allowlist: `ContractType = AllowList`, `burn`/`burn_from` through
`AllowList::burn*` (since the `fix:` commit), list changes behind the manager role; no mint -/
def AEx.apply (c : Cfg) (s : LEx) (auth : List Nat) : LOp → Except Err LEx
  | .tok (.mint _ _) => notExposed
  | .tok (.transfer f t a) => s.withT (AllowList.transfer s.t auth f t a)
  | .tok (.transferFrom sp f t a) => s.withT (AllowList.transferFrom c s.t auth sp f t a)
  | .tok (.approve o sp a lu) => s.withT (AllowList.approve c s.t auth o sp a lu)
  | .tok (.burn f a) => s.withT (AllowList.burn s.t auth f a)
  | .tok (.burnFrom sp f a) => s.withT (AllowList.burnFrom c s.t auth sp f a)
  | .tok (.advance n) => .ok { s with t := { s.t with tok := { s.t.tok with now := s.t.tok.now + n } } }
  | .setList u true operator => do
    onlyRole s auth operator
    pure { s with t := AllowList.allowUser s.t u }
  | .setList u false operator => do
    onlyRole s auth operator
    pure { s with t := AllowList.disallowUser s.t u }

/-- the example as it was before the `fix:` commit: `impl FungibleBurnable for ExampleContract {}`
took the trait's default `Base::burn` / `Base::burn_from` -/
def AEx.applyLegacy (c : Cfg) (s : LEx) (auth : List Nat) : LOp → Except Err LEx
  | .tok (.burn f a) => s.withT (s.t.withTok (Fungible.burn s.t.tok auth f a))
  | .tok (.burnFrom sp f a) => s.withT (s.t.withTok (Fungible.burnFrom c s.t.tok auth sp f a))
  | o => AEx.apply c s auth o

/-- examples/fungible-blocklist: `ContractType = BlockList`; neither mint nor burn exposed -/
def BEx.apply (c : Cfg) (s : LEx) (auth : List Nat) : LOp → Except Err LEx
  | .tok (.mint _ _) => notExposed
  | .tok (.burn _ _) => notExposed
  | .tok (.burnFrom _ _ _) => notExposed
  | .tok (.transfer f t a) => s.withT (BlockList.transfer s.t auth f t a)
  | .tok (.transferFrom sp f t a) => s.withT (BlockList.transferFrom c s.t auth sp f t a)
  | .tok (.approve o sp a lu) => s.withT (BlockList.approve c s.t auth o sp a lu)
  | .tok (.advance n) => .ok { s with t := { s.t with tok := { s.t.tok with now := s.t.tok.now + n } } }
  | .setList u true operator => do
    onlyRole s auth operator
    pure { s with t := BlockList.blockUser s.t u }
  | .setList u false operator => do
    onlyRole s auth operator
    pure { s with t := BlockList.unblockUser s.t u }

def emptyList : Nat → Bool := fun _ => false

/-- fungible-allowlist `__constructor`: admin allowed, initial supply minted to the admin -/
def AEx.construct (now admin mgr : Nat) (initial : Int) : Except Err LEx := do
  let s0 : LTok := { tok := Fungible.init now, listed := emptyList, log := [] }
  let s1 := AllowList.allowUser s0 admin
  let t ← Fungible.mint s1.tok admin initial
  pure { t := { s1 with tok := t, log := [] }, isMgr := fun a => a == mgr }

/-- fungible-blocklist `__constructor` -/
def BEx.construct (now admin mgr : Nat) (initial : Int) : Except Err LEx := do
  let t ← Fungible.mint (Fungible.init now) admin initial
  pure { t := { tok := t, listed := emptyList, log := [] }, isMgr := fun a => a == mgr }

def LTok.empty (now : Nat) : LTok := { tok := Fungible.init now, listed := emptyList, log := [] }

/-- generic rollback step / run for the four list machines -/
def stepWith {σ ο : Type} (ap : σ → List Nat → ο → Except Err σ) (s : σ) (x : List Nat × ο) : σ :=
  match ap s x.1 x.2 with
  | .ok s' => s'
  | .error _ => s

def runWith {σ ο : Type} (ap : σ → List Nat → ο → Except Err σ) (s : σ) (ops : List (List Nat × ο)) : σ :=
  ops.foldl (stepWith ap) s

/-! ## Capped -/

structure CTok where
  tok : Fungible.State
  cap : Option Int          -- instance entry `Cap`

/-- `capped::set_cap` -/
def setCap (s : CTok) (cap : Int) : Except Err CTok :=
  if cap < 0 then .error .gate else .ok { s with cap := some cap }

/-- `capped::query_cap` -/
def queryCap (s : CTok) : Except Err Int :=
  match s.cap with
  | some c => .ok c
  | none => .error .gate

/-- the comparison of `check_cap` once the cap is known -/
def checkAgainst (cap supply amount : Int) : Except Err Unit :=
  if ¬ in128 (supply + amount) then .error .mathOverflow
  else if cap < supply + amount then .error .gate
  else .ok ()

/-- `capped::check_cap` -/
def checkCap (s : CTok) (amount : Int) : Except Err Unit := do
  let cap ← queryCap s
  checkAgainst cap s.tok.supply amount

def CTok.withTok (s : CTok) : Except Err Fungible.State → Except Err CTok
  | .ok t => .ok { s with tok := t }
  | .error e => .error e

/-- examples/fungible-capped: `mint = check_cap; Base::mint`, the rest is `Base`; no burn -/
def CTok.apply (c : Cfg) (s : CTok) (auth : List Nat) : Fungible.Op → Except Err CTok
  | .mint to a => do
    checkCap s a
    s.withTok (Fungible.mint s.tok to a)
  | .burn _ _ => notExposed
  | .burnFrom _ _ _ => notExposed
  | o => s.withTok (Fungible.apply c s.tok auth o)

/-- `__constructor(cap)` -/
def CTok.construct (now : Nat) (cap : Int) : Except Err CTok :=
  setCap { tok := Fungible.init now, cap := none } cap

/-! ## Migration flag -/

structure Mig where
  migrating : Bool                 -- instance entry `Migrating`, absent = false
  owner : Nat
  data : Option (Nat × Nat)        -- what `_migrate` stored
  wasm : Nat                       -- identifier of the installed executable (0 = as deployed)

/-- `upgradeable::enable_migration` -/
def enableMigration (s : Mig) : Mig := { s with migrating := true }

/-- `upgradeable::can_complete_migration` -/
def canCompleteMigration (s : Mig) : Bool := s.migrating

/-- `upgradeable::complete_migration` -/
def completeMigration (s : Mig) : Mig := { s with migrating := false }

/-- `upgradeable::ensure_can_complete_migration` -/
def ensureCanCompleteMigration (s : Mig) : Except Err Unit :=
  if !canCompleteMigration s then .error .gate else .ok ()

/-- the examples' `_require_auth`: `operator.require_auth(); if operator != owner { panic }` -/
def Mig.requireOwner (s : Mig) (auth : List Nat) (operator : Nat) : Except Err Unit := do
  requireAuth auth operator
  if operator ≠ s.owner then .error .auth else .ok ()

/-- the user's `_migrate` of the example (stores the migration data) -/
def Mig.userMigrate (s : Mig) (d : Nat × Nat) : Mig := { s with data := some d }

/-- `upgrade` as generated by `#[derive(Upgradeable)]` and `#[derive(UpgradeableMigratable)]` -/
def Mig.upgrade (s : Mig) (auth : List Nat) (hash operator : Nat) : Except Err Mig := do
  Mig.requireOwner s auth operator
  pure { enableMigration s with wasm := hash }

/-- `migrate` as generated by `#[derive(UpgradeableMigratable)]` -/
def Mig.migrate (s : Mig) (auth : List Nat) (d : Nat × Nat) (operator : Nat) : Except Err Mig := do
  Mig.requireOwner s auth operator
  ensureCanCompleteMigration s
  pure (completeMigration (Mig.userMigrate s d))

inductive Mig.Op where
  | enable | ensure | complete          -- the storage functions called directly
  | migrate (d : Nat × Nat) (operator : Nat)
  | upgrade (hash operator : Nat)

def Mig.apply (s : Mig) (auth : List Nat) : Mig.Op → Except Err Mig
  | .enable => .ok (enableMigration s)
  | .ensure => do
    ensureCanCompleteMigration s
    pure s
  | .complete => .ok (completeMigration s)
  | .migrate d operator => Mig.migrate s auth d operator
  | .upgrade h operator => Mig.upgrade s auth h operator

def Mig.init (owner : Nat) : Mig := { migrating := false, owner := owner, data := none, wasm := 0 }

end OZ.Gates
