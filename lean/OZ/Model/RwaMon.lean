import OZ.Model.Rwa
/-
The C04 MONITOR on parsed values, and the structured observation of the RWA model.

The driver OZ/Drv/C04.lean only parses the trace lines (`parseLine`, `parseObs`) and calls
`checkCore`; the monitor never calls the model's transition function. It keeps the previous
observation as the observed pre-state, the balances reconstructed from the emitted events and a
ghost registry of compliance modules built from the accepted add_module / remove_module calls.
It is kept apart from the driver so that OZ/Props/C04Mon.lean can prove it SOUND: on the
observations of the model itself (`stepObs`, the data the model side of the driver prints, see
`OZ.Drv.C04.stepLine`) the monitor never reports a failure.

Every check is its own named `def` (`vGateTransfer` … `vReplay`); `verdict` is the first failing
one, in the order of the list. Message texts and `site=` tokens are those of the former
string-level monitor. Import-free apart from the model.
-/
namespace OZ.Rwa.Mon
open OZ.Host OZ.Rwa

/-- size of the observed account universe (indices 0..N-1) -/
def N : Nat := 5
/-- number of mock compliance modules (indices 0..K-1) -/
def K : Nat := 3

/-- scripted verdict of one mock compliance module -/
structure Comp where
  tx : Bool
  create : Bool
  cap : Int
  blocked : List Nat
  deriving BEq

def Comp.default : Comp := ⟨true, true, I128_MAX, []⟩

def Comp.canTransfer (c : Comp) (f t : Nat) (a : Int) : Bool :=
  c.tx && !c.blocked.contains f && !c.blocked.contains t && decide (a ≤ c.cap)
def Comp.canCreate (c : Comp) (t : Nat) (a : Int) : Bool :=
  c.create && !c.blocked.contains t && decide (a ≤ c.cap)

def hookOf : Nat → Hook
  | 0 => .transferred
  | 1 => .created
  | 2 => .destroyed
  | 3 => .canTransfer
  | _ => .canCreate

def hookIx : Hook → Nat
  | .transferred => 0
  | .created => 1
  | .destroyed => 2
  | .canTransfer => 3
  | .canCreate => 4

def setAt {α} (l : List α) (i : Nat) (v : α) : List α := l.mapIdx (fun j x => if j = i then v else x)

def isEnv : Op → Bool
  | .advance _ | .envIdOk _ _ | .envRecTarget _ _ | .envModule _ _ _ => true
  | _ => false

/-! ### the op line, parsed

`rwa <kind> a=<addresses> amt=<i> lu=<n> b=<0|1> auth=<signers>`, `rwa advance n=<k>`,
`rwa env_id a=<a> b=<0|1>`, `rwa env_rec a=<a> t=<t|->`, `rwa env_mod m=<i> tx= create= cap= block=` -/

inductive Kind where
  | transfer | transferFrom | approve | mint | burn | forcedTransfer | recover | freeze | unfreeze
  | setFrozen | pause | unpause | addModule | removeModule | bind | unbind
  | other (name : String)
  deriving DecidableEq

def Kind.name : Kind → String
  | .transfer => "transfer"
  | .transferFrom => "transfer_from"
  | .approve => "approve"
  | .mint => "mint"
  | .burn => "burn"
  | .forcedTransfer => "forced_transfer"
  | .recover => "recover"
  | .freeze => "freeze"
  | .unfreeze => "unfreeze"
  | .setFrozen => "set_frozen"
  | .pause => "pause"
  | .unpause => "unpause"
  | .addModule => "add_module"
  | .removeModule => "remove_module"
  | .bind => "bind"
  | .unbind => "unbind"
  | .other s => s

/-- the kinds whose entry point takes an operator (last address of `a=`) -/
def Kind.supervisory : Kind → Bool
  | .mint | .burn | .forcedTransfer | .recover | .freeze | .unfreeze | .setFrozen | .pause | .unpause
  | .addModule | .removeModule | .bind | .unbind => true
  | _ => false

/-- the kinds that may change a partially frozen amount -/
def Kind.mayTouchFrozen : Kind → Bool
  | .forcedTransfer | .burn | .recover | .freeze | .unfreeze => true
  | _ => false

/-- the kinds that may change an address-freeze flag -/
def Kind.mayTouchAddrFrozen : Kind → Bool
  | .recover | .setFrozen => true
  | _ => false

structure Line where
  kind : Kind
  a : List Nat          -- `a=`: the addresses of the call in the order of the entry point
  amt : Int             -- `amt=` (0 when absent)
  lu : Nat              -- `lu=` (0 when absent): hook index of add_module / remove_module

def Line.a0 (l : Line) : Nat := l.a.getD 0 0
def Line.a1 (l : Line) : Nat := l.a.getD 1 0
def Line.a2 (l : Line) : Nat := l.a.getD 2 0
def Line.operator (l : Line) : Nat := l.a.getLast?.getD 0

/-! ### the observation line, parsed

`ok|err ret=<true|false|-> sup= bal= allow= paused= af= ft= id= rec= bound= mods= mcfg= now= ev= idv= cq= cn= ml= dem=`
(the monitor reads neither `now=` nor the identity verifier's / compliance contract's query logs
`idv=` / `cq=`; of `ev=` it reads the mint / burn / transfer / approve events) -/

structure Obs where
  ok : Bool
  ret : Option Bool                   -- `recover_balance`'s return value (`-` = none)
  sup : Int
  bal : List Int
  allow : List (Nat × Nat × Int)      -- the non-zero allowances of the observed universe
  paused : Bool
  af : List Bool
  ft : List Int
  id : List Bool
  rct : List (Option Nat)
  bound : Bool
  mods : List (List Nat)              -- per hook (index `hookIx`) the registered modules in order
  mcfg : List Comp
  evs : List Fungible.Event           -- the token's base events of this call, oldest first
  cn : List Note                      -- what the compliance contract was told in this call
  ml : List (Nat × ModCall)           -- what the modules received in this call, grouped by module
  dem : List Nat

structure Mon where
  admin : Nat
  prev : Obs
  replay : List Int            -- balances reconstructed from the emitted events
  reg : List (List Nat)        -- ghost registry: per hook the modules added and not removed, in order

def zeroObs : Obs :=
  { ok := true, ret := none, sup := 0, bal := List.replicate N 0, allow := [], paused := false,
    af := List.replicate N false, ft := List.replicate N 0, id := List.replicate N true,
    rct := List.replicate N none, bound := true, mods := List.replicate 5 [],
    mcfg := List.replicate K Comp.default, evs := [], cn := [], ml := [], dem := [] }

/-- the monitor's initial state for a sequence (`admin=` of the label, default 0) -/
def monInit (admin : Nat) : Mon :=
  { admin := admin, prev := zeroObs, replay := List.replicate N 0, reg := List.replicate 5 [] }

def gi (l : List Int) (i : Nat) : Int := l.getD i 0
def gb (l : List Bool) (i : Nat) : Bool := l.getD i false

def addAt (l : List Int) (i : Nat) (d : Int) : List Int := l.mapIdx (fun j x => if j = i then x + d else x)

/-- list-level replay of one base event (a transfer to a muxed destination credits the underlying
account: the parser drops the mux id) -/
def replayBase (b : List Int) : Fungible.Event → List Int
  | .mint t a => addAt b t a
  | .burn f a => addAt b f (-a)
  | .transfer f t a => addAt (addAt b f (-a)) t a
  | .approve _ _ _ _ => b

/-! ### message rendering (as the observation line prints the entries) -/

def showNote : Note → String
  | .transferred f t a => s!"transferred:{f}:{t}:{a}"
  | .created t a => s!"created:{t}:{a}"
  | .destroyed f a => s!"destroyed:{f}:{a}"

def showModCall : ModCall → String
  | .canTransfer f t a => s!"can_transfer:{f}:{t}:{a}"
  | .canCreate t a => s!"can_create:{t}:{a}"
  | .onTransfer f t a => s!"on_transfer:{f}:{t}:{a}"
  | .onCreated t a => s!"on_created:{t}:{a}"
  | .onDestroyed f a => s!"on_destroyed:{f}:{a}"

def showMl (x : Nat × ModCall) : String := s!"{x.1}:{showModCall x.2}"

def showRet : Option Bool → String
  | some true => "true"
  | some false => "false"
  | none => "-"

/-! ### the pieces of the checks -/

/-- the registered CanTransfer modules (ghost registry) that reject, by their scripted verdict in
the observed pre-state -/
def vetoes (reg : List (List Nat)) (p : Obs) (f t : Nat) (amt : Int) : List Nat :=
  (reg.getD 3 []).filter (fun m => !((p.mcfg.getD m Comp.default).canTransfer f t amt))

def createVetoes (reg : List (List Nat)) (p : Obs) (t : Nat) (amt : Int) : List Nat :=
  (reg.getD 4 []).filter (fun m => !((p.mcfg.getD m Comp.default).canCreate t amt))

/-- names of the gates that were closed in the observed pre-state `p` for a holder move -/
def closedGates (reg : List (List Nat)) (p : Obs) (f t : Nat) (amt : Int) : List String :=
  (if p.paused then ["paused"] else []) ++
  (if gb p.af f then ["from_frozen"] else []) ++
  (if gb p.af t then ["to_frozen"] else []) ++
  (if amt > gi p.bal f - gi p.ft f then ["free_balance"] else []) ++
  (if gb p.id f then [] else ["from_identity"]) ++
  (if gb p.id t then [] else ["to_identity"]) ++
  (vetoes reg p f t amt).map (fun m => s!"compliance_module_{m}")

def first (l : List (Option String)) : Option String := l.findSome? id

def orFail (c : Bool) (msg : String) : Option String := if c then none else some msg

/-- the frozen amount a supervisory debit of `amt` must leave: min(frozen, balance - amount) -/
def unfreezeWant (p : Obs) (a : Nat) (amt : Int) : Int :=
  if gi p.ft a ≤ gi p.bal a - amt then gi p.ft a else gi p.bal a - amt

/-- frozen' = min(frozen, balance - amount) for `a`, untouched for everybody else -/
def minimalUnfreeze (p o : Obs) (a : Nat) (amt : Int) : Bool :=
  o.ft == setAt p.ft a (unfreezeWant p a amt)

/-- one call `c` to each module of `ms`, as the per-module logs show it (grouped by module) -/
def fanOut (ms : List Nat) (c : ModCall) : List (Nat × ModCall) :=
  (List.range K).filterMap (fun m => if ms.contains m then some (m, c) else none)

def isHookCall : ModCall → Bool
  | .onTransfer _ _ _ | .onCreated _ _ | .onDestroyed _ _ => true
  | _ => false

/-- ghost registry after this op -/
def ghostReg (reg : List (List Nat)) (l : Line) (ok : Bool) : List (List Nat) :=
  if ok ∧ l.kind = .addModule then setAt reg l.lu (reg.getD l.lu [] ++ [l.a0])
  else if ok ∧ l.kind = .removeModule then setAt reg l.lu ((reg.getD l.lu []).erase l.a0)
  else reg

/-- what the compliance contract must have been told by an accepted call -/
def owedOf (p : Obs) (l : Line) (ret : Option Bool) : List Note :=
  match l.kind with
  | .transfer => [.transferred l.a0 l.a1 l.amt]
  | .transferFrom => [.transferred l.a1 l.a2 l.amt]
  | .forcedTransfer => [.transferred l.a0 l.a1 l.amt]
  | .mint => [.created l.a0 l.amt]
  | .burn => [.destroyed l.a0 l.amt]
  | .recover => if ret = some true then [.transferred l.a0 l.a1 (gi p.bal l.a0)] else []
  | _ => []

def owed (p : Obs) (l : Line) (o : Obs) : List Note := if ¬ o.ok then [] else owedOf p l o.ret

/-- what the modules registered for the notification hooks must have received (once each) -/
def owedHooksOf (reg : List (List Nat)) (p : Obs) (l : Line) (ret : Option Bool) : List (Nat × ModCall) :=
  match l.kind with
  | .transfer => fanOut (reg.getD 0 []) (.onTransfer l.a0 l.a1 l.amt)
  | .transferFrom => fanOut (reg.getD 0 []) (.onTransfer l.a1 l.a2 l.amt)
  | .forcedTransfer => fanOut (reg.getD 0 []) (.onTransfer l.a0 l.a1 l.amt)
  | .mint => fanOut (reg.getD 1 []) (.onCreated l.a0 l.amt)
  | .burn => fanOut (reg.getD 2 []) (.onDestroyed l.a0 l.amt)
  | .recover => if ret = some true then fanOut (reg.getD 0 []) (.onTransfer l.a0 l.a1 (gi p.bal l.a0)) else []
  | _ => []

def owedHooks (reg : List (List Nat)) (p : Obs) (l : Line) (o : Obs) : List (Nat × ModCall) :=
  if ¬ o.ok then [] else owedHooksOf reg p l o.ret

/-- the verdict modules an ACCEPTED holder move / mint must have consulted (all of them, once) -/
def owedVerdictsOf (reg : List (List Nat)) (l : Line) : List (Nat × ModCall) :=
  match l.kind with
  | .transfer => fanOut (reg.getD 3 []) (.canTransfer l.a0 l.a1 l.amt)
  | .transferFrom => fanOut (reg.getD 3 []) (.canTransfer l.a1 l.a2 l.amt)
  | .mint => fanOut (reg.getD 4 []) (.canCreate l.a0 l.amt)
  | _ => []

def owedVerdicts (reg : List (List Nat)) (l : Line) (o : Obs) : List (Nat × ModCall) :=
  if ¬ o.ok then [] else owedVerdictsOf reg l

def gotHooks (o : Obs) : List (Nat × ModCall) := o.ml.filter (fun e => isHookCall e.2)
def gotVerdicts (o : Obs) : List (Nat × ModCall) := o.ml.filter (fun e => !isHookCall e.2)

def move (b : List Int) (f t : Nat) (x : Int) : List Int := addAt (addAt b f (-x)) t x

/-- expected balances after an accepted op, from the observed pre-state -/
def expBal (p : Obs) (l : Line) (ret : Option Bool) : List Int :=
  match l.kind with
  | .transfer => move p.bal l.a0 l.a1 l.amt
  | .transferFrom => move p.bal l.a1 l.a2 l.amt
  | .forcedTransfer => move p.bal l.a0 l.a1 l.amt
  | .mint => addAt p.bal l.a0 l.amt
  | .burn => addAt p.bal l.a0 (-l.amt)
  | .recover => if ret = some true then move p.bal l.a0 l.a1 (gi p.bal l.a0) else p.bal
  | _ => p.bal

/-- frozen amounts a recovery that returned `true` must leave -/
def recExpFt (p : Obs) (a0 a1 : Nat) : List Int :=
  if a0 = a1 then p.ft else addAt (setAt p.ft a0 0) a1 (gi p.ft a0)

/-- address freezes a recovery that returned `true` must leave -/
def recExpAf (p : Obs) (a0 a1 : Nat) : List Bool := setAt p.af a1 (gb p.af a1 || gb p.af a0)

/-! ### the checks, one `def` each (the argument `p` is the observed pre-state `m.prev`) -/

/-- the gates of an accepted `transfer`, on the observed pre-state -/
def vGateTransfer (reg : List (List Nat)) (p : Obs) (l : Line) (o : Obs) : Option String :=
  if o.ok ∧ l.kind = .transfer then
    orFail (closedGates reg p l.a0 l.a1 l.amt).isEmpty
      s!"site=rwa.transfer.gate accepted although closed: {",".intercalate (closedGates reg p l.a0 l.a1 l.amt)}"
  else none

/-- the gates of an accepted `transfer_from` -/
def vGateTransferFrom (reg : List (List Nat)) (p : Obs) (l : Line) (o : Obs) : Option String :=
  if o.ok ∧ l.kind = .transferFrom then
    orFail (closedGates reg p l.a1 l.a2 l.amt).isEmpty
      s!"site=rwa.transfer_from.gate accepted although closed: {",".intercalate (closedGates reg p l.a1 l.a2 l.amt)}"
  else none

/-- the gates of an accepted `mint` -/
def vGateMint (reg : List (List Nat)) (p : Obs) (l : Line) (o : Obs) : Option String :=
  if o.ok ∧ l.kind = .mint then
    orFail (gb p.id l.a0 && (createVetoes reg p l.a0 l.amt).isEmpty)
      s!"site=rwa.mint.gate accepted although identity_ok={gb p.id l.a0} rejecting CanCreate modules={createVetoes reg p l.a0 l.amt}"
  else none

/-- 0 <= frozen <= balance, always -/
def vFrozenLeBalance (o : Obs) : Option String :=
  orFail ((List.range N).all (fun i => decide (0 ≤ gi o.ft i ∧ gi o.ft i ≤ gi o.bal i)))
    s!"site=rwa.frozen_le_balance frozen={o.ft} balances={o.bal}"

/-- supervisory paths unfreeze the minimum: forced_transfer -/
def vForcedUnfreeze (p : Obs) (l : Line) (o : Obs) : Option String :=
  if o.ok ∧ l.kind = .forcedTransfer then
    orFail (minimalUnfreeze p o l.a0 l.amt)
      s!"site=rwa.forced_transfer.unfreeze frozen {p.ft} -> {o.ft} for amount {l.amt} of balance {gi p.bal l.a0}"
  else none

/-- supervisory paths unfreeze the minimum: burn -/
def vBurnUnfreeze (p : Obs) (l : Line) (o : Obs) : Option String :=
  if o.ok ∧ l.kind = .burn then
    orFail (minimalUnfreeze p o l.a0 l.amt)
      s!"site=rwa.burn.unfreeze frozen {p.ft} -> {o.ft} for amount {l.amt} of balance {gi p.bal l.a0}"
  else none

/-- recovery only to the registered, verified target -/
def vRecoverTarget (p : Obs) (l : Line) : Option String :=
  orFail (p.rct.getD l.a0 none == some l.a1 && gb p.id l.a1)
    s!"site=rwa.recover.target accepted although target={p.rct.getD l.a0 none} identity_ok={gb p.id l.a1}"

/-- recovery returns whether there was something to recover -/
def vRecoverRet (p : Obs) (l : Line) (o : Obs) : Option String :=
  orFail (o.ret == some (decide (gi p.bal l.a0 ≠ 0)))
    s!"site=rwa.recover.ret returned {showRet o.ret} for balance {gi p.bal l.a0}"

/-- recovery: everything moves, nothing else does -/
def vRecoverEffects (p : Obs) (l : Line) (o : Obs) : Option String :=
  if o.ret = some true then
    orFail (o.ft == recExpFt p l.a0 l.a1 && o.af == recExpAf p l.a0 l.a1)
      s!"site=rwa.recover.effects frozen {p.ft} -> {o.ft} (expected {recExpFt p l.a0 l.a1}), address-frozen {p.af} -> {o.af} (expected {recExpAf p l.a0 l.a1})"
  else orFail (o.ft == p.ft && o.af == p.af) "site=rwa.recover.effects nothing to recover but freeze state changed"

def vRecover (p : Obs) (l : Line) (o : Obs) : Option String :=
  if o.ok ∧ l.kind = .recover then first [vRecoverTarget p l, vRecoverRet p l o, vRecoverEffects p l o]
  else none

/-- exact balance movement of every accepted op (and none for the others) -/
def vMove (p : Obs) (l : Line) (o : Obs) : Option String :=
  if o.ok then
    orFail (o.bal == expBal p l o.ret)
      s!"site=rwa.{l.kind.name}.move balances {p.bal} -> {o.bal}, expected {expBal p l o.ret}"
  else none

/-- freeze bookkeeping is touched only by the operations that may: frozen amounts -/
def vFrameFrozen (p : Obs) (l : Line) (o : Obs) : Option String :=
  if o.ok ∧ ¬ l.kind.mayTouchFrozen then
    orFail (o.ft == p.ft) s!"site=rwa.frame.frozen {l.kind.name} changed frozen amounts {p.ft} -> {o.ft}"
  else none

/-- freeze bookkeeping is touched only by the operations that may: address freezes -/
def vFrameAddrFrozen (p : Obs) (l : Line) (o : Obs) : Option String :=
  if o.ok ∧ ¬ l.kind.mayTouchAddrFrozen then
    orFail (o.af == p.af) s!"site=rwa.frame.address_frozen {l.kind.name} changed address freezes"
  else none

def vFreezeEffect (p : Obs) (l : Line) (o : Obs) : Option String :=
  if o.ok ∧ l.kind = .freeze then
    orFail (decide (l.amt ≥ 0) && o.ft == addAt p.ft l.a0 l.amt) "site=rwa.freeze.effect frozen amount not +amount"
  else none

def vUnfreezeEffect (p : Obs) (l : Line) (o : Obs) : Option String :=
  if o.ok ∧ l.kind = .unfreeze then
    orFail (decide (l.amt ≥ 0) && o.ft == addAt p.ft l.a0 (-l.amt)) "site=rwa.unfreeze.effect frozen amount not -amount"
  else none

/-- exactly-once notification with the exact parties and amount (nothing on failure) -/
def vNotify (p : Obs) (l : Line) (o : Obs) : Option String :=
  orFail (o.cn == owed p l o)
    s!"site=rwa.{l.kind.name}.notify compliance was told {o.cn.map showNote}, owed {(owed p l o).map showNote}"

/-- only a token bound to the compliance contract can notify it -/
def vBound (p : Obs) (l : Line) (o : Obs) : Option String :=
  if o.ok ∧ ¬ (owed p l o).isEmpty then
    orFail p.bound s!"site=rwa.{l.kind.name}.bound accepted although the token is not bound to the compliance contract"
  else none

/-- ... which reaches exactly the modules registered for that hook, once each -/
def vFanout (reg : List (List Nat)) (p : Obs) (l : Line) (o : Obs) : Option String :=
  orFail (gotHooks o == owedHooks reg p l o)
    s!"site=rwa.{l.kind.name}.fanout modules received {(gotHooks o).map showMl}, owed {(owedHooks reg p l o).map showMl}"

/-- an accepted holder move / mint consulted every registered verdict module (once) -/
def vConsulted (reg : List (List Nat)) (l : Line) (o : Obs) : Option String :=
  if o.ok then
    orFail (gotVerdicts o == owedVerdicts reg l o)
      s!"site=rwa.{l.kind.name}.consulted verdict modules consulted {(gotVerdicts o).map showMl}, registered {(owedVerdicts reg l o).map showMl}"
  else none

/-- the registry getter agrees with the accepted add / remove history -/
def vRegistry (reg : List (List Nat)) (l : Line) (o : Obs) : Option String :=
  orFail (o.mods == ghostReg reg l o.ok)
    s!"site=rwa.compliance.registry registry reads {o.mods}, ghost registry {ghostReg reg l o.ok}"

def vAddModule (reg : List (List Nat)) (l : Line) (o : Obs) : Option String :=
  if o.ok ∧ l.kind = .addModule then
    orFail (!(reg.getD l.lu []).contains l.a0) "site=rwa.compliance.add a registered module was added again"
  else none

def vRemoveModule (reg : List (List Nat)) (l : Line) (o : Obs) : Option String :=
  if o.ok ∧ l.kind = .removeModule then
    orFail ((reg.getD l.lu []).contains l.a0) "site=rwa.compliance.remove an unregistered module was removed"
  else none

/-- operator policy of the harness contracts -/
def vOperator (admin : Nat) (l : Line) (o : Obs) : Option String :=
  if o.ok ∧ l.kind.supervisory then
    orFail (decide (l.operator = admin) && o.dem.contains l.operator)
      s!"site=rwa.{l.kind.name}.operator accepted for operator {l.operator} (admin {admin}, demanded {o.dem})"
  else none

/-- C01 for this flavour: supply = Σ balances, no negative balance -/
def vSum (o : Obs) : Option String :=
  orFail (decide (o.bal.sum = o.sup) && o.bal.all (· ≥ 0)) s!"site=rwa.sum total_supply={o.sup} balances={o.bal}"

/-- C01 for this flavour: a failed call changes nothing -/
def vRollback (p o : Obs) : Option String :=
  if ¬ o.ok then
    orFail (o.sup == p.sup && o.bal == p.bal && o.allow == p.allow && o.ft == p.ft && o.af == p.af && o.paused == p.paused
            && o.bound == p.bound && o.mods == p.mods && o.ml.isEmpty)
      "site=rwa.rollback a failed call changed supply, a balance, an allowance, a frozen amount, a freeze flag, the pause flag, the binding, the module registry or reached a module"
  else none

/-- C01 for this flavour: the replay of the emitted events reproduces every balance -/
def vReplay (replay' : List Int) (o : Obs) : Option String :=
  orFail (replay' == o.bal) s!"site=rwa.replay event replay gives {replay'} but balances are {o.bal}"

/-- the property's conclusion for one call, on observed values only: the first failing check -/
def verdict (admin : Nat) (reg : List (List Nat)) (p : Obs) (l : Line) (replay' : List Int) (o : Obs) :
    Option String :=
  first [
    vGateTransfer reg p l o,
    vGateTransferFrom reg p l o,
    vGateMint reg p l o,
    vFrozenLeBalance o,
    vForcedUnfreeze p l o,
    vBurnUnfreeze p l o,
    vRecover p l o,
    vMove p l o,
    vFrameFrozen p l o,
    vFrameAddrFrozen p l o,
    vFreezeEffect p l o,
    vUnfreezeEffect p l o,
    vNotify p l o,
    vBound p l o,
    vFanout reg p l o,
    vConsulted reg l o,
    vRegistry reg l o,
    vAddModule reg l o,
    vRemoveModule reg l o,
    vOperator admin l o,
    vSum o,
    vRollback p o,
    vReplay replay' o]

/-- the monitor's step on parsed values -/
def checkCore (m : Mon) (l : Line) (o : Obs) : Mon × Option String :=
  ({ m with prev := o, replay := o.evs.foldl replayBase m.replay, reg := ghostReg m.reg l o.ok },
   verdict m.admin m.reg m.prev l (o.evs.foldl replayBase m.replay) o)

/-! ### the model's observation (the data `OZ.Drv.C04.stepLine` prints for the model) -/

def allowList (s : State) : List (Nat × Nat × Int) :=
  (List.range N).flatMap (fun o => (List.range N).filterMap (fun sp =>
    if Fungible.allowance s.base o sp = 0 then none else some (o, sp, Fungible.allowance s.base o sp)))

/-- the token's base events among the events of a call -/
def baseOf : Ev → Option Fungible.Event
  | .base e => some e
  | _ => none

/-- the calls received by the modules, grouped by module (the harness reads one log per module) -/
def grouped (l : List (Nat × ModCall)) : List (Nat × ModCall) :=
  (List.range K).flatMap (fun m => l.filter (fun x => x.1 = m))

/-- the getters of a state over the observed universe, with the module scripts `cs` -/
def stateObs (s : State) (cs : List Comp) (ok : Bool) : Obs :=
  { ok := ok, ret := none, sup := s.base.supply, bal := (List.range N).map s.base.bal, allow := allowList s,
    paused := s.paused, af := (List.range N).map s.addrFrozen, ft := (List.range N).map s.frozen,
    id := (List.range N).map s.idOk, rct := (List.range N).map s.recTarget, bound := s.bound,
    mods := (List.range 5).map (fun h => s.mods (hookOf h)), mcfg := cs,
    evs := [], cn := [], ml := [], dem := [] }

def retOf (op : Op) (r : Bool) : Option Bool :=
  match op with
  | .recover _ _ _ => some r
  | _ => none

def demOf (op : Op) : List Nat := if isEnv op then [] else (op.required).mergeSort (· ≤ ·)

/-- observation of an accepted call that led from `s` to `s'` and returned `r` -/
def obsOk (s s' : State) (r : Bool) (op : Op) (cs' : List Comp) : Obs :=
  { stateObs s' cs' true with
    ret := retOf op r,
    evs := (s'.events.drop s.events.length).filterMap baseOf,
    cn := s'.notes.drop s.notes.length,
    ml := grouped (s'.modCalls.drop s.modCalls.length),
    dem := demOf op }

/-- observation of a rejected call (the host rolled everything back) -/
def obsErr (s : State) (cs : List Comp) : Obs := stateObs s cs false

/-- one op line through the model: the new model state with the new module scripts (both unchanged
when the call is rejected) and the observation -/
def stepObs (c : Cfg) (s : State) (cs : List Comp) (auth : List Nat) (op : Op) (cs' : List Comp) :
    (State × List Comp) × Obs :=
  match applyRet c s auth op with
  | .ok (s', r) => ((s', cs'), obsOk s s' r op cs')
  | .error _ => ((s, cs), obsErr s cs)

end OZ.Rwa.Mon
