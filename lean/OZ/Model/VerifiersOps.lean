import OZ.Model.WebAuthn
import OZ.Model.Ed25519Verifier
/-
C18: the op lines of the trace as values (`Op`), and the MODEL's answer to an op line
(`modelLine`: the string the model side of the driver OZ/Drv/C18.lean prints). Import-free apart
from the models. The monitor (OZ/Model/VerifiersMon.lean) uses only the `Op` / `Ans` types of this
file, never `modelLine`.

Cryptography, JSON parsing and XDR decoding are oracles of the model (`OZ.WebAuthn.Oracles`,
the `ed25519Verify` parameter). Their answers for the call at hand are carried on the op line
(`parse= ty= ch= sv= xdr=`, computed by the harness independently of the contract call);
`driverOracles` / `driverEd` turn these fields back into oracle functions (constant functions: one
op line is one call).
-/
namespace OZ.Verifiers
open OZ.B64

/-- `c=` of an op line: the library function behind a pass-through contract, the example
verifier contract, or anything else (not an op line of the protocol: the model side prints `bad-op`) -/
inductive Which where
  | lib
  | ex
  | other
  deriving DecidableEq, Repr

/-- the three answers of a verifier line: `ok true` | `ok false` | anything else (`err`) -/
inductive Ans where
  | accept
  | retFalse
  | fail
  deriving DecidableEq, Repr

def Ans.line : Ans → String
  | .accept => "ok true"
  | .retFalse => "ok false"
  | .fail => "err"

/-- how an observation line of a verifier op is read -/
def Ans.ofLine (s : String) : Ans :=
  if s = "ok true" then .accept else if s = "ok false" then .retFalse else .fail

def ansOf {ε} : Except ε Bool → Ans
  | .ok true => .accept
  | .ok false => .retFalse
  | .error _ => .fail

/-- `wa c= pl= kl= xdr= cd= parse= ty= ch= ad= sv=` -/
structure WaOp where
  c : Which
  /-- the signature payload -/
  pl : Bytes
  /-- length of the key (c=lib: always 65) / of the key data (c=ex) -/
  kl : Nat
  /-- `1`: sig_data decodes as WebAuthnSigData (oracle; always 1 for c=lib) -/
  xdr : Nat
  /-- client data -/
  cd : Bytes
  /-- `parse=ok`: the JSON parser oracle accepts the client data, with … -/
  parseOk : Bool
  /-- … this type field … -/
  ty : Bytes
  /-- … and this challenge -/
  ch : Bytes
  /-- authenticator data -/
  ad : Bytes
  /-- `1`: the P-256 verification of (key, sha256(ad ‖ sha256 cd), signature) succeeds (oracle) -/
  sv : Nat

/-- `ed c= pl= sv=` (`pl = none`: missing or not a hex string) -/
structure EdOp where
  c : Which
  pl : Option Bytes
  /-- `1`: the Ed25519 verification of (key, payload, signature) succeeds (oracle) -/
  sv : Nat

inductive Op where
  | wa (w : WaOp)
  | ed (d : EdOp)
  /-- `enc src= dst=`: the destination buffer has `dst` bytes, pre-filled with 0xAA -/
  | enc (src : Bytes) (dst : Nat)
  /-- `encblk a= b=`: source = the 256 groups (a, b, 0) … (a, b, 255), exact buffer -/
  | encblk (a b : Nat)

def blkSrc (a b : Nat) : Bytes :=
  (List.range 256).flatMap (fun c => [UInt8.ofNat a, UInt8.ofNat b, UInt8.ofNat c])

/-! ### the model's answer -/

/-- the signature data of the call as far as the op line carries it (the signature itself enters
only through the `sv` oracle bit) -/
def driverSig (w : WaOp) : OZ.WebAuthn.SigData :=
  { signature := [], authenticatorData := w.ad, clientData := w.cd }

/-- the oracles' answers for the call at hand, as stated on the op line -/
def driverOracles (w : WaOp) : OZ.WebAuthn.Oracles :=
  { parse := fun _ => if w.parseOk then some { challenge := w.ch, typeField := w.ty } else none
    sha256 := fun _ => []
    p256Verify := fun _ _ _ => w.sv == 1
    fromXdr := fun _ => if w.xdr = 1 then some (driverSig w) else none }

def driverKey (w : WaOp) : Bytes := List.replicate w.kl 0

def driverEd (d : EdOp) : Bytes → Bytes → Bytes → Bool := fun _ _ _ => d.sv == 1

def modelWa (w : WaOp) : Option Ans :=
  match w.c with
  | .lib => some (ansOf (OZ.WebAuthn.verify (driverOracles w) w.pl (driverKey w) (driverSig w)))
  | .ex => some (ansOf (OZ.WebAuthn.exampleVerify (driverOracles w) w.pl (driverKey w) []))
  | .other => none

def modelEd (d : EdOp) : Option Ans :=
  match d.c, d.pl with
  | .lib, some pl => some (ansOf (OZ.Ed25519Verifier.verify (driverEd d) pl [] []))
  | .ex, some pl => some (ansOf (OZ.Ed25519Verifier.exampleVerify (driverEd d) pl [] []))
  | _, _ => none

def ansLine : Option Ans → String
  | some a => a.line
  | none => "bad-op"

/-- rendering of an `enc` outcome: `panic` | `ok <hex of the whole destination buffer>` -/
def encLine : Option Bytes → String
  | none => "panic"
  | some out => "ok " ++ toHex out

/-- **the line the model side of the driver prints for an op line** -/
def modelLine : Op → String
  | .wa w => ansLine (modelWa w)
  | .ed d => ansLine (modelEd d)
  | .enc src n => encLine (encodeInto (List.replicate n 0xAA) src)
  | .encblk a b => "ok " ++ toAscii (encode (blkSrc a b))

/-- the op line denotes a call: `c` is one of the two contracts and the payload is a byte string
(for every other line the model side prints `bad-op`) -/
def Op.valid : Op → Prop
  | .wa w => w.c ≠ .other
  | .ed d => d.c ≠ .other ∧ d.pl ≠ none
  | .enc _ _ => True
  | .encblk _ _ => True

end OZ.Verifiers
