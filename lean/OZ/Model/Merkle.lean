/-
Model of packages/contract-utils/src/crypto/{merkle.rs, hashable.rs} (`Verifier::verify`,
`Verifier::verify_with_index`, `hash_pair`, `commutative_hash_pair`),
packages/contract-utils/src/merkle_distributor/storage.rs and
examples/fungible-merkle-airdrop/src/contract.rs.

Import-free (core Lean only). Everything is generic in the type `α` of node values, the
pair hash `hp a b` (= `hash_pair(a, b)` = H(a ‖ b)) and the comparison `gt a b` (= `a > b`
on `BytesN<32>`, byte-wise lexicographic). Instances:
  * bytes with SHA-256 / Keccak-256 (the driver, `OZ/Drv/C17.lean`);
  * the free-hash (symbolic) model `HTerm`, in which `hp` is a constructor.
-/
namespace OZ.Merkle

/-- the two primitives the verifier is built from -/
structure Ops (α : Type) where
  /-- `hash_pair(a, b, H::new(e))` -/
  hp : α → α → α
  /-- `a > b` (`PartialOrd` of `BytesN<32>`) -/
  gt : α → α → Bool

variable {α : Type}

/-- `commutative_hash_pair(a, b, hasher)`: `if a > b { hash_pair(b, a) } else { hash_pair(a, b) }` -/
def chp (o : Ops α) (a b : α) : α := if o.gt a b then o.hp b a else o.hp a b

/-- `for hash in proof { leaf = commutative_hash_pair(&leaf, &hash, H::new(e)); }` -/
def foldSorted (o : Ops α) (leaf : α) : List α → α
  | [] => leaf
  | h :: rest => foldSorted o (chp o leaf h) rest

/-- `Verifier::<H>::verify(e, proof, root, leaf)` -/
def verify [DecidableEq α] (o : Ops α) (proof : List α) (root leaf : α) : Bool :=
  decide (foldSorted o leaf proof = root)

/-- one iteration of the positional loop -/
def stepIndexed (o : Ops α) (leaf : α) (index : Nat) (h : α) : α :=
  if index % 2 = 0 then o.hp leaf h else o.hp h leaf

/-- `for hash in proof { leaf = if index.is_multiple_of(2) { hash_pair(&leaf, &hash) } else
{ hash_pair(&hash, &leaf) }; index /= 2; }` -/
def foldIndexed (o : Ops α) (leaf : α) (index : Nat) : List α → α
  | [] => leaf
  | h :: rest => foldIndexed o (stepIndexed o leaf index h) (index / 2) rest

/-- decidable equality of outcomes (for `decide` on concrete instances) -/
instance exceptDecEq {ε β} [DecidableEq ε] [DecidableEq β] : DecidableEq (Except ε β)
  | .ok a, .ok b => if h : a = b then isTrue (by rw [h]) else isFalse (by intro h'; cases h'; exact h rfl)
  | .error a, .error b => if h : a = b then isTrue (by rw [h]) else isFalse (by intro h'; cases h'; exact h rfl)
  | .ok _, .error _ => isFalse (by intro h; cases h)
  | .error _, .ok _ => isFalse (by intro h; cases h)

inductive VErr where
  | merkleProofOutOfBounds
  | merkleIndexOutOfBounds
  deriving DecidableEq, Repr

/-- `Verifier::<H>::verify_with_index(e, proof, root, leaf, index)`:
`if len >= 32 { panic }`, `if index >= (1 << len) { panic }`, positional fold, compare. -/
def verifyWithIndex [DecidableEq α] (o : Ops α) (proof : List α) (root leaf : α) (index : Nat) :
    Except VErr Bool :=
  if proof.length ≥ 32 then .error .merkleProofOutOfBounds
  else if index ≥ 2 ^ proof.length then .error .merkleIndexOutOfBounds
  else .ok (decide (foldIndexed o leaf index proof = root))

/-! ### Trees of any shape, their roots, and proof extraction -/

inductive Tree (α : Type) where
  | leaf (v : α)
  | node (l r : Tree α)

/-- root under a way `comb` of combining the two children -/
def Tree.rootWith (comb : α → α → α) : Tree α → α
  | .leaf v => v
  | .node l r => comb (l.rootWith comb) (r.rootWith comb)

/-- root of a sorted-pair tree -/
def Tree.rootS (o : Ops α) (t : Tree α) : α := t.rootWith (chp o)
/-- root of a positional tree -/
def Tree.rootI (o : Ops α) (t : Tree α) : α := t.rootWith o.hp

def Tree.leaves : Tree α → List α
  | .leaf v => [v]
  | .node l r => l.leaves ++ r.leaves

/-- the leaf reached by a path (root first; `false` = left) and its proof: the siblings
met on the way, listed from the leaf upwards -/
def Tree.proofWith (comb : α → α → α) : Tree α → List Bool → Option (α × List α)
  | .leaf v, [] => some (v, [])
  | .node l r, false :: p =>
    match l.proofWith comb p with
    | some (v, π) => some (v, π ++ [r.rootWith comb])
    | none => none
  | .node l r, true :: p =>
    match r.proofWith comb p with
    | some (v, π) => some (v, π ++ [l.rootWith comb])
    | none => none
  | _, _ => none

/-- the index of the leaf at a path: bit `i` (from the leaf upwards) is set iff the node at
that level is a right child. In a perfect tree this is the leaf's position. -/
def indexOf : List Bool → Nat
  | [] => 0
  | b :: p => (if b then 2 ^ p.length else 0) + indexOf p

/-- a balanced builder: split in halves (any non-empty list; `d` only for the empty list) -/
def buildBalanced (d : α) : Nat → List α → Tree α
  | 0, l => .leaf (l.headD d)
  | fuel + 1, l =>
    if l.length ≤ 1 then .leaf (l.headD d)
    else .node (buildBalanced d fuel (l.take (l.length / 2))) (buildBalanced d fuel (l.drop (l.length / 2)))

/-- a maximally unbalanced builder: a comb -/
def buildComb (d : α) : List α → Tree α
  | [] => .leaf d
  | [v] => .leaf v
  | v :: rest => .node (.leaf v) (buildComb d rest)

/-! ### The free-hash (symbolic) model -/

/-- hash terms: `node a b` is the hash of the pair (a, b) — injective and never an atom -/
inductive HTerm where
  | atom (n : Nat)
  | node (a b : HTerm)
  deriving DecidableEq, Repr

/-- free hash with an arbitrary comparison -/
def freeOps (gt : HTerm → HTerm → Bool) : Ops HTerm := { hp := HTerm.node, gt := gt }

/-! ### The byte instance: `BytesN<32>` nodes, `hash_pair(a, b) = H(a ‖ b)` -/

/-- `a > b` on byte strings: lexicographic, unsigned bytes (host `obj_cmp` on `Bytes`) -/
def bytesGt : List UInt8 → List UInt8 → Bool
  | [], _ => false
  | _ :: _, [] => true
  | a :: as, b :: bs =>
    if a.toNat > b.toNat then true else if a.toNat < b.toNat then false else bytesGt as bs

/-- `hash_pair`: `a.hash(&mut hasher); b.hash(&mut hasher); hasher.finalize()` — the hasher
state is the concatenation of the updates (sha256.rs / keccak.rs `update` appends) -/
def bytesOps (H : List UInt8 → List UInt8) : Ops (List UInt8) :=
  { hp := fun a b => H (a ++ b), gt := bytesGt }

/-! ### Merkle distributor -/

inductive DErr where
  | rootNotSet
  | indexAlreadyClaimed
  | invalidProof
  | verifier (e : VErr)
  | transfer            -- the airdrop's token transfer failed
  deriving DecidableEq, Repr

/-- storage of `MerkleDistributor`: instance `Root`, persistent `Claimed(index)` -/
structure Dist (α : Type) where
  root : Option α
  claimed : Nat → Bool

def Dist.empty : Dist α := { root := none, claimed := fun _ => false }

/-- `set_root`: writes the `Root` entry, nothing else -/
def Dist.setRoot (d : Dist α) (r : α) : Dist α := { d with root := some r }

/-- `is_claimed` -/
def Dist.isClaimed (d : Dist α) (i : Nat) : Bool := d.claimed i

/-- `set_claimed` -/
def Dist.setClaimed (d : Dist α) (i : Nat) : Dist α :=
  { d with claimed := fun j => if j = i then true else d.claimed j }

/-- `get_root` -/
def Dist.getRoot (d : Dist α) : Except DErr α :=
  match d.root with
  | none => .error .rootNotSet
  | some r => .ok r

def checkNotClaimed (d : Dist α) (i : Nat) : Except DErr Unit :=
  if d.isClaimed i then .error .indexAlreadyClaimed else .ok ()

def markIf (d : Dist α) (i : Nat) (ok : Bool) : Except DErr (Dist α) :=
  if ok then .ok (d.setClaimed i) else .error .invalidProof

def liftV : Except VErr Bool → Except DErr Bool
  | .ok b => .ok b
  | .error e => .error (.verifier e)

/-- `verify_and_set_claimed(e, leaf, proof)`; `leafHash = H(leaf.to_xdr())`, `index = leaf.index()` -/
def Dist.verifyAndSetClaimed [DecidableEq α] (o : Ops α) (d : Dist α) (leafHash : α) (index : Nat)
    (proof : List α) : Except DErr (Dist α) := do
  let root ← d.getRoot
  checkNotClaimed d index
  markIf d index (verify o proof root leafHash)

/-- `verify_with_index_and_set_claimed(e, leaf, proof)` -/
def Dist.verifyWithIndexAndSetClaimed [DecidableEq α] (o : Ops α) (d : Dist α) (leafHash : α)
    (index : Nat) (proof : List α) : Except DErr (Dist α) := do
  let root ← d.getRoot
  checkNotClaimed d index
  let ok ← liftV (verifyWithIndex o proof root leafHash index)
  markIf d index ok

/-- operations of a distributor history -/
inductive DOp (α : Type) where
  | setRoot (r : α)
  | claim (leafHash : α) (index : Nat) (proof : List α)
  | claimIndexed (leafHash : α) (index : Nat) (proof : List α)

def Dist.step [DecidableEq α] (o : Ops α) (d : Dist α) : DOp α → Except DErr (Dist α)
  | .setRoot r => .ok (d.setRoot r)
  | .claim h i π => d.verifyAndSetClaimed o h i π
  | .claimIndexed h i π => d.verifyWithIndexAndSetClaimed o h i π

/-- a failed invocation is rolled back by the host: the state stays -/
def Dist.apply [DecidableEq α] (o : Ops α) (d : Dist α) (op : DOp α) : Dist α :=
  match d.step o op with
  | .ok d' => d'
  | .error _ => d

def Dist.run [DecidableEq α] (o : Ops α) (d : Dist α) : List (DOp α) → Dist α
  | [] => d
  | op :: rest => Dist.run o (d.apply o op) rest

/-! ### examples/fungible-merkle-airdrop: `claim` = verify_and_set_claimed, then a token
transfer of `amount` from the contract to the receiver; when the transfer fails the whole
invocation (including the claimed flag) is rolled back. -/

structure Airdrop (α : Type) where
  dist : Dist α
  /-- token balance of the airdrop contract -/
  pool : Int
  /-- token balances of the receivers -/
  bal : Nat → Int

def payOut (a : Airdrop α) (d' : Dist α) (receiver : Nat) (amount : Int) : Except DErr (Airdrop α) :=
  if amount < 0 ∨ a.pool < amount then .error .transfer
  else .ok { dist := d', pool := a.pool - amount,
             bal := fun j => if j = receiver then a.bal j + amount else a.bal j }

def Airdrop.claim [DecidableEq α] (o : Ops α) (a : Airdrop α) (leafHash : α) (index receiver : Nat)
    (amount : Int) (proof : List α) : Except DErr (Airdrop α) := do
  let d' ← a.dist.verifyAndSetClaimed o leafHash index proof
  payOut a d' receiver amount

end OZ.Merkle
