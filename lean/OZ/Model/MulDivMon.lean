import OZ.Model.MulDivOps
/-
The C12 MONITOR on parsed values (the driver OZ/Drv/C12.lean parses the trace lines, calls
`checkCore` and renders an `Alarm` as the message line; it never calls the model's `run`). Kept
apart from the driver so that OZ/Props/C12Mon.lean can prove it SOUND: on the answers of the model
itself the monitor never raises an alarm (`monitor_accepts_every_model_trace`), hence an
implementation whose answers agree with the model's cannot raise one.

What the monitor evaluates, per op line, on the IMPLEMENTATION's answer:
  * `verdictSpec`: the answer must equal the exact mathematical specification `specOf op`
      md128 plain / checked : `spec128 .panic / .none rd x y d`
      md256                 : only when the product fits in 256 bits; the exactly rounded quotient,
                              the error outcome for `d = 0`; for the checked variant nothing is
                              demanded when the quotient does not fit (MIN / -1: the host traps)
      wad mul / div / ratio : `spec128` with truncation and the 10^18 scale
      wad fromint / mulint / divint / add / sub / cpow / pow : no specification here (these
                              answers are compared with the model by the correspondence diff only)
  * `verdictPow`: `pow` must be `checked_pow(..).orPanic` for the SAME operands, where the
      `checked_pow` answer is the implementation's own answer to the latest `cpow` line (ghost).
Import-free apart from the model; no strings.
-/
namespace OZ.MulDiv.Mon
open OZ.MulDiv

/-- an observation line as read by the driver: `r` is the lenient reading (`ok <int>` / `none` /
anything else counts as `panic`; `none` here = `ok` followed by something that is not an integer),
`canon` says that the line is byte for byte the canonical rendering `Res.toString` of `r` -/
structure Obs where
  r : Option Res
  canon : Bool
  deriving DecidableEq, Repr

/-- the line is exactly the rendering of `want` -/
def Obs.is (o : Obs) (want : Res) : Bool := o.canon && decide (o.r = some want)

/-- ghost: the implementation's answer to the latest `wad f=cpow` line, with its operands -/
structure Ghost where
  a : Int
  b : Int
  r : Res
  deriving DecidableEq, Repr

/-- what the monitor reports; the driver renders it with the raw lines
(`spec=<want> impl=<obs> op=<op>` / `pow=<obs> but checked_pow=<cpow> op=<op>`) -/
inductive Alarm where
  | spec (want : Res)
  | pow (cpow : Res)
  deriving DecidableEq, Repr

/-- I256 variants: constrained only when the product fits in 256 bits -/
def specMd256 (checked : Bool) (rd : Rounding) (x y d : Int) : Option Res :=
  if ¬ in256 (x * y) then none
  else if checked then
    (if d = 0 then some .none
     else if in256 (exactQ rd x y d) then some (.ok (exactQ rd x y d)) else none)
  else some (if d = 0 then .panic else if in256 (exactQ rd x y d) then .ok (exactQ rd x y d) else .panic)

def specWad (f : WadFn) (a b : Int) : Option Res :=
  match f with
  | .mul => some (spec128 .none .trunc a b WAD)
  | .div => some (spec128 .none .trunc a WAD b)
  | .ratio => some (spec128 .panic .trunc a WAD b)
  | _ => none

/-- The specification answer for an op, independent of the coded algorithm; `none` when the
property does not constrain the outcome. -/
def specOf (op : Op) : Option Res :=
  match op with
  | .md128 false rd x y d => some (spec128 .panic rd x y d)
  | .md128 true rd x y d => some (spec128 .none rd x y d)
  | .md256 c rd x y d => specMd256 c rd x y d
  | .wad f a b => specWad f a b

def verdictSpec (op : Op) (o : Obs) : Option Alarm :=
  match specOf op with
  | some want => if o.is want then none else some (.spec want)
  | none => none

def verdictPowAgainst (gh : Ghost) (a b : Int) (o : Obs) : Option Alarm :=
  if gh.a = a ∧ gh.b = b then
    (if o.is gh.r.orPanic then none else some (.pow gh.r))
  else none

/-- pow fails exactly when checked_pow returns no value, and returns the same value otherwise
(checked against the implementation's own `cpow` answer for the same operands) -/
def verdictPow (g : Option Ghost) (op : Op) (o : Obs) : Option Alarm :=
  match op with
  | .wad .pow a b =>
    (match g with
     | some gh => verdictPowAgainst gh a b o
     | none => none)
  | _ => none

def ghostStep (g : Option Ghost) (op : Op) (o : Obs) : Option Ghost :=
  match op with
  | .wad .cpow a b => o.r.map (fun r => ⟨a, b, r⟩)
  | _ => g

def firstSome (a b : Option Alarm) : Option Alarm :=
  match a with
  | some x => some x
  | none => b

/-- the monitor's step on parsed values: new ghost, and the first alarm if any -/
def checkCore (g : Option Ghost) (op : Op) (o : Obs) : Option Ghost × Option Alarm :=
  (ghostStep g op o, firstSome (verdictSpec op o) (verdictPow g op o))

/-! ### the monitor as it was before the soundness proof (kept as documentation)

It remembered only the ANSWER of the latest `cpow` line, not its operands, and compared every
later `pow` line with it. The harness always writes `cpow a n` directly followed by `pow a n`, so
the two monitors agree on every trace the harness can produce; but on a model history in which a
`pow` line follows a `cpow` line with other operands the old monitor raises a false alarm
(`legacy_monitor_false_alarm` in OZ/Props/C12Mon.lean). -/
namespace Legacy

def verdictPow (g : Option Res) (op : Op) (o : Obs) : Option Alarm :=
  match op with
  | .wad .pow _ _ =>
    (match g with
     | some r => if o.is r.orPanic then none else some (.pow r)
     | none => none)
  | _ => none

def ghostStep (g : Option Res) (op : Op) (o : Obs) : Option Res :=
  match op with
  | .wad .cpow _ _ => o.r
  | _ => g

def checkCore (g : Option Res) (op : Op) (o : Obs) : Option Res × Option Alarm :=
  (ghostStep g op o, firstSome (verdictSpec op o) (verdictPow g op o))

end Legacy

end OZ.MulDiv.Mon
