import OZ.Model.RegKeys
import OZ.Model.RegMonUtil
/-
The `keys` MONITOR of C20 on parsed values (the sub-driver OZ/Drv/C20Keys.lean parses the trace
lines and calls `checkCore`; it never calls a model transition function). The ghost is the plain
relation {(key, topic, registry)} built from the accepted operations. Kept apart from the driver so
that OZ/Props/C20aMon.lean can prove it SOUND (`monitor_accepts_every_model_trace`).
Import-free apart from the model.

Universe: public keys 0..nk (0 = empty byte string) x schemes {1,2}; topics 0..nt-1 (the mock
registry contract answers `has_claim_topic = (topic != 7)`); registries 0..2.
-/
namespace OZ.RegKeys.Mon
open OZ.RegMon OZ.RegKeys

/-- registries 0..2 are displayed -/
def NR : Nat := 3
/-- the mock registry contracts know every topic but 7 -/
def allowed (_r t : Nat) : Bool := t ≠ 7

def keysU (nk : Nat) : List Key := (List.range (nk + 1)).flatMap (fun k => [(k, 1), (k, 2)])
def showKey (k : Key) : String := s!"{k.1}.{k.2}"

/-- `OZ.Drv.C20.sortN` -/
def sortN (l : List Nat) : List Nat := l.mergeSort (fun a b => decide (a ≤ b))

/-- the observation line `ok|err T=<t:key,..;..> R=<key:registries;..> at=<bits> ar=<bits>` -/
structure Obs where
  ok : Bool
  /-- the entries of `T=`: topic, `get_keys_for_topic` (topics whose getter fails are not listed) -/
  T : List (Nat × List Key)
  /-- the entries of `R=`: key, `get_registries` (keys whose getter fails are not listed) -/
  R : List (Key × List Nat)
  /-- the word after `at=`: `is_key_allowed_for_topic` over keys x topics 0..nt-1 -/
  atB : String
  /-- the word after `ar=`: `is_key_allowed_for_registry` over keys x registries 0..2 -/
  arB : String

structure Mon where
  rel : List (Key × Nat × Nat)     -- (key, topic, registry)
  nk : Nat
  nt : Nat

def keysOf (g : Mon) (t : Nat) : List Key := ((g.rel.filter (fun x => x.2.1 == t)).map (·.1)).eraseDups
def pairsOf (g : Mon) (k : Key) : List (Nat × Nat) := (g.rel.filter (fun x => x.1 == k)).map (·.2)

/-- the topic has no room for a further key, and `k` would be one -/
def topicFull (g : Mon) (k : Key) (t : Nat) : Bool :=
  !(keysOf g t).contains k && decide ((keysOf g t).length ≥ 50)

/-- what the plain relation with the documented limits says about the operation: accepted or not -/
def expect (g : Mon) : Op → Bool
  | .allow k r t =>
    !decide (k.1 = 0) && allowed r t && !g.rel.contains (k, t, r) && !topicFull g k t &&
      !decide ((pairsOf g k).length ≥ 20)
  | .remove k r t => g.rel.contains (k, t, r)

/-- ... and the reason (the site of the message if the implementation decides otherwise) -/
def why (g : Mon) : Op → String
  | .allow k r t =>
    if k.1 = 0 then "empty_key"
    else if !allowed r t then "not_allowed"
    else if g.rel.contains (k, t, r) then "dup"
    else if topicFull g k t then "limit.allow_key.keys_per_topic"
    else if (pairsOf g k).length ≥ 20 then "limit.allow_key.registries_per_key"
    else if (pairsOf g k).length = 19 then "limit.allow_key.registries_per_key"
    else if !(keysOf g t).contains k ∧ (keysOf g t).length = 49 then "limit.allow_key.keys_per_topic"
    else "valid"
  | .remove k r t => if g.rel.contains (k, t, r) then "present" else "absent"

/-- the operation applied to the plain relation -/
def applyOp (g : Mon) : Op → Mon
  | .allow k r t => { g with rel := g.rel ++ [(k, t, r)] }
  | .remove k r t => { g with rel := g.rel.erase (k, t, r) }

/-- the new ghost: the monitor keeps following the implementation (also after an unexpected accept),
so that later getter checks stay meaningful -/
def follow (g : Mon) (op : Op) (ok : Bool) : Mon := if ok then applyOp g op else g

/-- the accept / refuse decision of the implementation against the plain relation's -/
def acceptMsg (g : Mon) (op : Op) (ok : Bool) : Option String :=
  if ok = expect g op then none
  else if ok then some (acceptedSite "keys" (why g op))
  else some (refusedSite "keys" (why g op))

/-- `get_keys_for_topic(t)` lists the keys of the plain relation's pairs (t, .) once each, and fails
exactly when there are none -/
def topicCheck (g : Mon) (T : List (Nat × List Key)) (t : Nat) : Option String :=
  match T.find? (fun x => x.1 == t) with
  | some (_, l) => chk (keysOf g t ≠ [] ∧ nodupB l ∧ sameSet l (keysOf g t))
      s!"site=keys.topic_getter get_keys_for_topic({t}) = {l.map showKey} but the plain relation has {(keysOf g t).map showKey}"
  | none => chk (keysOf g t = []) s!"site=keys.topic_getter get_keys_for_topic({t}) fails but the plain relation has {(keysOf g t).map showKey}"

/-- the registries of the key's pairs, sorted (with multiplicity) -/
def regsWant (g : Mon) (k : Key) : List Nat := sortN ((pairsOf g k).map (·.2))

/-- `get_registries(k)` lists the registries of the plain relation's pairs of `k` (as a multiset), and
fails exactly when there are none -/
def registryCheck (g : Mon) (R : List (Key × List Nat)) (k : Key) : Option String :=
  match R.find? (fun x => x.1 == k) with
  | some (_, l) => chk (regsWant g k ≠ [] ∧ sortN l = regsWant g k)
      s!"site=keys.registry_getter get_registries({showKey k}) = {l} but the plain relation has {regsWant g k}"
  | none => chk (regsWant g k = []) s!"site=keys.registry_getter get_registries({showKey k}) fails but the plain relation has {regsWant g k}"

def atWant (g : Mon) : List Bool :=
  (keysU g.nk).flatMap (fun k => (List.range g.nt).map (fun t => g.rel.any (fun x => x.1 == k ∧ x.2.1 == t)))
def arWant (g : Mon) : List Bool :=
  (keysU g.nk).flatMap (fun k => (List.range NR).map (fun r => g.rel.any (fun x => x.1 == k ∧ x.2.2 == r)))

/-- the monitor's step on parsed values: the accept / refuse decision against the plain relation,
then every getter of the observation against the new plain relation -/
def checkCore (g : Mon) (op : Op) (o : Obs) : Mon × Option String :=
  (follow g op o.ok,
   firstFail ([acceptMsg g op o.ok] ++
     (List.range (follow g op o.ok).nt).map (topicCheck (follow g op o.ok) o.T) ++
     (keysU (follow g op o.ok).nk).map (registryCheck (follow g op o.ok) o.R) ++
     [chk (o.atB = bits (atWant (follow g op o.ok))) "site=keys.two_way is_key_allowed_for_topic differs from: exists a pair (topic, .) of the key",
      chk (o.arB = bits (arWant (follow g op o.ok))) "site=keys.two_way is_key_allowed_for_registry differs from: exists a pair (., registry) of the key"]))

end OZ.RegKeys.Mon
