import OZ.Model.Vault
import OZ.Model.FungibleMon
/-
The C05 MONITOR on parsed values, and the structured observation of the vault model.

The driver OZ/Drv/C05.lean only parses the trace lines (`parseLine`, `parseObs`) and calls
`checkConstruct` (first line of a sequence) resp. `checkCore` (every other line); the monitor never
calls the model's transition function. It is kept apart from the driver so that
OZ/Props/C05Mon.lean can prove it SOUND: on the observations of the model itself (`stepObs`,
`obsConstruct` — the data the model side of the driver prints, see `Drv.C05.stepLine`) the monitor
never reports a failure. Import-free apart from the models (`addAt`, `allowList`, `orElse` are the
ones of OZ/Model/FungibleMon.lean).

What the monitor evaluates on the IMPLEMENTATION's observations, with exact integer arithmetic:
  * every preview / conversion / max_* answer equals the exactly rounded rational formula on the
    observed (total_assets, total_supply) or is an error exactly when it does not fit (`vQuery`);
  * an accepted deposit / mint / withdraw / redeem returns what its preview (observed immediately
    before) returned, the value satisfies the floor / ceiling inequalities by cross-multiplication,
    exactly (assets, shares) moved between exactly the named parties and the vault, the share
    allowance is spent iff operator ≠ owner, the event names the same parties and amounts, the
    operator was asked to authorize (`checkVaultOp`);
  * the rate (A+1)/(S+V) never decreases over any accepted operation (`vRate`);
  * share supply = Σ share balances, no negative balance, failed calls change nothing, replaying
    the vault contract's events from genesis reproduces every share balance (`generic`).
-/
namespace OZ.Vault.Mon
open OZ.Host OZ.Vault
open OZ.FungibleMon (orElse allowList)
open OZ.FungibleMon.Supply (addAt)

def N : Nat := 5
def VAULT : Nat := 4
def I128MAX : Int := 170141183460469231731687303715884105727

/-! ### the observation line, parsed

`ok|err ret=<i|-> [pd=.. pm=.. pw=.. pr=.. cs=.. ca=.. mw=.. mr=.. md=.. mm=..] A=<i> S=<i> sb=<5 ints>
 ab=<5 ints> asup=<i> sal=<o:sp:a;..|-> aal=<..> now=<ledger> ev=<events|-> dem=<addrs|->` -/

/-- an event of the vault contract's own stream that moves shares (`dep:` / `wd:` / `mint:` /
`burn:` / `transfer:`); a field that is not a decimal numeral reads `none`. Events of the asset
token (`a.…`), approvals and anything else are dropped by the parser: no check looks at them. -/
inductive Ev where
  | dep (o f r : Option Nat) (a sh : Option Int)
  | wd (o r ow : Option Nat) (a sh : Option Int)
  | mint (t : Option Nat) (a : Option Int)
  | burn (f : Option Nat) (a : Option Int)
  | transfer (f t : Option Nat) (a : Option Int)
  deriving DecidableEq

/-- the answers of a `query` line: `none` = the key is absent, `some none` = the call failed (`e`) -/
structure QA where
  pd : Option (Option Int)
  pm : Option (Option Int)
  pw : Option (Option Int)
  pr : Option (Option Int)
  cs : Option (Option Int)
  ca : Option (Option Int)
  mw : Option (Option Int)
  mr : Option (Option Int)
  md : Option (Option Int)
  mm : Option (Option Int)
  deriving DecidableEq

def QA.none : QA := ⟨.none, .none, .none, .none, .none, .none, .none, .none, .none, .none⟩

structure Obs where
  ok : Bool
  ret : Option Int
  A : Int
  S : Int
  sb : List Int
  ab : List Int
  asup : Int
  sal : List (Nat × Nat × Int)
  aal : List (Nat × Nat × Int)
  now : Nat
  evs : List Ev                       -- share-moving events of the vault contract in this call, oldest first
  evsRaw : List (List String)         -- all events as printed; only quoted in a message, never checked
  dem : List Nat
  q : QA

/-! ### the op line, parsed

`vault query x=<i> who=<a>` / `vault deposit|mint|withdraw|redeem x=<i> a=<receiver,from|owner,operator> auth=.. sub=..`
/ `vault s_<op>|a_<op> x=<i> a=<addrs> lu=<l> auth=..` / `vault advance n=<k>`
(`vault construct offset=<k>` goes to `checkConstruct`) -/

inductive VKind where
  | deposit | mint | withdraw | redeem
  deriving DecidableEq

def VKind.name : VKind → String
  | .deposit => "deposit"
  | .mint => "mint"
  | .withdraw => "withdraw"
  | .redeem => "redeem"

/-- deposit and mint move assets in and mint shares -/
def VKind.inflow : VKind → Bool
  | .deposit => true
  | .mint => true
  | _ => false

/-- deposit and withdraw name the ASSETS on the op line (and return shares); mint and redeem name
the SHARES (and return assets) -/
def VKind.namesAssets : VKind → Bool
  | .deposit => true
  | .withdraw => true
  | _ => false

inductive Kind where
  | query
  | vault (k : VKind)
  | advance
  | shareTok (name : String)          -- `s_…`: an entry point of the share token
  | assetTok (name : String)          -- `a_…`: an entry point of the asset token
  | other
  deriving DecidableEq

structure Line where
  kind : Kind
  x : Int               -- `x=` (0 when absent)
  a : List Nat          -- `a=`
  who : Nat             -- `who=` (0 when absent)

def allowOf (l : List (Nat × Nat × Int)) (ow sp : Nat) : Int :=
  match l.find? (fun e => e.1 = ow ∧ e.2.1 = sp) with
  | some e => e.2.2
  | none => 0

/-- the property's formula: `x·y/d` rounded down (`up = false`) or up, `none` = must fail -/
def specConv (x y d : Int) (up : Bool) : Option Int :=
  if x < 0 then none
  else if x = 0 then some 0
  else if y > I128MAX ∨ d > I128MAX ∨ d ≤ 0 then none
  else if (if up then (x * y + d - 1) / d else x * y / d) > I128MAX then none
  else some (if up then (x * y + d - 1) / d else x * y / d)

/-- one pair of the universe: unchanged, except `(ow, sp)` which must have moved by exactly `-d` -/
def allowExp (pre : List (Nat × Nat × Int)) (chg : Option (Nat × Nat × Int)) (o sp : Nat) : Int :=
  match chg with
  | some (ow, s, d) => if o = ow ∧ sp = s then allowOf pre o sp - d else allowOf pre o sp
  | none => allowOf pre o sp

/-- all pairs of the universe agree between two allowance tables, except `(ow, sp)` which
must have moved by exactly `-d` -/
def allowMoved (pre post : List (Nat × Nat × Int)) (chg : Option (Nat × Nat × Int)) : Bool :=
  (List.range N).all (fun o => (List.range N).all (fun sp => allowOf post o sp == allowExp pre chg o sp))

structure Mon where
  offset : Nat
  prev : Option Obs
  lastQ : Option (Int × Nat × Obs)     -- x, who, the query's observation (only right after a query)
  replay : List Int                     -- share balances reconstructed from events

def zeroObs : Obs :=
  { ok := true, ret := none, A := 0, S := 0, sb := List.replicate N 0, ab := List.replicate N 0, asup := 0,
    sal := [], aal := [], now := 0, evs := [], evsRaw := [], dem := [], q := QA.none }

def replayEv (b : List Int) : Ev → List Int
  | .dep _ _ (some r) _ (some sh) => addAt b r sh
  | .wd _ _ (some ow) _ (some sh) => addAt b ow (-sh)
  | .mint (some t) (some a) => addAt b t a
  | .burn (some f) (some a) => addAt b f (-a)
  | .transfer (some f) (some t) (some a) => addAt (addAt b f (-a)) t a
  | _ => b

def sameState (prev o : Obs) : Bool :=
  decide (o.A = prev.A ∧ o.S = prev.S ∧ o.sb = prev.sb ∧ o.ab = prev.ab ∧ o.asup = prev.asup)

/-! ### checks of every line -/

def vSum (o : Obs) : Option String :=
  if o.sb.sum ≠ o.S then some s!"site=vault.shares.sum total share supply={o.S} but share balances sum to {o.sb.sum}"
  else none

def vNegative (o : Obs) : Option String :=
  if o.sb.any (· < 0) then some "site=vault.shares.sum a share balance is negative" else none

def vRollback (prev o : Obs) : Option String :=
  if ¬ o.ok ∧ ¬ (sameState prev o ∧ allowMoved prev.sal o.sal none ∧ allowMoved prev.aal o.aal none) then
    some "site=vault.shares.rollback a failed call changed a balance, an allowance or a supply"
  else none

def vReplay (replay' : List Int) (o : Obs) : Option String :=
  if replay' ≠ o.sb then some s!"site=vault.shares.replay event replay gives {replay'} but share balances are {o.sb}"
  else none

def vTotalAssets (o : Obs) : Option String :=
  if o.A ≠ o.ab.getD VAULT 0 then some s!"site=vault.total_assets {o.A} is not the vault's asset balance" else none

def vRate (V : Int) (prev o : Obs) : Option String :=
  if o.ok ∧ (o.A + 1) * (prev.S + V) < (prev.A + 1) * (o.S + V) then
    some s!"site=vault.rate rate decreased: (A,S) {prev.A},{prev.S} -> {o.A},{o.S} with V={V}"
  else none

def generic (prev : Obs) (V : Int) (replay' : List Int) (o : Obs) : Option String :=
  orElse (vSum o) fun _ =>
  orElse (vNegative o) fun _ =>
  orElse (vRollback prev o) fun _ =>
  orElse (vReplay replay' o) fun _ =>
  orElse (vTotalAssets o) fun _ =>
  vRate V prev o

/-! ### checks of a `query` observation against the exact formulas on the observed state -/

def qCheck (k : String) (got : Option (Option Int)) (w : Option Int) (V x : Int) (o : Obs) : Option String :=
  match got with
  | none => some s!"site=vault.query.missing {k}"
  | some got =>
    if got = w then none
    else some s!"site=vault.convert.{k} x={x} A={o.A} S={o.S} V={V}: got {got} but the exactly rounded formula gives {w}"

def checkQuery (V : Int) (x : Int) (who : Nat) (o : Obs) : Option String :=
  orElse (qCheck "pd" o.q.pd (specConv x (o.S + V) (o.A + 1) false) V x o) fun _ =>
  orElse (qCheck "pm" o.q.pm (specConv x (o.A + 1) (o.S + V) true) V x o) fun _ =>
  orElse (qCheck "pw" o.q.pw (specConv x (o.S + V) (o.A + 1) true) V x o) fun _ =>
  orElse (qCheck "pr" o.q.pr (specConv x (o.A + 1) (o.S + V) false) V x o) fun _ =>
  orElse (qCheck "cs" o.q.cs (specConv x (o.S + V) (o.A + 1) false) V x o) fun _ =>
  orElse (qCheck "ca" o.q.ca (specConv x (o.A + 1) (o.S + V) false) V x o) fun _ =>
  orElse (qCheck "mw" o.q.mw (specConv (o.sb.getD who 0) (o.A + 1) (o.S + V) false) V x o) fun _ =>
  orElse (qCheck "mr" o.q.mr (some (o.sb.getD who 0)) V x o) fun _ =>
  orElse (qCheck "md" o.q.md (some I128MAX) V x o) fun _ =>
  qCheck "mm" o.q.mm (some I128MAX) V x o

def vQuery (V : Int) (x : Int) (who : Nat) (prev o : Obs) : Option String :=
  if ¬ sameState prev o then some "site=vault.query.state a query changed the state"
  else checkQuery V x who o

/-! ### checks of an accepted deposit / mint / withdraw / redeem

`x` the amount on the op line, `ret` the returned amount, `r` receiver, `p` payer (entries) resp.
owner (exits), `op` operator; `y = S + V`, `d = A + 1` of the previous observation `pre`. -/

def lt3 (a : List Nat) : Option (Nat × Nat × Nat) :=
  match a with
  | [x, y, z] => some (x, y, z)
  | _ => none

/-- the answer of the preview that belongs to the operation -/
def qOf (k : VKind) (q : QA) : Option (Option Int) :=
  match k with
  | .deposit => q.pd
  | .mint => q.pm
  | .withdraw => q.pw
  | .redeem => q.pr

def vNeg (k : VKind) (x ret : Int) : Option String :=
  if x < 0 ∨ ret < 0 then some s!"site=vault.{k.name}.negative x={x} ret={ret}" else none

/-- 1. preview observed immediately before == returned amount -/
def vPreview (lastQ : Option (Int × Nat × Obs)) (k : VKind) (x ret : Int) : Option String :=
  match lastQ with
  | some (qx, _, qo) =>
    if qx ≠ x then some s!"site=vault.{k.name}.preview no preview for x={x}"
    else match qOf k qo.q with
      | some (some v) =>
        if v = ret then none else some s!"site=vault.{k.name}.preview preview said {v}, operation returned {ret}"
      | _ => some s!"site=vault.{k.name}.preview preview failed but the operation returned {ret}"
  | none => some s!"site=vault.{k.name}.preview no preview observed"

/-- 2. rounding direction by cross-multiplication (floor for what the user gets, ceil for what he pays) -/
def vRound (k : VKind) (x ret y d : Int) : Option String :=
  match k with
  | .deposit => if ret * d ≤ x * y ∧ x * y < (ret + 1) * d then none
      else some s!"site=vault.deposit.round shares={ret} is not floor({x}*{y}/{d})"
  | .mint => if (ret - 1) * y < x * d ∧ x * d ≤ ret * y then none
      else some s!"site=vault.mint.round assets={ret} is not ceil({x}*{d}/{y})"
  | .withdraw => if (ret - 1) * d < x * y ∧ x * y ≤ ret * d then none
      else some s!"site=vault.withdraw.round shares={ret} is not ceil({x}*{y}/{d})"
  | .redeem => if ret * y ≤ x * d ∧ x * d < (ret + 1) * y then none
      else some s!"site=vault.redeem.round assets={ret} is not floor({x}*{d}/{y})"

/-- 3. limits -/
def vLimit (k : VKind) (x bal y d : Int) : Option String :=
  match k with
  | .withdraw => match specConv bal d y false with
      | some mw => if x ≤ mw then none else some s!"site=vault.withdraw.max {x} > max_withdraw {mw}"
      | none => some "site=vault.withdraw.max max_withdraw must fail"
  | .redeem => if x ≤ bal then none else some s!"site=vault.redeem.max {x} > max_redeem {bal}"
  | _ => none

def assetsOf (k : VKind) (x ret : Int) : Int := if k.namesAssets then x else ret
def sharesOf (k : VKind) (x ret : Int) : Int := if k.namesAssets then ret else x

def abExp (k : VKind) (pre : Obs) (r p : Nat) (assets : Int) : List Int :=
  if k.inflow then addAt (addAt pre.ab p (-assets)) VAULT assets
  else addAt (addAt pre.ab VAULT (-assets)) r assets

def sbExp (k : VKind) (pre : Obs) (r p : Nat) (shares : Int) : List Int :=
  if k.inflow then addAt pre.sb r shares else addAt pre.sb p (-shares)

def sExp (k : VKind) (pre : Obs) (shares : Int) : Int :=
  if k.inflow then pre.S + shares else pre.S - shares

/-- 4. exactly (assets, shares) moved between exactly the named parties and the vault -/
def vMove (k : VKind) (r p : Nat) (assets shares : Int) (pre o : Obs) : Option String :=
  if o.ab ≠ abExp k pre r p assets then
    some s!"site=vault.{k.name}.move asset balances {o.ab}, expected {abExp k pre r p assets}"
  else if o.sb ≠ sbExp k pre r p shares then
    some s!"site=vault.{k.name}.move share balances {o.sb}, expected {sbExp k pre r p shares}"
  else if o.S ≠ sExp k pre shares then
    some s!"site=vault.{k.name}.move share supply {o.S}, expected {sExp k pre shares}"
  else if o.A ≠ o.ab.getD VAULT 0 then
    some s!"site=vault.{k.name}.move total_assets {o.A} is not the vault's asset balance"
  else if o.asup ≠ pre.asup then some s!"site=vault.{k.name}.move asset supply changed"
  else none

/-- 5. allowances: the operator of somebody else's funds spends exactly the amount -/
def vAllow (k : VKind) (p op : Nat) (assets shares : Int) (pre o : Obs) : Option String :=
  if k.inflow then
    if ¬ allowMoved pre.aal o.aal (if op ≠ p then some (p, op, assets) else none) then
      some s!"site=vault.{k.name}.allowance asset allowance not spent exactly"
    else if ¬ allowMoved pre.sal o.sal none then some s!"site=vault.{k.name}.allowance share allowance changed"
    else none
  else
    if ¬ allowMoved pre.sal o.sal (if op ≠ p then some (p, op, shares) else none) then
      some s!"site=vault.{k.name}.allowance operator {op} != owner {p}: share allowance {allowOf pre.sal p op} -> {allowOf o.sal p op}, shares burned {shares}"
    else if ¬ allowMoved pre.aal o.aal none then some s!"site=vault.{k.name}.allowance asset allowance changed"
    else none

def evExp (k : VKind) (r p op : Nat) (assets shares : Int) : Ev :=
  if k.inflow then .dep (some op) (some p) (some r) (some assets) (some shares)
  else .wd (some op) (some r) (some p) (some assets) (some shares)

/-- the expected event as printed (for the message only) -/
def evExpRaw (k : VKind) (r p op : Nat) (assets shares : Int) : List String :=
  if k.inflow then ["dep", toString op, toString p, toString r, toString assets, toString shares]
  else ["wd", toString op, toString r, toString p, toString assets, toString shares]

/-- 6. the event names the same parties and amounts -/
def vEvent (k : VKind) (r p op : Nat) (assets shares : Int) (o : Obs) : Option String :=
  if o.evs.contains (evExp k r p op assets shares) then none
  else some s!"site=vault.{k.name}.event expected event {evExpRaw k r p op assets shares}, got {o.evsRaw}"

/-- 6. the operator authorized -/
def vAuth (k : VKind) (op : Nat) (o : Obs) : Option String :=
  if o.dem.contains op then none else some s!"site=vault.{k.name}.auth operator {op} was not asked to authorize"

def checkVaultOp (offset : Nat) (lastQ : Option (Int × Nat × Obs)) (k : VKind) (x : Int) (r p op : Nat)
    (pre o : Obs) : Option String :=
  match o.ret with
  | none => some s!"site=vault.{k.name}.ret no return value"
  | some ret =>
    orElse (vNeg k x ret) fun _ =>
    orElse (vPreview lastQ k x ret) fun _ =>
    orElse (vRound k x ret (pre.S + 10 ^ offset) (pre.A + 1)) fun _ =>
    orElse (vLimit k x (pre.sb.getD p 0) (pre.S + 10 ^ offset) (pre.A + 1)) fun _ =>
    orElse (vMove k r p (assetsOf k x ret) (sharesOf k x ret) pre o) fun _ =>
    orElse (vAllow k p op (assetsOf k x ret) (sharesOf k x ret) pre o) fun _ =>
    orElse (vEvent k r p op (assetsOf k x ret) (sharesOf k x ret) o) fun _ =>
    vAuth k op o

/-! ### the monitor's step -/

def vAdvance (prev o : Obs) : Option String :=
  if sameState prev o then none else some "site=vault.advance balances changed"

def vShareTok (name : String) (prev o : Obs) : Option String :=
  if o.S ≠ prev.S ∨ o.ab ≠ prev.ab ∨ o.A ≠ prev.A then
    some s!"site=vault.supply a share-token {name} changed the share supply or an asset balance"
  else none

def vAssetTok (name : String) (prev o : Obs) : Option String :=
  if o.S ≠ prev.S ∨ o.sb ≠ prev.sb then some s!"site=vault.supply an asset-token {name} changed shares" else none

def vVault (m : Mon) (k : VKind) (l : Line) (prev o : Obs) : Option String :=
  match lt3 l.a with
  | some (r, p, op) => checkVaultOp m.offset m.lastQ k l.x r p op prev o
  | none => some "site=vault.parse bad op line"

/-- the checks that depend on the kind of the op line (accepted calls only) -/
def specific (m : Mon) (l : Line) (prev o : Obs) : Option String :=
  if ¬ o.ok then none
  else match l.kind with
    | .query => vQuery (10 ^ m.offset) l.x l.who prev o
    | .vault k => vVault m k l prev o
    | .advance => vAdvance prev o
    | .shareTok name => vShareTok name prev o
    | .assetTok name => vAssetTok name prev o
    | .other => none

def lastQOf (l : Line) (o : Obs) : Option (Int × Nat × Obs) :=
  match l.kind with
  | .query => some (l.x, l.who, o)
  | _ => none

/-- the monitor's step on parsed values (every line except `vault construct`) -/
def checkCore (m : Mon) (l : Line) (o : Obs) : Mon × Option String :=
  ({ m with prev := some o, replay := o.evs.foldl replayEv m.replay, lastQ := lastQOf l o },
   orElse (generic (m.prev.getD zeroObs) (10 ^ m.offset) (o.evs.foldl replayEv m.replay) o) fun _ =>
     specific m l (m.prev.getD zeroObs) o)

/-- the monitor's step on `vault construct offset=<off>`: `okc` = the observation starts with `ok`,
`o` = the parsed observation (if it parses) -/
def checkConstruct (m : Mon) (off : Nat) (okc : Bool) (o : Option Obs) : Mon × Option String :=
  ({ m with offset := off, prev := if okc then o else none },
   if okc ∧ off > 10 then some s!"site=vault.offset vault constructed with decimals offset {off} > 10" else none)

/-- the monitor's initial state for a sequence (the driver's `minit`, whatever the label) -/
def monInit : Mon := { offset := 0, prev := none, lastQ := none, replay := List.replicate N 0 }

/-! ### the model's observation (what `Drv.C05.stepLine` prints for the model)

`showState s` prints `A=totalAssets S=totalShares sb=<share balances of 0..4> ab=<asset balances of
0..4> asup=<asset supply> sal=<non-zero share allowances as the getter reads them> aal=<the same of
the asset token>`, then `now=<ledger of the share token>`. -/

/-- a vault-contract event as the parser reads its printed form (`showVEvent`): approvals are
dropped, every numeric field is a decimal numeral -/
def evOf : Event → Option Ev
  | .deposit o f r a sh => some (.dep (some o) (some f) (some r) (some a) (some sh))
  | .withdraw o r ow a sh => some (.wd (some o) (some r) (some ow) (some a) (some sh))
  | .token (.mint t a) => some (.mint (some t) (some a))
  | .token (.burn f a) => some (.burn (some f) (some a))
  | .token (.transfer f t a) => some (.transfer (some f) (some t) (some a))
  | .token (.approve _ _ _ _) => none

def stateObs (s : State) (ok : Bool) (ret : Option Int) (evs : List Ev) (dem : List Nat) (q : QA) : Obs :=
  { ok := ok, ret := ret, A := totalAssets s, S := totalShares s,
    sb := (List.range N).map s.sh.bal, ab := (List.range N).map s.ast.bal, asup := s.ast.supply,
    sal := allowList N s.sh, aal := allowList N s.ast, now := s.sh.now,
    evs := evs, evsRaw := [], dem := dem, q := q }

/-- `showQ`: a failed query prints `e` -/
def toOpt : Except Err Int → Option Int
  | .ok v => some v
  | .error _ => none

/-- the ten answers of `vault query x=<x> who=<who>` -/
def answers (s : State) (x : Int) (who : Nat) : QA :=
  { pd := some (toOpt (previewDeposit s x)), pm := some (toOpt (previewMint s x)),
    pw := some (toOpt (previewWithdraw s x)), pr := some (toOpt (previewRedeem s x)),
    cs := some (toOpt (convertToSharesQ s x)), ca := some (toOpt (convertToAssetsQ s x)),
    mw := some (toOpt (maxWithdraw s who)), mr := some (some (maxRedeem s who)),
    md := some (some maxDeposit), mm := some (some maxMint) }

/-- `ok ret=- <state> now=.. ev=- dem=-` after a successful constructor -/
def obsConstruct (s : State) : Obs := stateObs s true none [] [] QA.none

/-- `ok ret=- pd=.. .. mm=.. <state> now=.. ev=- dem=-` -/
def obsQuery (s : State) (x : Int) (who : Nat) : Obs := stateObs s true none [] [] (answers s x who)

def isVaultOp : Op → Bool
  | .deposit .. => true
  | .mint .. => true
  | .withdraw .. => true
  | .redeem .. => true
  | _ => false

def demOf (op : Op) : List Nat :=
  match op with
  | .advance _ => []
  | _ => (op.required).mergeSort (· ≤ ·)

/-- `ok ret=<returned amount of a vault operation|-> <state> now=.. ev=<new events> dem=<demanded>` -/
def obsOk (s s' : State) (op : Op) (ret : Int) : Obs :=
  stateObs s' true (if isVaultOp op then some ret else none)
    ((s'.events.drop s.events.length).filterMap evOf) (demOf op) QA.none

/-- `err ret=- <state> now=.. ev=- dem=-` -/
def obsErr (s : State) : Obs := stateObs s false none [] [] QA.none

/-- a line of a sequence after the constructor, as the harness writes them -/
inductive Call where
  | query (x : Int) (who : Nat)
  | call (auth : List Nat) (op : Op)

/-- one line through the model: the new state (unchanged by a query and when the call is rejected:
the host rolls back) and the observation -/
def stepObs (c : Cfg) (s : State) : Call → State × Obs
  | .query x who => (s, obsQuery s x who)
  | .call auth op =>
    match apply c s auth op with
    | .ok r => (r.1, obsOk s r.1 op r.2)
    | .error _ => (s, obsErr s)

def tokName : OZ.Fungible.Op → String
  | .mint _ _ => "mint"
  | .transfer _ _ _ => "transfer"
  | .transferFrom _ _ _ _ => "transfer_from"
  | .approve _ _ _ _ => "approve"
  | .burn _ _ => "burn"
  | .burnFrom _ _ _ => "burn_from"
  | .advance _ => "advance"

def tokAmt : OZ.Fungible.Op → Int
  | .mint _ a => a
  | .transfer _ _ a => a
  | .transferFrom _ _ _ a => a
  | .approve _ _ a _ => a
  | .burn _ a => a
  | .burnFrom _ _ a => a
  | .advance _ => 0

/-- what `Drv.C05.parseLine` reads from the harness's rendering of a line (the same fields
`Drv.C05.parseOp` builds the model's `Op` from) -/
def lineOf : Call → Line
  | .query x who => { kind := .query, x := x, a := [], who := who }
  | .call _ (.deposit _ x r f o) => { kind := .vault .deposit, x := x, a := [r, f, o], who := 0 }
  | .call _ (.mint _ x r f o) => { kind := .vault .mint, x := x, a := [r, f, o], who := 0 }
  | .call _ (.withdraw x r ow o) => { kind := .vault .withdraw, x := x, a := [r, ow, o], who := 0 }
  | .call _ (.redeem x r ow o) => { kind := .vault .redeem, x := x, a := [r, ow, o], who := 0 }
  | .call _ (.share op) => { kind := .shareTok ("s_" ++ tokName op), x := tokAmt op, a := op.addrs, who := 0 }
  | .call _ (.asset op) => { kind := .assetTok ("a_" ++ tokName op), x := tokAmt op, a := op.addrs, who := 0 }
  | .call _ (.advance _) => { kind := .advance, x := 0, a := [], who := 0 }

end OZ.Vault.Mon
