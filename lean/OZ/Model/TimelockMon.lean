import OZ.Model.Timelock
/-
The C08 MONITOR on parsed values (the driver OZ/Drv/C08.lean parses the trace lines and calls
`checkCore`; it never calls the model's transition function). Kept apart from the driver so that
OZ/Props/C08Mon.lean can prove it SOUND: on the observations of the model itself the monitor never
reports a failure (`monitor_accepts_every_model_trace`), hence an implementation whose
observations agree with the model's cannot raise a monitor alarm. Import-free apart from the model.

The monitor keeps its own ghost log of the accepted schedule / cancel / execute calls seen on the
IMPLEMENTATION trace, keyed by the canonical operation tuple (`Key`: the tuple itself, i.e. the
model's term `Id`; `none` stands for an unresolvable reference, printed `?`), and checks on every
implementation observation
  * each accepted execution against the property's conditions (scheduled, not cancelled since,
    delay elapsed, predecessor zero or executed, never executed before), each accepted
    schedule / cancel likewise,
  * every reported state, ledger value and predicate of every id against the ghost log,
  * that the target was invoked exactly once, with the scheduled function and argument, by an
    accepted `execute` and by nothing else,
  * that nothing stored changes while the ledger advances: only Waiting → Ready by time,
  * that a rejected call changed nothing,
  * id-equality ⇔ tuple-equality for every defined operation.
-/
namespace OZ.Timelock.Mon
open OZ.Host OZ.Timelock

/-- the correspondence is validated for ledger sequences up to `u32::MAX -
TIMELOCK_EXTEND_AMOUNT`; beyond, the host refuses `extend_ttl` (the harness never goes there) -/
def HORIZON : Nat := U32_MAX - 518400

/-! ### parsed trace lines -/

/-- a reference to an id on the wire: `z`, `r<n>`, `o<k>` (the k-th definition), anything else -/
inductive Ref where
  | z
  | raw (n : Nat)
  | op (k : Nat)
  | bad
  deriving DecidableEq, Repr

/-- a call line `tl <kind> …` other than `def` -/
inductive CallLine where
  | min (d : Option Nat)
  | sched (k d : Nat)
  | cancel (r : Ref)
  | advance (n : Nat)
  | exec (k callok : Nat)
  | setexec (k : Nat)
  /-- any other kind: the monitor treats it like `setexec` -/
  | other (kind : String) (k : Nat)
  deriving Repr

inductive Line where
  | defn (t f : Nat) (args : List Nat) (p : Ref) (s : Nat)
  | badDef
  | call (c : CallLine)
  deriving Repr

def CallLine.kind : CallLine → String
  | .min _ => "min"
  | .sched _ _ => "sched"
  | .cancel _ => "cancel"
  | .advance _ => "advance"
  | .exec _ _ => "exec"
  | .setexec _ => "setexec"
  | .other k _ => k

/-- a key of the monitor's ghost log: the canonical operation tuple / 32-byte literal; `none` = `?` -/
abbrev Key := Option Id

def idUniverse (defs : List Operation) : List Id := defs.map Operation.id ++ [Id.zero, Id.raw 1]

/-- what a wire reference denotes, given the definitions so far -/
def refKey (defs : List Operation) : Ref → Key
  | .z => some Id.zero
  | .raw n => some (Id.raw n)
  | .op k => (defs[k]?).map Operation.id
  | .bad => none

def showArgs (a : List Nat) : String := if a.isEmpty then "-" else ".".intercalate (a.map toString)

/-- canonical text of a tuple (messages only) -/
def idText : Id → String
  | .raw n => s!"raw{n}"
  | .op t f a p s => s!"op({t},{f},{showArgs a},{idText p},{s})"

def keyText : Key → String
  | some i => idText i
  | none => "?"

/-! ### parsed observations -/

structure IdObs where
  code : String
  ledger : Nat
  flags : String
  deriving DecidableEq

/-- a target's counter: number of calls, function and first argument of the last one -/
structure CallObs where
  cnt : Nat
  fn : Option Nat
  a0 : Option Nat
  deriving DecidableEq

structure Obs where
  ok : Bool
  eq : Option (List Nat)
  now : Nat
  min : Option Nat
  st : List IdObs
  calls : List CallObs

def showOptNat (o : Option Nat) : String := match o with | some a => toString a | none => "-"

def showCall (c : CallObs) : String := s!"{c.cnt}:{showOptNat c.fn}:{showOptNat c.a0}"

def showCallsL (l : List CallObs) : String := ",".intercalate (l.map showCall)

/-! ### monitor state -/

inductive G where
  | unset
  | pending (l d : Nat)
  | done
  deriving DecidableEq

structure Mon where
  defs : List Operation              -- the operations defined so far (parsed tuples)
  ghost : List (Key × G)             -- newest binding first
  prev : Option Obs
  start : Nat

def Mon.get (m : Mon) (k : Key) : G :=
  match m.ghost.find? (fun p => p.1 = k) with
  | some (_, g) => g
  | none => .unset

def Mon.set (m : Mon) (k : Key) (g : G) : Mon := { m with ghost := (k, g) :: m.ghost }

def satU32 (a b : Nat) : Nat := if a + b > 4294967295 then 4294967295 else a + b

/-- what the property prescribes for an id at ledger `now`: (code, ledger value, flags) -/
def expected (g : G) (now : Nat) : IdObs :=
  match g with
  | .unset => ⟨"U", 0, "0000"⟩
  | .done => ⟨"D", 1, "1001"⟩
  | .pending l d =>
    if l + d ≤ now ∨ (l + d > 4294967295 ∧ now = 4294967295) then ⟨"R", satU32 l d, "1110"⟩
    else ⟨"W", satU32 l d, "1100"⟩

def universeKeys (m : Mon) : List Key := (idUniverse m.defs).map some

/-- does the reported triple of key `p.1` differ from what the ghost log prescribes? -/
def isBad (m : Mon) (now : Nat) (p : Key × IdObs) : Bool := decide (expected (m.get p.1) now ≠ p.2)

def checkStates (m : Mon) (o : Obs) : Option String :=
  if (universeKeys m).length ≠ o.st.length then
    some s!"site=timelock.universe {o.st.length} ids reported, {(universeKeys m).length} expected"
  else
    match ((universeKeys m).zip o.st).filter (isBad m o.now) with
    | [] => none
    | (k, io) :: _ =>
      some s!"site=timelock.state id {keyText k}: reported {io.code}:{io.ledger}:{io.flags} but the accepted history prescribes {(expected (m.get k) o.now).code}:{(expected (m.get k) o.now).ledger}:{(expected (m.get k) o.now).flags} at ledger {o.now}"

def prevNow (m : Mon) : Nat := match m.prev with | some p => p.now | none => m.start
def prevMin (m : Mon) : Option Nat := match m.prev with | some p => p.min | none => none
def prevCalls (m : Mon) : List CallObs :=
  match m.prev with | some p => p.calls | none => [⟨0, none, none⟩, ⟨0, none, none⟩]
def prevSt (m : Mon) : List IdObs := match m.prev with | some p => p.st | none => []

def firstSome (a b : Option String) : Option String :=
  match a with
  | some x => some x
  | none => b

/-- remember the observation; the verdict on the call, else the state check of every id -/
def fin (o : Obs) (m' : Mon) (f : Option String) : Mon × Option String :=
  ({ m' with prev := some o }, firstSome f (checkStates { m' with prev := some o } o))

/-! ### verdicts -/

def callsSame (m : Mon) (kind : String) (o : Obs) : Option String :=
  if o.calls ≠ prevCalls m then some s!"site=timelock.calls a target was invoked by `{kind}`" else none

def stable (m : Mon) (kind : String) (o : Obs) : Option String :=
  if o.now ≠ prevNow m then some s!"site=timelock.now the ledger moved during `{kind}`"
  else if kind ≠ "min" ∧ o.min ≠ prevMin m then some s!"site=timelock.min the minimum delay changed during `{kind}`"
  else none

/-- a rejected call changes nothing (the ledger sequence included) -/
def changed (m : Mon) (o : Obs) : Bool :=
  match m.prev with
  | some p => p.st != o.st || p.min != o.min || p.calls != o.calls || p.now != o.now
  | none => false

def verdictRejected (m : Mon) (o : Obs) : Option String :=
  if changed m o then some "site=timelock.rollback a rejected call changed the observable state" else none

/-- id-equality ⇔ tuple-equality: the earlier definitions with the same tuple -/
def sameTuples (defs : List Operation) (op : Operation) : List Nat :=
  (List.range defs.length).filter (fun j => (defs[j]?).map Operation.id = some op.id)

def verdictDef (m : Mon) (op : Operation) (o : Obs) : Option String :=
  if o.eq ≠ some (sameTuples m.defs op) then
    some s!"site=timelock.id operation {idText op.id}: ids equal to those of definitions {o.eq.getD []}, tuples equal to {sameTuples m.defs op}"
  else none

/-- across an idle gap nothing stored may change: only Waiting → Ready, by time, same ledger value -/
def lostAt (m : Mon) (n : Nat) (o : Obs) (i : Nat) : Option String :=
  match (prevSt m)[i]?, o.st[i]? with
  | some a, some b =>
    if a = b then none
    else if a.code = "W" ∧ b.code = "R" ∧ a.ledger = b.ledger ∧ b.ledger ≤ o.now then none
    else some s!"site=timelock.idle.lost id {keyText ((universeKeys m)[i]?.getD none)}: {a.code}:{a.ledger} before an idle gap of {n} ledgers, {b.code}:{b.ledger} after it"
  | _, _ => none

def lost (m : Mon) (n : Nat) (o : Obs) : List String :=
  (List.range (prevSt m).length).filterMap (lostAt m n o)

def verdictAdvance (m : Mon) (n : Nat) (o : Obs) : Option String :=
  if o.now ≠ prevNow m + n then some "site=timelock.advance ledger not advanced as requested"
  else if o.min ≠ prevMin m then some s!"site=timelock.idle.lost the minimum delay changed over an idle gap of {n} ledgers"
  else match lost m n o with
    | w :: _ => some w
    | [] => callsSame m "advance" o

def verdictMin (m : Mon) (d : Option Nat) (o : Obs) : Option String :=
  if o.min ≠ d then some "site=timelock.min minimum delay not stored"
  else firstSome (stable m "min" o) (callsSame m "min" o)

def schedCond (m : Mon) (key : Key) (d : Nat) : Option String :=
  match m.get key, prevMin m with
  | .unset, some mn =>
    if d < mn then some s!"site=timelock.schedule.delay accepted delay {d} below the minimum delay {mn} in force" else none
  | .unset, none => some "site=timelock.schedule.nomin schedule accepted although no minimum delay is set"
  | .done, _ => some s!"site=timelock.schedule.done {keyText key} was re-scheduled after being executed"
  | .pending _ _, _ => some s!"site=timelock.schedule.twice {keyText key} was scheduled while pending"

def cancelCond (m : Mon) (key : Key) : Option String :=
  match m.get key with
  | .pending _ _ => none
  | .done => some s!"site=timelock.cancel.done {keyText key} was cancelled after being executed"
  | .unset => some s!"site=timelock.cancel.unset {keyText key} was cancelled although not pending"

def execCond (m : Mon) (key pk : Key) (now : Nat) : Option String :=
  match m.get key with
  | .unset => some s!"site=timelock.execute.unscheduled {keyText key} executed although not scheduled (or cancelled since)"
  | .done => some s!"site=timelock.execute.twice {keyText key} executed a second time"
  | .pending l d =>
    if ¬ (l + d ≤ now ∨ (l + d > 4294967295 ∧ now = 4294967295)) then
      some s!"site=timelock.execute.early {keyText key} scheduled at {l} with delay {d} executed at ledger {now}"
    else if pk ≠ some Id.zero ∧ m.get pk ≠ .done then
      some s!"site=timelock.execute.predecessor {keyText key} executed before its predecessor {keyText pk}"
    else none

/-- (target, function, first argument) of the k-th definition -/
def tupleOf (defs : List Operation) (k : Nat) : Nat × Nat × Nat :=
  match defs[k]? with
  | some op => (op.target, op.fn, op.args.headD 0)
  | none => (9, 9, 9)

/-- the targets' counters an accepted `execute` of (t, fn, a0) must leave behind -/
def expectedCalls (pc : List CallObs) (t fn a0 : Nat) : List (Option CallObs) :=
  (List.range 2).map (fun i =>
    if i = t then some ⟨(pc[i]?.getD ⟨0, none, none⟩).cnt + 1, some fn, some a0⟩ else pc[i]?)

def execCalls (m : Mon) (k : Nat) (o : Obs) : Option String :=
  if o.calls.map some ≠ expectedCalls (prevCalls m) (tupleOf m.defs k).1 (tupleOf m.defs k).2.1 (tupleOf m.defs k).2.2 then
    some s!"site=timelock.execute.call target calls are {showCallsL o.calls}, expected exactly one more call ({(tupleOf m.defs k).1},{(tupleOf m.defs k).2.1},{(tupleOf m.defs k).2.2}) after {showCallsL (prevCalls m)}"
  else none

def keyOf (m : Mon) (k : Nat) : Key := (m.defs[k]?).map Operation.id
def predOf (m : Mon) (k : Nat) : Key := (m.defs[k]?).map Operation.pred

/-- an accepted call: the property's conditions on the ghost log, then nothing else moved -/
def checkAccepted (m : Mon) (c : CallLine) (o : Obs) : Mon × Option String :=
  match c with
  | .advance n => fin o m (verdictAdvance m n o)
  | .min d => fin o m (verdictMin m d o)
  | .sched k d =>
    fin o (m.set (keyOf m k) (.pending (prevNow m) d))
      (firstSome (schedCond m (keyOf m k) d) (firstSome (stable m "sched" o) (callsSame m "sched" o)))
  | .cancel r =>
    fin o (m.set (refKey m.defs r) .unset)
      (firstSome (cancelCond m (refKey m.defs r)) (firstSome (stable m "cancel" o) (callsSame m "cancel" o)))
  | .exec k _ =>
    fin o (m.set (keyOf m k) .done)
      (firstSome (execCond m (keyOf m k) (predOf m k) o.now) (firstSome (stable m "exec" o) (execCalls m k o)))
  | .setexec k =>
    fin o (m.set (keyOf m k) .done)
      (firstSome (execCond m (keyOf m k) (predOf m k) o.now) (firstSome (stable m "setexec" o) (callsSame m "setexec" o)))
  | .other kind k =>
    fin o (m.set (keyOf m k) .done)
      (firstSome (execCond m (keyOf m k) (predOf m k) o.now) (firstSome (stable m kind o) (callsSame m kind o)))

def checkDef (m : Mon) (t f : Nat) (args : List Nat) (p : Ref) (s : Nat) (o : Obs) : Mon × Option String :=
  match refKey m.defs p with
  | none => fin o m (some "site=timelock.parse bad def line")
  | some pid =>
    fin o { m with defs := m.defs ++ [⟨t, f, args, pid, s⟩] } (verdictDef m ⟨t, f, args, pid, s⟩ o)

/-- the monitor's step on parsed values -/
def checkCore (m : Mon) (ln : Line) (o : Obs) : Mon × Option String :=
  if o.now < 2 then fin o m (some "site=timelock.regime ledger below 2")
  else
    match ln with
    | .badDef => fin o m (some "site=timelock.parse bad def line")
    | .defn t f args p s => checkDef m t f args p s o
    | .call c => if ¬ o.ok then fin o m (verdictRejected m o) else checkAccepted m c o

def monInit (start : Nat) : Mon := { defs := [], ghost := [], prev := none, start := start }

end OZ.Timelock.Mon
