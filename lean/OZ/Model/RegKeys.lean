import OZ.Model.RegUtil
/-
Model of the signing-key registry of packages/tokens/src/rwa/claim_issuer/storage.rs
(`allow_key`, `remove_key` and the four getters), line by line, AFTER the `fix:` commit
(`pairs.len() > MAX_REGISTRIES_PER_KEY`); `allowKeyLegacy` keeps the old test (`>=`).

Storage: `Topics(topic) -> Vec<SigningKey>`, `Pairs(SigningKey) -> Vec<(topic, registry)>`;
both entries are removed when their vector becomes empty, so `[]` = "no entry".
A signing key is `(public key number, scheme)`; public key number 0 is the empty byte string.
`allowed r t` is the answer of `ClaimTopicsAndIssuersClient(r).has_claim_topic(self, t)`
(a failing cross-contract call counts as `false`: both abort `allow_key`).
-/
namespace OZ.RegKeys
open OZ.Reg

abbrev Key := Nat × Nat
abbrev Pair := Nat × Nat      -- (topic, registry)

def MAX_KEYS_PER_TOPIC : Nat := 50
def MAX_REGISTRIES_PER_KEY : Nat := 20

structure State where
  topics : Nat → List Key
  pairs : Key → List Pair

def init : State := { topics := fun _ => [], pairs := fun _ => [] }

/-! ### getters -/

/-- `get_keys_for_topic` (`none` = `NoKeysForTopic`) -/
def getKeysForTopic (s : State) (t : Nat) : Option (List Key) :=
  if s.topics t = [] then none else some (s.topics t)

/-- `get_registries` (`none` = `KeyNotFound`) -/
def getRegistries (s : State) (k : Key) : Option (List Nat) :=
  if s.pairs k = [] then none else some ((s.pairs k).map (·.2))

/-- `is_key_allowed_for_topic` -/
def isKeyAllowedForTopic (s : State) (k : Key) (t : Nat) : Bool := (s.topics t).contains k

/-- `is_key_allowed_for_registry` -/
def isKeyAllowedForRegistry (s : State) (k : Key) (r : Nat) : Bool :=
  (s.pairs k).any (fun p => p.2 == r)

/-! ### allow_key -/

/-- the `if !is_key_allowed_for_topic { ... }` block of `allow_key` -/
def addTopicKey (s : State) (k : Key) (t : Nat) : Except RErr State :=
  if isKeyAllowedForTopic s k t then .ok s
  else if (s.topics t).length ≥ MAX_KEYS_PER_TOPIC then .error .limit
  else .ok { s with topics := updD s.topics t (s.topics t ++ [k]) }

/-- the `Pairs` half of `allow_key` (fixed code: push, then `len > MAX`) -/
def addPair (s : State) (k : Key) (t r : Nat) : Except RErr State :=
  if (s.pairs k).contains (t, r) then .error .dup
  else if (s.pairs k ++ [(t, r)]).length > MAX_REGISTRIES_PER_KEY then .error .limit
  else .ok { s with pairs := updD s.pairs k (s.pairs k ++ [(t, r)]) }

/-- the same with the test of the unfixed tree (push, then `len >= MAX`) -/
def addPairLegacy (s : State) (k : Key) (t r : Nat) : Except RErr State :=
  if (s.pairs k).contains (t, r) then .error .dup
  else if (s.pairs k ++ [(t, r)]).length ≥ MAX_REGISTRIES_PER_KEY then .error .limit
  else .ok { s with pairs := updD s.pairs k (s.pairs k ++ [(t, r)]) }

/-- `allow_key(public_key, registry, scheme, claim_topic)` -/
def allowKey (allowed : Nat → Nat → Bool) (s : State) (k : Key) (r t : Nat) : Except RErr State :=
  if k.1 = 0 then .error .empty
  else if !allowed r t then .error .notAllowed
  else (addTopicKey s k t).bind (fun s1 => addPair s1 k t r)

def allowKeyLegacy (allowed : Nat → Nat → Bool) (s : State) (k : Key) (r t : Nat) : Except RErr State :=
  if k.1 = 0 then .error .empty
  else if !allowed r t then .error .notAllowed
  else (addTopicKey s k t).bind (fun s1 => addPairLegacy s1 k t r)

/-! ### remove_key -/

/-- the "If no more pairs (claim_topic, *), update Topics mapping" block -/
def dropTopicKey (s : State) (k : Key) (t : Nat) : Except RErr State :=
  if (s.pairs k).any (fun p => p.1 == t) then .ok s
  else if s.topics t = [] then .error .panic               -- `.expect("signing keys ... present")`
  else if !(s.topics t).contains k then .error .panic      -- `.expect("key must be in topic keys")`
  else .ok { s with topics := updD s.topics t ((s.topics t).erase k) }

/-- `remove_key(public_key, registry, scheme, claim_topic)` -/
def removeKey (s : State) (k : Key) (r t : Nat) : Except RErr State :=
  if s.pairs k = [] then .error .absent
  else if !(s.pairs k).contains (t, r) then .error .absent
  else dropTopicKey { s with pairs := updD s.pairs k ((s.pairs k).erase (t, r)) } k t

/-! ### operation histories -/

inductive Op where
  | allow (k : Key) (r t : Nat)
  | remove (k : Key) (r t : Nat)
  deriving DecidableEq, Repr

def step (allowed : Nat → Nat → Bool) (s : State) : Op → Except RErr State
  | .allow k r t => allowKey allowed s k r t
  | .remove k r t => removeKey s k r t

/-- a failed invocation is rolled back by the host -/
def next (allowed : Nat → Nat → Bool) (s : State) (o : Op) : State :=
  match step allowed s o with
  | .ok s' => s'
  | .error _ => s

def run (allowed : Nat → Nat → Bool) (s : State) (ops : List Op) : State := ops.foldl (next allowed) s

/-! ### the plain relation the registry represents -/

/-- key `k` may sign topic `t` for registry `r` -/
def rel (s : State) (k : Key) (t r : Nat) : Prop := (t, r) ∈ s.pairs k

end OZ.RegKeys
