import OZ.Props.C19
import OZ.Model.FeeForwarderMon
/-
Helper lemmas for the soundness proof of the C19 monitor (OZ/Props/C19Mon.lean): list facts,
the link between the monitor's ghost allowed-set and the model's allow-list (`Good`), silence of
`checkAllowlist` on every model observation, and silence of each piece of the verdict on an
accepted forward / allow / sweep of the model.
-/
namespace OZ.FeeForwarder.Mon
open OZ.Host OZ.FeeForwarder

/-! ### lists -/

theorem getD_map_range {α} (n : Nat) (f : Nat → α) (d : α) (k : Nat) (hk : k < n) :
    ((List.range n).map f).getD k d = f k := by
  rw [List.getD_eq_getElem?_getD, List.getElem?_map, List.getElem?_range hk]; rfl

theorem nth_map_range (n : Nat) (f : Nat → Int) (h : Nat) (hh : h < n) :
    nth ((List.range n).map f) h = f h := getD_map_range n f 0 h hh

theorem nth_map_range_ge (n : Nat) (f : Nat → Int) (h : Nat) (hh : n ≤ h) :
    nth ((List.range n).map f) h = 0 := by
  unfold nth
  rw [List.getD_eq_getElem?_getD, List.getElem?_eq_none (by simp; exact hh)]; rfl

theorem zip_map_any {α β} (l : List α) (f : α → β) (P : α × β → Bool) :
    (l.zip (l.map f)).any P = l.any (fun t => P (t, f t)) := by
  induction l with
  | nil => rfl
  | cons x xs ih => simp [ih]

/-- pigeonhole: a duplicate-free list of numbers in `[a, a+n)` has at most `n` elements -/
theorem nodup_bounded_length (n : Nat) : ∀ (l : List Nat) (a : Nat), l.Nodup →
    (∀ x ∈ l, a ≤ x ∧ x < a + n) → l.length ≤ n := by
  induction n with
  | zero =>
    intro l a _ h
    cases l with
    | nil => simp
    | cons x xs => have := h x List.mem_cons_self; omega
  | succ n ih =>
    intro l a hn h
    have hn' : (l.erase (a + n)).Nodup := hn.sublist List.erase_sublist
    have hb : ∀ x ∈ l.erase (a + n), a ≤ x ∧ x < a + n := by
      intro x hx
      obtain ⟨hne, hm⟩ := (List.Nodup.mem_erase_iff hn).mp hx
      have := h x hm
      omega
    have := ih _ a hn' hb
    by_cases hm : a + n ∈ l
    · rw [List.length_erase_of_mem hm] at this; omega
    · rw [List.erase_of_not_mem hm] at this; omega

theorem range_add_two {α} (c : Nat) (f : Nat → α) :
    (List.range (c + 2)).map f = (List.range c).map f ++ [f c, f (c + 1)] := by
  simp [List.range_succ]

theorem toks_eq : toks = [8, 9, 10, 11] := by decide


/-! ### the ghost allowed-set and the model's allow-list -/

/-- the monitor's ghost set `g` describes the model's allow-list `al`, which is well-formed, and
holds observed fee tokens only -/
structure Good (al : AllowList) (g : List Nat) : Prop where
  wf : WF al
  nodup : g.Nodup
  len : g.length = al.count
  mem : ∀ t, t ∈ g ↔ (al.indexOf t).isSome = true
  univ : ∀ t ∈ g, TOK0 ≤ t ∧ t < TOK0 + NTOK

theorem good_empty : Good AllowList.empty [] :=
  ⟨wf_empty, List.nodup_nil, rfl, fun t => by simp [AllowList.empty], fun t h => by cases h⟩

theorem Good.count_le {al : AllowList} {g : List Nat} (h : Good al g) : al.count ≤ NTOK := by
  rw [← h.len]
  exact nodup_bounded_length NTOK g TOK0 h.nodup h.univ

theorem Good.contains_iff {al : AllowList} {g : List Nat} (h : Good al g) (t : Nat) :
    g.contains t = true ↔ (al.indexOf t).isSome = true := by
  rw [List.contains_iff_mem]; exact h.mem t

theorem tokenAt_none_of_ge {al : AllowList} (w : WF al) {i : Nat} (hi : al.count ≤ i) : al.tokenAt i = none := by
  cases h : al.tokenAt i with
  | none => rfl
  | some t => have := (w.fwd i t h).1; omega

theorem alAtOf_eq {al : AllowList} (hc : al.count ≤ NTOK) :
    alAtOf al = (List.range al.count).map (fun i => cellOf (al.tokenAt i)) ++
      [cellOf (al.tokenAt al.count), cellOf (al.tokenAt (al.count + 1))] := by
  unfold alAtOf
  rw [show min (al.count + 2) (NTOK + 2) = al.count + 2 from by omega]
  exact range_add_two al.count _

theorem num?_cellOf (x : Option Nat) : Cell.num? (cellOf x) = x := by cases x <;> rfl

theorem take_alAtOf {al : AllowList} (hc : al.count ≤ NTOK) :
    (alAtOf al).take al.count = (List.range al.count).map (fun i => cellOf (al.tokenAt i)) := by
  rw [alAtOf_eq hc, List.take_left' (by simp)]

theorem drop_alAtOf {al : AllowList} (hc : al.count ≤ NTOK) :
    (alAtOf al).drop al.count = [cellOf (al.tokenAt al.count), cellOf (al.tokenAt (al.count + 1))] := by
  rw [alAtOf_eq hc, List.drop_left' (by simp)]

theorem liveNats_model {al : AllowList} (hc : al.count ≤ NTOK) (o : Obs) (ho : o.alAt = alAtOf al) :
    liveNats al.count o = enumerate al := by
  unfold liveNats enumerate
  rw [ho, take_alAtOf hc, List.filterMap_map]
  congr 1
  funext i
  exact num?_cellOf _

theorem getD_alAtOf {al : AllowList} (hc : al.count ≤ NTOK) {i : Nat} (hi : i < al.count) :
    (alAtOf al).getD i .empty = cellOf (al.tokenAt i) := by
  unfold alAtOf
  rw [show min (al.count + 2) (NTOK + 2) = al.count + 2 from by omega]
  exact getD_map_range _ _ _ _ (by omega)

/-- the printed `TokenIndex(t)` cell of the model is never wrong -/
theorem idxCellBad_model {al : AllowList} {g : List Nat} (h : Good al g) (o : Obs) (ho : o.alAt = alAtOf al)
    (t : Nat) : idxCellBad g o t (cellOf (al.indexOf t)) = false := by
  unfold idxCellBad
  cases hi : al.indexOf t with
  | none =>
    have : g.contains t = false := by
      cases hc : g.contains t with
      | false => rfl
      | true => have := (h.contains_iff t).mp hc; rw [hi] at this; cases this
    rw [this]; simp [cellOf]
  | some i =>
    have : g.contains t = true := (h.contains_iff t).mpr (by rw [hi]; rfl)
    rw [this]
    obtain ⟨hlt, hat⟩ := h.wf.bwd t i hi
    simp only [cellOf, if_true]
    rw [ho, getD_alAtOf h.count_le hlt, hat]
    simp [cellOf]

theorem alAllowed_model {al : AllowList} {g : List Nat} (h : Good al g) : alAllowedOf al = expectAllowed g := by
  unfold alAllowedOf expectAllowed
  congr 1
  apply List.map_congr_left
  intro t _
  have hiff : isAllowedFeeToken al t = true ↔ (g.length = 0 ∨ g.contains t = true) := by
    rw [token_accepted_iff, h.len, h.contains_iff]
  by_cases ha : isAllowedFeeToken al t = true
  · rw [if_pos ha, if_pos (hiff.mp ha)]
  · rw [if_neg ha, if_neg (fun hh => ha (hiff.mpr hh))]

theorem alEnabled_model {al : AllowList} {g : List Nat} (h : Good al g) :
    (if allowlistEnabled al then "1" else "0") = (if g.length = 0 then "0" else "1") := by
  unfold allowlistEnabled
  rw [h.len]
  by_cases hc : al.count = 0
  · rw [if_pos hc, if_neg (by simp [hc])]
  · rw [if_neg hc, if_pos (by simp; omega)]

/-- **the allow-list part of the monitor is silent on every observation of the model** -/
theorem checkAllowlist_model {s : State} {g : List Nat} (h : Good s.al g) (ok : Bool) (dem : List DemEntry) :
    checkAllowlist g (obsOf s ok dem) = none := by
  have hc := h.count_le
  have hlive : liveNats g.length (obsOf s ok dem) = enumerate s.al := by
    rw [h.len]; exact liveNats_model hc _ rfl
  unfold checkAllowlist
  rw [if_neg (by simp [obsOf, h.len])]
  rw [if_neg (by
    rw [hlive]
    rintro (h1 | h1 | h1)
    · exact h1 (by rw [enumerate_length h.wf, h.len])
    · exact h1 (enumerate_nodup h.wf)
    · rw [List.any_eq_true] at h1
      obtain ⟨t, ht, hb⟩ := h1
      have : t ∈ g := (h.mem t).mpr ((mem_enumerate h.wf t).mp ht)
      simp [this] at hb)]
  rw [if_neg (by
    show ¬ (((alAtOf s.al).drop g.length).any (· ≠ .empty) = true)
    rw [h.len, drop_alAtOf hc, tokenAt_none_of_ge h.wf (Nat.le_refl _), tokenAt_none_of_ge h.wf (Nat.le_succ _)]
    simp [cellOf])]
  rw [if_neg (by
    show ¬ ((toks.zip (alIdxOf s.al)).any (fun x => idxCellBad g (obsOf s ok dem) x.1 x.2) = true)
    unfold alIdxOf
    rw [zip_map_any, Bool.not_eq_true, List.any_eq_false]
    intro t _
    rw [idxCellBad_model h _ rfl]; simp)]
  rw [if_neg (by
    show ¬ (alAllowedOf s.al ≠ expectAllowed g)
    rw [alAllowed_model h]; simp)]
  rw [if_neg (by
    show ¬ ((if allowlistEnabled s.al then "1" else "0") ≠ (if g.length = 0 then "0" else "1"))
    rw [alEnabled_model h]; simp)]


/-! ### the ghost set follows accepted allow / disallow operations -/

theorem good_allow {al al' : AllowList} {g : List Nat} {t : Nat} (h : Good al g)
    (ht : TOK0 ≤ t ∧ t < TOK0 + NTOK) (ha : allowToken al t = .ok al') :
    g.contains t = false ∧ Good al' (g ++ [t]) := by
  obtain ⟨hn, hb, e⟩ := allowToken_ok ha
  subst e
  have hnot : t ∉ g := fun hm => by have := (h.mem t).mp hm; rw [hn] at this; cases this
  refine ⟨by simpa using hnot, allow_wf h.wf hn hb, ?_, ?_, ?_, ?_⟩
  · rw [List.nodup_append]
    exact ⟨h.nodup, by simp, fun a hag b hb e => by
      rw [List.mem_singleton] at hb; subst hb; subst e; exact hnot hag⟩
  · simp [h.len]
  · intro x
    dsimp only
    by_cases hx : x = t
    · subst hx; rw [upd_same]; simp
    · rw [upd_other _ _ _ _ hx, ← h.mem x]; simp [hx]
  · intro x hx
    rw [List.mem_append, List.mem_singleton] at hx
    rcases hx with hx | hx
    · exact h.univ x hx
    · subst hx; exact ht

theorem good_disallow {al al' : AllowList} {g : List Nat} {t : Nat} (h : Good al g)
    (ha : disallowToken al t = .ok al') :
    g.contains t = true ∧ Good al' (g.filter (· ≠ t)) := by
  obtain ⟨ri, hi⟩ := disallowToken_ok ha
  rw [disallow_spec h.wf hi] at ha
  injection ha with ha; subst ha
  obtain ⟨w', hc, hm⟩ := removed_wf h.wf hi
  have hmem : t ∈ g := (h.mem t).mpr (by rw [hi]; rfl)
  refine ⟨by simpa using hmem, w', h.nodup.sublist List.filter_sublist, ?_, ?_, ?_⟩
  · rw [hc, ← h.len]
    have e : g.filter (· ≠ t) = g.erase t := by
      rw [List.Nodup.erase_eq_filter h.nodup]
      congr 1; funext x; by_cases hx : x = t <;> simp [hx]
    rw [e, List.length_erase_of_mem hmem]
  · intro x
    rw [hm x, List.mem_filter, h.mem x]
    simp [and_comm]
  · intro x hx
    exact h.univ x (List.mem_filter.mp hx).1


/-! ### observations of the model -/

theorem tokOf_obsOf (s : State) (ok : Bool) (dem : List DemEntry) {tok : Nat}
    (ht : TOK0 ≤ tok ∧ tok < TOK0 + NTOK) : tokOf (obsOf s ok dem) tok = tokObs s tok := by
  unfold tokOf
  show (toksObs s).getD (tok - TOK0) zeroTok = _
  unfold toksObs
  rw [getD_map_range _ _ _ _ (by omega)]
  congr 1
  omega

theorem tokOf_prev {prev : Obs} {s : State} (hp : prev.toks = toksObs s) {tok : Nat}
    (ht : TOK0 ≤ tok ∧ tok < TOK0 + NTOK) : tokOf prev tok = tokObs s tok := by
  unfold tokOf
  rw [hp]
  exact tokOf_obsOf s true [] ht

theorem tokObs_congr {s s' : State} {t : Nat} (h : tokAt s' t = tokAt s t) : tokObs s' t = tokObs s t := by
  unfold tokObs; rw [h]

theorem nth_bal (s : State) (t h : Nat) (hh : h < NHOLD) : nth (tokObs s t).bal h = (s.toks t).bal h :=
  nth_map_range _ _ _ hh

theorem nth_allow (s : State) (t h : Nat) (hh : h < NHOLD) :
    nth (tokObs s t).allow h = OZ.Fungible.allowance (tokAt s t) h FWD :=
  nth_map_range _ _ _ hh

theorem nth_allow_ge (s : State) (t h : Nat) (hh : NHOLD ≤ h) : nth (tokObs s t).allow h = 0 :=
  nth_map_range_ge _ _ _ hh

/-- the balances the monitor expects after moving `amt` from `a` to `b` are the model's -/
theorem expectBal_model (s s' : State) (t a b : Nat) (amt : Int)
    (hb : (s'.toks t).bal = upd (upd (s.toks t).bal a ((s.toks t).bal a - amt)) b
      ((upd (s.toks t).bal a ((s.toks t).bal a - amt)) b + amt)) :
    (tokObs s' t).bal = expectBal (tokObs s t) a b amt := by
  unfold expectBal
  show (List.range NHOLD).map (fun i => (s'.toks t).bal i) = _
  apply List.map_congr_left
  intro h hh
  rw [nth_bal s t h (List.mem_range.mp hh), hb]
  unfold upd
  by_cases h1 : h = b <;> by_cases h2 : h = a <;> by_cases h3 : b = a <;> simp [h1, h2, h3] <;> omega

/-! ### an accepted forward of the model -/

section forward
variable {cfg : Cfg} {s s' : State} {au : Auth} {c : Call} {user rcp : Nat} {ap : Approval} {tgt : Target}

theorem fwdBounds_model {g : List Nat} (hg : Good s.al g)
    (h : collectFeeAndInvoke (params cfg) s au c user rcp ap tgt = .ok s')
    (ht : TOK0 ≤ c.token ∧ c.token < TOK0 + NTOK) (dem : List DemEntry) :
    fwdBounds g c user (obsOf s' true dem) = none := by
  obtain ⟨f0, fm, hu, _, _, _, _, _, _, hnow⟩ := charges_exactly_fee h
  obtain ⟨hexp, _⟩ := forward_not_expired h
  obtain ⟨_, s1, h1, _⟩ := collectFeeAndInvoke_ok h
  have hal := (token_accepted_iff _ _).mp (collectFee_ok h1).1
  unfold fwdBounds
  have hu' : ¬ user = FWD := hu
  rw [if_neg (by simp; omega), if_neg (by show ¬ (c.expiration < s'.now); omega), if_neg hu',
    if_neg (by omega)]
  rw [if_neg (by
    rw [Classical.not_not]
    rcases hal with h0 | h1
    · left
      have : g.length = 0 := by rw [hg.len]; exact h0
      cases g with
      | nil => rfl
      | cons x xs => simp at this
    · right; exact (hg.contains_iff _).mpr h1)]

theorem fwdMoney_model {prev : Obs} (hp : prev.toks = toksObs s)
    (h : collectFeeAndInvoke (params cfg) s au c user rcp ap tgt = .ok s')
    (ht : TOK0 ≤ c.token ∧ c.token < TOK0 + NTOK) (dem : List DemEntry) :
    fwdMoney prev (obsOf s' true dem) c user rcp = none := by
  obtain ⟨f0, fm, hu, _, hb, _, hoth, _, _, hnow⟩ := charges_exactly_fee h
  obtain ⟨_, hothA, hothT⟩ := allowance_after_forward h
  obtain ⟨hget, hge0⟩ := allowance_getter_after_forward h
  have hself : (params cfg).self = FWD := rfl
  rw [hself] at hget hge0 hothA
  unfold fwdMoney
  rw [tokOf_obsOf s' true dem ht, tokOf_prev hp ht]
  rw [if_neg (by rw [expectBal_model s s' c.token user rcp c.fee hb]; simp)]
  rw [if_neg (by
    rw [Bool.not_eq_true, List.any_eq_false]
    intro j hj
    have hj4 : j < NTOK := List.mem_range.mp hj
    simp only [decide_eq_true_eq, not_and, Classical.not_not]
    intro hne
    show (toksObs s').getD j zeroTok = prev.toks.getD j zeroTok
    rw [hp]
    unfold toksObs
    rw [getD_map_range _ _ _ _ hj4, getD_map_range _ _ _ _ hj4]
    exact tokObs_congr (hothT _ (by unfold TOK0 at *; omega)))]
  rw [if_neg (by
    rw [Bool.not_eq_true, List.any_eq_false]
    intro x hx
    have hx8 : x < NHOLD := List.mem_range.mp hx
    simp only [decide_eq_true_eq, not_and, Classical.not_not]
    intro hne
    rw [nth_allow _ _ _ hx8, nth_allow _ _ _ hx8]
    unfold OZ.Fungible.allowance
    rw [hothA x FWD (fun hh => hne hh.1)])]
  rw [if_neg (by
    by_cases hu8 : user < NHOLD
    · rw [nth_allow _ _ _ hu8, nth_allow _ _ _ hu8, hget]
      split <;> omega
    · rw [nth_allow_ge _ _ _ (by omega), nth_allow_ge _ _ _ (by omega)]
      omega)]

theorem getLast?_snoc {α} (l : List α) (x : α) : (l ++ [x]).getLast? = some x := by simp

theorem fwdTarget_model {prev : Obs} (hn : prev.callsN = s.calls.length)
    (h : collectFeeAndInvoke (params cfg) s au c user rcp ap tgt = .ok s')
    (htg : c.target = TGT) (dem : List DemEntry) :
    fwdTarget prev (obsOf s' true dem) c = none := by
  obtain ⟨hcalls, _⟩ := target_invoked_once h
  unfold fwdTarget
  rw [if_neg (by
    show ¬ (s'.calls.length ≠ prev.callsN + 1 ∨ c.target ≠ TGT ∨ callsFnOf s' ≠ fnName c.fn ∨
      callsArgsOf s' ≠ showVals "," c.args)
    unfold callsFnOf callsArgsOf
    rw [hcalls, getLast?_snoc, hn]
    simp [htg])]

end forward


/-! ### the demanded authorizations of an accepted forward -/

/-- the approval strategy of the contract a sequence drives -/
def apFor (v : Var) (eager : Bool) : Approval :=
  match v with
  | .pl => .eager
  | .pd => .lazy
  | _ => apOf eager

theorem modelDem_forward (p : Params) (v : Var) (s : State) (all : Bool) (plain : List Nat) (ua : Option UserAuth)
    (c : Call) (u r : Nat) (tgt : Target) (eager : Bool) (a b : String) :
    modelDem p v s (.forward all plain ua c u r tgt eager a b) =
      (if needsRelayer v then [relEntry c u r] else []) ++ [userEntry u c (usedSubs p s c u (apFor v eager) tgt)] := by
  cases v <;> simp [modelDem, needsRelayer, apFor]

theorem isUserEntry_rel (c : Call) (user rel : Nat) : isUserEntry c user (relEntry c user rel) = false := by
  unfold isUserEntry relEntry
  have : callL c user rel ≠ tupleL c := fun h => by
    have := congrArg List.length h
    simp [callL, tupleL] at this
  simp [this]

theorem isUserEntry_user (c : Call) (user : Nat) (subs : List Inv) :
    isUserEntry c user (userEntry user c subs) = true := by
  simp [isUserEntry, userEntry]

theorem usedSubs_mem {p : Params} {s : State} {c : Call} {u : Nat} {ap : Approval} {tgt : Target} {i : Inv}
    (h : i ∈ usedSubs p s c u ap tgt) : i = approveInv p c.token u c.maxFee c.expiration ∨ i = targetInv c := by
  unfold usedSubs at h
  rw [List.mem_append] at h
  rcases h with h | h
  · split at h
    · left; simpa using h
    · cases h
  · split at h
    · right; simpa using h
    · cases h

/-- the `env.auths()` part of the monitor is silent on what the model demands for a forward -/
theorem fwdDem_model (cfg : Cfg) (v : Var) (c : Call) (user rel : Nat) (subs : List Inv)
    (hsubs : ∀ i ∈ subs, i = approveInv (params cfg) c.token user c.maxFee c.expiration ∨ i = targetInv c)
    (o : Obs)
    (ho : o.dem = sortEntries ((if needsRelayer v then [relEntry c user rel] else []) ++ [userEntry user c subs])) :
    fwdDem v c user rel o = none := by
  have hperm : o.dem.Perm ((if needsRelayer v then [relEntry c user rel] else []) ++ [userEntry user c subs]) := by
    rw [ho]; exact List.mergeSort_perm _ _
  have hfilter : ((if needsRelayer v then [relEntry c user rel] else []) ++ [userEntry user c subs]).filter
      (isUserEntry c user) = [userEntry user c subs] := by
    split <;> simp [isUserEntry_rel, isUserEntry_user]
  have hpf := (hperm.filter (isUserEntry c user))
  rw [hfilter] at hpf
  unfold fwdDem
  rw [if_neg (by rw [hpf.length_eq]; simp)]
  rw [if_neg (by
    rw [Bool.not_eq_true, List.any_eq_false]
    intro en hen
    have : en = userEntry user c subs := by simpa using (hpf.mem_iff.mp hen)
    subst this
    rw [Bool.not_eq_true, List.any_eq_false]
    intro sb hsb
    obtain ⟨i, hi, e⟩ := List.mem_map.mp hsb
    subst e
    have hin : showInvArgs i ∈ okSubs c user := by
      rcases hsubs i hi with e | e
      · subst e; exact List.mem_cons_self
      · subst e; exact List.mem_cons_of_mem _ List.mem_cons_self
    simp [hin])]
  rw [if_neg (by
    intro ⟨hr, hnc⟩
    apply hnc
    rw [List.contains_iff_mem, hperm.mem_iff, if_pos hr]
    exact List.mem_cons_self)]


/-! ### the three forward entry points, uniformly -/

theorem fwdOp_ok {cfg : Cfg} {v : Var} {s s' : State} {au : Auth} {c : Call} {user rel : Nat} {tgt : Target}
    {eager : Bool} (h : apply (params cfg) s au (fwdOp v c user rel tgt eager) = .ok s') :
    collectFeeAndInvoke (params cfg) s au c user (rcpOf v rel) (apFor v eager) tgt = .ok s' ∧
    (v = .pd → rel ∈ [2, 3]) ∧ (needsRelayer v = true → rel ∈ au.plain) := by
  cases v with
  | pl =>
    obtain ⟨h1, h2⟩ := forwardPL_requires (show forwardPermissionless _ s au c user rel tgt = .ok s' from h)
    exact ⟨h2, fun e => (by cases e), fun _ => h1⟩
  | pd =>
    obtain ⟨h0, h1, h2⟩ := forwardPD_requires (show forwardPermissioned _ s au c user rel tgt = .ok s' from h)
    exact ⟨h2, fun _ => h0, fun _ => h1⟩
  | lib => exact ⟨h, fun e => (by cases e), fun e => (by simp [needsRelayer] at e)⟩
  | other => exact ⟨h, fun e => (by cases e), fun e => (by simp [needsRelayer] at e)⟩

theorem fwdGate_model {cfg : Cfg} {v : Var} {s s' : State} {all : Bool} {plain : List Nat} {ua : Option UserAuth}
    {c : Call} {user rel : Nat} {tgt : Target} {eager : Bool} (a b : String)
    (h : apply (params cfg) s (auFwd (params cfg) all plain ua c user) (fwdOp v c user rel tgt eager) = .ok s') :
    fwdGate v all plain ua c user rel a b = none := by
  obtain ⟨h1, h2, h3⟩ := fwdOp_ok h
  obtain ⟨hu, _⟩ := collectFeeAndInvoke_ok h1
  unfold fwdGate
  rw [if_neg (by
    intro ⟨hv, hn⟩
    apply hn
    rw [List.contains_iff_mem]; exact h2 hv)]
  rw [if_neg (by
    intro ⟨ha, hr, hn⟩
    apply hn
    have := h3 hr
    unfold auFwd at this
    rw [if_neg ha] at this
    rw [List.contains_iff_mem]; exact this)]
  rw [if_neg (by
    intro ⟨ha, hn⟩
    apply hn
    unfold auFwd at hu
    rw [if_neg ha] at hu
    exact hu)]

/-! ### what the other accepted operations change -/

theorem setAllowedFeeToken_full {s s' : State} {tok : Nat} {a : Bool} (h : setAllowedFeeToken s tok a = .ok s') :
    setAllowed s.al tok a = .ok s'.al ∧ s'.toks = s.toks ∧ s'.now = s.now ∧ s'.calls = s.calls := by
  unfold setAllowedFeeToken at h
  split at h
  · cases h
  · rename_i al hal; injection h with h; subst h; exact ⟨hal, rfl, rfl, rfl⟩

theorem sweepToken_full {p : Params} {s s' : State} {tok rcp : Nat} (h : sweepToken p s tok rcp = .ok s') :
    (s.toks tok).bal p.self ≠ 0 ∧
    (s'.toks tok).bal = upd (upd (s.toks tok).bal p.self ((s.toks tok).bal p.self - (s.toks tok).bal p.self)) rcp
      ((upd (s.toks tok).bal p.self ((s.toks tok).bal p.self - (s.toks tok).bal p.self)) rcp + (s.toks tok).bal p.self) ∧
    s'.al = s.al ∧ s'.calls = s.calls := by
  unfold sweepToken at h
  split at h
  · cases h
  · rename_i hne
    split at h
    · cases h
    · rename_i s1 hs1
      injection h with h; subst h
      obtain ⟨ts, hr, e⟩ := liftTok_ok hs1
      subst e
      obtain ⟨_, s2, hupd, e⟩ := OZ.Fungible.transfer_ok hr
      subst e
      obtain ⟨_, sd, hd, hc⟩ := OZ.Fungible.update_ok hupd
      obtain ⟨_, _, _, hd4⟩ := OZ.Fungible.debit_ok hd
      obtain ⟨_, _, _, hc4⟩ := OZ.Fungible.credit_ok hc
      dsimp only at hd4 hc4
      refine ⟨hne, ?_, rfl, rfl⟩
      show (upd s.toks tok _ tok).bal = _
      rw [upd_same]
      show s2.bal = _
      rw [hc4.2.1, hd4.2.2]
      rfl

theorem gateBad_model {v : Var} {all : Bool} {plain : List Nat} {oper : Option Nat}
    (h : v = .pd → ∃ o, oper = some o ∧ o ∈ [1] ∧ o ∈ (auPlain all plain).plain) :
    gateBad v all plain oper = false := by
  unfold gateBad
  rw [decide_eq_false_iff_not]
  intro ⟨hv, hb⟩
  obtain ⟨o, ho, h1, hp⟩ := h hv
  subst ho
  have e1 : o = 1 := by simpa using h1
  subst e1
  rcases hb with hb | ⟨ha, hn⟩
  · exact hb rfl
  · apply hn
    unfold auPlain at hp
    simp only [Bool.not_eq_true] at ha
    rw [List.contains_iff_mem]
    simpa [ha] using hp


/-! ### the initial state -/

theorem allowance_init (now t i j : Nat) : OZ.Fungible.allowance (tokAt (init now) t) i j = 0 := by
  unfold OZ.Fungible.allowance
  rw [OZ.Fungible.allowanceData_none (by rfl)]

theorem tokObs_init (now t : Nat) : tokObs (init now) t = zeroTok := by
  unfold tokObs zeroTok
  congr 1
  · simp only [allowance_init]; rfl

theorem toksObs_init (now : Nat) : toksObs (init now) = List.replicate NTOK zeroTok := by
  unfold toksObs
  simp only [tokObs_init]; rfl

/-! ### monitor state ↔ model state -/

/-- the monitor state describes the model state: same contract variant, the remembered previous
observation is the model's observation of `s`, the ghost allowed-set is the model's allow-list -/
structure Agree (v : Var) (m : Mon) (s : State) : Prop where
  var : m.var = v
  alRaw : m.prev.alRaw = showAl s.al
  toks : m.prev.toks = toksObs s
  callsN : m.prev.callsN = s.calls.length
  callsFn : m.prev.callsFn = callsFnOf s
  callsArgs : m.prev.callsArgs = callsArgsOf s
  good : Good s.al m.allowed

theorem ghostStep_false (g : List Nat) (i : In) : ghostStep g i false = g := by
  cases i <;> rfl

theorem toksObs_congr {s s' : State} (ht : s'.toks = s.toks) (hn : s'.now = s.now) : toksObs s' = toksObs s := by
  unfold toksObs tokObs tokAt
  rw [ht, hn]

theorem noCall_model {prev : Obs} {s s' : State} (hn : prev.callsN = s.calls.length) (hc : s'.calls = s.calls)
    (dem : List DemEntry) (rest : Option String) : noCall prev (obsOf s' true dem) rest = rest := by
  unfold noCall
  rw [if_neg (by show ¬ (s'.calls.length ≠ prev.callsN); rw [hc, hn]; simp)]

/-- a rejected call of the model: the monitor is silent and keeps describing the (unchanged) state -/
theorem rejected_sound {v : Var} {m : Mon} {s : State} (ha : Agree v m s) (i : In) :
    (checkCore m i (obsOf s false [])).2 = none ∧ Agree v (checkCore m i (obsOf s false [])).1 s := by
  have hg : ghostStep m.allowed i (obsOf s false []).ok = m.allowed := ghostStep_false _ _
  refine ⟨?_, ⟨ha.var, rfl, rfl, rfl, rfl, rfl, by
    show Good s.al (ghostStep m.allowed i (obsOf s false []).ok); rw [hg]; exact ha.good⟩⟩
  show verdict m (ghostStep m.allowed i (obsOf s false []).ok) i (obsOf s false []) = none
  rw [hg]
  unfold verdict
  rw [if_pos (by simp [obsOf])]
  unfold verdictRejected
  rw [if_neg (by
    rw [ha.alRaw, ha.toks, ha.callsN, ha.callsFn, ha.callsArgs]
    simp [obsOf])]
  exact checkAllowlist_model ha.good _ _

theorem verdictAdvance_model {v : Var} {m : Mon} {s : State} (ha : Agree v m s) (n : Nat) (dem : List DemEntry) :
    verdictAdvance m.prev m.allowed n (obsOf { s with now := s.now + n } true dem) = none := by
  unfold verdictAdvance
  rw [if_neg (by
    rw [ha.alRaw, ha.toks]
    have : (toksObs { s with now := s.now + n }).map (·.bal) = (toksObs s).map (·.bal) := rfl
    simp [obsOf, this])]
  exact checkAllowlist_model (s := { s with now := s.now + n }) ha.good _ _

theorem verdictAllow_model {v : Var} {m : Mon} {s s' : State} (ha : Agree v m s) {all : Bool} {plain : List Nat}
    {tok : Nat} {oper : Option Nat} {allowed : Bool} (hset : setAllowed s.al tok allowed = .ok s'.al)
    (htoks : s'.toks = s.toks) (hnow : s'.now = s.now) (hgate : gateBad m.var all plain oper = false)
    (ht : TOK0 ≤ tok ∧ tok < TOK0 + NTOK) (dem : List DemEntry) :
    verdictAllow m (ghostStep m.allowed (.allow all plain tok oper allowed) true) all plain tok oper allowed
      (obsOf s' true dem) = none ∧
    Good s'.al (ghostStep m.allowed (.allow all plain tok oper allowed) true) := by
  unfold setAllowed at hset
  have key : (if allowed then m.allowed.contains tok = false else m.allowed.contains tok = true) ∧
      Good s'.al (ghostStep m.allowed (.allow all plain tok oper allowed) true) := by
    cases allowed with
    | true =>
      rw [if_pos rfl] at hset
      obtain ⟨h1, h2⟩ := good_allow ha.good ht hset
      exact ⟨h1, h2⟩
    | false =>
      rw [if_neg (by simp)] at hset
      obtain ⟨h1, h2⟩ := good_disallow ha.good hset
      exact ⟨h1, h2⟩
  refine ⟨?_, key.2⟩
  unfold verdictAllow
  rw [if_neg (by
    intro ⟨h1, h2⟩
    have := key.1; rw [if_pos h1] at this; rw [this] at h2; cases h2)]
  rw [if_neg (by
    intro ⟨h1, h2⟩
    have := key.1; rw [if_neg h1] at this; exact h2 this)]
  rw [if_neg (by rw [hgate]; simp)]
  rw [if_neg (by
    rw [Classical.not_not, ha.toks]
    exact toksObs_congr htoks hnow)]
  exact checkAllowlist_model key.2 _ _

theorem verdictSweep_model {cfg : Cfg} {v : Var} {m : Mon} {s s' : State} (ha : Agree v m s) {all : Bool}
    {plain : List Nat} {tok to : Nat} {oper : Option Nat} (hsw : sweepToken (params cfg) s tok to = .ok s')
    (hgate : gateBad m.var all plain oper = false) (ht : TOK0 ≤ tok ∧ tok < TOK0 + NTOK) (dem : List DemEntry) :
    verdictSweep m m.allowed all plain tok to oper (obsOf s' true dem) = none ∧ s'.al = s.al ∧ s'.calls = s.calls := by
  obtain ⟨hne, hb, hal, hcalls⟩ := sweepToken_full hsw
  have hself : (params cfg).self = FWD := rfl
  rw [hself] at hne hb
  refine ⟨?_, hal, hcalls⟩
  have hamt : nth (tokOf m.prev tok).bal FWD = (s.toks tok).bal FWD := by
    rw [tokOf_prev ha.toks ht]; exact nth_bal s tok FWD (by decide)
  unfold verdictSweep
  rw [hamt, if_neg hne, tokOf_obsOf s' true dem ht, tokOf_prev ha.toks ht]
  rw [if_neg (by rw [expectBal_model s s' tok FWD to _ hb]; simp)]
  rw [if_neg (by rw [hgate]; simp)]
  exact checkAllowlist_model (s := s') (by rw [hal]; exact ha.good) _ _

/-- an accepted forward of the model through any of the three contracts: every piece of the
monitor's verdict is silent -/
theorem verdictForward_model {cfg : Cfg} {v : Var} {m : Mon} {s s' : State} (ha : Agree v m s) {all : Bool}
    {plain : List Nat} {ua : Option UserAuth} {c : Call} {user rel : Nat} {tgt : Target} {eager : Bool}
    (a b : String)
    (h : apply (params cfg) s (auFwd (params cfg) all plain ua c user) (fwdOp v c user rel tgt eager) = .ok s')
    (ht : TOK0 ≤ c.token ∧ c.token < TOK0 + NTOK) (htg : c.target = TGT) :
    verdictForward m m.allowed all plain ua c user rel a b
      (obsOf s' true (sortEntries (modelDem (params cfg) v s (.forward all plain ua c user rel tgt eager a b)))) = none ∧
    s'.al = s.al := by
  obtain ⟨h1, _, _⟩ := fwdOp_ok h
  have hal : s'.al = s.al := (charges_exactly_fee h1).2.2.2.2.2.2.2.2.1
  refine ⟨?_, hal⟩
  unfold verdictForward
  rw [ha.var, fwdBounds_model ha.good h1 ht, fwdMoney_model ha.toks h1 ht, fwdTarget_model ha.callsN h1 htg,
    fwdGate_model a b h]
  rw [fwdDem_model cfg v c user rel (usedSubs (params cfg) s c user (apFor v eager) tgt) (fun i hi => usedSubs_mem hi)
    _ (by rw [modelDem_forward]; rfl)]
  exact checkAllowlist_model (s := s') (by rw [hal]; exact ha.good) _ _

end OZ.FeeForwarder.Mon
