import OZ.Model.NftMon
import OZ.Lemmas.Nft
import OZ.Lemmas.NftAuth
import OZ.Lemmas.NftEnumerable
import OZ.Lemmas.NftConsecutive
import OZ.Lemmas.NftBits
/-
Helper lemmas for the soundness of the C10 / C11 monitors (OZ/Model/NftMon.lean): the plain
ownership map as the monitors store it, balances, run-length encoding, the enumeration check, and
one uniform description of what an accepted call does to a model state of any flavour
(`mstate_step`). Property theorems are in OZ/Props/C10Mon.lean and OZ/Props/C11Mon.lean.
-/
namespace OZ.NftMon
open OZ.Host OZ.Nft

/-! ### the plain ownership map -/

theorem plainOwner_setOver (b : List (Nat × Nat × Nat)) (ov : List (Nat × Option Nat)) (id : Nat) (o : Option Nat) :
    plainOwner b (setOver ov id o) = upd (plainOwner b ov) id o := by
  funext x
  by_cases e : x = id
  · subst e
    simp [plainOwner, setOver, upd]
  · have h1 : List.find? (fun p => decide (p.1 = x)) (setOver ov id o) = List.find? (fun p => decide (p.1 = x)) ov := by
      unfold setOver
      rw [List.find?_cons]
      have : decide ((id, o).1 = x) = false := by simp; exact fun h => e h.symm
      rw [this]
      simp only
      rw [List.find?_filter]
      congr 1
      funext p
      by_cases hp : p.1 = x
      · simp [hp, e]
      · simp [hp]
    unfold plainOwner
    rw [h1, upd_other _ _ _ _ e]

theorem plainOwner_batch (b : List (Nat × Nat × Nat)) (ov : List (Nat × Option Nat)) (f l o : Nat)
    (hov : ∀ p ∈ ov, ¬ (f ≤ p.1 ∧ p.1 ≤ l)) (id : Nat) :
    plainOwner ((f, l, o) :: b) ov id = if f ≤ id ∧ id ≤ l then some o else plainOwner b ov id := by
  unfold plainOwner
  cases hfi : List.find? (fun p => decide (p.1 = id)) ov with
  | some p =>
    have hm := List.mem_of_find?_eq_some hfi
    have hp : p.1 = id := by simpa using List.find?_some hfi
    have := hov p hm
    rw [hp] at this
    rw [if_neg this]
  | none =>
    simp only [List.find?_cons]
    by_cases h : f ≤ id ∧ id ≤ l
    · rw [if_pos h]; simp [h]
    · rw [if_neg h]; simp [h]

theorem plainOwner_nil (id : Nat) : plainOwner [] [] id = none := rfl

/-! ### balances -/

theorem addBal_range (n : Nat) (bal : Nat → Nat) (i : Nat) (d : Int) :
    Own.addBal ((List.range n).map bal) i d = (List.range n).map (upd bal i ((Int.ofNat (bal i) + d).toNat)) := by
  apply List.ext_getElem?
  intro j
  unfold Own.addBal
  rw [List.getElem?_mapIdx, List.getElem?_map, List.getElem?_map]
  by_cases hj : j < n
  · rw [List.getElem?_range hj]
    simp only [Option.map_some]
    by_cases e : j = i
    · subst e; rw [if_pos rfl, upd_same]
    · rw [if_neg e, upd_other _ _ _ _ e]
  · rw [List.getElem?_eq_none (by simpa using hj)]; rfl

theorem addBal_inc (n : Nat) (bal : Nat → Nat) (i k : Nat) :
    Own.addBal ((List.range n).map bal) i (k : Int) = (List.range n).map (upd bal i (bal i + k)) := by
  have : (Int.ofNat (bal i) + (k : Int)).toNat = bal i + k := by
    simp only [Int.ofNat_eq_natCast]; omega
  rw [addBal_range, this]

theorem addBal_dec (n : Nat) (bal : Nat → Nat) (i : Nat) :
    Own.addBal ((List.range n).map bal) i (-1) = (List.range n).map (upd bal i (bal i - 1)) := by
  have : (Int.ofNat (bal i) + (-1)).toNat = bal i - 1 := by
    simp only [Int.ofNat_eq_natCast]; omega
  rw [addBal_range, this]


/-! ### run-length encoding -/

/-- a run `(lo, hi, v)` is right about `f`: every id of `lo..=hi` has value `v` -/
def RunOK (f : Nat → Option Nat) (r : Run) : Prop := ∀ j, r.1 ≤ j → j ≤ r.2.1 → f j = r.2.2

theorem rleGo_ok (f : Nat → Option Nat) (hi : Nat) : ∀ (fuel start : Nat) (cur : Option Nat) (id : Nat)
    (acc : List Run), fuel = hi - id → (∀ j, start ≤ j → j ≤ id → f j = cur) → (∀ r ∈ acc, RunOK f r) →
    ∀ r ∈ rleGo f hi fuel start cur id acc, RunOK f r := by
  intro fuel
  induction fuel with
  | zero =>
    intro start cur id acc hf hinv hacc r hr
    unfold rleGo at hr
    rcases List.mem_cons.mp hr with e | hr
    · subst e
      intro j h1 h2
      exact hinv j h1 (by show j ≤ id; have : j ≤ hi := h2; omega)
    · exact hacc r hr
  | succ fuel ih =>
    intro start cur id acc hf hinv hacc r hr
    unfold rleGo at hr
    by_cases hne : f (id + 1) = cur
    · rw [if_neg (by simp [hne])] at hr
      refine ih start cur (id + 1) acc (by omega) ?_ hacc r hr
      intro j h1 h2
      by_cases e : j = id + 1
      · subst e; exact hne
      · exact hinv j h1 (by omega)
    · rw [if_pos (by simp [hne])] at hr
      refine ih (id + 1) (f (id + 1)) (id + 1) _ (by omega) ?_ ?_ r hr
      · intro j h1 h2
        have : j = id + 1 := by omega
        subst this; rfl
      · intro r' hr'
        rcases List.mem_cons.mp hr' with e | hr'
        · subst e; intro j h1 h2; exact hinv j h1 h2
        · exact hacc r' hr'

/-- every run the model prints is right about the function it encodes -/
theorem rleRuns_ok (f : Nat → Option Nat) (q : List (Nat × Nat)) : ∀ r ∈ rleRuns f q, RunOK f r := by
  intro r hr
  unfold rleRuns at hr
  rw [List.mem_reverse] at hr
  suffices h : ∀ (q : List (Nat × Nat)) (acc : List Run), (∀ r ∈ acc, RunOK f r) →
      ∀ r ∈ q.foldl (fun acc w => rleGo f w.2 (w.2 - w.1) w.1 (f w.1) w.1 acc) acc, RunOK f r from
    h q [] (fun _ h => by cases h) r hr
  intro q
  induction q with
  | nil => intro acc hacc r hr; exact hacc r hr
  | cons w ws ih =>
    intro acc hacc r hr
    rw [List.foldl_cons] at hr
    refine ih _ ?_ r hr
    exact rleGo_ok f w.2 _ _ _ _ acc rfl (fun j h1 h2 => by have : j = w.1 := by omega
                                                            subst this; rfl) hacc

theorem badInRun_none {m : Own.Mon} {r : Run} (h : RunOK (Own.ghostOwner m) r) : Own.badInRun m r = none := by
  unfold Own.badInRun
  rw [Option.map_eq_none_iff, List.find?_eq_none]
  intro k hk
  have hk := List.mem_range.mp hk
  have := h (r.1 + k) (by omega) (by omega)
  simp [this]

theorem firstBadRun_none {m : Own.Mon} {runs : List Run} (h : ∀ r ∈ runs, RunOK (Own.ghostOwner m) r) :
    Own.firstBadRun m runs = none := by
  unfold Own.firstBadRun
  rw [List.findSome?_eq_none_iff]
  intro r hr
  exact badInRun_none (h r hr)

/-! ### the enumeration check -/

theorem nodup_iff (l : List Nat) : Own.nodup l = true ↔ l.Nodup := by
  induction l with
  | nil => simp [Own.nodup]
  | cons x xs ih =>
    unfold Own.nodup
    rw [List.nodup_cons, ← ih]
    simp

open OZ.NftEnum in
/-- a well-formed list of `count` tokens, read out over `0 .. count-1` (and one index past the end
when probed), passes the monitor's list check -/
theorem checkList_none (what : String) {tok idx : Nat → Option Nat} {count : Nat} {P : Nat → Prop}
    (h : LOK tok idx count P) (probe : Bool) (okTok : Nat → Bool) (hok : ∀ t, P t → okTok t = true) :
    Own.checkList what ((List.range (if probe then count + 1 else count)).map tok) count probe okTok = none := by
  have hle : count ≤ (if probe then count + 1 else count) := by split <;> omega
  have htake : ((List.range (if probe then count + 1 else count)).map tok).take count = (List.range count).map tok := by
    rw [← List.map_take, List.take_range, Nat.min_eq_left hle]
  have hfm : ((List.range count).map tok).filterMap id = listOf tok count := by
    rw [List.filterMap_map]; rfl
  obtain ⟨hlen, hnd, hmem⟩ := LOK_list h
  unfold Own.checkList
  rw [htake, hfm]
  rw [if_neg (by simp [hlen]), if_neg (by simp [(nodup_iff _).mpr hnd]),
    if_neg (by
      simp only [Bool.not_eq_true', Bool.not_eq_false]
      rw [List.all_eq_true]
      intro t ht; exact hok t ((hmem t).mp ht))]
  cases probe with
  | false => simp
  | true =>
    rw [if_neg]
    simp only [true_and, ne_eq, Decidable.not_not, if_true]
    rw [List.range_succ, List.map_append, List.drop_append]
    simp [h.2.2 count (Nat.le_refl _)]


/-! ### what an accepted call does to the shared core (all flavours) -/

/-- a mint of `n` tokens to `to`: only `to`'s balance changes -/
def MintStep (c c' : Core) (to n : Nat) : Prop :=
  c'.bal = upd c.bal to (c.bal to + n) ∧ c'.approval = c.approval ∧ c'.operator = c.operator ∧ c'.now = c.now

/-- the balances after token `id` left `f` for `to` (none: burned) -/
def moveBal (bal : Nat → Nat) (f : Nat) (to : Option Nat) : Nat → Nat :=
  match to with
  | some t => upd (upd bal f (bal f - 1)) t (upd bal f (bal f - 1) t + 1)
  | none => upd bal f (bal f - 1)

/-- a transfer / burn: balances move, the token's approval entry is deleted, nothing else -/
def MoveStep (c c' : Core) (f : Nat) (to : Option Nat) (id : Nat) : Prop :=
  c'.bal = moveBal c.bal f to ∧ c'.approval = upd c.approval id none ∧ c'.operator = c.operator ∧ c'.now = c.now

/-- the core after an accepted call, per operation; `own` is the flavour's `owner_of` -/
def CoreStep (cfg : Cfg) (own : Nat → Option Nat) (c c' : Core) (auth : List Nat) : Op → Prop
  | .mintSeq to => MintStep c c' to 1
  | .mint to _ => MintStep c c' to 1
  | .batchMint to n => MintStep c c' to n
  | .transfer f t id => MoveStep c c' f (some t) id
  | .transferFrom _ f t id => MoveStep c c' f (some t) id
  | .burn f id => MoveStep c c' f none id
  | .burnFrom _ f id => MoveStep c c' f none id
  | .approve ap a id lu => ∃ o, own id = some o ∧ approveForOwner cfg c o ap a id lu = .ok c'
  | .approveForAll o p lu => approveForAll cfg c auth o p lu = .ok c'
  | .advance n => c' = c.advance n

theorem Nft_apply_core (cfg : Cfg) {s s' : Nft.State} {auth : List Nat} {op : Op} {r : Option Nat}
    (h : Nft.apply cfg s auth op = .ok (s', r)) : CoreStep cfg s.owner s.toCore s'.toCore auth op := by
  cases op with
  | mintSeq to =>
    obtain ⟨⟨s2, id⟩, h1, h⟩ := bind_eq_ok h
    have h := pure_eq_ok h
    injection h with ha hb; subst ha; subst hb
    obtain ⟨_, _, hu⟩ := sequentialMint_ok h1
    obtain ⟨_, hb, _, ha, ho, hn⟩ := update_mint_ok hu
    exact ⟨hb, ha, ho, hn⟩
  | mint to id =>
    obtain ⟨s2, h1, h⟩ := bind_eq_ok h
    have h := pure_eq_ok h
    injection h with ha hb; subst ha; subst hb
    obtain ⟨_, hb, _, ha, ho, hn⟩ := update_mint_ok h1
    exact ⟨hb, ha, ho, hn⟩
  | batchMint to n => cases h
  | transfer f t id =>
    obtain ⟨s2, h1, h⟩ := bind_eq_ok h
    have h := pure_eq_ok h
    injection h with ha hb; subst ha; subst hb
    obtain ⟨_, _, hu⟩ := bind_eq_ok h1
    obtain ⟨_, _, _, hb, _, ha, ho, hn⟩ := update_transfer_ok hu
    exact ⟨hb, ha, ho, hn⟩
  | transferFrom sp f t id =>
    obtain ⟨s2, h1, h⟩ := bind_eq_ok h
    have h := pure_eq_ok h
    injection h with ha hb; subst ha; subst hb
    obtain ⟨_, _, h1⟩ := bind_eq_ok h1
    obtain ⟨_, _, hu⟩ := bind_eq_ok h1
    obtain ⟨_, _, _, hb, _, ha, ho, hn⟩ := update_transfer_ok hu
    exact ⟨hb, ha, ho, hn⟩
  | burn f id =>
    obtain ⟨s2, h1, h⟩ := bind_eq_ok h
    have h := pure_eq_ok h
    injection h with ha hb; subst ha; subst hb
    obtain ⟨_, _, hu⟩ := bind_eq_ok h1
    obtain ⟨_, _, _, hb, _, ha, ho, hn⟩ := update_burn_ok hu
    exact ⟨hb, ha, ho, hn⟩
  | burnFrom sp f id =>
    obtain ⟨s2, h1, h⟩ := bind_eq_ok h
    have h := pure_eq_ok h
    injection h with ha hb; subst ha; subst hb
    obtain ⟨_, _, h1⟩ := bind_eq_ok h1
    obtain ⟨_, _, hu⟩ := bind_eq_ok h1
    obtain ⟨_, _, _, hb, _, ha, ho, hn⟩ := update_burn_ok hu
    exact ⟨hb, ha, ho, hn⟩
  | approve ap a id lu =>
    obtain ⟨o, h1, h2, _⟩ := Nft.approve_core cfg h
    exact ⟨o, h1, h2⟩
  | approveForAll o p lu => exact (Nft.approveForAll_core cfg h).1
  | advance n =>
    injection h with h; injection h with h1 h2; subst h1; rfl

section cons
open OZ.NftCons
variable {β : Type} (B : BitOps β)

theorem cons_update_core {s s' : NftCons.State β} {f id : Nat} {to : Option Nat}
    (h : NftCons.update B s (some f) to id = .ok s') : MoveStep s.toCore s'.toCore f to id := by
  obtain ⟨s1, hd, hc⟩ := bind_eq_ok h
  unfold NftCons.debit at hd
  simp only at hd
  obtain ⟨o, ho, hd⟩ := bind_eq_ok hd
  obtain ⟨_, hck, hd⟩ := bind_eq_ok hd
  obtain ⟨c, hdec, hp⟩ := bind_eq_ok hd
  obtain ⟨hcc, _⟩ := decreaseBalance_ok hdec
  have h1 := setOwnerForPrev_core B hp
  subst hcc
  cases to with
  | none =>
    unfold NftCons.credit at hc
    injection hc with hc; subst hc
    show MoveStep s.toCore s1.toCore f none id
    rw [h1]; exact ⟨rfl, rfl, rfl, rfl⟩
  | some t =>
    unfold NftCons.credit at hc
    simp only at hc
    obtain ⟨c2, hinc, hset⟩ := bind_eq_ok hc
    obtain ⟨hc2, _⟩ := increaseBalance_ok hinc
    have h2 := (setOwnership_core B hset).1
    subst hc2
    rw [h2]
    show MoveStep s.toCore { s1.toCore with bal := upd s1.toCore.bal t (s1.toCore.bal t + 1) } f (some t) id
    rw [h1]; exact ⟨rfl, rfl, rfl, rfl⟩

theorem cons_batchMint_core {s s' : NftCons.State β} {to n last : Nat}
    (h : NftCons.batchMint B s to n = .ok (s', last)) : MintStep s.toCore s'.toCore to n := by
  unfold NftCons.batchMint at h
  split at h
  · cases h
  · obtain ⟨⟨c, first⟩, h1, h⟩ := bind_eq_ok h
    obtain ⟨c2, h2, h⟩ := bind_eq_ok h
    obtain ⟨s3, h3, h⟩ := bind_eq_ok h
    have h := pure_eq_ok h
    injection h with ha hb
    obtain ⟨hc, _, _⟩ := incrementTokenId_ok h1
    obtain ⟨hc2, _⟩ := increaseBalance_ok h2
    have h3c := (setOwnership_core B h3).1
    subst hc; subst hc2; subst ha
    show MintStep s.toCore s3.toCore to n
    rw [h3c]; exact ⟨rfl, rfl, rfl, rfl⟩

theorem cons_apply_core (cfg : Cfg) {s s' : NftCons.State β} {auth : List Nat} {op : Op} {r : Option Nat}
    (h : NftCons.apply B cfg s auth op = .ok (s', r)) :
    CoreStep cfg (fun id => (NftCons.ownerOf B s id).toOption) s.toCore s'.toCore auth op := by
  cases op with
  | mintSeq to => cases h
  | mint to id => cases h
  | batchMint to n =>
    obtain ⟨⟨s2, last⟩, h1, h⟩ := bind_eq_ok h
    have h := pure_eq_ok h
    injection h with ha hb; subst ha; subst hb
    exact cons_batchMint_core B h1
  | transfer f t id =>
    obtain ⟨s2, h1, h⟩ := bind_eq_ok h
    have h := pure_eq_ok h
    injection h with ha hb; subst ha; subst hb
    obtain ⟨_, _, hu⟩ := bind_eq_ok h1
    exact cons_update_core B hu
  | transferFrom sp f t id =>
    obtain ⟨s2, h1, h⟩ := bind_eq_ok h
    have h := pure_eq_ok h
    injection h with ha hb; subst ha; subst hb
    obtain ⟨_, _, h1⟩ := bind_eq_ok h1
    obtain ⟨_, _, hu⟩ := bind_eq_ok h1
    exact cons_update_core B hu
  | burn f id =>
    obtain ⟨s2, h1, h⟩ := bind_eq_ok h
    have h := pure_eq_ok h
    injection h with ha hb; subst ha; subst hb
    obtain ⟨_, _, hu⟩ := bind_eq_ok h1
    exact cons_update_core B hu
  | burnFrom sp f id =>
    obtain ⟨s2, h1, h⟩ := bind_eq_ok h
    have h := pure_eq_ok h
    injection h with ha hb; subst ha; subst hb
    obtain ⟨_, _, h1⟩ := bind_eq_ok h1
    obtain ⟨_, _, hu⟩ := bind_eq_ok h1
    exact cons_update_core B hu
  | approve ap a id lu =>
    obtain ⟨o, h1, h2⟩ := NftCons.approve_core B cfg h
    exact ⟨o, by show (NftCons.ownerOf B s id).toOption = some o; rw [h1]; rfl, h2⟩
  | approveForAll o p lu => exact NftCons.approveForAll_core B cfg h
  | advance n =>
    injection h with h; injection h with h1 h2; subst h1; rfl

end cons



/-! ### one uniform description of an accepted call on a model state of any flavour -/

def MState.isCons : MState → Bool
  | .cons _ => true
  | _ => false

def MState.isEnum : MState → Bool
  | .enum _ => true
  | _ => false

/-- `Good ms spec`: `spec` is the plain ownership map of the model state `ms` (base, enumerable: the
stored owner map; consecutive: the map the representation invariant `GInv` relates the state to) -/
inductive Good : MState → (Nat → Option Nat) → Prop
  | base (s : Nft.State) : Good (.base s) s.owner
  | enum (s : NftEnum.State) : Good (.enum s) s.owner
  | cons (s : NftCons.BState) (spec : Nat → Option Nat) :
      NftCons.GInv NftCons.bitOf NftCons.WFB s spec → Good (.cons s) spec

/-- the plain map after an accepted call (`next` = the id counter before it, `r` = the returned id) -/
def mspecStep (spec : Nat → Option Nat) (next : Nat) (op : Op) (r : Option Nat) : Nat → Option Nat :=
  match op with
  | .batchMint to n => fun id => if next ≤ id ∧ id < next + n then some to else spec id
  | op => Nft.specStep spec op r

theorem Good.ownerOf {ms : MState} {spec : Nat → Option Nat} (h : Good ms spec) (id : Nat) :
    ms.ownerOf id = spec id := by
  cases h with
  | base s => show (Nft.ownerOf s id).toOption = s.owner id; unfold Nft.ownerOf; cases s.owner id <;> rfl
  | enum s => show (Nft.ownerOf s.toState id).toOption = s.owner id; unfold Nft.ownerOf; cases s.owner id <;> rfl
  | cons s spec hi => exact NftCons.ownerOf_impl_spec NftCons.bitOps_impl hi id

theorem Good.uri {ms : MState} {spec : Nat → Option Nat} (h : Good ms spec) (id : Nat) :
    ms.uri id = (spec id).isSome := by
  cases h with
  | base s => rfl
  | enum s => rfl
  | cons s spec hi =>
    show (!(s.burned id) && decide (id < s.nextId)) = (spec id).isSome
    cases hb : s.burned id with
    | true => rw [hi.ci.dead id hb]; rfl
    | false =>
      by_cases hlt : id < s.nextId
      · rw [hi.ci.live id hlt hb]; simp [hlt]
      · rw [hi.ci.above id (by omega)]; simp [hlt]

theorem map_eq_ok {ε α β} {x : Except ε α} {f : α → β} {v : β} (h : x.map f = .ok v) :
    ∃ a, x = .ok a ∧ f a = v := by
  cases x with
  | error e => cases h
  | ok a => exact ⟨a, rfl, by injection h⟩

theorem CoreStep_congr {cfg : Cfg} {own own' : Nat → Option Nat} {c c' : Core} {auth : List Nat} {op : Op}
    (ho : ∀ id, own id = own' id) (h : CoreStep cfg own c c' auth op) : CoreStep cfg own' c c' auth op := by
  have : own = own' := funext ho
  subst this; exact h

structure StepFacts (cfg : Cfg) (ms ms' : MState) (spec : Nat → Option Nat) (auth : List Nat) (op : Op)
    (r : Option Nat) : Prop where
  good : Good ms' (mspecStep spec ms.core.nextId op r)
  core : CoreStep cfg spec ms.core ms'.core auth op
  moves : ∀ f id, op.moves = some (f, id) →
    spec id = some f ∧ Justified ms.core auth f id op ∧ (ms.isCons = true → id < ms.core.nextId)
  approve : ∀ ap a id lu, op = .approve ap a id lu →
    ap ∈ auth ∧ ∃ o, spec id = some o ∧ (ap = o ∨ isApprovedForAll ms.core o ap = true)
  grant : ∀ o p lu, op = .approveForAll o p lu → o ∈ auth
  seq : ∀ to, op = .mintSeq to →
    r = some ms.core.nextId ∧ ms'.core.nextId = ms.core.nextId + 1 ∧ ms.isCons = false
  expl : ∀ to id, op = .mint to id → ms.isCons = false
  batch : ∀ to n, op = .batchMint to n →
    1 ≤ n ∧ r = some (ms.core.nextId + n - 1) ∧ ms'.core.nextId = ms.core.nextId + n ∧ ms.isCons = true
  other : (∀ to, op ≠ .mintSeq to) → (∀ to n, op ≠ .batchMint to n) → ms'.core.nextId = ms.core.nextId
  cons : ms'.isCons = ms.isCons
  enum : ms'.isEnum = ms.isEnum

theorem mspecStep_base {spec : Nat → Option Nat} {next : Nat} {op : Op} {r : Option Nat}
    (h : ∀ to n, op ≠ .batchMint to n) : mspecStep spec next op r = Nft.specStep spec op r := by
  cases op <;> first | rfl | exact absurd rfl (h _ _)

theorem mspecStep_cons {spec : Nat → Option Nat} {next : Nat} {op : Op} {r : Option Nat}
    (h1 : ∀ to, op ≠ .mintSeq to) (h2 : ∀ to id, op ≠ .mint to id) :
    mspecStep spec next op r = NftCons.specStep spec next op := by
  cases op <;> first | rfl | exact absurd rfl (h1 _) | exact absurd rfl (h2 _ _)

theorem base_facts (cfg : Cfg) {s s' : Nft.State} {auth : List Nat} {op : Op} {r : Option Nat}
    (h : Nft.apply cfg s auth op = .ok (s', r)) :
    s'.owner = mspecStep s.owner s.nextId op r ∧ CoreStep cfg s.owner s.toCore s'.toCore auth op ∧
    (∀ f id, op.moves = some (f, id) → s.owner id = some f ∧ Justified s.toCore auth f id op) ∧
    (∀ ap a id lu, op = .approve ap a id lu →
      ap ∈ auth ∧ ∃ o, s.owner id = some o ∧ (ap = o ∨ isApprovedForAll s.toCore o ap = true)) ∧
    (∀ o p lu, op = .approveForAll o p lu → o ∈ auth) ∧
    (∀ to, op = .mintSeq to → r = some s.nextId ∧ s'.nextId = s.nextId + 1) ∧
    (∀ to n, op ≠ .batchMint to n) ∧
    ((∀ to, op ≠ .mintSeq to) → s'.nextId = s.nextId) := by
  have hnb : ∀ to n, op ≠ .batchMint to n := by
    intro to n e; subst e; cases h
  obtain ⟨ho, _, hseq, hoth⟩ := apply_owner cfg h
  obtain ⟨hm, ha, hg⟩ := Nft.apply_auth cfg h
  refine ⟨by rw [mspecStep_base hnb]; exact ho, Nft_apply_core cfg h, ?_, ha, hg, hseq, hnb, hoth⟩
  intro f id hmv
  obtain ⟨h1, h2, _⟩ := hm f id hmv
  exact ⟨h1, h2⟩

/-- **one accepted call, any flavour** -/
theorem mstate_step (cfg : Cfg) {ms ms' : MState} {spec : Nat → Option Nat} {auth : List Nat} {op : Op}
    {r : Option Nat} (hg : Good ms spec) (h : ms.apply cfg auth op = .ok (ms', r)) :
    StepFacts cfg ms ms' spec auth op r := by
  cases hg with
  | base s =>
    obtain ⟨⟨s', r'⟩, hap, he⟩ := map_eq_ok h
    injection he with e1 e2; subst e1; subst e2
    obtain ⟨ho, hc, hm, ha, hgr, hseq, hnb, hoth⟩ := base_facts cfg hap
    exact ⟨by show Good _ (mspecStep s.owner s.nextId op r'); rw [← ho]; exact Good.base s', hc,
      fun f id hmv => ⟨(hm f id hmv).1, (hm f id hmv).2, fun h => by cases h⟩, ha, hgr,
      fun to e => ⟨(hseq to e).1, (hseq to e).2, rfl⟩, fun _ _ _ => rfl,
      fun to n e => absurd e (hnb to n), fun h1 _ => hoth h1, rfl, rfl⟩
  | enum s =>
    obtain ⟨⟨s', r'⟩, hap, he⟩ := map_eq_ok h
    injection he with e1 e2; subst e1; subst e2
    obtain ⟨ho, hc, hm, ha, hgr, hseq, hnb, hoth⟩ := base_facts cfg (NftEnum.apply_base cfg hap)
    exact ⟨by show Good _ (mspecStep s.owner s.nextId op r'); rw [← ho]; exact Good.enum s', hc,
      fun f id hmv => ⟨(hm f id hmv).1, (hm f id hmv).2, fun h => by cases h⟩, ha, hgr,
      fun to e => ⟨(hseq to e).1, (hseq to e).2, rfl⟩, fun _ _ _ => rfl,
      fun to n e => absurd e (hnb to n), fun h1 _ => hoth h1, rfl, rfl⟩
  | cons s spec hi =>
    obtain ⟨⟨s', r'⟩, hap, he⟩ := map_eq_ok h
    injection he with e1 e2; subst e1; subst e2
    have hns : ∀ to, op ≠ .mintSeq to := by intro to e; subst e; cases hap
    have hnm : ∀ to id, op ≠ .mint to id := by intro to id e; subst e; cases hap
    obtain ⟨hi', hmv, hb, hoth⟩ := NftCons.apply_impl_step NftCons.bitOps_impl cfg hi hap
    obtain ⟨hm, ha, hgr⟩ := NftCons.apply_auth NftCons.bitOps cfg hap
    have hown := NftCons.ownerOf_impl_spec NftCons.bitOps_impl hi
    refine ⟨by show Good _ (mspecStep spec s.nextId op r'); rw [mspecStep_cons hns hnm]; exact Good.cons s' _ hi',
      CoreStep_congr hown (cons_apply_core NftCons.bitOps cfg hap), ?_, ?_, hgr,
      fun to e => absurd e (hns to), fun to id e => absurd e (hnm to id),
      fun to n e => ⟨(hb to n e).1, (hb to n e).2.1, (hb to n e).2.2, rfl⟩, fun _ h2 => hoth h2, rfl, rfl⟩
    · intro f id hmv'
      have hs := hmv f id hmv'
      exact ⟨hs, (hm f id hmv').2.1, fun _ => (hi.ci.spec_lt hs).1⟩
    · intro ap a id lu e
      obtain ⟨h1, o, h2, h3⟩ := ha ap a id lu e
      refine ⟨h1, o, ?_, h3⟩
      rw [← hown id, h2]; rfl



/-! ### the enumerable flavour: total supply -/

/-- `total_supply` after an accepted call -/
def totalStep (total : Nat) : Op → Nat
  | .mintSeq _ => total + 1
  | .mint _ _ => total + 1
  | .burn _ _ => total - 1
  | .burnFrom _ _ _ => total - 1
  | _ => total

open OZ.NftEnum in
theorem addToEnumerations_total {s s' : NftEnum.State} {o id : Nat} (h : addToEnumerations s o id = .ok s') :
    s'.total = s.total + 1 := by
  obtain ⟨s1, h1, h⟩ := bind_eq_ok h
  obtain ⟨⟨s2, ts⟩, h2, h⟩ := bind_eq_ok h
  have h := pure_eq_ok h
  obtain ⟨_, hs1⟩ := addToOwner_ok h1
  obtain ⟨hs2, _⟩ := incrementTotal_ok h2
  subst hs1; subst hs2; subst h; rfl

open OZ.NftEnum in
theorem removeFromEnumerations_total {s s' : NftEnum.State} {o id : Nat}
    (h : removeFromEnumerations s o id = .ok s') : s'.total = s.total - 1 := by
  obtain ⟨s1, h1, h⟩ := bind_eq_ok h
  obtain ⟨⟨s2, ts⟩, h2, h3⟩ := bind_eq_ok h
  obtain ⟨_, hs2, _⟩ := decrementTotal_ok h2
  obtain ⟨k, l, _, _, hs'⟩ := removeFromGlobal_ok h3
  subst hs'; subst hs2
  show s1.total - 1 = s.total - 1
  rw [(removeFromOwner_toState h1).2.1]

open OZ.NftEnum in
theorem moveInOwner_total {s s' : NftEnum.State} {f t id : Nat} (h : moveInOwnerEnumerations s f t id = .ok s') :
    s'.total = s.total := by
  unfold moveInOwnerEnumerations at h
  split at h
  · obtain ⟨s1, h1, h2⟩ := bind_eq_ok h
    obtain ⟨_, hs'⟩ := addToOwner_ok h2
    subst hs'
    exact (removeFromOwner_toState h1).2.1
  · injection h with h; subst h; rfl

open OZ.NftEnum in
theorem enum_apply_total (cfg : Cfg) {s s' : NftEnum.State} {auth : List Nat} {op : Op} {r : Option Nat}
    (h : NftEnum.apply cfg s auth op = .ok (s', r)) : s'.total = totalStep s.total op := by
  cases op with
  | mintSeq to =>
    obtain ⟨⟨s2, id⟩, h1, h⟩ := bind_eq_ok h
    have h := pure_eq_ok h
    injection h with ha hb; subst ha; subst hb
    unfold NftEnum.sequentialMint at h1
    obtain ⟨⟨b, id'⟩, h2, h1⟩ := bind_eq_ok h1
    obtain ⟨s3, h3, h1⟩ := bind_eq_ok h1
    have h1 := pure_eq_ok h1
    injection h1 with ha hb; subst ha; subst hb
    have := addToEnumerations_total h3
    exact this
  | mint to id =>
    obtain ⟨s2, h1, h⟩ := bind_eq_ok h
    have h := pure_eq_ok h
    injection h with ha hb; subst ha; subst hb
    unfold nonSequentialMint at h1
    obtain ⟨b, h2, h3⟩ := bind_eq_ok h1
    have := addToEnumerations_total h3
    exact this
  | batchMint to n => cases h
  | transfer f t id =>
    obtain ⟨s2, h1, h⟩ := bind_eq_ok h
    have h := pure_eq_ok h
    injection h with ha hb; subst ha; subst hb
    unfold NftEnum.transfer at h1
    obtain ⟨b, h2, h3⟩ := bind_eq_ok h1
    have := moveInOwner_total h3
    exact this
  | transferFrom sp f t id =>
    obtain ⟨s2, h1, h⟩ := bind_eq_ok h
    have h := pure_eq_ok h
    injection h with ha hb; subst ha; subst hb
    unfold NftEnum.transferFrom at h1
    obtain ⟨b, h2, h3⟩ := bind_eq_ok h1
    have := moveInOwner_total h3
    exact this
  | burn f id =>
    obtain ⟨s2, h1, h⟩ := bind_eq_ok h
    have h := pure_eq_ok h
    injection h with ha hb; subst ha; subst hb
    unfold NftEnum.burn at h1
    obtain ⟨b, h2, h3⟩ := bind_eq_ok h1
    have := removeFromEnumerations_total h3
    exact this
  | burnFrom sp f id =>
    obtain ⟨s2, h1, h⟩ := bind_eq_ok h
    have h := pure_eq_ok h
    injection h with ha hb; subst ha; subst hb
    unfold NftEnum.burnFrom at h1
    obtain ⟨b, h2, h3⟩ := bind_eq_ok h1
    have := removeFromEnumerations_total h3
    exact this
  | approve ap a id lu =>
    obtain ⟨b, h1, h⟩ := bind_eq_ok h
    have h := pure_eq_ok h
    injection h with ha hb; subst ha; rfl
  | approveForAll o p lu =>
    obtain ⟨c, h1, h⟩ := bind_eq_ok h
    have h := pure_eq_ok h
    injection h with ha hb; subst ha; rfl
  | advance n =>
    injection h with h; injection h with h1 h2; subst h1; rfl

/-- the list invariant of the enumerable flavour (nothing for the other flavours) -/
def EnumOK : MState → Prop
  | .enum e => NftEnum.EInv e
  | _ => True

def MState.total : MState → Nat
  | .enum e => e.total
  | _ => 0

/-- an accepted call under the fresh-id hypothesis keeps the lists well-formed and moves
`total_supply` by the plain rule -/
theorem mstate_enum_step (cfg : Cfg) {ms ms' : MState} {spec : Nat → Option Nat} {auth : List Nat} {op : Op}
    {r : Option Nat} (hg : Good ms spec) (he : EnumOK ms) (h : ms.apply cfg auth op = .ok (ms', r))
    (hf1 : ∀ to, op = .mintSeq to → spec ms.core.nextId = none)
    (hf2 : ∀ to id, op = .mint to id → spec id = none) :
    EnumOK ms' ∧ (ms.isEnum = true → ms'.total = totalStep ms.total op) := by
  cases hg with
  | base s =>
    obtain ⟨⟨s', r'⟩, hap, he'⟩ := map_eq_ok h
    injection he' with e1 e2; subst e1; subst e2
    exact ⟨trivial, fun h => by cases h⟩
  | cons s spec hi =>
    obtain ⟨⟨s', r'⟩, hap, he'⟩ := map_eq_ok h
    injection he' with e1 e2; subst e1; subst e2
    exact ⟨trivial, fun h => by cases h⟩
  | enum s =>
    obtain ⟨⟨s', r'⟩, hap, he'⟩ := map_eq_ok h
    injection he' with e1 e2; subst e1; subst e2
    have hf : FreshOp s.toState op := by
      cases op with
      | mintSeq to => exact hf1 to rfl
      | mint to id => exact hf2 to id rfl
      | _ => trivial
    exact ⟨(NftEnum.apply_step cfg he hf hap).1, fun _ => enum_apply_total cfg hap⟩



/-! ### the op a line denotes -/

/-- what `l.op = some op` says about the fields of the line -/
def Line.Denotes (l : Line) : Op → Prop
  | .mintSeq t => l.kind = .mint ∧ l.a = [t]
  | .mint t id => l.kind = .mintId ∧ l.a = [t] ∧ l.id = id
  | .batchMint t n => l.kind = .batchMint ∧ l.a = [t] ∧ l.n = n
  | .transfer f t id => l.kind = .transfer ∧ l.a = [f, t] ∧ l.id = id
  | .transferFrom sp f t id => l.kind = .transferFrom ∧ l.a = [sp, f, t] ∧ l.id = id
  | .approve ap a id lu => l.kind = .approve ∧ l.a = [ap, a] ∧ l.id = id ∧ l.lu = lu
  | .approveForAll o p lu => l.kind = .approveForAll ∧ l.a = [o, p] ∧ l.lu = lu
  | .burn f id => l.kind = .burn ∧ l.a = [f] ∧ l.id = id
  | .burnFrom sp f id => l.kind = .burnFrom ∧ l.a = [sp, f] ∧ l.id = id
  | .advance n => l.kind = .advance ∧ l.n = n

theorem Line.op_inv {l : Line} {op : Op} (h : l.op = some op) : l.Denotes op := by
  unfold Line.op at h
  split at h <;> first
    | (injection h with h; subst h; simp_all [Line.Denotes])
    | cases h

/-! ### ghost approvals / operators (C11) -/

theorem find_filter_ne {α : Type} (l : List α) (key : α → Nat) (id id' : Nat) (hne : id' ≠ id) :
    (l.filter (fun p => decide (key p ≠ id))).find? (fun p => decide (key p = id')) = l.find? (fun p => decide (key p = id')) := by
  rw [List.find?_filter]
  congr 1
  funext p
  by_cases hp : key p = id'
  · simp [hp, hne]
  · simp [hp]

theorem find_filter_eq {α : Type} (l : List α) (key : α → Nat) (id : Nat) :
    (l.filter (fun p => decide (key p ≠ id))).find? (fun p => decide (key p = id)) = none := by
  rw [List.find?_eq_none]
  intro p hp
  have := (List.mem_filter.mp hp).2
  simpa using this


/-- the model state a sequence starts in: nothing minted, no approval, no operator -/
theorem init_good (fl : String) (start : Nat) :
    Good (initState fl start) (fun _ => none) ∧ (initState fl start).core = Core.init start ∧
    EnumOK (initState fl start) ∧ (initState fl start).total = 0 ∧
    ((initState fl start).isEnum = true ↔ fl = "enum") := by
  unfold initState
  by_cases h1 : fl = "enum"
  · rw [if_pos h1]
    exact ⟨Good.enum (NftEnum.init start), rfl, NftEnum.init_einv start, rfl, by simp [MState.isEnum, h1]⟩
  · rw [if_neg h1]
    by_cases h2 : fl = "cons"
    · rw [if_pos h2]
      exact ⟨Good.cons _ _ ⟨NftCons.CI_init, fun _ => rfl, NftCons.WFB_empty⟩, rfl, trivial, rfl,
        by simp [MState.isEnum, h1]⟩
    · rw [if_neg h2]
      exact ⟨Good.base (Nft.init start), rfl, trivial, rfl, by simp [MState.isEnum, h1]⟩


end OZ.NftMon
