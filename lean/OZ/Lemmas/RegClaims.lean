import OZ.Model.RegClaims
import OZ.Lemmas.RegList
/-
Invariant and characterisation lemmas for the identity-claims registry (C20).
-/
namespace OZ.RegClaims
open OZ.Reg

structure Inv (s : State) : Prop where
  nodup : ∀ t, (s.byTopic t).Nodup
  mem : ∀ t id, id ∈ s.byTopic t ↔ ∃ c, s.claim id = some c ∧ c.topic = t
  key : ∀ id c, s.claim id = some c → c.topic = id.2 ∧ c.issuer = id.1

theorem inv_init : Inv init := by
  constructor <;> intros <;> simp_all [init]

/-- the state an accepted `add_claim` produces -/
def added (s : State) (c : Claim) : State :=
  if (s.claim (c.issuer, c.topic)).isSome then { s with claim := updD s.claim (c.issuer, c.topic) (some c) }
  else { claim := updD s.claim (c.issuer, c.topic) (some c),
         byTopic := updD s.byTopic c.topic (s.byTopic c.topic ++ [(c.issuer, c.topic)]) }

theorem addClaim_ok_iff (valid : Nat → Nat → Nat → Nat → Nat → Bool) (s s' : State)
    (topic scheme issuer sig data uri : Nat) :
    addClaim valid s topic scheme issuer sig data uri = .ok s' ↔
      valid issuer topic scheme sig data = true ∧ s' = added s ⟨topic, scheme, issuer, sig, data, uri⟩ := by
  unfold addClaim added
  cases hv : valid issuer topic scheme sig data with
  | false => simp
  | true =>
    simp only [Bool.not_true, Bool.false_eq_true, if_false, true_and]
    split
    · constructor
      · intro h; injection h with h; exact h.symm
      · intro h; rw [h]
    · constructor
      · intro h; injection h with h; exact h.symm
      · intro h; rw [h]; rfl

theorem inv_added {s : State} (hI : Inv s) (c : Claim) : Inv (added s c) := by
  unfold added
  split
  · rename_i hsome
    obtain ⟨c0, hc0⟩ := Option.isSome_iff_exists.1 hsome
    have hk := hI.key _ _ hc0
    constructor
    · exact hI.nodup
    · intro t id
      rw [hI.mem]
      show _ ↔ ∃ c', updD s.claim (c.issuer, c.topic) (some c) id = some c' ∧ c'.topic = t
      by_cases hid : id = (c.issuer, c.topic)
      · subst hid; rw [updD_same, hc0]
        constructor
        · rintro ⟨c1, h1, h2⟩; injection h1 with h1; subst h1; exact ⟨c, rfl, by rw [← h2, hk.1]⟩
        · rintro ⟨c1, h1, h2⟩; injection h1 with h1; subst h1; exact ⟨c0, rfl, by rw [hk.1]; exact h2⟩
      · rw [updD_other _ _ _ _ hid]
    · intro id c' h
      change updD s.claim (c.issuer, c.topic) (some c) id = some c' at h
      by_cases hid : id = (c.issuer, c.topic)
      · subst hid; rw [updD_same] at h; injection h with h; subst h; exact ⟨rfl, rfl⟩
      · rw [updD_other _ _ _ _ hid] at h; exact hI.key id c' h
  · rename_i hnone
    have hnone' : s.claim (c.issuer, c.topic) = none := by simpa using hnone
    have hnotin : (c.issuer, c.topic) ∉ s.byTopic c.topic := by
      intro hm
      obtain ⟨c1, h1, _⟩ := (hI.mem _ _).1 hm
      rw [hnone'] at h1; cases h1
    constructor
    · intro t
      show (updD s.byTopic c.topic _ t).Nodup
      by_cases ht : t = c.topic
      · subst ht; rw [updD_same]; exact nodup_append_singleton (hI.nodup _) hnotin
      · rw [updD_other _ _ _ _ ht]; exact hI.nodup t
    · intro t id
      show id ∈ updD s.byTopic c.topic _ t ↔ ∃ c', updD s.claim (c.issuer, c.topic) (some c) id = some c' ∧ c'.topic = t
      by_cases hid : id = (c.issuer, c.topic)
      · subst hid; rw [updD_same]
        by_cases ht : t = c.topic
        · subst ht; rw [updD_same]
          exact ⟨fun _ => ⟨c, rfl, rfl⟩, fun _ => by simp⟩
        · rw [updD_other _ _ _ _ ht]
          constructor
          · intro hm
            obtain ⟨c1, h1, _⟩ := (hI.mem _ _).1 hm
            rw [hnone'] at h1; cases h1
          · rintro ⟨c1, h1, h2⟩; injection h1 with h1; subst h1; exact absurd h2.symm ht
      · rw [updD_other _ _ _ _ hid]
        by_cases ht : t = c.topic
        · subst ht; rw [updD_same, List.mem_append, hI.mem]; simp [hid]
        · rw [updD_other _ _ _ _ ht]; exact hI.mem t id
    · intro id c' h
      change updD s.claim (c.issuer, c.topic) (some c) id = some c' at h
      by_cases hid : id = (c.issuer, c.topic)
      · subst hid; rw [updD_same] at h; injection h with h; subst h; exact ⟨rfl, rfl⟩
      · rw [updD_other _ _ _ _ hid] at h; exact hI.key id c' h

/-- the state an accepted `remove_claim` produces (under the invariant the id is indexed) -/
def removed (s : State) (id : Id) (c : Claim) : State :=
  removeFromIndex { s with claim := updD s.claim id none } c.topic id

theorem removeClaim_ok_iff (s s' : State) (id : Id) :
    removeClaim s id = .ok s' ↔ ∃ c, s.claim id = some c ∧ s' = removed s id c := by
  unfold removeClaim
  cases h : s.claim id with
  | none => simp
  | some c =>
    constructor
    · intro h'; injection h' with h'; exact ⟨c, rfl, h'.symm⟩
    · rintro ⟨c', hc', rfl⟩; injection hc' with hc'; subst hc'; rfl

/-- `removed` when the id is in the topic index -/
def removedSt (s : State) (id : Id) (c : Claim) : State :=
  { claim := updD s.claim id none,
    byTopic := updD s.byTopic c.topic ((s.byTopic c.topic).erase id) }

theorem inv_removed {s : State} (hI : Inv s) {id : Id} {c : Claim} (hc : s.claim id = some c) :
    Inv (removed s id c) := by
  have hin : id ∈ s.byTopic c.topic := (hI.mem _ _).2 ⟨c, hc, rfl⟩
  have hst : removed s id c = removedSt s id c := by
    unfold removed removeFromIndex removedSt
    simp only
    rw [if_pos (by simpa using hin)]
  rw [hst]
  unfold removedSt
  constructor
  · intro t
    show (updD s.byTopic c.topic _ t).Nodup
    by_cases ht : t = c.topic
    · subst ht; rw [updD_same]; exact (hI.nodup _).erase id
    · rw [updD_other _ _ _ _ ht]; exact hI.nodup t
  · intro t id'
    show id' ∈ updD s.byTopic c.topic _ t ↔ ∃ c', updD s.claim id none id' = some c' ∧ c'.topic = t
    by_cases hid : id' = id
    · subst hid; rw [updD_same]
      constructor
      · intro hm
        by_cases ht : t = c.topic
        · subst ht; rw [updD_same, (hI.nodup _).mem_erase_iff] at hm; exact absurd rfl hm.1
        · rw [updD_other _ _ _ _ ht] at hm
          obtain ⟨c1, h1, h2⟩ := (hI.mem _ _).1 hm
          rw [hc] at h1; injection h1 with h1; subst h1; exact absurd h2.symm ht
      · rintro ⟨c1, h1, _⟩; cases h1
    · rw [updD_other _ _ _ _ hid]
      by_cases ht : t = c.topic
      · subst ht; rw [updD_same, (hI.nodup _).mem_erase_iff, hI.mem]; simp [hid]
      · rw [updD_other _ _ _ _ ht]; exact hI.mem t id'
  · intro id' c' h
    change updD s.claim id none id' = some c' at h
    by_cases hid : id' = id
    · subst hid; rw [updD_same] at h; cases h
    · rw [updD_other _ _ _ _ hid] at h; exact hI.key id' c' h

theorem inv_next (valid : Nat → Nat → Nat → Nat → Nat → Bool) {s : State} (hI : Inv s) (o : Op) :
    Inv (next valid s o) := by
  unfold next
  cases hs : step valid s o with
  | error e => exact hI
  | ok s' =>
    cases o with
    | add t sc i sg d u =>
      obtain ⟨_, rfl⟩ := (addClaim_ok_iff valid s s' t sc i sg d u).1 hs
      exact inv_added hI _
    | remove id =>
      obtain ⟨c, hc, rfl⟩ := (removeClaim_ok_iff s s' id).1 hs
      exact inv_removed hI hc

theorem inv_run (valid : Nat → Nat → Nat → Nat → Nat → Bool) {s : State} (hI : Inv s) (ops : List Op) :
    Inv (run valid s ops) := by
  induction ops generalizing s with
  | nil => exact hI
  | cons o os ih => exact ih (inv_next valid hI o)

abbrev Valid := Nat → Nat → Nat → Nat → Nat → Bool

def Reachable (valid : Valid) (s : State) : Prop := ∃ ops, s = run valid init ops

theorem reachable_inv {valid : Valid} {s : State} (h : Reachable valid s) : Inv s := by
  obtain ⟨ops, rfl⟩ := h
  exact inv_run valid inv_init ops

end OZ.RegClaims
