import OZ.Lemmas.RegTopics
import OZ.Lemmas.RegMon
import OZ.Model.RegTopicsMon
/-
Helper facts for the soundness proof of the `topics` monitor of C20 (OZ/Props/C20bMon.lean): the
link between the monitor's plain sets / plain relation and the model state, the plain structure's
accept / refuse decision against the model's, and the generic list facts the getter checks need.
-/
namespace OZ.RegTopics.Mon
open OZ.Reg OZ.RegMon OZ.RegTopics

/-! ### generic facts -/

theorem ok_bind {α β ε : Type} (a : α) (f : α → Except ε β) : (Except.ok a).bind f = f a := rfl

theorem firstFail_append_none {a : List (Option String)} (b : List (Option String)) (h : firstFail a = none) :
    firstFail (a ++ b) = firstFail b := by
  unfold firstFail at *
  rw [List.findSome?_append, h]; rfl

theorem firstFail_map_none {α : Type} (l : List α) (f : α → Option String) (h : ∀ x ∈ l, f x = none) :
    firstFail (l.map f) = none := by
  unfold firstFail
  rw [List.findSome?_eq_none_iff]
  intro x hx
  obtain ⟨a, ha, rfl⟩ := List.mem_map.1 hx
  exact h a ha

/-- looking a key up in the printed graph of a partial getter: absent -/
theorem find_graphO_none {β : Type} (l : List Nat) (f : Nat → Option β) (h : Nat) (hf : f h = none) :
    (l.filterMap (fun k => (f k).map (fun v => (k, v)))).find? (fun x => x.1 == h) = none := by
  rw [List.find?_eq_none]
  intro x hx
  obtain ⟨k, _, hk⟩ := List.mem_filterMap.1 hx
  cases hfk : f k with
  | none => rw [hfk] at hk; cases hk
  | some v =>
    rw [hfk] at hk
    simp only [Option.map_some, Option.some.injEq] at hk
    subst hk
    simp only [beq_iff_eq]
    intro e; subst e; rw [hf] at hfk; cases hfk

/-- looking a displayed key up in the printed graph of a partial getter: present -/
theorem find_graphO_some {β : Type} (l : List Nat) (f : Nat → Option β) (h : Nat) (v : β) (hm : h ∈ l)
    (hf : f h = some v) :
    (l.filterMap (fun k => (f k).map (fun v => (k, v)))).find? (fun x => x.1 == h) = some (h, v) := by
  induction l with
  | nil => cases hm
  | cons k ks ih =>
    by_cases hk : k = h
    · subst hk
      rw [List.filterMap_cons, hf]
      simp
    · have hm' : h ∈ ks := by
        rcases List.mem_cons.1 hm with e | e
        · exact absurd e.symm hk
        · exact e
      rw [List.filterMap_cons]
      cases hfk : f k with
      | none => exact ih hm'
      | some w =>
        show List.find? _ ((k, w) :: _) = _
        rw [List.find?_cons_of_neg (by simpa using hk)]
        exact ih hm'

/-- `mapM` of a total-on-the-list partial function in `Option` is the plain `map` -/
theorem mapM_graph (l : List Nat) (f : Nat → Option (List Nat)) (h : ∀ t, t ∈ l → (f t).isSome = true) :
    l.mapM (fun t => (f t).map (fun v => (t, v))) = some (l.map (fun t => (t, (f t).getD []))) := by
  induction l with
  | nil => rfl
  | cons a l ih =>
    rw [List.mapM_cons, ih (fun t ht => h t (List.mem_cons_of_mem _ ht))]
    obtain ⟨v, hv⟩ := Option.isSome_iff_exists.1 (h a (List.mem_cons_self ..))
    rw [hv]; simp [hv]

/-- sorting a graph by key = the graph over the sorted keys -/
theorem sort_graph (l : List Nat) (F : Nat → List Nat) :
    (l.map (fun t => (t, F t))).mergeSort (fun (a b : Nat × List Nat) => decide (a.1 ≤ b.1)) =
      (sortN l).map (fun t => (t, F t)) := by
  unfold sortN
  exact (List.map_mergeSort (r := fun a b => decide (a ≤ b)) (s := fun (a b : Nat × List Nat) => decide (a.1 ≤ b.1))
    (f := fun t => (t, F t)) (l := l) (fun a _ b _ => rfl)).symm

theorem mem_sortN (l : List Nat) (x : Nat) : x ∈ sortN l ↔ x ∈ l := by
  unfold sortN; exact (List.mergeSort_perm l _).mem_iff

/-- a printed entry contains a colon -/
theorem colon_mem_entry (k : Nat) (l : List Nat) : ':' ∈ (entry k l).toList := by
  unfold entry
  simp only [String.toList_append, toString]
  have e : ":".toList = [':'] := rfl
  rw [e]; simp

/-- the printed `M=` word of a successful `get_claim_topics_and_issuers` is never the failure mark -/
theorem mraw_ne_x (l : List (Nat × List Nat)) :
    sepBy ";" (l.map (fun (p : Nat × List Nat) => entry p.1 p.2)) ≠ "x" := by
  unfold sepBy
  cases l with
  | nil => decide
  | cons p ps =>
    rw [if_neg (by simp)]
    intro h
    have hc : ':' ∈ (";".intercalate (List.map (fun (p : Nat × List Nat) => entry p.1 p.2) (p :: ps))).toList := by
      rw [String.toList_intercalate, List.map_cons, List.map_cons]
      cases ps with
      | nil => simpa using colon_mem_entry p.1 p.2
      | cons q qs =>
        rw [List.map_cons, List.map_cons, List.intercalate_cons_cons]
        exact List.mem_append_left _ (List.mem_append_left _ (colon_mem_entry p.1 p.2))
    rw [h] at hc
    revert hc; decide

/-! ### the monitor's ghost describes the model state -/

/-- the plain sets are the model's vectors, the plain relation is the model's forward map -/
structure Agree (g : Mon) (s : State) (nt ni ht : Nat) : Prop where
  nt : g.nt = nt
  ni : g.ni = ni
  ht : g.ht = ht
  topics : g.topics = s.topics
  issuers : g.issuers = s.issuers
  rel : ∀ i t, (i, t) ∈ g.rel ↔ memO (s.issuerTopics i) t

theorem mem_wantT (g : Mon) (t x : Nat) : x ∈ wantT g t ↔ (x, t) ∈ g.rel := by
  unfold wantT
  simp only [List.mem_map, List.mem_filter, beq_iff_eq]
  constructor
  · rintro ⟨⟨a, b⟩, ⟨hp, rfl⟩, rfl⟩; exact hp
  · intro hp; exact ⟨(x, t), ⟨hp, rfl⟩, rfl⟩

theorem mem_wantI (g : Mon) (i x : Nat) : x ∈ wantI g i ↔ (i, x) ∈ g.rel := by
  unfold wantI
  simp only [List.mem_map, List.mem_filter, beq_iff_eq]
  constructor
  · rintro ⟨⟨a, b⟩, ⟨hp, rfl⟩, rfl⟩; exact hp
  · intro hp; exact ⟨(i, x), ⟨hp, rfl⟩, rfl⟩

theorem validTs_ok_iff (g : Mon) (e : String) (ts : List Nat) :
    validTs g e ts = .ok () ↔ ts ≠ [] ∧ ts.length ≤ 15 ∧ ts.Nodup ∧ ∀ t, t ∈ ts → t ∈ g.topics := by
  unfold validTs
  by_cases h1 : ts = []
  · rw [if_pos h1]; constructor
    · intro h; cases h
    · rintro ⟨h, _⟩; exact absurd h1 h
  rw [if_neg h1]
  by_cases h2 : ts.length > 15
  · rw [if_pos h2]; constructor
    · intro h; cases h
    · rintro ⟨_, h, _⟩; omega
  rw [if_neg h2]
  by_cases h3 : ts.Nodup
  · rw [if_neg (not_bnot_true ((nodupB_iff ts).2 h3))]
    by_cases h4 : ∀ t, t ∈ ts → t ∈ g.topics
    · have : ts.all g.topics.contains = true := by
        rw [List.all_eq_true]; intro t ht; simpa using h4 t ht
      rw [if_neg (not_bnot_true this)]
      exact ⟨fun _ => ⟨h1, by omega, h3, h4⟩, fun _ => rfl⟩
    · have : ¬ ts.all g.topics.contains = true := by
        rw [List.all_eq_true]; intro h; apply h4; intro t ht; simpa using h t ht
      rw [if_pos (by simpa using this)]; constructor
      · intro h; cases h
      · rintro ⟨_, _, _, h⟩; exact absurd h h4
  · have : ¬ nodupB ts = true := fun h => h3 ((nodupB_iff ts).1 h)
    rw [if_pos (by simpa using this)]; constructor
    · intro h; cases h
    · rintro ⟨_, _, h, _⟩; exact absurd h h3

theorem validTs_cases (g : Mon) (e : String) (ts : List Nat) :
    validTs g e ts = .ok () ∨ ∃ w, validTs g e ts = .error w := by
  cases h : validTs g e ts with
  | ok u => left; cases u; rfl
  | error w => right; exact ⟨w, rfl⟩

/-! ### the model's forward map after each accepted operation -/

theorem removeTopic'_it {s : State} (hI : Inv s) (t i : Nat) :
    (removeTopic' s t).issuerTopics i = (s.issuerTopics i).map (·.erase t) := by
  show dropTopicFromIssuers s t i = _
  unfold dropTopicFromIssuers
  split
  · rfl
  · rename_i h
    have : s.issuerTopics i = none := by
      have := (not_congr (hI.itDom i)).2 h; simpa using this
    rw [this]; rfl

theorem addIssuer'_it (s : State) (i : Nat) (ts : List Nat) (i' : Nat) :
    (addIssuer' s i ts).issuerTopics i' = if i' = i then some ts else s.issuerTopics i' := by
  simp [addIssuer', updD]

theorem removeIssuer'_it (s : State) (i : Nat) (its : List Nat) (i' : Nat) :
    (removeIssuer' s i its).issuerTopics i' = if i' = i then none else s.issuerTopics i' := by
  simp [removeIssuer', updD]

theorem update'_it (s : State) (i : Nat) (ts old : List Nat) (i' : Nat) :
    (update' s i ts old).issuerTopics i' = if i' = i then some ts else s.issuerTopics i' := by
  simp [update', updD]

theorem it_none_of_not_mem {s : State} (hI : Inv s) {i : Nat} (h : i ∉ s.issuers) : s.issuerTopics i = none := by
  have := (not_congr (hI.itDom i)).2 h; simpa using this

/-- membership in the plain relation after (re)setting issuer `i` to the topics `ts` -/
theorem mem_reset (rel : List (Nat × Nat)) (i : Nat) (ts : List Nat) (i' t : Nat) :
    (i', t) ∈ rel.filter (fun p => p.1 ≠ i) ++ ts.map (fun t => (i, t)) ↔
      if i' = i then t ∈ ts else (i', t) ∈ rel := by
  simp only [List.mem_append, List.mem_filter, List.mem_map, Prod.mk.injEq, decide_eq_true_eq]
  by_cases h : i' = i
  · subst h; rw [if_pos rfl]
    constructor
    · rintro (⟨_, h⟩ | ⟨a, ha, _, rfl⟩)
      · exact absurd rfl h
      · exact ha
    · intro h; exact Or.inr ⟨t, h, rfl, rfl⟩
  · rw [if_neg h]
    constructor
    · rintro (⟨h', _⟩ | ⟨a, _, e, _⟩)
      · exact h'
      · exact absurd e.symm h
    · intro h'; exact Or.inl ⟨h', h⟩

/-! ### accept / refuse: the plain structure decides as the model does -/

/-- an operation the model accepts is accepted by the plain structure, which then describes the new
model state -/
theorem plain_ok {g : Mon} {s s' : State} {nt ni ht : Nat} (ha : Agree g s nt ni ht) (hI : Inv s) {op : Op}
    (hs : step s op = .ok s') : ∃ g', plain g op = .ok g' ∧ Agree g' s' nt ni ht := by
  cases op with
  | addTopic t =>
    obtain ⟨⟨hl, hn⟩, rfl⟩ := (addClaimTopic_ok_iff s s' t).1 hs
    have h1 : ¬ g.topics.contains t = true := by rw [ha.topics]; simpa using hn
    have h2 : ¬ g.topics.length ≥ 15 := by rw [ha.topics]; unfold MAX_CLAIM_TOPICS at hl; omega
    refine ⟨{ g with topics := g.topics ++ [t] }, ?_, ?_⟩
    · simp only [plain]; rw [if_neg h1, if_neg h2]
    · exact ⟨ha.nt, ha.ni, ha.ht, by show g.topics ++ [t] = s.topics ++ [t]; rw [ha.topics], ha.issuers, ha.rel⟩
  | removeTopic t =>
    obtain ⟨hm, rfl⟩ := (removeClaimTopic_ok_iff s s' t).1 hs
    have h1 : g.topics.contains t = true := by rw [ha.topics]; simpa using hm
    refine ⟨{ g with topics := g.topics.erase t, rel := g.rel.filter (fun p => p.2 ≠ t) }, ?_, ?_⟩
    · simp only [plain]; rw [if_neg (not_bnot_true h1)]
    · refine ⟨ha.nt, ha.ni, ha.ht, by show g.topics.erase t = s.topics.erase t; rw [ha.topics], ha.issuers, ?_⟩
      intro i t'
      rw [removeTopic'_it hI, memO_map_erase (hI.itN i), ← ha.rel]
      show (i, t') ∈ g.rel.filter (fun p => p.2 ≠ t) ↔ _
      simp only [List.mem_filter, decide_eq_true_eq]
  | addIssuer i ts =>
    obtain ⟨⟨hv, hl, hn⟩, rfl⟩ := (addTrustedIssuer_ok_iff hI s' i ts).1 hs
    have hv' : validTs g "add_trusted_issuer" ts = .ok () :=
      (validTs_ok_iff g _ ts).2 (by rw [ha.topics]; exact hv)
    have h1 : ¬ g.issuers.contains i = true := by rw [ha.issuers]; simpa using hn
    have h2 : ¬ g.issuers.length ≥ 50 := by rw [ha.issuers]; unfold MAX_ISSUERS at hl; omega
    refine ⟨{ g with issuers := g.issuers ++ [i], rel := g.rel ++ ts.map (fun t => (i, t)) }, ?_, ?_⟩
    · simp only [plain]; rw [hv']
      show (if _ then _ else _) = _
      rw [if_neg h1, if_neg h2]
    · refine ⟨ha.nt, ha.ni, ha.ht, ha.topics, by show g.issuers ++ [i] = s.issuers ++ [i]; rw [ha.issuers], ?_⟩
      intro i' t
      rw [addIssuer'_it]
      show (i', t) ∈ g.rel ++ ts.map (fun t => (i, t)) ↔ _
      have hnone := it_none_of_not_mem hI hn
      simp only [List.mem_append, List.mem_map, Prod.mk.injEq]
      by_cases h : i' = i
      · subst h; rw [if_pos rfl, memO_some]
        constructor
        · rintro (h' | ⟨a, ha', _, rfl⟩)
          · rw [ha.rel, hnone] at h'; exact absurd h' (memO_none _)
          · exact ha'
        · intro h'; exact Or.inr ⟨t, h', rfl, rfl⟩
      · rw [if_neg h, ← ha.rel]
        constructor
        · rintro (h' | ⟨a, _, e, _⟩)
          · exact h'
          · exact absurd e.symm h
        · intro h'; exact Or.inl h'
  | removeIssuer i =>
    obtain ⟨hm, its, hits, rfl⟩ := (removeTrustedIssuer_ok_iff hI s' i).1 hs
    have h1 : g.issuers.contains i = true := by rw [ha.issuers]; simpa using hm
    refine ⟨{ g with issuers := g.issuers.erase i, rel := g.rel.filter (fun p => p.1 ≠ i) }, ?_, ?_⟩
    · simp only [plain]; rw [if_neg (not_bnot_true h1)]
    · refine ⟨ha.nt, ha.ni, ha.ht, ha.topics, by show g.issuers.erase i = s.issuers.erase i; rw [ha.issuers], ?_⟩
      intro i' t
      rw [removeIssuer'_it]
      show (i', t) ∈ g.rel.filter (fun p => p.1 ≠ i) ↔ _
      simp only [List.mem_filter, decide_eq_true_eq]
      by_cases h : i' = i
      · subst h; rw [if_pos rfl]
        exact ⟨fun h' => absurd rfl h'.2, fun h' => absurd h' (memO_none _)⟩
      · rw [if_neg h, ← ha.rel]
        exact ⟨fun h' => h'.1, fun h' => ⟨h', h⟩⟩
  | update i ts =>
    obtain ⟨⟨hv, hm⟩, old, hold, rfl⟩ := (update_ok_iff hI s' i ts).1 hs
    have hv' : validTs g "update_issuer_claim_topics" ts = .ok () :=
      (validTs_ok_iff g _ ts).2 (by rw [ha.topics]; exact hv)
    have h1 : g.issuers.contains i = true := by rw [ha.issuers]; simpa using hm
    refine ⟨{ g with rel := g.rel.filter (fun p => p.1 ≠ i) ++ ts.map (fun t => (i, t)) }, ?_, ?_⟩
    · simp only [plain]; rw [hv']
      show (if _ then _ else _) = _
      rw [if_neg (not_bnot_true h1)]
    · refine ⟨ha.nt, ha.ni, ha.ht, ha.topics, ha.issuers, ?_⟩
      intro i' t
      rw [update'_it]
      show (i', t) ∈ g.rel.filter (fun p => p.1 ≠ i) ++ ts.map (fun t => (i, t)) ↔ _
      rw [mem_reset]
      by_cases h : i' = i
      · subst h; rw [if_pos rfl, if_pos rfl, memO_some]
      · rw [if_neg h, if_neg h, ha.rel]

theorem step_ne_error_of_ok {s s' : State} {op : Op} {e : RErr} (h : step s op = .ok s')
    (hs : step s op = .error e) : False := by
  rw [h] at hs; cases hs

/-- an operation the model refuses is refused by the plain structure -/
theorem plain_err {g : Mon} {s : State} {nt ni ht : Nat} (ha : Agree g s nt ni ht) (hI : Inv s) {op : Op} {e : RErr}
    (hs : step s op = .error e) : ∃ w, plain g op = .error w := by
  cases op with
  | addTopic t =>
    simp only [plain]
    by_cases h1 : g.topics.contains t = true
    · rw [if_pos h1]; exact ⟨_, rfl⟩
    · rw [if_neg h1]
      by_cases h2 : g.topics.length ≥ 15
      · rw [if_pos h2]; exact ⟨_, rfl⟩
      · exfalso
        rw [ha.topics] at h1 h2
        exact step_ne_error_of_ok (op := .addTopic t)
          ((addClaimTopic_ok_iff s _ t).2 ⟨⟨by unfold MAX_CLAIM_TOPICS; omega, by simpa using h1⟩, rfl⟩) hs
  | removeTopic t =>
    simp only [plain]
    by_cases h1 : g.topics.contains t = true
    · exfalso
      rw [ha.topics] at h1
      exact step_ne_error_of_ok (op := .removeTopic t)
        ((removeClaimTopic_ok_iff s _ t).2 ⟨by simpa using h1, rfl⟩) hs
    · rw [if_pos (by simpa using h1)]; exact ⟨_, rfl⟩
  | addIssuer i ts =>
    simp only [plain]
    rcases validTs_cases g "add_trusted_issuer" ts with hv | ⟨w, hv⟩
    · rw [hv]
      simp only [ok_bind]
      by_cases h1 : g.issuers.contains i = true
      · rw [if_pos h1]; exact ⟨_, rfl⟩
      · rw [if_neg h1]
        by_cases h2 : g.issuers.length ≥ 50
        · rw [if_pos h2]; exact ⟨_, rfl⟩
        · exfalso
          have hv' := (validTs_ok_iff g _ ts).1 hv
          rw [ha.topics] at hv'
          rw [ha.issuers] at h1 h2
          exact step_ne_error_of_ok (op := .addIssuer i ts)
            ((addTrustedIssuer_ok_iff hI _ i ts).2 ⟨⟨hv', by unfold MAX_ISSUERS; omega, by simpa using h1⟩, rfl⟩) hs
    · rw [hv]; exact ⟨w, rfl⟩
  | removeIssuer i =>
    simp only [plain]
    by_cases h1 : g.issuers.contains i = true
    · exfalso
      rw [ha.issuers] at h1
      have hm : i ∈ s.issuers := by simpa using h1
      obtain ⟨its, hits⟩ := Option.isSome_iff_exists.1 ((hI.itDom i).2 hm)
      exact step_ne_error_of_ok (op := .removeIssuer i)
        ((removeTrustedIssuer_ok_iff hI _ i).2 ⟨hm, its, hits, rfl⟩) hs
    · rw [if_pos (by simpa using h1)]; exact ⟨_, rfl⟩
  | update i ts =>
    simp only [plain]
    rcases validTs_cases g "update_issuer_claim_topics" ts with hv | ⟨w, hv⟩
    · rw [hv]
      simp only [ok_bind]
      by_cases h1 : g.issuers.contains i = true
      · exfalso
        have hv' := (validTs_ok_iff g _ ts).1 hv
        rw [ha.topics] at hv'
        rw [ha.issuers] at h1
        have hm : i ∈ s.issuers := by simpa using h1
        obtain ⟨old, hold⟩ := Option.isSome_iff_exists.1 ((hI.itDom i).2 hm)
        exact step_ne_error_of_ok (op := .update i ts)
          ((update_ok_iff hI _ i ts).2 ⟨⟨hv', hm⟩, old, hold, rfl⟩) hs
      · rw [if_pos (by simpa using h1)]; exact ⟨_, rfl⟩
    · rw [hv]; exact ⟨w, rfl⟩

/-! ### the getter checks on the model's observation -/

/-- the issuers the model lists for a topic are those of the plain relation -/
theorem mem_ti_iff {g : Mon} {s : State} {nt ni ht : Nat} (ha : Agree g s nt ni ht) (hI : Inv s)
    {t : Nat} {l : List Nat} (hf : s.topicIssuers t = some l) (x : Nat) : x ∈ l ↔ x ∈ wantT g t := by
  rw [mem_wantT, ha.rel, hI.twoWay, hf, memO_some]

/-- the topics the model lists for an issuer are those of the plain relation -/
theorem mem_it_iff {g : Mon} {s : State} {nt ni ht : Nat} (ha : Agree g s nt ni ht)
    {i : Nat} {l : List Nat} (hf : s.issuerTopics i = some l) (x : Nat) : x ∈ l ↔ x ∈ wantI g i := by
  rw [mem_wantI, ha.rel, hf, memO_some]

theorem tiCheck_quiet {g : Mon} {s : State} {nt ni ht : Nat} (ha : Agree g s nt ni ht) (hI : Inv s)
    (n t : Nat) (ht' : t ∈ List.range n) :
    tiCheck g ((List.range n).filterMap (fun t => (getClaimTopicIssuers s t).map (fun l => (t, l)))) t = none := by
  unfold tiCheck
  cases hf : s.topicIssuers t with
  | none =>
    rw [find_graphO_none (List.range n) (getClaimTopicIssuers s) t hf]
    show chk (!g.topics.contains t) _ = none
    apply chk_of
    rw [ha.topics]
    have : t ∉ s.topics := fun hm => by have := (hI.tiDom t).2 hm; rw [hf] at this; cases this
    simpa using this
  | some l =>
    rw [find_graphO_some (List.range n) (getClaimTopicIssuers s) t l ht' hf]
    show chk (decide (g.topics.contains t = true ∧ nodupB l = true ∧ sameSet l (wantT g t) = true)) _ = none
    apply chk_decide
    refine ⟨?_, (nodupB_iff _).2 (hI.tiN t l hf), (sameSet_iff _ _).2 (mem_ti_iff ha hI hf)⟩
    rw [ha.topics]
    have : t ∈ s.topics := (hI.tiDom t).1 (by rw [hf]; rfl)
    simpa using this

theorem itCheck_quiet {g : Mon} {s : State} {nt ni ht : Nat} (ha : Agree g s nt ni ht) (hI : Inv s)
    (n i : Nat) (hi : i ∈ List.range n) :
    itCheck g ((List.range n).filterMap (fun i => (getTrustedIssuerClaimTopics s i).map (fun l => (i, l)))) i = none := by
  unfold itCheck
  cases hf : s.issuerTopics i with
  | none =>
    rw [find_graphO_none (List.range n) (getTrustedIssuerClaimTopics s) i hf]
    show chk (!g.issuers.contains i) _ = none
    apply chk_of
    rw [ha.issuers]
    have : i ∉ s.issuers := fun hm => by have := (hI.itDom i).2 hm; rw [hf] at this; cases this
    simpa using this
  | some l =>
    rw [find_graphO_some (List.range n) (getTrustedIssuerClaimTopics s) i l hi hf]
    show chk (decide (g.issuers.contains i = true ∧ nodupB l = true ∧ sameSet l (wantI g i) = true)) _ = none
    apply chk_decide
    refine ⟨?_, (nodupB_iff _).2 (hI.itN i l hf), (sameSet_iff _ _).2 (mem_it_iff ha hf)⟩
    rw [ha.issuers]
    have : i ∈ s.issuers := (hI.itDom i).1 (by rw [hf]; rfl)
    simpa using this

/-- `get_claim_topics_and_issuers` succeeds in every reachable state, with the graph of
`get_claim_topic_issuers` over the listed topics -/
theorem getM_some {s : State} (hI : Inv s) :
    getClaimTopicsAndIssuers s = some (s.topics.map (fun t => (t, (s.topicIssuers t).getD []))) := by
  unfold getClaimTopicsAndIssuers
  exact mapM_graph s.topics s.topicIssuers (fun t ht => (hI.tiDom t).2 ht)

/-- the map check on the sorted graph of the model -/
theorem mOk_quiet {g : Mon} {s : State} {nt ni ht : Nat} (ha : Agree g s nt ni ht) (hI : Inv s)
    (raw : String) (hraw : raw ≠ "x") :
    mOk g raw ((s.topics.map (fun t => (t, (s.topicIssuers t).getD []))).mergeSort
      (fun (a b : Nat × List Nat) => decide (a.1 ≤ b.1))) = true := by
  rw [sort_graph]
  unfold mOk mWant
  rw [ha.topics, decide_eq_true hraw, List.map_map, List.map_map, List.zip_map']
  simp only [Bool.true_and, Bool.and_eq_true, decide_eq_true_eq, List.all_map, List.all_eq_true, Function.comp]
  refine ⟨rfl, ?_⟩
  intro t ht'
  have hm : t ∈ s.topics := (mem_sortN _ _).1 ht'
  obtain ⟨l, hl⟩ := Option.isSome_iff_exists.1 ((hI.tiDom t).2 hm)
  rw [hl]
  exact ⟨(sameSet_iff _ _).2 (mem_ti_iff ha hI hl), (nodupB_iff _).2 (hI.tiN t l hl)⟩

/-- one cell of `h=`: `has_claim_topic` against the plain relation -/
theorem hcell_eq {g : Mon} {s : State} {nt ni ht : Nat} (ha : Agree g s nt ni ht) (hI : Inv s) (i t : Nat) :
    (match hasClaimTopic s i t with
      | none => "x"
      | some b => bit b) = if g.issuers.contains i then bit (g.rel.contains (i, t)) else "x" := by
  unfold hasClaimTopic
  rw [ha.issuers]
  cases hf : s.issuerTopics i with
  | none =>
    have : i ∉ s.issuers := fun hm => by have := (hI.itDom i).2 hm; rw [hf] at this; cases this
    rw [if_neg (by simpa using this)]; rfl
  | some l =>
    have : i ∈ s.issuers := (hI.itDom i).1 (by rw [hf]; rfl)
    rw [if_pos (by simpa using this)]
    show bit (l.contains t) = _
    congr 1
    rw [Bool.eq_iff_iff, List.contains_iff_mem, List.contains_iff_mem, ha.rel, hf, memO_some]

end OZ.RegTopics.Mon
