import OZ.Lemmas.FungibleAuth
import OZ.Model.FungibleMon
/-
Helper lemmas for the monitor-soundness theorems of C01 and C02 (OZ/Props/C01Mon.lean,
OZ/Props/C02Mon.lean): the op line of a model operation, the printed balance / allowance lists
against the model's maps, the list-level event replay against the function-level one, the
association-list ghost of the C02 monitor against the ghost function of Lemmas/FungibleAuth.
-/
namespace OZ.FungibleMon
open OZ.Host OZ.Fungible

/-! ### the op line of a model operation

What `FungibleIO.parseLine` reads from the harness's rendering
`fungible <kind> a=<addrs> amt=<amount> lu=<lu> auth=<signers>` / `fungible advance n=<k>` of an
operation — the same fields `FungibleIO.parseOp` builds the model's `Op` from. (`lu` is read by
the monitors for `approve` only.) -/

def kindOf : Op → Kind
  | .mint _ _ => .mint
  | .transfer _ _ _ => .transfer
  | .transferFrom _ _ _ _ => .transferFrom
  | .approve _ _ _ _ => .approve
  | .burn _ _ => .burn
  | .burnFrom _ _ _ => .burnFrom
  | .advance _ => .advance

def amtOf : Op → Int
  | .mint _ a => a
  | .transfer _ _ a => a
  | .transferFrom _ _ _ a => a
  | .approve _ _ a _ => a
  | .burn _ a => a
  | .burnFrom _ _ a => a
  | .advance _ => 0

def luOf : Op → Nat
  | .approve _ _ _ lu => lu
  | _ => 0

def lineOf (auth : List Nat) (op : Op) : Line :=
  { kind := kindOf op, a := op.addrs, auth := auth, amt := amtOf op, lu := luOf op }

/-! ### plumbing -/

theorem orElse_none {a : Option String} {b : Unit → Option String} (h : a = none) : orElse a b = b () := by
  subst h; rfl

theorem firstSome_none {α} (l : List α) (f : α → Option String) (h : ∀ x ∈ l, f x = none) :
    firstSome l f = none := by
  unfold firstSome
  induction l with
  | nil => rfl
  | cons x xs ih =>
    rw [List.foldl_cons]
    show List.foldl _ (f x) xs = none
    rw [h x (List.mem_cons_self)]
    exact ih (fun y hy => h y (List.mem_cons_of_mem _ hy))

theorem mem_pairs {n : Nat} {p : Nat × Nat} (h : p ∈ Auth.pairs n) : p.1 < n ∧ p.2 < n := by
  unfold Auth.pairs at h
  rw [List.mem_flatMap] at h
  obtain ⟨o, ho, h⟩ := h
  rw [List.mem_map] at h
  obtain ⟨sp, hsp, rfl⟩ := h
  exact ⟨List.mem_range.mp ho, List.mem_range.mp hsp⟩

/-! ### the model's invocation as the driver runs it -/

theorem guarded_ok {c : Cfg} {s s' : State} {auth : List Nat} {op : Op} {g : Option Nat}
    (h : guarded c s auth op g = .ok s') : apply c s auth op = .ok s' := by
  unfold guarded at h
  cases g with
  | none => exact h
  | some g =>
    simp only at h
    split at h
    · exact h
    · cases h

theorem applyG_ok {c : Cfg} {s s' : State} {auth : List Nat} {op : Op} {mauth : Option Nat}
    (h : applyG c s auth op mauth = .ok s') : apply c s auth op = .ok s' := guarded_ok h

/-- the mint guard of the example contracts applies to mints only -/
theorem applyG_not_mint {c : Cfg} {s : State} {auth : List Nat} {op : Op} (mauth : Option Nat)
    (h : ∀ t a, op ≠ .mint t a) : applyG c s auth op mauth = apply c s auth op := by
  cases op with
  | mint t a => exact absurd rfl (h t a)
  | _ => rfl

/-! ### events of one call -/

theorem update_events {s s' : State} {f t : Option Nat} {amt : Int} (h : update s f t amt = .ok s') :
    s'.events = s.events := by
  obtain ⟨_, s1, hd, hc⟩ := update_ok h
  obtain ⟨_, _, ed, _⟩ := debit_ok hd
  obtain ⟨_, _, ec, _⟩ := credit_ok hc
  rw [ec, ed]

/-- an accepted invocation only appends events -/
theorem apply_events {c : Cfg} {s s' : State} {auth : List Nat} {op : Op}
    (h : apply c s auth op = .ok s') : ∃ evs, s'.events = s.events ++ evs := by
  cases op with
  | mint t amt =>
    obtain ⟨s1, h1, rfl⟩ := mint_ok h
    exact ⟨[.mint t amt], by simp only [emit]; rw [update_events h1]⟩
  | transfer f t amt =>
    obtain ⟨_, s1, h1, rfl⟩ := transfer_ok h
    exact ⟨[.transfer f t amt], by simp only [emit]; rw [update_events h1]⟩
  | transferFrom sp f t amt =>
    obtain ⟨_, s0, s1, h0, h1, rfl⟩ := transferFrom_ok h
    obtain ⟨_, _, _, ee, _⟩ := spendAllowance_ok h0
    exact ⟨[.transfer f t amt], by simp only [emit]; rw [update_events h1, ee]⟩
  | approve o sp amt lu =>
    obtain ⟨_, s0, h0, rfl⟩ := approve_ok h
    obtain ⟨_, _, _, ee, _⟩ := setAllowance_ok h0
    exact ⟨[.approve o sp amt lu], by simp only [emit]; rw [ee]⟩
  | burn f amt =>
    obtain ⟨_, s1, h1, rfl⟩ := burn_ok h
    exact ⟨[.burn f amt], by simp only [emit]; rw [update_events h1]⟩
  | burnFrom sp f amt =>
    obtain ⟨_, s0, s1, h0, h1, rfl⟩ := burnFrom_ok h
    obtain ⟨_, _, _, ee, _⟩ := spendAllowance_ok h0
    exact ⟨[.burn f amt], by simp only [emit]; rw [update_events h1, ee]⟩
  | advance n =>
    injection h with h; subst h
    exact ⟨[], by simp⟩

theorem newEvents_of_append {s s' : State} {evs : List Event} (h : s'.events = s.events ++ evs) :
    newEvents s s' = evs := by
  unfold newEvents
  rw [h, List.drop_left]

/-! ### the printed balances -/

theorem balList_length (n : Nat) (s : State) : (balList n s).length = n := by
  simp [balList]

theorem balAt_balList {n i : Nat} (s : State) (h : i < n) : Auth.balAt (balList n s) i = s.bal i := by
  simp [Auth.balAt, balList, h]

theorem balList_sum (n : Nat) (s : State) : (balList n s).sum = total (List.range n) s.bal := rfl

theorem balList_congr {n : Nat} {s s' : State} (h : s'.bal = s.bal) : balList n s' = balList n s := by
  unfold balList; rw [h]

theorem balList_init (n now : Nat) : balList n (init now) = List.replicate n 0 := by
  simp only [balList, init, List.map_const', List.length_range]

theorem balList_nonneg {n : Nat} {s : State} (h : ∀ a, 0 ≤ s.bal a) :
    (balList n s).any (· < 0) = false := by
  simp only [balList, List.any_eq_false, List.mem_map, decide_eq_true_eq]
  rintro x ⟨a, _, rfl⟩
  have := h a
  omega

/-! ### the printed allowances -/

theorem mem_allowList {n : Nat} {s : State} {e : Nat × Nat × Int} :
    e ∈ allowList n s ↔
      e.1 < n ∧ e.2.1 < n ∧ allowance s e.1 e.2.1 ≠ 0 ∧ e.2.2 = allowance s e.1 e.2.1 := by
  unfold allowList
  rw [List.mem_flatMap]
  constructor
  · rintro ⟨o, ho, h⟩
    rw [List.mem_filterMap] at h
    obtain ⟨sp, hsp, h⟩ := h
    split at h
    · cases h
    · rename_i hne
      injection h with h; subst h
      exact ⟨List.mem_range.mp ho, List.mem_range.mp hsp, hne, rfl⟩
  · rintro ⟨h1, h2, h3, h4⟩
    refine ⟨e.1, List.mem_range.mpr h1, ?_⟩
    rw [List.mem_filterMap]
    refine ⟨e.2.1, List.mem_range.mpr h2, ?_⟩
    rw [if_neg h3, ← h4]

/-- inside the observed universe the printed allowance list reads back the getter -/
theorem allowOf_allowList {n : Nat} {s : State} {o : Obs} (ho : o.allow = allowList n s) {x y : Nat}
    (hx : x < n) (hy : y < n) : o.allowOf x y = allowance s x y := by
  unfold Obs.allowOf
  rw [ho]
  cases hf : (allowList n s).find? (fun e => decide (e.1 = x ∧ e.2.1 = y)) with
  | none =>
    simp only
    rw [List.find?_eq_none] at hf
    by_cases h0 : allowance s x y = 0
    · exact h0.symm
    · exact absurd (by simp) (hf (x, y, allowance s x y) (mem_allowList.mpr ⟨hx, hy, h0, rfl⟩))
  | some e =>
    simp only
    have hp := List.find?_some hf
    have hm := List.mem_of_find?_eq_some hf
    obtain ⟨_, _, _, h4⟩ := mem_allowList.mp hm
    simp only [decide_eq_true_eq] at hp
    rw [h4, hp.1, hp.2]

theorem allowList_congr {n : Nat} {s s' : State} (h1 : s'.allow = s.allow) (h2 : s'.now = s.now) :
    allowList n s' = allowList n s := by
  unfold allowList
  simp only [allowance_congr h1 h2]

theorem allowList_init (n now : Nat) : allowList n (init now) = [] := by
  have h : ∀ o sp, allowance (init now) o sp = 0 := fun o sp => by
    unfold allowance; rw [allowanceData_none rfl]
  simp [allowList, h]

/-! ### list-level replay of events against the function-level replay of the model -/

theorem addAt_map (n : Nat) (b : Nat → Int) (i : Nat) (d : Int) :
    Supply.addAt ((List.range n).map b) i d = (List.range n).map (upd b i (b i + d)) := by
  unfold Supply.addAt
  apply List.ext_getElem
  · simp
  · intro j h1 h2
    simp only [List.getElem_mapIdx, List.getElem_map, List.getElem_range, upd]
    split
    · rename_i h; subst h; rfl
    · rfl

theorem replayEv_map (n : Nat) (b : Nat → Int) (ev : Event) :
    Supply.replayEv ((List.range n).map b) ev = (List.range n).map (replayEvent b ev) := by
  cases ev with
  | mint t a => simp only [Supply.replayEv, replayEvent, addAt_map]
  | burn f a => simp only [Supply.replayEv, replayEvent, addAt_map, Int.sub_eq_add_neg]
  | transfer f t a =>
    simp only [Supply.replayEv, replayEvent, addAt_map, Int.sub_eq_add_neg]
  | approve _ _ _ _ => rfl

theorem foldl_replayEv_map (n : Nat) (evs : List Event) (b : Nat → Int) :
    evs.foldl Supply.replayEv ((List.range n).map b) = (List.range n).map (evs.foldl replayEvent b) := by
  induction evs generalizing b with
  | nil => rfl
  | cons e es ih => simp only [List.foldl_cons]; rw [replayEv_map, ih]

/-- the events of one accepted call replay the old balances into the new ones -/
theorem replay_step {c : Cfg} {s s' : State} {auth : List Nat} {op : Op}
    (hr : replay s.events = s.bal) (hr' : replay s'.events = s'.bal) (h : apply c s auth op = .ok s') :
    (newEvents s s').foldl replayEvent s.bal = s'.bal := by
  obtain ⟨evs, he⟩ := apply_events h
  rw [newEvents_of_append he, ← hr', he, ← hr]
  simp [replay, List.foldl_append]

/-! ### the association-list ghost of the C02 monitor -/

theorem find?_filter_of_imp {α} (l : List α) (p q : α → Bool) (h : ∀ e, p e = true → q e = true) :
    (l.filter q).find? p = l.find? p := by
  induction l with
  | nil => rfl
  | cons e es ih =>
    by_cases hq : q e = true
    · rw [List.filter_cons_of_pos hq]
      simp only [List.find?_cons]
      rw [ih]
    · rw [List.filter_cons_of_neg hq, ih]
      have hp : p e = false := by
        cases hpe : p e with
        | false => rfl
        | true => exact absurd (h e hpe) hq
      simp only [List.find?_cons, hp]

theorem gOf_gSet_same (g : List (Nat × Nat × Auth.G)) (o sp : Nat) (v : Auth.G) :
    Auth.gOf (Auth.gSet g o sp v) o sp = v := by
  simp [Auth.gOf, Auth.gSet]

theorem gOf_gSet_other (g : List (Nat × Nat × Auth.G)) (o sp x y : Nat) (v : Auth.G)
    (h : ¬ (x = o ∧ y = sp)) : Auth.gOf (Auth.gSet g o sp v) x y = Auth.gOf g x y := by
  unfold Auth.gOf Auth.gSet
  have h1 : (decide (o = x ∧ sp = y)) = false := by
    simp only [decide_eq_false_iff_not]; intro ⟨a, b⟩; exact h ⟨a.symm, b.symm⟩
  simp only [List.find?_cons, h1]
  rw [find?_filter_of_imp]
  intro e he
  simp only [decide_eq_true_eq] at he ⊢
  intro ⟨a, b⟩
  exact h ⟨he.1.symm.trans a, he.2.symm.trans b⟩

/-- the monitor's ghost as a ghost function of Lemmas/FungibleAuth (remainder as `approved`, nothing spent) -/
def toGhost (g : List (Nat × Nat × Auth.G)) : Nat → Nat → Ghost :=
  fun o sp => ⟨(Auth.gOf g o sp).rem, 0, (Auth.gOf g o sp).lu⟩

theorem toGhost_gSet (g : List (Nat × Nat × Auth.G)) (o sp : Nat) (v : Auth.G) :
    toGhost (Auth.gSet g o sp v) = upd2 (toGhost g) o sp ⟨v.rem, 0, v.lu⟩ := by
  funext x y
  by_cases h : x = o ∧ y = sp
  · obtain ⟨rfl, rfl⟩ := h
    rw [upd2_same]; unfold toGhost; rw [gOf_gSet_same]
  · rw [upd2_other _ _ _ _ _ _ h]; unfold toGhost; rw [gOf_gSet_other _ _ _ _ _ _ h]

theorem toGhost_rem (g : List (Nat × Nat × Auth.G)) (x y : Nat) : (toGhost g x y).rem = (Auth.gOf g x y).rem := by
  simp [toGhost, Ghost.rem]

theorem toGhost_lu (g : List (Nat × Nat × Auth.G)) (x y : Nat) : (toGhost g x y).lu = (Auth.gOf g x y).lu := rfl

/-- the ghost relation only looks at the remainder and the live_until of the ghost record -/
theorem grel_congr {g g' : Ghost} {t : Option (Temp AllowanceData)} (h : GRel g t)
    (h1 : g'.rem = g.rem) (h2 : g'.lu = g.lu) : GRel g' t := by
  unfold GRel at *
  rw [h1, h2]
  exact h

theorem ginv_congr_ghost {s : State} {g g' : Nat → Nat → Ghost} (h : GInv s g)
    (h1 : ∀ o sp, (g' o sp).rem = (g o sp).rem) (h2 : ∀ o sp, (g' o sp).lu = (g o sp).lu) : GInv s g' :=
  fun o sp => grel_congr (h o sp) (h1 o sp) (h2 o sp)

/-! ### the pieces of the C01 verdict, each silent under its plain-worded condition -/
namespace Supply

theorem vSum_none {o : Obs} (h : o.bal.sum = o.sup) : vSum o = none := by
  unfold vSum; rw [if_neg (by rw [h]; exact fun hne => hne rfl)]

theorem vNegative_none {o : Obs} (h : o.bal.any (· < 0) = false) : vNegative o = none := by
  unfold vNegative; rw [if_neg (by rw [h]; exact Bool.false_ne_true)]

theorem vRollback_none {prev o : Obs}
    (h : o.ok = false → o.sup = prev.sup ∧ o.bal = prev.bal ∧ o.allow = prev.allow) :
    vRollback prev o = none := by
  unfold vRollback
  rw [if_neg]
  rintro ⟨h1, h2⟩
  obtain ⟨a, b, c⟩ := h (by simpa using h1)
  rcases h2 with h2 | h2 | h2
  · exact h2 a
  · exact h2 b
  · exact h2 c

theorem vMint_none {k : Kind} {amt : Int} {prev o : Obs}
    (h : o.ok = true → k = .mint → o.sup = prev.sup + amt) : vMint k amt prev o = none := by
  unfold vMint
  rw [if_neg]
  rintro ⟨h1, h2, h3⟩
  exact h3 (h h1 h2)

theorem vBurn_none {k : Kind} {amt : Int} {prev o : Obs}
    (h : o.ok = true → (k = .burn ∨ k = .burnFrom) → o.sup = prev.sup - amt) : vBurn k amt prev o = none := by
  unfold vBurn
  rw [if_neg]
  rintro ⟨h1, h2, h3⟩
  exact h3 (h h1 h2)

theorem vSame_none {k : Kind} {prev o : Obs}
    (h : o.ok = true → (k = .transfer ∨ k = .transferFrom ∨ k = .approve ∨ k = .advance) → o.sup = prev.sup) :
    vSame k prev o = none := by
  unfold vSame
  rw [if_neg]
  rintro ⟨h1, h2, h3⟩
  exact h3 (h h1 h2)

theorem vReplay_none {r : List Int} {o : Obs} (h : r = o.bal) : vReplay r o = none := by
  unfold vReplay; rw [if_neg (by rw [h]; exact fun hne => hne rfl)]

theorem verdict_none {prev : Obs} {l : Line} {r : List Int} {o : Obs}
    (h1 : vSum o = none) (h2 : vNegative o = none) (h3 : vRollback prev o = none)
    (h4 : vMint l.kind l.amt prev o = none) (h5 : vBurn l.kind l.amt prev o = none)
    (h6 : vSame l.kind prev o = none) (h7 : vReplay r o = none) : verdict prev l r o = none := by
  unfold verdict
  rw [orElse_none h1, orElse_none h2, orElse_none h3, orElse_none h4, orElse_none h5, orElse_none h6]
  exact h7

end Supply

/-! ### the pieces of the C02 verdict, each silent under its plain-worded condition -/
namespace Auth

theorem vRollback_none {prev o : Obs} (h : o.ok = false → o.bal = prev.bal ∧ o.allow = prev.allow) :
    vRollback prev o = none := by
  unfold vRollback
  rw [if_neg]
  rintro ⟨h1, h2⟩
  obtain ⟨a, b⟩ := h (by simpa using h1)
  rcases h2 with h2 | h2
  · exact h2 a
  · exact h2 b

theorem mustReject_iff (mx : Nat) (auth : List Nat) (owner : Nat) (amt : Int) (lu now : Nat) :
    mustReject mx auth owner amt lu now = true ↔
      (owner ∉ auth ∨ amt < 0 ∨ lu > now + mx - 1 ∨ (0 < amt ∧ lu < now)) := by
  simp [mustReject, or_assoc]

/-- (4): silent when the approve was rejected exactly when it must be -/
theorem vApprove_none {mx : Nat} {auth : List Nat} {owner : Nat} {amt : Int} {lu : Nat} {o : Obs}
    (h : o.ok = false ↔ (owner ∉ auth ∨ amt < 0 ∨ lu > o.now + mx - 1 ∨ (0 < amt ∧ lu < o.now))) :
    vApprove mx auth owner amt lu o = none := by
  unfold vApprove
  cases hok : o.ok with
  | false =>
    have hm := (mustReject_iff mx auth owner amt lu o.now).mpr (h.mp hok)
    rw [if_neg (by simp), if_neg (by simp), if_neg (by simp [hm])]
  | true =>
    have hnot : ¬ (owner ∉ auth ∨ amt < 0 ∨ lu > o.now + mx - 1 ∨ (0 < amt ∧ lu < o.now)) := by
      intro hc; have := h.mpr hc; rw [hok] at this; cases this
    have hm : mustReject mx auth owner amt lu o.now = false := by
      cases hmr : mustReject mx auth owner amt lu o.now with
      | false => rfl
      | true => exact absurd ((mustReject_iff mx auth owner amt lu o.now).mp hmr) hnot
    have hin : owner ∈ auth := by
      apply Classical.byContradiction; intro hni; exact hnot (.inl hni)
    rw [if_neg (by simp [hin]), if_neg (by simp [hm]), if_neg (by simp)]

theorem vBounds_none {mx : Nat} {l : Line} {o : Obs}
    (h : l.kind = .approve → vApprove mx l.auth (l.a.head?.getD 0) l.amt l.lu o = none) :
    vBounds mx l o = none := by
  unfold vBounds
  split
  · rename_i hk; exact h hk
  · rfl

theorem vDebitDirect_none {k : Kind} {h : Nat} {a auth : List Nat} (h1 : a.head? = some h) (h2 : h ∈ auth) :
    vDebitDirect k h a auth = none := by
  unfold vDebitDirect
  rw [if_neg (by rw [h1]; exact fun hne => hne rfl), if_neg (by simp [h2])]

theorem vDebitSpend_none {prev o : Obs} {g : List (Nat × Nat × G)} {k : Kind} {h sp : Nat} {rest auth : List Nat}
    {amt : Int} (h2 : sp ∈ auth) (h3 : o.now ≤ (gOf g h sp).lu) (h4 : amt ≤ prev.allowOf h sp)
    (h5 : o.allowOf h sp = prev.allowOf h sp - amt) :
    vDebitSpend prev o g k h (sp :: h :: rest) auth amt = none := by
  unfold vDebitSpend
  simp only
  rw [if_neg (fun hne => hne rfl), if_neg (by simp [h2]), if_neg (by omega), if_neg (by omega),
    if_neg (by rw [h5]; exact fun hne => hne rfl)]

theorem vDebit_none_of_ge {prev o : Obs} {g : List (Nat × Nat × G)} {k : Kind} {a auth : List Nat} {amt : Int}
    {h : Nat} (hge : ¬ balAt o.bal h < balAt prev.bal h) : vDebit prev o g k a auth amt h = none := by
  unfold vDebit; rw [if_neg hge]

theorem vRaise_none_of_le {prev o : Obs} {k : Kind} {a auth : List Nat} {amt : Int} {p : Nat × Nat}
    (hle : ¬ o.allowOf p.1 p.2 > prev.allowOf p.1 p.2) : vRaise prev o k a auth amt p = none := by
  unfold vRaise; rw [if_neg hle]

theorem vRaise_none_of_approve {prev o : Obs} {auth : List Nat} {amt : Int} {p : Nat × Nat}
    (hok : o.ok = true) (h2 : p.1 ∈ auth) (h3 : o.allowOf p.1 p.2 = amt) :
    vRaise prev o .approve [p.1, p.2] auth amt p = none := by
  unfold vRaise
  by_cases hgt : o.allowOf p.1 p.2 > prev.allowOf p.1 p.2
  · rw [if_pos hgt, if_neg (fun h => h hok), if_neg (by intro h; rcases h with h | h <;> exact h rfl),
      if_neg (fun h => h h2), if_neg (fun h => h h3)]
  · rw [if_neg hgt]

/-- (2)+(3): silent when the allowance is what the ghost record determines -/
theorem vGhost_none {o : Obs} {g : List (Nat × Nat × G)} {p : Nat × Nat}
    (h0 : 0 ≤ (gOf g p.1 p.2).rem)
    (h : o.allowOf p.1 p.2 = if o.now ≤ (gOf g p.1 p.2).lu then (gOf g p.1 p.2).rem else 0) :
    vGhost o g p = none := by
  unfold vGhost
  by_cases hn : o.now ≤ (gOf g p.1 p.2).lu
  · rw [if_pos hn] at h
    rw [if_neg (by omega), if_neg (by omega), if_neg (by omega), if_neg (by omega)]
  · rw [if_neg hn] at h
    rw [if_neg (by omega), if_neg (by omega), if_neg (by omega), if_neg (by omega)]

theorem verdict_none {m : Mon} {l : Line} {o : Obs}
    (h1 : vRollback (prevOf m o.now) o = none) (h2 : vBounds m.maxTtl l o = none)
    (h3 : o.ok = true → checkDebits m.n (prevOf m o.now) o m.g l.kind l.a l.auth l.amt = none)
    (h4 : checkRaises m.n (prevOf m o.now) o l.kind l.a l.auth l.amt = none)
    (h5 : checkGhost m.n o (ghostStep m.g o.ok l) = none) : verdict m l o = none := by
  unfold verdict
  rw [orElse_none h1, orElse_none h2, orElse_none (by split; exact h3 ‹_›; rfl), orElse_none h4]
  exact h5

/-! the ghost step of the monitor on the line of an accepted / rejected model operation -/

theorem ghostStep_rejected (g : List (Nat × Nat × G)) (l : Line) : ghostStep g false l = g := by
  simp [ghostStep]

/-- the ghost step reads `lu=` of the op line for an approve only -/
theorem ghostStep_lu_irrelevant (g : List (Nat × Nat × G)) (ok : Bool) (l : Line) (lu : Nat)
    (hk : l.kind ≠ .approve) : ghostStep g ok { l with lu := lu } = ghostStep g ok l := by
  obtain ⟨k, a, auth, amt, lu0⟩ := l
  cases k <;> first | exact absurd rfl hk | rfl | (cases ok <;> rcases a with _ | ⟨x, _ | ⟨y, r⟩⟩ <;> rfl)

/-- on the remainder and live_until — all the ghost relation looks at — the monitor's ghost step
for an accepted call is the ghost bookkeeping `ghostOp` of Lemmas/FungibleAuth -/
theorem toGhost_ghostStep (g : List (Nat × Nat × G)) (auth : List Nat) (op : Op) (x y : Nat) :
    (toGhost (ghostStep g true (lineOf auth op)) x y).rem = (ghostOp (toGhost g) op x y).rem ∧
    (toGhost (ghostStep g true (lineOf auth op)) x y).lu = (ghostOp (toGhost g) op x y).lu := by
  cases op with
  | mint t a => exact ⟨rfl, rfl⟩
  | transfer f t a => exact ⟨rfl, rfl⟩
  | burn f a => exact ⟨rfl, rfl⟩
  | advance k => exact ⟨rfl, rfl⟩
  | approve o sp a lu =>
    have e : ghostStep g true (lineOf auth (.approve o sp a lu)) = gSet g o sp ⟨a, lu⟩ := by
      simp [ghostStep, lineOf, kindOf, Op.addrs, amtOf, luOf]
    rw [e, toGhost_gSet]
    exact ⟨rfl, rfl⟩
  | transferFrom sp f t a =>
    have e : ghostStep g true (lineOf auth (.transferFrom sp f t a)) =
        gSet g f sp ⟨(gOf g f sp).rem - a, (gOf g f sp).lu⟩ := by
      simp [ghostStep, lineOf, kindOf, Op.addrs, amtOf]
    rw [e, toGhost_gSet]
    simp only [ghostOp]
    by_cases h : x = f ∧ y = sp
    · obtain ⟨rfl, rfl⟩ := h
      rw [upd2_same, upd2_same]
      refine ⟨?_, ?_⟩ <;> simp only [Ghost.rem, toGhost] <;> omega
    · rw [upd2_other _ _ _ _ _ _ h, upd2_other _ _ _ _ _ _ h]
      exact ⟨rfl, rfl⟩
  | burnFrom sp f a =>
    have e : ghostStep g true (lineOf auth (.burnFrom sp f a)) =
        gSet g f sp ⟨(gOf g f sp).rem - a, (gOf g f sp).lu⟩ := by
      simp [ghostStep, lineOf, kindOf, Op.addrs, amtOf]
    rw [e, toGhost_gSet]
    simp only [ghostOp]
    by_cases h : x = f ∧ y = sp
    · obtain ⟨rfl, rfl⟩ := h
      rw [upd2_same, upd2_same]
      refine ⟨?_, ?_⟩ <;> simp only [Ghost.rem, toGhost] <;> omega
    · rw [upd2_other _ _ _ _ _ _ h, upd2_other _ _ _ _ _ _ h]
      exact ⟨rfl, rfl⟩

/-- (2)+(3) over the whole universe: silent on a state related to the monitor's ghost -/
theorem checkGhost_none {n : Nat} {s : State} {o : Obs} {g : List (Nat × Nat × G)}
    (hi : GInv s (toGhost g)) (ha : o.allow = allowList n s) (hn : o.now = s.now) :
    checkGhost n o g = none := by
  unfold checkGhost
  apply firstSome_none
  intro p hp
  obtain ⟨h1, h2⟩ := mem_pairs hp
  have hrel := hi p.1 p.2
  apply vGhost_none
  · rw [← toGhost_rem]; exact hrel.1
  · rw [allowOf_allowList ha h1 h2, allowance_of_grel hrel, hn, toGhost_rem, toGhost_lu]

end Auth

end OZ.FungibleMon
