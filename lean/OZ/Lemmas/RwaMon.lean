import OZ.Lemmas.RwaModules
import OZ.Model.RwaMon
/-
Helper lemmas for the monitor-soundness theorem of C04 (OZ/Props/C04Mon.lean), part 1: list
algebra of the monitor's pieces — the printed lists `(List.range n).map g` against pointwise
updates of the model's maps, the list-level event replay, the grouped module logs against
`fanOut`, and the plumbing of `first` / `orFail`.
-/
namespace OZ.Rwa.Mon
open OZ.Host OZ.Fungible OZ.Rwa

/-! ### plumbing -/

theorem orFail_true {c : Bool} (msg : String) (h : c = true) : orFail c msg = none := by
  unfold orFail; rw [if_pos h]

theorem first_nil : first [] = none := rfl

theorem first_cons_none (l : List (Option String)) : first (none :: l) = first l := rfl

theorem beq_true_of_eq {α} [BEq α] [LawfulBEq α] {a b : α} (h : a = b) : (a == b) = true := by
  subst h; exact beq_self_eq_true a

/-! ### printed lists against maps -/

theorem getD_map_range {α} (n : Nat) (g : Nat → α) (d : α) {i : Nat} (h : i < n) :
    ((List.range n).map g).getD i d = g i := by
  simp [List.getD_eq_getElem?_getD, h]

theorem gi_map {n i : Nat} (g : Nat → Int) (h : i < n) : gi ((List.range n).map g) i = g i :=
  getD_map_range n g 0 h

theorem gb_map {n i : Nat} (g : Nat → Bool) (h : i < n) : gb ((List.range n).map g) i = g i :=
  getD_map_range n g false h

theorem addAt_map (n : Nat) (b : Nat → Int) (i : Nat) (d : Int) :
    addAt ((List.range n).map b) i d = (List.range n).map (upd b i (b i + d)) := by
  unfold addAt
  apply List.ext_getElem
  · simp
  · intro j h1 h2
    simp only [List.getElem_mapIdx, List.getElem_map, List.getElem_range, upd]
    split
    · rename_i h; subst h; rfl
    · rfl

theorem setAt_map {α : Type} (n : Nat) (g : Nat → α) (i : Nat) (v : α) :
    setAt ((List.range n).map g) i v = (List.range n).map (upd g i v) := by
  unfold setAt
  apply List.ext_getElem
  · simp
  · intro j h1 h2
    simp only [List.getElem_mapIdx, List.getElem_map, List.getElem_range, upd]

theorem map_range_congr {α} {n : Nat} {f g : Nat → α} (h : ∀ i, i < n → f i = g i) :
    (List.range n).map f = (List.range n).map g :=
  List.map_congr_left (fun i hi => h i (List.mem_range.mp hi))

/-- `addAt (addAt l f (-a)) t a` on the printed balances is the moved-balance map -/
def movedBal (b : Nat → Int) (f t : Nat) (a : Int) : Nat → Int :=
  upd (upd b f (b f + -a)) t (upd b f (b f + -a) t + a)

theorem move_map (n : Nat) (b : Nat → Int) (f t : Nat) (a : Int) :
    move ((List.range n).map b) f t a = (List.range n).map (movedBal b f t a) := by
  unfold move movedBal
  rw [addAt_map, addAt_map]

/-! ### list-level replay of events against the function-level replay of the model -/

theorem replayBase_map (n : Nat) (b : Nat → Int) (ev : Fungible.Event) :
    replayBase ((List.range n).map b) ev = (List.range n).map (Fungible.replayEvent b ev) := by
  cases ev with
  | mint t a => simp only [replayBase, Fungible.replayEvent, addAt_map]
  | burn f a => simp only [replayBase, Fungible.replayEvent, addAt_map, Int.sub_eq_add_neg]
  | transfer f t a => simp only [replayBase, Fungible.replayEvent, addAt_map, Int.sub_eq_add_neg]
  | approve _ _ _ _ => rfl

theorem foldl_replayBase_map (n : Nat) (evs : List Fungible.Event) (b : Nat → Int) :
    evs.foldl replayBase ((List.range n).map b) = (List.range n).map (evs.foldl Fungible.replayEvent b) := by
  induction evs generalizing b with
  | nil => rfl
  | cons e es ih => simp only [List.foldl_cons]; rw [replayBase_map, ih]

/-- the model's replay looks at the base events only -/
theorem foldl_replayEv_baseOf (evs : List Ev) (b : Nat → Int) :
    evs.foldl Rwa.replayEv b = (evs.filterMap baseOf).foldl Fungible.replayEvent b := by
  induction evs generalizing b with
  | nil => rfl
  | cons e es ih =>
    cases e <;> simp only [List.foldl_cons, List.filterMap_cons, baseOf, Rwa.replayEv] <;> exact ih _

/-! ### the per-module logs -/

theorem grouped_nil : grouped [] = [] := by
  unfold grouped
  simp

theorem filter_grouped (p : Nat × ModCall → Bool) (l : List (Nat × ModCall)) :
    (grouped l).filter p = grouped (l.filter p) := by
  unfold grouped
  rw [List.filter_flatMap]
  congr 1
  funext m
  rw [List.filter_filter, List.filter_filter]
  congr 1
  funext x
  exact Bool.and_comm _ _

theorem flatMap_ite_eq_filterMap (ms : List Nat) (c : ModCall) (L : List Nat) :
    L.flatMap (fun m => if m ∈ ms then [(m, c)] else []) =
      L.filterMap (fun m => if ms.contains m then some (m, c) else none) := by
  induction L with
  | nil => rfl
  | cons x xs ih =>
    simp only [List.contains_iff_mem] at ih ⊢
    by_cases hx : x ∈ ms
    · simp only [List.flatMap_cons, List.filterMap_cons, hx, if_true]; rw [← ih]; rfl
    · simp only [List.flatMap_cons, List.filterMap_cons, hx, if_false]; rw [← ih]; rfl

/-- one call to each module of a duplicate-free list, read module by module -/
theorem grouped_callsTo (ms : List Nat) (c : ModCall) (hn : ms.Nodup) :
    grouped (callsTo ms c) = fanOut ms c := by
  unfold grouped fanOut
  rw [← flatMap_ite_eq_filterMap]
  congr 1
  funext m
  exact callsTo_filter ms c m hn

theorem filter_callsTo_pos (ms : List Nat) (c : ModCall) (p : ModCall → Bool) (h : p c = true) :
    (callsTo ms c).filter (fun e => p e.2) = callsTo ms c := by
  unfold callsTo
  rw [List.filter_eq_self]
  intro e he
  rw [List.mem_map] at he
  obtain ⟨m, _, rfl⟩ := he
  exact h

theorem filter_callsTo_neg (ms : List Nat) (c : ModCall) (p : ModCall → Bool) (h : p c = false) :
    (callsTo ms c).filter (fun e => p e.2) = [] := by
  unfold callsTo
  rw [List.filter_eq_nil_iff]
  intro e he
  rw [List.mem_map] at he
  obtain ⟨m, _, rfl⟩ := he
  simp [h]

theorem fanOut_nil (c : ModCall) : fanOut [] c = [] := by
  unfold fanOut
  simp

/-! ### the hook index -/

theorem hookOf_hookIx (h : Hook) : hookOf (hookIx h) = h := by cases h <;> rfl

theorem hookIx_lt (h : Hook) : hookIx h < 5 := by cases h <;> decide

theorem hookOf_eq_iff {i : Nat} (hi : i < 5) (h : Hook) : hookOf i = h ↔ i = hookIx h := by
  constructor
  · intro e; subst e
    have : i = 0 ∨ i = 1 ∨ i = 2 ∨ i = 3 ∨ i = 4 := by omega
    rcases this with rfl | rfl | rfl | rfl | rfl <;> rfl
  · intro e; subst e; exact hookOf_hookIx h

end OZ.Rwa.Mon
